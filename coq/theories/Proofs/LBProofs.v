From Coq Require Import List ZArith NArith Bool Lia Permutation Arith.
From CqlProxy Require Import Lib.Val Lib.Util Model.LB.
Import ListNotations.

(** ** Membership follows the event history *)
Lemma remove_first_filter h l :
  NoDup l -> remove_first h l = filter (fun x => negb (N.eqb x h)) l.
Proof.
  induction l as [|x r IH]; intro Hnd; [reflexivity|].
  inversion Hnd as [|? ? Hnotin Hnd']; subst. simpl.
  destruct (N.eqb_spec x h) as [->|Hne]; simpl.
  - (* h removed here; it does not occur in r *)
    symmetry. clear IH Hnd. induction r as [|y r IHr]; [reflexivity|].
    simpl. destruct (N.eqb_spec y h) as [->|Hy]; simpl.
    + exfalso. apply Hnotin. left. reflexivity.
    + f_equal. apply IHr.
      * intro Hin. apply Hnotin. right. exact Hin.
      * inversion Hnd'; assumption.
  - f_equal. apply IH. exact Hnd'.
Qed.

Lemma NoDup_filter {A} (f : A -> bool) l : NoDup l -> NoDup (filter f l).
Proof.
  induction 1 as [|x l Hnotin Hnd IH]; simpl; [constructor|].
  destruct (f x); [constructor|]; auto.
  intro Hin. apply filter_In in Hin. tauto.
Qed.

Lemma NoDup_snoc {A} (l : list A) x : NoDup l -> ~ In x l -> NoDup (l ++ [x]).
Proof.
  induction l as [|y r IH]; intros Hnd Hnotin; simpl.
  - constructor; [intros []|constructor].
  - inversion Hnd as [|? ? Hy Hr]; subst. constructor.
    + intro Hin. apply in_app_or in Hin. destruct Hin as [Hin|[->|[]]].
      * contradiction.
      * apply Hnotin. left. reflexivity.
    + apply IH; [exact Hr|]. intro Hin. apply Hnotin. right. exact Hin.
Qed.

Lemma event_tracks s e :
  NoDup (lb_hosts s) -> wf_event (lb_hosts s) e ->
  lb_hosts (on_event s e) = spec_event (lb_hosts s) e /\ NoDup (lb_hosts (on_event s e)).
Proof.
  intros Hnd Hwf. destruct e as [hs|h|h]; simpl in *.
  - split; [reflexivity|exact Hwf].
  - split; [reflexivity|apply NoDup_snoc; assumption].
  - rewrite remove_first_filter by exact Hnd. split; [reflexivity|apply NoDup_filter; exact Hnd].
Qed.

Lemma membership_tracks_history es : forall s,
  NoDup (lb_hosts s) -> wf_history (lb_hosts s) es ->
  lb_hosts (fold_left on_event es s) = fold_left spec_event es (lb_hosts s) /\
  NoDup (lb_hosts (fold_left on_event es s)).
Proof.
  induction es as [|e r IH]; intros s Hnd Hwf; simpl.
  - split; [reflexivity|exact Hnd].
  - destruct Hwf as [Hwe Hwr].
    destruct (event_tracks s e Hnd Hwe) as [Heq Hnd'].
    rewrite <- Heq in Hwr. destruct (IH (on_event s e) Hnd' Hwr) as [H1 H2].
    split; [rewrite H1, Heq; reflexivity|exact H2].
Qed.

(** removed hosts are gone, added hosts are present (set view of the specification) *)
Lemma spec_remove_not_in m h : ~ In h (spec_event m (Remove h)).
Proof. simpl. intro Hin. apply filter_In in Hin. destruct Hin as [_ Hf]. rewrite N.eqb_refl in Hf. discriminate. Qed.

Lemma spec_add_in m h : In h (spec_event m (Add h)).
Proof. simpl. apply in_or_app. right. left. reflexivity. Qed.

(** ** A plan is a rotation of its snapshot *)
Lemma map_seq_shift (f : nat -> nat) a b len :
  (forall i, i < len -> f (a + i) = b + i) -> map f (seq a len) = seq b len.
Proof.
  revert a b. induction len as [|n IH]; intros a b H; [reflexivity|].
  simpl. f_equal.
  - specialize (H 0). rewrite !Nat.add_0_r in H. apply H. lia.
  - apply IH. intros i Hi. specialize (H (S i)). replace (S a + i) with (a + S i) by lia.
    replace (S b + i) with (b + S i) by lia. apply H. lia.
Qed.

Lemma mod_small_or_wrap (x l : N) :
  (x < 2 * l)%N -> (x mod l = if (x <? l)%N then x else x - l)%N.
Proof.
  intro H. destruct (N.ltb_spec x l) as [Hlt|Hge].
  - apply N.mod_small. exact Hlt.
  - assert (Hl : (l <> 0)%N) by lia.
    symmetry. apply (N.mod_unique x l 1 (x - l)); lia.
Qed.

Definition rot_pos (k n i : nat) : nat := if Nat.ltb (k + i) n then k + i else k + i - n.

Lemma plan_pos_rot p i :
  i < length (p_hosts p) ->
  plan_pos p i = rot_pos (N.to_nat (p_offset p mod N.of_nat (length (p_hosts p)))) (length (p_hosts p)) i.
Proof.
  intro Hi. unfold plan_pos, rot_pos.
  set (l := N.of_nat (length (p_hosts p))).
  assert (Hl : (l <> 0)%N) by (unfold l; lia).
  assert (Hk : (p_offset p mod l < l)%N) by (apply N.mod_lt; exact Hl).
  rewrite mod_small_or_wrap by (unfold l in *; lia).
  destruct (N.ltb_spec (p_offset p mod l + N.of_nat i) l) as [H1|H1];
  destruct (Nat.ltb_spec (N.to_nat (p_offset p mod l) + i) (length (p_hosts p))) as [H2|H2];
  unfold l in *; lia.
Qed.

Lemma rot_seq k n : k < n ->
  map (rot_pos k n) (seq 0 n) = seq k (n - k) ++ seq 0 k.
Proof.
  intro Hk. replace n with ((n - k) + k) at 2 by lia.
  rewrite seq_app, map_app. f_equal.
  - apply map_seq_shift. intros i Hi. unfold rot_pos. simpl.
    destruct (Nat.ltb_spec (k + i) n); lia.
  - simpl. apply map_seq_shift. intros i Hi. unfold rot_pos.
    destruct (Nat.ltb_spec (k + (n - k + i)) n); lia.
Qed.

Lemma nth_error_skipn' {A} (l : list A) a i : nth_error (skipn a l) i = nth_error l (a + i).
Proof.
  revert l. induction a as [|a IH]; intro l; [reflexivity|].
  destruct l as [|x r]; simpl; [destruct i; reflexivity|apply IH].
Qed.

Lemma skipn_S_tl {A} (l : list A) a : skipn (S a) l = tl (skipn a l).
Proof.
  revert l. induction a as [|a IH]; intro l; [destruct l; reflexivity|].
  destruct l as [|x r]; [reflexivity|].
  change (skipn (S (S a)) (x :: r)) with (skipn (S a) r).
  change (skipn (S a) (x :: r)) with (skipn a r). apply IH.
Qed.

Lemma map_nth_error_seq {A} (l : list A) a len :
  a + len <= length l -> map (nth_error l) (seq a len) = map Some (firstn len (skipn a l)).
Proof.
  revert a l. induction len as [|n IH]; intros a l H; [reflexivity|].
  simpl. destruct (skipn a l) as [|x r] eqn:E.
  - exfalso. assert (length (skipn a l) = length l - a) by apply skipn_length.
    rewrite E in H0. simpl in H0. lia.
  - simpl. f_equal.
    + assert (Hx : nth_error l a = nth_error (skipn a l) 0).
      { rewrite nth_error_skipn'. f_equal. lia. }
      rewrite Hx, E. reflexivity.
    + rewrite IH by lia. f_equal. f_equal.
      rewrite skipn_S_tl, E. reflexivity.
Qed.

Definition plan_start (p : plan) : nat := N.to_nat (p_offset p mod N.of_nat (length (p_hosts p))).

Lemma plan_start_lt p : p_hosts p <> [] -> plan_start p < length (p_hosts p).
Proof.
  intro H. unfold plan_start.
  assert (length (p_hosts p) <> 0) by (destruct (p_hosts p); simpl; congruence).
  assert ((p_offset p mod N.of_nat (length (p_hosts p)) < N.of_nat (length (p_hosts p)))%N)
    by (apply N.mod_lt; lia).
  lia.
Qed.

Theorem plan_is_rotation p :
  p_hosts p <> [] ->
  plan_all p = map Some (skipn (plan_start p) (p_hosts p) ++ firstn (plan_start p) (p_hosts p)).
Proof.
  intro Hne. pose proof (plan_start_lt p Hne) as Hk. unfold plan_all.
  rewrite (map_ext_in _ (fun i => nth_error (p_hosts p) (rot_pos (plan_start p) (length (p_hosts p)) i))).
  2:{ intros i Hi. apply in_seq in Hi. rewrite plan_pos_rot by lia. reflexivity. }
  rewrite <- (map_map (rot_pos (plan_start p) (length (p_hosts p))) (nth_error (p_hosts p))).
  rewrite rot_seq by exact Hk. rewrite map_app, !map_nth_error_seq by lia.
  rewrite map_app. simpl skipn.
  rewrite (firstn_all2 (skipn (plan_start p) (p_hosts p))) by (rewrite skipn_length; lia).
  reflexivity.
Qed.

Lemma plan_all_empty p : p_hosts p = [] -> plan_all p = [].
Proof. intro H. unfold plan_all. rewrite H. reflexivity. Qed.

(** yields, as a list of hosts, are a permutation of the snapshot *)
Theorem plan_is_permutation p :
  exists ys, plan_all p = map Some ys /\ Permutation ys (p_hosts p).
Proof.
  destruct (p_hosts p) as [|x r] eqn:E.
  - exists []. rewrite plan_all_empty by exact E. split; [reflexivity|constructor].
  - assert (Hne : p_hosts p <> []) by (rewrite E; discriminate).
    exists (skipn (plan_start p) (p_hosts p) ++ firstn (plan_start p) (p_hosts p)).
    split; [apply plan_is_rotation; exact Hne|].
    rewrite <- E. rewrite Permutation_app_comm. rewrite firstn_skipn. apply Permutation_refl.
Qed.

Definition opt_host_dec : forall a b : option host, {a = b} + {a <> b}.
Proof. decide equality. apply N.eq_dec. Defined.

Corollary plan_each_host_once p h :
  NoDup (p_hosts p) -> In h (p_hosts p) -> count_occ opt_host_dec (plan_all p) (Some h) = 1.
Proof.
  intros Hnd Hin. destruct (plan_is_permutation p) as [ys [Heq Hperm]].
  rewrite Heq.
  assert (Hc : count_occ opt_host_dec (map Some ys) (Some h) = count_occ N.eq_dec ys h).
  { clear. induction ys as [|y r IH]; [reflexivity|]. simpl.
    destruct (opt_host_dec (Some y) (Some h)) as [e|n], (N.eq_dec y h) as [e'|n']; try congruence;
    rewrite IH; reflexivity. }
  rewrite Hc. apply NoDup_count_occ'.
  - eapply Permutation_NoDup; [apply Permutation_sym; exact Hperm|exact Hnd].
  - eapply Permutation_in; [apply Permutation_sym; exact Hperm|exact Hin].
Qed.

Corollary plan_no_stranger p h : In (Some h) (plan_all p) -> In h (p_hosts p).
Proof.
  intro Hin. destruct (plan_is_permutation p) as [ys [Heq Hperm]]. rewrite Heq in Hin.
  apply in_map_iff in Hin. destruct Hin as [y [Hy Hin]]. inversion Hy; subst.
  eapply Permutation_in; eauto.
Qed.

(** plan_next walks plan_all and then reports exhaustion forever *)
Lemma plan_next_spec p :
  fst (plan_next p) = (if Nat.ltb (p_index p) (length (p_hosts p))
                       then nth (p_index p) (plan_all p) None else None) /\
  p_hosts (snd (plan_next p)) = p_hosts p /\ p_offset (snd (plan_next p)) = p_offset p /\
  p_index (snd (plan_next p)) = (if Nat.ltb (p_index p) (length (p_hosts p)) then S (p_index p) else p_index p).
Proof.
  unfold plan_next. destruct (Nat.ltb_spec (p_index p) (length (p_hosts p))) as [H|H]; simpl.
  - repeat split. unfold plan_all.
    rewrite (nth_indep _ None (nth_error (p_hosts p) (plan_pos p 0))) by (rewrite map_length, seq_length; exact H).
    rewrite (map_nth (fun i => nth_error (p_hosts p) (plan_pos p i)) (seq 0 (length (p_hosts p))) 0 (p_index p)).
    rewrite seq_nth by exact H. reflexivity.
  - repeat split.
Qed.

(** ** Rotation of the first choice *)
Lemma consecutive_starts s :
  lb_hosts s <> [] -> (lb_index s + 1 < counter_mod)%N ->
  let '(p1, s1) := new_plan s in
  let '(p2, _) := new_plan s1 in
  plan_start p2 = (plan_start p1 + 1) mod length (lb_hosts s).
Proof.
  intros Hne Hw. simpl. unfold plan_start. simpl.
  rewrite (N.mod_small (lb_index s + 1) counter_mod) by exact Hw.
  set (l := N.of_nat (length (lb_hosts s))).
  assert (Hl : (l <> 0)%N) by (unfold l; destruct (lb_hosts s); simpl in *; [congruence|lia]).
  rewrite <- (N.add_mod_idemp_l (lb_index s) 1 l) by exact Hl.
  assert (Hk : (lb_index s mod l < l)%N) by (apply N.mod_lt; exact Hl).
  rewrite mod_small_or_wrap by lia.
  assert (Hlen : length (lb_hosts s) <> 0) by (unfold l in Hl; lia).
  destruct (N.ltb_spec (lb_index s mod l + 1) l) as [H1|H1].
  - rewrite Nat.mod_small; unfold l in *; lia.
  - assert (E : N.to_nat (lb_index s mod l) + 1 = length (lb_hosts s)) by (unfold l in *; lia).
    rewrite E, Nat.mod_same by exact Hlen. unfold l in *; lia.
Qed.

(** ** First-choice balance over any run of plans with stable membership *)
Fixpoint plans (m : nat) (s : lb) : list plan :=
  match m with
  | O => []
  | S m' => let '(p, s') := new_plan s in p :: plans m' s'
  end.

Definition starts (k n m : nat) : list nat := map (fun i => (k + i) mod n) (seq 0 m).

Lemma nat_mod_small_or_wrap x n : n <> 0 -> x < 2 * n -> x mod n = if Nat.ltb x n then x else x - n.
Proof.
  intros Hn H. destruct (Nat.ltb_spec x n) as [Hlt|Hge].
  - apply Nat.mod_small. exact Hlt.
  - symmetry. apply (Nat.mod_unique x n 1 (x - n)); lia.
Qed.

Lemma starts_window k n : n <> 0 ->
  starts k n n = seq (k mod n) (n - k mod n) ++ seq 0 (k mod n).
Proof.
  intro Hn. unfold starts.
  assert (Hk : k mod n < n) by (apply Nat.mod_upper_bound; exact Hn).
  rewrite <- (rot_seq (k mod n) n Hk). apply map_ext_in. intros i Hi. apply in_seq in Hi.
  rewrite Nat.add_mod by exact Hn. rewrite (Nat.mod_small i n) by lia.
  rewrite nat_mod_small_or_wrap by lia. unfold rot_pos. reflexivity.
Qed.

Lemma map_seq_offset (f : nat -> nat) a m : map f (seq a m) = map (fun i => f (a + i)) (seq 0 m).
Proof.
  revert f a. induction m as [|m IH]; intros f a; [reflexivity|].
  simpl. rewrite Nat.add_0_r. f_equal. rewrite (IH f (S a)).
  rewrite (IH (fun i => f (a + i)) 1).
  apply map_ext. intro i. f_equal. lia.
Qed.

Lemma starts_period k n m : n <> 0 -> starts k n (n + m) = starts k n n ++ starts k n m.
Proof.
  intro Hn. unfold starts. rewrite seq_app, map_app. f_equal. simpl.
  rewrite map_seq_offset. apply map_ext. intro i.
  replace (k + (n + i)) with (k + i + 1 * n) by lia. apply Nat.mod_add. exact Hn.
Qed.

Lemma NoDup_window k n : n <> 0 -> NoDup (starts k n n).
Proof.
  intro Hn. rewrite starts_window by exact Hn.
  assert (Hk : k mod n < n) by (apply Nat.mod_upper_bound; exact Hn).
  eapply Permutation_NoDup; [|apply (seq_NoDup n 0)].
  replace n with (k mod n + (n - k mod n)) at 1 by lia. rewrite seq_app. simpl.
  apply Permutation_app_comm.
Qed.

Lemma NoDup_app_l {A} (l1 l2 : list A) : NoDup (l1 ++ l2) -> NoDup l1.
Proof.
  induction l1 as [|x r IH]; intro H; [constructor|].
  simpl in H. inversion H as [|? ? Hx Hr]; subst. constructor.
  - intro Hin. apply Hx. apply in_or_app. left. exact Hin.
  - apply IH. exact Hr.
Qed.

Lemma in_window k n j : n <> 0 -> j < n -> In j (starts k n n).
Proof.
  intros Hn Hj. rewrite starts_window by exact Hn.
  assert (Hk : k mod n < n) by (apply Nat.mod_upper_bound; exact Hn).
  apply in_or_app. destruct (Nat.lt_ge_cases j (k mod n)).
  - right. apply in_seq. lia.
  - left. apply in_seq. lia.
Qed.

Lemma count_window k n j : n <> 0 -> j < n -> count_occ Nat.eq_dec (starts k n n) j = 1.
Proof.
  intros Hn Hj. apply NoDup_count_occ'; [apply NoDup_window; exact Hn|apply in_window; assumption].
Qed.

Lemma starts_prefix k n r : r <= n -> starts k n n = starts k n r ++ map (fun i => (k + i) mod n) (seq r (n - r)).
Proof.
  intro H. unfold starts. replace (seq 0 n) with (seq 0 (r + (n - r))) by (f_equal; lia).
  rewrite seq_app, map_app. reflexivity.
Qed.

Lemma count_prefix_le1 k n r j : n <> 0 -> r <= n -> count_occ Nat.eq_dec (starts k n r) j <= 1.
Proof.
  intros Hn Hr.
  assert (Hnd : NoDup (starts k n r)).
  { pose proof (NoDup_window k n Hn) as H. rewrite (starts_prefix k n r Hr) in H.
    apply NoDup_app_l in H. exact H. }
  rewrite (NoDup_count_occ Nat.eq_dec) in Hnd. apply Hnd.
Qed.

Lemma count_runs k n j q r : n <> 0 -> j < n ->
  count_occ Nat.eq_dec (starts k n (q * n + r)) j = q + count_occ Nat.eq_dec (starts k n r) j.
Proof.
  intros Hn Hj. induction q as [|q IH]; [reflexivity|].
  replace (S q * n + r) with (n + (q * n + r)) by lia.
  rewrite starts_period by exact Hn. rewrite count_occ_app, count_window, IH by assumption. lia.
Qed.

Lemma counts_balanced k n m j1 j2 : n <> 0 -> j1 < n -> j2 < n ->
  count_occ Nat.eq_dec (starts k n m) j1 <= count_occ Nat.eq_dec (starts k n m) j2 + 1.
Proof.
  intros Hn H1 H2. rewrite (Nat.div_mod m n Hn). rewrite (Nat.mul_comm n (m / n)).
  rewrite !count_runs by assumption.
  assert (Hr : m mod n <= n) by (pose proof (Nat.mod_upper_bound m n Hn); lia).
  pose proof (count_prefix_le1 k n (m mod n) j1 Hn Hr). lia.
Qed.

(** the starts of [m] consecutive plans from state [s] *)
Lemma plans_starts m : forall s,
  lb_hosts s <> [] -> (lb_index s + N.of_nat m <= counter_mod)%N ->
  map plan_start (plans m s) = starts (N.to_nat (lb_index s mod N.of_nat (length (lb_hosts s)))) (length (lb_hosts s)) m.
Proof.
  induction m as [|m IH]; intros s Hne Hw; [reflexivity|].
  assert (Hn : length (lb_hosts s) <> 0) by (destruct (lb_hosts s); simpl; congruence).
  set (n := length (lb_hosts s)) in *. set (l := N.of_nat n).
  assert (Hl : (l <> 0)%N) by (unfold l; lia).
  pose proof (N.mod_lt (lb_index s) l Hl) as Hk.
  simpl plans. cbn [map]. unfold starts. simpl seq. cbn [map]. f_equal.
  - unfold plan_start. simpl. fold n. fold l. rewrite Nat.add_0_r.
    rewrite Nat.mod_small; [reflexivity|]. unfold l in *. lia.
  - destruct m as [|m]; [reflexivity|].
    assert (Hlt : (lb_index s + 1 < counter_mod)%N) by lia.
    rewrite IH; simpl lb_hosts; simpl lb_index; [|exact Hne|].
    2:{ rewrite N.mod_small by exact Hlt. lia. }
    fold n. fold l. unfold starts.
    rewrite (map_seq_offset _ 1 (S m)). apply map_ext. intro i.
    rewrite (N.mod_small (lb_index s + 1) counter_mod) by exact Hlt.
    rewrite <- (N.add_mod_idemp_l (lb_index s) 1 l) by exact Hl.
    rewrite mod_small_or_wrap by lia.
    destruct (N.ltb_spec (lb_index s mod l + 1) l) as [H1|H1].
    + f_equal. unfold l in *. lia.
    + assert (E : N.to_nat (lb_index s mod l) + 1 = n) by (unfold l in *; lia).
      replace (N.to_nat (lb_index s mod l + 1 - l)) with 0 by (unfold l in *; lia).
      replace (N.to_nat (lb_index s mod l) + (1 + i)) with (i + 1 * n) by lia.
      rewrite Nat.mod_add by exact Hn. reflexivity.
Qed.

Definition first_choice_count (j : nat) (ps : list plan) : nat :=
  count_occ Nat.eq_dec (map plan_start ps) j.

Theorem first_choice_balanced s m j1 j2 :
  lb_hosts s <> [] -> (lb_index s + N.of_nat m <= counter_mod)%N ->
  j1 < length (lb_hosts s) -> j2 < length (lb_hosts s) ->
  first_choice_count j1 (plans m s) <= first_choice_count j2 (plans m s) + 1.
Proof.
  intros Hne Hw H1 H2. unfold first_choice_count. rewrite plans_starts by assumption.
  apply counts_balanced; [destruct (lb_hosts s); simpl in *; [congruence|lia]|assumption|assumption].
Qed.

(** the plans of a run all snapshot the same membership *)
Lemma plans_hosts m : forall s p, In p (plans m s) -> p_hosts p = lb_hosts s.
Proof.
  induction m as [|m IH]; intros s p Hin; [destruct Hin|].
  simpl in Hin. destruct Hin as [<-|Hin]; [reflexivity|]. apply IH in Hin. exact Hin.
Qed.
