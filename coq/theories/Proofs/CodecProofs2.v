(** Stronger theorems about Model/Codec.v (property C11), for EVERY accepted body rather than
    only reference layouts:
    - what each decoder consumes is a prefix, the remainder is kept verbatim, the decoded
      leading fields depend only on that prefix, and every strict prefix of the consumed part is
      rejected with an error (truncation);
    - re-encoding identity [encode (decode b) = b]: true for EXECUTE, REFUTED for QUERY and BATCH
      (a [long string] with a negative declared length decodes to "" and is written back with
      length 0); the exact side condition is given and proved necessary and sufficient;
    - re-encoding is semantically stable: what was decoded re-encodes to a body that decodes to
      the same message (also with any other 16-bit consistency). *)
From Coq Require Import List ZArith NArith Bool Lia ZifyN ZifyNat ZifyBool.
From CqlProxy Require Import Lib.Val Lib.Util Lib.Wire Proofs.WireProofs Model.Codec Proofs.CodecProofs.
Import ListNotations.
Local Open Scope N_scope.
Ltac Zify.zify_post_hook ::= Z.div_mod_to_equations.

(** ** list helpers *)
Lemma app_split_cases {A} (p1 p2 p' s : list A) :
  p1 ++ p2 = p' ++ s ->
  (exists s1, s1 <> [] /\ p1 = p' ++ s1 /\ s = s1 ++ p2) \/ (exists q, p' = p1 ++ q /\ p2 = q ++ s).
Proof.
  revert p'. induction p1 as [|a p1 IH]; intros p' H.
  - right. exists p'. split; [reflexivity|exact H].
  - destruct p' as [|a' p''].
    + left. exists (a :: p1). split; [discriminate|]. split; [reflexivity|]. simpl in H. symmetry. exact H.
    + simpl in H. inversion H as [[Ha Ht]]. destruct (IH p'' Ht) as [(s1 & Hne & Hp & Hs)|(q & Hp & Hq)].
      * left. exists s1. subst. auto.
      * right. exists q. subst. auto.
Qed.

Lemma app_eq_len {A} (a a' b b' : list A) :
  length a = length a' -> a ++ b = a' ++ b' -> a = a' /\ b = b'.
Proof.
  revert a'. induction a as [|x a IH]; intros [|x' a'] Hl H; simpl in *; try discriminate.
  - auto.
  - inversion H as [[Hx Ht]]. injection Hl as Hl. destruct (IH a' Hl Ht) as [-> ->]. auto.
Qed.

(** [sprefix p' p]: [p'] is a STRICT prefix of [p] *)
Definition sprefix (p' p : bytes) : Prop := exists s, s <> [] /\ p = p' ++ s.

Lemma sprefix_app p1 p2 p' :
  sprefix p' (p1 ++ p2) -> sprefix p' p1 \/ exists q, p' = p1 ++ q /\ sprefix q p2.
Proof.
  intros (s & Hne & H). destruct (app_split_cases _ _ _ _ H) as [(s1 & Hn1 & Hp & _)|(q & Hp & Hq)].
  - left. exists s1. auto.
  - right. exists q. split; [exact Hp|]. exists s. auto.
Qed.

Lemma sprefix_length p' p : sprefix p' p -> (length p' < length p)%nat.
Proof.
  intros (s & Hne & ->). rewrite app_length. destruct s; [congruence|simpl; lia].
Qed.

Lemma sprefix_firstn k (p : bytes) : (k < length p)%nat -> sprefix (firstn k p) p.
Proof.
  intro H. exists (skipn k p). split; [|symmetry; apply firstn_skipn].
  intro E. pose proof (skipn_length k p) as Hl. rewrite E in Hl. simpl in Hl. lia.
Qed.

Lemma sprefix_nil_l (p : bytes) : p <> [] -> sprefix [] p.
Proof. intro H. exists p. auto. Qed.

Lemma wf_app a b : wf_bytes (a ++ b) <-> wf_bytes a /\ wf_bytes b.
Proof. unfold wf_bytes. apply Forall_app. Qed.

(** ** readers: what they consume
    [consumes rd x p]: on any input starting with [p] the reader returns [x] and leaves exactly
    what follows [p]; on any strict prefix of [p] it fails. *)
Definition consumes {A} (rd : bytes -> option (A * bytes)) (x : A) (p : bytes) : Prop :=
  (forall t, rd (p ++ t) = Some (x, t)) /\ (forall p', sprefix p' p -> rd p' = None).

Lemma read_byte_consumes b x r :
  read_byte b = Some (x, r) -> b = [x] ++ r /\ consumes read_byte x [x].
Proof.
  destruct b as [|x0 b']; [discriminate|]. intro H. inversion H; subst. split; [reflexivity|].
  split; [reflexivity|]. intros p' Hp. apply sprefix_length in Hp. destruct p'; [reflexivity|simpl in Hp; lia].
Qed.

Lemma read_short_consumes b n r :
  read_short b = Some (n, r) ->
  exists x y, b = [x; y] ++ r /\ n = x * 256 + y /\ consumes read_short n [x; y].
Proof.
  destruct b as [|x [|y b']]; try discriminate. intro H. inversion H; subst.
  exists x, y. split; [reflexivity|]. split; [reflexivity|]. split; [reflexivity|].
  intros p' Hp. apply sprefix_length in Hp. destruct p' as [|a [|c p']]; try reflexivity. simpl in Hp. lia.
Qed.

Lemma read_int_consumes b n r :
  read_int b = Some (n, r) -> exists p, b = p ++ r /\ length p = 4%nat /\ consumes read_int n p.
Proof.
  unfold read_int, read_u32. destruct b as [|x [|y [|z [|w b']]]]; try discriminate.
  intro H. inversion H as [[Hn Hr]]. exists [x; y; z; w]. split; [reflexivity|]. split; [reflexivity|].
  split; [reflexivity|].
  intros p' Hp. apply sprefix_length in Hp.
  destruct p' as [|a [|c [|d [|e p']]]]; try reflexivity. simpl in Hp. lia.
Qed.

Lemma read_int_range b n r :
  wf_bytes b -> read_int b = Some (n, r) -> (-2147483648 <= n < 2147483648)%Z.
Proof.
  unfold read_int, read_u32. destruct b as [|x [|y [|z [|w b']]]]; try discriminate.
  intros Hwf H. inversion H as [[Hn Hr]]. clear H Hn Hr.
  inversion Hwf as [|? ? Hx H1]; subst. inversion H1 as [|? ? Hy H2]; subst.
  inversion H2 as [|? ? Hz H3]; subst. inversion H3 as [|? ? Hw H4]; subst.
  destruct (N.ltb_spec (((x * 256 + y) * 256 + z) * 256 + w) 2147483648); lia.
Qed.

Lemma enc_u32_bytes x y z w :
  x < 256 -> y < 256 -> z < 256 -> w < 256 ->
  enc_u32 (((x * 256 + y) * 256 + z) * 256 + w) = [x; y; z; w].
Proof. intros Hx Hy Hz Hw. unfold enc_u32. repeat f_equal; lia. Qed.

(** encoding what [read_int] returned gives back the four bytes read *)
Lemma read_int_enc_back p n r : wf_bytes p -> length p = 4%nat -> read_int (p ++ r) = Some (n, r) -> enc_int n = p.
Proof.
  intros Hwf Hl H. destruct p as [|x [|y [|z [|w [|? ?]]]]]; try discriminate. clear Hl.
  unfold read_int, read_u32 in H. simpl in H. inversion H as [Hn]. clear H Hn.
  inversion Hwf as [|? ? Hx H1]; subst. inversion H1 as [|? ? Hy H2]; subst.
  inversion H2 as [|? ? Hz H3]; subst. inversion H3 as [|? ? Hw H4]; subst.
  unfold enc_int. set (u := ((x * 256 + y) * 256 + z) * 256 + w).
  assert (Hu : u < 4294967296) by (unfold u; lia).
  destruct (u <? 2147483648) eqn:E.
  - replace (Z.to_N (Z.of_N u mod 4294967296)) with u by lia. apply enc_u32_bytes; assumption.
  - replace (Z.to_N ((Z.of_N u - 4294967296) mod 4294967296)) with u by lia. apply enc_u32_bytes; assumption.
Qed.

Lemma enc_short_bytes2 x y : x < 256 -> y < 256 -> enc_short (x * 256 + y) = [x; y].
Proof. intros. unfold enc_short. repeat f_equal; lia. Qed.

Lemma get_z_consumes n b c r :
  get_z n b = Some (c, r) -> b = c ++ r /\ length c = Z.to_nat n /\ consumes (get_z n) c c.
Proof.
  intro H. unfold get_z in H. destruct (Z.ltb_spec (Z.of_nat (length b)) n) as [Hlt|Hge]; [discriminate|].
  apply get_n_split in H. destruct H as [Hb Hl]. split; [exact Hb|]. split; [exact Hl|]. split.
  - intro t. unfold get_z. rewrite app_length.
    destruct (Z.ltb_spec (Z.of_nat (length c + length t)) n) as [Hlt|_]; [lia|].
    rewrite <- Hl. apply get_n_app.
  - intros p' Hp. apply sprefix_length in Hp. unfold get_z.
    destruct (Z.ltb_spec (Z.of_nat (length p')) n) as [_|Hge']; [reflexivity|lia].
Qed.

(** *** [long string] *)
(** the declared length of the [long string] at the head of [b] is negative *)
Definition lstr_neg (b : bytes) : bool :=
  match read_int b with Some (n, _) => (n <? 0)%Z | None => false end.

Lemma lstr_neg_app p t r : length p = 4%nat -> lstr_neg (p ++ t) = lstr_neg (p ++ r).
Proof.
  intro Hl. destruct p as [|x [|y [|z [|w [|? ?]]]]]; try discriminate. reflexivity.
Qed.

Lemma read_long_string_consumes b s r :
  read_long_string b = Some (s, r) ->
  exists p4, b = (p4 ++ s) ++ r /\ length p4 = 4%nat /\ consumes read_long_string s (p4 ++ s) /\
    (lstr_neg b = true -> s = []) /\
    (wf_bytes b -> len31 s /\
       enc_long_string s = (if lstr_neg b then [0; 0; 0; 0] else p4) ++ s /\
       (lstr_neg b = true -> p4 <> [0; 0; 0; 0])).
Proof.
  unfold read_long_string, lstr_neg. destruct (read_int b) as [[n r0]|] eqn:Ei; [|discriminate].
  destruct (read_int_consumes _ _ _ Ei) as (p4 & Hb & Hl4 & Hc1 & Hc2).
  destruct (Z.leb_spec n 0) as [Hle|Hgt].
  - intro H. inversion H; subst s r0. clear H. exists p4. rewrite app_nil_r.
    split; [exact Hb|]. split; [exact Hl4|]. split; [split|].
    + intro t. unfold read_long_string. rewrite Hc1. destruct (Z.leb_spec n 0); [reflexivity|lia].
    + intros p' Hp. unfold read_long_string. rewrite (Hc2 _ Hp). reflexivity.
    + split; [reflexivity|]. intro Hwf. split; [unfold len31; simpl; lia|]. rewrite app_nil_r.
      subst b. apply wf_app in Hwf. destruct Hwf as [Hw4 _].
      pose proof (read_int_enc_back p4 n r Hw4 Hl4 Ei) as He.
      destruct (Z.ltb_spec n 0) as [Hneg|Hnn].
      * split; [reflexivity|]. intros _ E. rewrite E in Ei. vm_compute in Ei. inversion Ei; subst. lia.
      * assert (n = 0%Z) by lia. subst n. split; [exact He|discriminate].
  - intro H. destruct (get_z_consumes _ _ _ _ H) as (Hr0 & Hls & Hg1 & Hg2).
    exists p4. split; [subst b r0; rewrite app_assoc; reflexivity|]. split; [exact Hl4|]. split; [split|].
    + intro t. unfold read_long_string. rewrite <- app_assoc, Hc1.
      destruct (Z.leb_spec n 0); [lia|]. apply Hg1.
    + intros p' Hp. unfold read_long_string. destruct (sprefix_app _ _ _ Hp) as [Hp1|(q & -> & Hq)].
      * rewrite (Hc2 _ Hp1). reflexivity.
      * rewrite Hc1. destruct (Z.leb_spec n 0); [lia|]. apply Hg2. exact Hq.
    + destruct (Z.ltb_spec n 0) as [Hneg|Hnn]; [lia|]. split; [discriminate|].
      intro Hwf. pose proof (read_int_range _ _ _ Hwf Ei) as Hrng.
      split; [unfold len31; lia|]. split; [|discriminate].
      unfold enc_long_string. f_equal.
      subst b. apply wf_app in Hwf. destruct Hwf as [Hw4 _].
      replace (Z.of_nat (length s)) with n by lia.
      exact (read_int_enc_back p4 n r0 Hw4 Hl4 Ei).
Qed.

(** *** [short bytes] *)
Lemma read_short_bytes_consumes b s r :
  read_short_bytes b = Some (s, r) ->
  exists p2, b = (p2 ++ s) ++ r /\ length p2 = 2%nat /\ consumes read_short_bytes s (p2 ++ s) /\
    (wf_bytes b -> len16 s /\ enc_short_bytes s = p2 ++ s).
Proof.
  unfold read_short_bytes. destruct (read_short b) as [[n r0]|] eqn:Es; [|discriminate].
  destruct (read_short_consumes _ _ _ Es) as (x & y & Hb & Hn & Hc1 & Hc2).
  intro H. destruct (get_z_consumes _ _ _ _ H) as (Hr0 & Hls & Hg1 & Hg2).
  exists [x; y]. split; [subst b r0; rewrite app_assoc; reflexivity|]. split; [reflexivity|]. split; [split|].
  - intro t. unfold read_short_bytes. rewrite <- app_assoc, Hc1. apply Hg1.
  - intros p' Hp. unfold read_short_bytes. destruct (sprefix_app _ _ _ Hp) as [Hp1|(q & -> & Hq)].
    + rewrite (Hc2 _ Hp1). reflexivity.
    + rewrite Hc1. apply Hg2. exact Hq.
  - intro Hwf. subst b. apply wf_app in Hwf. destruct Hwf as [Hw2 _].
    inversion Hw2 as [|? ? Hx H1]; subst. inversion H1 as [|? ? Hy H2]; subst.
    assert (Hlen : N.of_nat (length s) = x * 256 + y) by lia.
    split; [unfold len16; lia|]. unfold enc_short_bytes. rewrite Hlen.
    rewrite enc_short_bytes2 by assumption. reflexivity.
Qed.

Lemma wf_bytesb_true b : wf_bytesb b = true -> wf_bytes b.
Proof.
  unfold wf_bytesb, wf_bytes. rewrite forallb_forall, Forall_forall.
  intros H x Hx. apply N.ltb_lt. apply H. exact Hx.
Qed.

Lemma skipn_app_exact {A} (a b : list A) n : length a = n -> skipn n (a ++ b) = b.
Proof. intro H. subst n. rewrite skipn_app, Nat.sub_diag, skipn_all. reflexivity. Qed.

(** ** QUERY *)

(** The decoder consumes a prefix [p] of known length and keeps the remainder verbatim; the
    leading fields depend on [p] only (whatever follows [p] becomes the parameters); every
    strict prefix of [p] is rejected with an error. *)
Theorem decode_query_prefix b m :
  decode_query b = Ok m ->
  exists p, b = p ++ q_params m /\ length p = (4 + length (q_query m) + 2)%nat /\
    (forall t, decode_query (p ++ t) = Ok {| q_query := q_query m; q_cl := q_cl m; q_params := t |}) /\
    (forall p', sprefix p' p -> exists e, decode_query p' = Err e).
Proof.
  unfold decode_query. destruct (read_long_string b) as [[q r]|] eqn:E1; [|discriminate].
  destruct (read_short r) as [[cl r']|] eqn:E2; [|discriminate].
  intro H. inversion H; subst m; clear H. cbn [q_query q_cl q_params].
  destruct (read_long_string_consumes _ _ _ E1) as (p4 & Hb & Hl4 & [Hc1 Hc2] & _).
  destruct (read_short_consumes _ _ _ E2) as (x & y & Hr & Hn & Hs1 & Hs2).
  exists ((p4 ++ q) ++ [x; y]). split; [subst b r; rewrite <- !app_assoc; reflexivity|].
  split; [rewrite !app_length, Hl4; simpl; lia|]. split.
  - intro t. rewrite <- app_assoc, Hc1, Hs1. reflexivity.
  - intros p' Hp. destruct (sprefix_app _ _ _ Hp) as [Hp1|(s & -> & Hs)].
    + rewrite (Hc2 _ Hp1). eauto.
    + rewrite Hc1, (Hs2 _ Hs). eauto.
Qed.

Example decode_query_prefix_ex :
  decode_query [0;0;0;2;65;66;0;6;9;9] = Ok {| q_query := [65;66]; q_cl := 6; q_params := [9;9] |} /\
  decode_query ([0;0;0;2;65;66;0;6] ++ [7]) = Ok {| q_query := [65;66]; q_cl := 6; q_params := [7] |} /\
  decode_query [0;0;0;2;65;66;0] = Err (str "consistency").
Proof. vm_compute. auto. Qed.

(** the decoded fields of a well-formed byte list are in range *)
Lemma decode_query_fields_wf b m :
  wf_bytes b -> decode_query b = Ok m -> len31 (q_query m) /\ q_cl m < 65536.
Proof.
  intros Hwf. unfold decode_query. destruct (read_long_string b) as [[q r]|] eqn:E1; [|discriminate].
  destruct (read_short r) as [[cl r']|] eqn:E2; [|discriminate].
  intro H. inversion H; subst m; clear H. cbn [q_query q_cl].
  destruct (read_long_string_consumes _ _ _ E1) as (p4 & Hb & Hl4 & _ & _ & Hw).
  destruct (Hw Hwf) as (Hlen & _). split; [exact Hlen|].
  destruct (read_short_consumes _ _ _ E2) as (x & y & Hr & Hn & _).
  subst b r. apply wf_app in Hwf. destruct Hwf as [_ Hwr]. apply wf_app in Hwr. destruct Hwr as [Hxy _].
  inversion Hxy as [|? ? Hx H1]; subst. inversion H1 as [|? ? Hy H2]; subst. lia.
Qed.

(** Re-encoding, general form: the output is the input with the four length bytes of the query
    string replaced by 0 when the declared length was negative, and the input itself otherwise. *)
Theorem encode_decode_query_gen b m :
  wf_bytes b -> decode_query b = Ok m ->
  encode_query m = (if lstr_neg b then [0; 0; 0; 0] else firstn 4 b) ++ skipn 4 b.
Proof.
  intros Hwf. unfold decode_query. destruct (read_long_string b) as [[q r]|] eqn:E1; [|discriminate].
  destruct (read_short r) as [[cl r']|] eqn:E2; [|discriminate].
  intro H. inversion H; subst m; clear H. unfold encode_query. cbn [q_query q_cl q_params].
  destruct (read_long_string_consumes _ _ _ E1) as (p4 & Hb & Hl4 & _ & _ & Hw).
  destruct (Hw Hwf) as (_ & Henc & _). rewrite Henc.
  destruct (read_short_consumes _ _ _ E2) as (x & y & Hr & Hn & _).
  assert (Hxy : x < 256 /\ y < 256).
  { subst b r. apply wf_app in Hwf. destruct Hwf as [_ Hwr]. apply wf_app in Hwr. destruct Hwr as [Hxy _].
    inversion Hxy as [|? ? Hx H1]; subst. inversion H1 as [|? ? Hy H2]; subst. auto. }
  destruct Hxy as [Hx Hy]. rewrite Hn, enc_short_bytes2 by assumption.
  assert (Hf : firstn 4 b = p4) by (rewrite Hb, <- !app_assoc; apply firstn_app_exact; exact Hl4).
  assert (Hs : skipn 4 b = q ++ r) by (rewrite Hb, <- !app_assoc; apply skipn_app_exact; exact Hl4).
  rewrite Hf, Hs, Hr. rewrite <- !app_assoc. reflexivity.
Qed.

Lemma lstr_neg_zero t : lstr_neg ([0; 0; 0; 0] ++ t) = false.
Proof. reflexivity. Qed.

(** Exact side condition: re-encoding reproduces the body iff the declared length of the query
    string is not negative. *)
Theorem encode_decode_query_iff b m :
  wf_bytes b -> decode_query b = Ok m -> (encode_query m = b <-> lstr_neg b = false).
Proof.
  intros Hwf Hd. rewrite (encode_decode_query_gen b m Hwf Hd). split.
  - destruct (lstr_neg b) eqn:E; [|reflexivity]. intro H.
    rewrite <- (firstn_skipn 4 b) in H at 2. apply app_inv_tail in H.
    rewrite <- (firstn_skipn 4 b), <- H in E. rewrite lstr_neg_zero in E. discriminate.
  - intros ->. apply firstn_skipn.
Qed.

Theorem encode_decode_query b m :
  wf_bytes b -> decode_query b = Ok m -> lstr_neg b = false -> encode_query m = b.
Proof. intros Hwf Hd Hn. apply (encode_decode_query_iff b m Hwf Hd). exact Hn. Qed.

(** in particular whenever the decoded query string is not empty *)
Corollary encode_decode_query_nonempty b m :
  wf_bytes b -> decode_query b = Ok m -> q_query m <> [] -> encode_query m = b.
Proof.
  intros Hwf Hd Hne. apply (encode_decode_query b m Hwf Hd).
  destruct (lstr_neg b) eqn:E; [|reflexivity]. exfalso. apply Hne.
  unfold decode_query in Hd. destruct (read_long_string b) as [[q r]|] eqn:E1; [|discriminate].
  destruct (read_short r) as [[cl r']|]; [|discriminate]. inversion Hd; subst m. cbn [q_query].
  destruct (read_long_string_consumes _ _ _ E1) as (p4 & _ & _ & _ & Hs & _). exact (Hs E).
Qed.

(** REFUTED: the unconditional identity.  A query string declared with length -1 decodes to ""
    (primitive.ReadLongString: length <= 0) and is written back with length 0. *)
Theorem encode_decode_query_refuted :
  exists b m, wf_bytes b /\ decode_query b = Ok m /\ encode_query m <> b /\ length (encode_query m) = length b.
Proof.
  exists [255; 255; 255; 255; 0; 1]. eexists. split; [apply wf_bytesb_true; reflexivity|].
  split; [vm_compute; reflexivity|]. split; [vm_compute; discriminate|reflexivity].
Qed.

(** whatever was decoded re-encodes to a body that decodes to the same message -- also with
    any other 16-bit consistency in place (the override path) *)
Theorem decode_encode_query_stable b m cl' :
  wf_bytes b -> decode_query b = Ok m -> cl' < 65536 ->
  decode_query (encode_query {| q_query := q_query m; q_cl := cl'; q_params := q_params m |}) =
  Ok {| q_query := q_query m; q_cl := cl'; q_params := q_params m |}.
Proof.
  intros Hwf Hd Hcl. destruct (decode_query_fields_wf b m Hwf Hd) as [Hq _].
  apply decode_ref_query; assumption.
Qed.

Example encode_decode_query_ex :
  let b := [0;0;0;2;65;66;0;6;9;9] in
  wf_bytes b /\ lstr_neg b = false /\ match decode_query b with Ok m => encode_query m = b | _ => False end.
Proof. split; [apply wf_bytesb_true; reflexivity|]. vm_compute. auto. Qed.

(** ** EXECUTE *)
Lemma wf_short_pair x y r : wf_bytes ([x; y] ++ r) -> x < 256 /\ y < 256.
Proof.
  intro H. apply wf_app in H. destruct H as [Hxy _].
  inversion Hxy as [|? ? Hx H1]; subst. inversion H1 as [|? ? Hy H2]; subst. auto.
Qed.

(** Everything about an accepted EXECUTE body in one statement: consumed prefix and its length,
    remainder verbatim, fields depend on the prefix only, truncation rejected, fields in range and
    (for well-formed bytes) re-encoding is the identity -- unconditionally. *)
Lemma decode_execute_inv v b m :
  decode_execute v b = Ok m ->
  exists p, b = p ++ x_params m /\
    length p = (2 + length (x_id m) + (if supports_rmid v then 2 + length (x_rmid m) else 0) + 2)%nat /\
    (forall t, decode_execute v (p ++ t) =
               Ok {| x_id := x_id m; x_rmid := x_rmid m; x_cl := x_cl m; x_params := t |}) /\
    (forall p', sprefix p' p -> exists e, decode_execute v p' = Err e) /\
    (x_id m <> [] /\ (if supports_rmid v then x_rmid m <> [] else x_rmid m = [])) /\
    (wf_bytes b -> encode_execute v m = b /\ len16 (x_id m) /\ len16 (x_rmid m) /\ x_cl m < 65536).
Proof.
  unfold decode_execute. destruct (read_short_bytes b) as [[id r]|] eqn:E1; [|discriminate].
  destruct (read_short_bytes_consumes _ _ _ E1) as (pid & Hb & Hlid & [Hc1 Hc2] & Hwid).
  destruct id as [|i0 id']; [discriminate|]. set (id := i0 :: id') in *.
  destruct (supports_rmid v) eqn:Ev.
  - destruct (read_short_bytes r) as [[rm r1]|] eqn:E2; [|discriminate].
    destruct (read_short_bytes_consumes _ _ _ E2) as (prm & Hr & Hlrm & [Hd1 Hd2] & Hwrm).
    destruct rm as [|m0 rm']; [discriminate|]. set (rm := m0 :: rm') in *.
    destruct (read_short r1) as [[cl r2]|] eqn:E3; [|discriminate].
    destruct (read_short_consumes _ _ _ E3) as (x & y & Hr1 & Hn & Hs1 & Hs2).
    intro H. inversion H; subst m; clear H. cbn [x_id x_rmid x_cl x_params].
    exists ((pid ++ id) ++ (prm ++ rm) ++ [x; y]).
    split; [subst b r r1; rewrite <- !app_assoc; reflexivity|].
    split; [rewrite !app_length, Hlid, Hlrm; simpl; lia|]. split; [|split; [|split]].
    + intro t. rewrite <- !app_assoc. rewrite (app_assoc pid), Hc1. unfold id. fold id.
      rewrite (app_assoc prm), Hd1. unfold rm. fold rm. rewrite Hs1. reflexivity.
    + intros p' Hp. destruct (sprefix_app _ _ _ Hp) as [Hp1|(s & -> & Hs)].
      * rewrite (Hc2 _ Hp1). eauto.
      * rewrite Hc1. unfold id. fold id. destruct (sprefix_app _ _ _ Hs) as [Hp2|(s' & -> & Hs')].
        -- rewrite (Hd2 _ Hp2). eauto.
        -- rewrite Hd1. unfold rm. fold rm. rewrite (Hs2 _ Hs'). eauto.
    + split; discriminate.
    + intro Hwf. destruct (Hwid Hwf) as [Hl1 He1].
      assert (Hwr : wf_bytes r) by (subst b; apply wf_app in Hwf; tauto).
      destruct (Hwrm Hwr) as [Hl2 He2].
      assert (Hwr1 : wf_bytes r1) by (subst r; apply wf_app in Hwr; tauto).
      rewrite Hr1 in Hwr1. destruct (wf_short_pair _ _ _ Hwr1) as [Hx Hy].
      split; [|split; [exact Hl1|split; [exact Hl2|lia]]].
      unfold encode_execute. rewrite Ev. cbn [x_id x_rmid x_cl x_params].
      rewrite He1, He2, Hn, enc_short_bytes2 by assumption.
      subst b r r1. rewrite <- !app_assoc. reflexivity.
  - destruct (read_short r) as [[cl r2]|] eqn:E3; [|discriminate].
    destruct (read_short_consumes _ _ _ E3) as (x & y & Hr1 & Hn & Hs1 & Hs2).
    intro H. inversion H; subst m; clear H. cbn [x_id x_rmid x_cl x_params].
    exists ((pid ++ id) ++ [x; y]).
    split; [subst b r; rewrite <- !app_assoc; reflexivity|].
    split; [rewrite !app_length, Hlid; simpl; lia|]. split; [|split; [|split]].
    + intro t. rewrite <- !app_assoc. rewrite (app_assoc pid), Hc1. unfold id. fold id.
      rewrite Hs1. reflexivity.
    + intros p' Hp. destruct (sprefix_app _ _ _ Hp) as [Hp1|(s & -> & Hs)].
      * rewrite (Hc2 _ Hp1). eauto.
      * rewrite Hc1. unfold id. fold id. rewrite (Hs2 _ Hs). eauto.
    + split; [discriminate|reflexivity].
    + intro Hwf. destruct (Hwid Hwf) as [Hl1 He1].
      assert (Hwr : wf_bytes r) by (subst b; apply wf_app in Hwf; tauto).
      rewrite Hr1 in Hwr. destruct (wf_short_pair _ _ _ Hwr) as [Hx Hy].
      split; [|split; [exact Hl1|split; [unfold len16; simpl; lia|lia]]].
      unfold encode_execute. rewrite Ev. cbn [x_id x_rmid x_cl x_params].
      rewrite He1, Hn, enc_short_bytes2 by assumption.
      subst b r. rewrite <- !app_assoc. reflexivity.
Qed.

Theorem decode_execute_prefix v b m :
  decode_execute v b = Ok m ->
  exists p, b = p ++ x_params m /\
    length p = (2 + length (x_id m) + (if supports_rmid v then 2 + length (x_rmid m) else 0) + 2)%nat /\
    (forall t, decode_execute v (p ++ t) =
               Ok {| x_id := x_id m; x_rmid := x_rmid m; x_cl := x_cl m; x_params := t |}) /\
    (forall p', sprefix p' p -> exists e, decode_execute v p' = Err e).
Proof.
  intro H. destruct (decode_execute_inv v b m H) as (p & H1 & H2 & H3 & H4 & _). exists p. auto.
Qed.

(** Re-encoding identity for EVERY accepted EXECUTE body, in every protocol version. *)
Theorem encode_decode_execute v b m :
  wf_bytes b -> decode_execute v b = Ok m -> encode_execute v m = b.
Proof.
  intros Hwf H. destruct (decode_execute_inv v b m H) as (p & _ & _ & _ & _ & _ & Hw).
  destruct (Hw Hwf) as [He _]. exact He.
Qed.

Lemma decode_execute_fields_wf v b m :
  wf_bytes b -> decode_execute v b = Ok m ->
  x_id m <> [] /\ len16 (x_id m) /\ (if supports_rmid v then x_rmid m <> [] else x_rmid m = []) /\
  len16 (x_rmid m) /\ x_cl m < 65536.
Proof.
  intros Hwf H. destruct (decode_execute_inv v b m H) as (p & _ & _ & _ & _ & [Hi Hr] & Hw).
  destruct (Hw Hwf) as (_ & H1 & H2 & H3). auto.
Qed.

Theorem decode_encode_execute_stable v b m cl' :
  wf_bytes b -> decode_execute v b = Ok m -> cl' < 65536 ->
  decode_execute v (encode_execute v {| x_id := x_id m; x_rmid := x_rmid m; x_cl := cl'; x_params := x_params m |}) =
  Ok {| x_id := x_id m; x_rmid := x_rmid m; x_cl := cl'; x_params := x_params m |}.
Proof.
  intros Hwf Hd Hcl. destruct (decode_execute_fields_wf v b m Hwf Hd) as (Hi & Hil & Hr & Hrl & _).
  pose proof (decode_ref_execute v (x_id m) (x_rmid m) cl' (x_params m) Hi Hil) as Href.
  unfold ref_execute in Href. unfold encode_execute. cbn [x_id x_rmid x_cl x_params].
  rewrite Href; [|destruct (supports_rmid v); [intros _; auto|discriminate]|exact Hcl].
  destruct (supports_rmid v); [reflexivity|]. rewrite Hr. reflexivity.
Qed.

Example encode_decode_execute_ex :
  let b := [0;2;1;2;0;1;9;0;6;0;0] in
  wf_bytes b /\
  decode_execute 5 b = Ok {| x_id := [1;2]; x_rmid := [9]; x_cl := 6; x_params := [0;0] |} /\
  encode_execute 5 {| x_id := [1;2]; x_rmid := [9]; x_cl := 6; x_params := [0;0] |} = b /\
  decode_execute 5 [0;2;1;2;0;1;9;0] = Err (str "consistency") /\
  decode_execute 4 [0;2;1;2;0;6;7] = Ok {| x_id := [1;2]; x_rmid := []; x_cl := 6; x_params := [7] |}.
Proof. split; [apply wf_bytesb_true; reflexivity|]. vm_compute. auto. Qed.

(** ** BATCH *)
Lemma skip_value_consumes b c r :
  skip_value b = Some (c, r) -> b = c ++ r /\ consumes skip_value c c /\ c <> [].
Proof.
  unfold skip_value. destruct (read_int b) as [[n r0]|] eqn:Ei; [|discriminate].
  destruct (read_int_consumes _ _ _ Ei) as (p4 & Hb & Hl4 & Hc1 & Hc2).
  assert (Hf : forall t, firstn 4 (p4 ++ t) = p4) by (intro t; apply firstn_app_exact; exact Hl4).
  assert (Hne : forall l, p4 ++ l <> []) by (intros l E; destruct p4; discriminate).
  assert (Hfb : firstn 4 b = p4) by (rewrite Hb; apply Hf). rewrite Hfb.
  destruct (Z.leb_spec n 0) as [Hle|Hgt].
  - intro H. injection H as <- <-. split; [exact Hb|]. split; [split|].
    + intro t. unfold skip_value. rewrite Hc1, Hf. destruct (Z.leb_spec n 0); [reflexivity|lia].
    + intros p' Hp. unfold skip_value. rewrite (Hc2 _ Hp). reflexivity.
    + rewrite <- (app_nil_r p4). apply Hne.
  - destruct (get_z n r0) as [[c0 r']|] eqn:Eg; [|discriminate].
    destruct (get_z_consumes _ _ _ _ Eg) as (Hr0 & _ & Hg1 & Hg2).
    intro H. injection H as <- <-.
    split; [rewrite Hb, Hr0, app_assoc; reflexivity|]. split; [split|].
    + intro t. unfold skip_value. rewrite <- app_assoc, Hc1, Hf.
      destruct (Z.leb_spec n 0); [lia|]. rewrite Hg1. reflexivity.
    + intros p' Hp. unfold skip_value. destruct (sprefix_app _ _ _ Hp) as [Hp1|(q & -> & Hq)].
      * rewrite (Hc2 _ Hp1). reflexivity.
      * rewrite Hc1. destruct (Z.leb_spec n 0); [lia|]. rewrite (Hg2 _ Hq). reflexivity.
    + apply Hne.
Qed.

Lemma consumes_nil_no_sprefix (p' : bytes) : ~ sprefix p' [].
Proof. intro H. apply sprefix_length in H. simpl in H. lia. Qed.

Lemma skip_n_values_consumes n : forall b c r,
  skip_n_values n b = Some (c, r) -> b = c ++ r /\ consumes (skip_n_values n) c c.
Proof.
  induction n as [|n IH]; intros b c r H.
  - simpl in H. inversion H; subst. split; [reflexivity|]. split; [reflexivity|].
    intros p' Hp. destruct (consumes_nil_no_sprefix _ Hp).
  - simpl in H. destruct (skip_value b) as [[c1 r1]|] eqn:E1; [|discriminate].
    destruct (skip_n_values n r1) as [[c2 r2]|] eqn:E2; [|discriminate].
    inversion H; subst c r2; clear H.
    destruct (skip_value_consumes _ _ _ E1) as (Hb & [Hv1 Hv2] & _).
    destruct (IH _ _ _ E2) as (Hr1 & Hn1 & Hn2).
    split; [subst b r1; rewrite app_assoc; reflexivity|]. split.
    + intro t. cbn [skip_n_values]. rewrite <- app_assoc, Hv1, Hn1. reflexivity.
    + intros p' Hp. cbn [skip_n_values]. destruct (sprefix_app _ _ _ Hp) as [Hp1|(q & -> & Hq)].
      * rewrite (Hv2 _ Hp1). reflexivity.
      * rewrite Hv1, (Hn2 _ Hq). reflexivity.
Qed.

Lemma skip_positional_values_consumes b c r :
  skip_positional_values b = Some (c, r) -> b = c ++ r /\ consumes skip_positional_values c c.
Proof.
  unfold skip_positional_values. destruct (read_short b) as [[n r0]|] eqn:Es; [|discriminate].
  destruct (read_short_consumes _ _ _ Es) as (x & y & Hb & Hn & Hc1 & Hc2).
  destruct (skip_n_values (N.to_nat n) r0) as [[c0 r']|] eqn:E2; [|discriminate].
  destruct (skip_n_values_consumes _ _ _ _ E2) as (Hr0 & Hn1 & Hn2).
  assert (Hfb : firstn 2 b = [x; y]) by (rewrite Hb; reflexivity). rewrite Hfb.
  intro H. injection H as <- <-.
  split; [rewrite Hb, Hr0, app_assoc; reflexivity|]. split.
  - intro t. unfold skip_positional_values.
    change ((x :: y :: c0) ++ t) with ([x; y] ++ (c0 ++ t)). rewrite Hc1, Hn1. reflexivity.
  - intros p' Hp. unfold skip_positional_values.
    destruct (sprefix_app [x; y] c0 p' Hp) as [Hp1|(q & -> & Hq)].
    + rewrite (Hc2 _ Hp1). reflexivity.
    + rewrite Hc1, (Hn2 _ Hq). reflexivity.
Qed.

Definition dconsumes {A} (dec : bytes -> res (A * bytes)) (x : A) (p : bytes) : Prop :=
  (forall t, dec (p ++ t) = Ok (x, t)) /\ (forall p', sprefix p' p -> exists e, dec p' = Err e).

(** a batch child at the head of [b] is a query string whose declared length is negative *)
Definition child_neg (b : bytes) : bool :=
  match b with k :: r => (k =? 0) && lstr_neg r | [] => false end.

(** what is known of a child that came out of the decoder (well-formed bytes) *)
Definition child_ok (c : pchild) : Prop :=
  match ch_id c with QStr q => len31 q | QId id => len16 id end /\
  (forall t, skip_positional_values (ch_values c ++ t) = Some (ch_values c, t)).

Lemma decode_child_inv b c r :
  decode_child b = Ok (c, r) ->
  exists p, b = p ++ r /\ dconsumes decode_child c p /\ length (encode_child c) = length p /\
    (wf_bytes b -> child_ok c /\ (encode_child c = p <-> child_neg b = false)).
Proof.
  unfold decode_child. destruct (read_byte b) as [[k r0]|] eqn:Ek; [|discriminate].
  destruct (read_byte_consumes _ _ _ Ek) as (Hb & Hk1 & Hk2).
  destruct (N.eqb_spec k 0) as [Hk0|Hk0].
  - subst k. destruct (read_long_string r0) as [[q r1]|] eqn:E1; [|discriminate].
    destruct (read_long_string_consumes _ _ _ E1) as (p4 & Hr0 & Hl4 & [Hc1 Hc2] & _ & Hw).
    destruct (skip_positional_values r1) as [[vals r2]|] eqn:E2; [|discriminate].
    destruct (skip_positional_values_consumes _ _ _ E2) as (Hr1 & Hv1 & Hv2).
    intro H. inversion H; subst c r2; clear H.
    exists ([0] ++ (p4 ++ q) ++ vals). split; [subst b r0 r1; rewrite <- !app_assoc; reflexivity|].
    split; [split|split].
    + intro t. unfold decode_child. rewrite <- !app_assoc. rewrite Hk1. cbn [N.eqb].
      rewrite (app_assoc p4), Hc1, Hv1. reflexivity.
    + intros p' Hp. unfold decode_child. destruct (sprefix_app _ _ _ Hp) as [Hp1|(s & -> & Hs)].
      * rewrite (Hk2 _ Hp1). eauto.
      * rewrite Hk1. cbn [N.eqb]. destruct (sprefix_app _ _ _ Hs) as [Hp2|(s' & -> & Hs')].
        -- rewrite (Hc2 _ Hp2). eauto.
        -- rewrite Hc1, (Hv2 _ Hs'). eauto.
    + unfold encode_child, enc_long_string. cbn [ch_id ch_values].
      rewrite !app_length, enc_int_length, Hl4. reflexivity.
    + intro Hwf. assert (Hwr0 : wf_bytes r0) by (rewrite Hb in Hwf; apply wf_app in Hwf; tauto).
      destruct (Hw Hwr0) as (Hlen & Henc & Hp4). split; [split; [exact Hlen|exact Hv1]|].
      unfold encode_child. cbn [ch_id ch_values]. rewrite Henc.
      rewrite Hb. cbn [child_neg app N.eqb andb].
      destruct (lstr_neg r0) eqn:En; [|split; reflexivity].
      split; [|discriminate]. intro E. exfalso. apply (Hp4 eq_refl).
      change (enc_byte 0) with [0] in E. cbn [app] in E. injection E as E.
      rewrite <- app_assoc in E.
      change (0 :: 0 :: 0 :: 0 :: q ++ vals) with ([0; 0; 0; 0] ++ (q ++ vals)) in E.
      apply app_inv_tail in E. symmetry. exact E.
  - destruct (N.eqb_spec k 1) as [Hk1'|Hk1']; [|discriminate]. subst k.
    destruct (read_short_bytes r0) as [[id r1]|] eqn:E1; [|discriminate].
    destruct (read_short_bytes_consumes _ _ _ E1) as (p2 & Hr0 & Hl2 & [Hc1 Hc2] & Hw).
    destruct (skip_positional_values r1) as [[vals r2]|] eqn:E2; [|discriminate].
    destruct (skip_positional_values_consumes _ _ _ E2) as (Hr1 & Hv1 & Hv2).
    intro H. inversion H; subst c r2; clear H.
    exists ([1] ++ (p2 ++ id) ++ vals). split; [subst b r0 r1; rewrite <- !app_assoc; reflexivity|].
    split; [split|split].
    + intro t. unfold decode_child. rewrite <- !app_assoc. rewrite Hk1. cbn [N.eqb Pos.eqb].
      rewrite (app_assoc p2), Hc1, Hv1. reflexivity.
    + intros p' Hp. unfold decode_child. destruct (sprefix_app _ _ _ Hp) as [Hp1|(s & -> & Hs)].
      * rewrite (Hk2 _ Hp1). eauto.
      * rewrite Hk1. cbn [N.eqb Pos.eqb]. destruct (sprefix_app _ _ _ Hs) as [Hp2|(s' & -> & Hs')].
        -- rewrite (Hc2 _ Hp2). eauto.
        -- rewrite Hc1, (Hv2 _ Hs'). eauto.
    + unfold encode_child, enc_short_bytes. cbn [ch_id ch_values].
      rewrite !app_length, Hl2. reflexivity.
    + intro Hwf. assert (Hwr0 : wf_bytes r0) by (rewrite Hb in Hwf; apply wf_app in Hwf; tauto).
      destruct (Hw Hwr0) as (Hlen & Henc). split; [split; [exact Hlen|exact Hv1]|].
      unfold encode_child. cbn [ch_id ch_values]. rewrite Henc.
      rewrite Hb. cbn [child_neg app N.eqb Pos.eqb andb]. split; reflexivity.
Qed.

(** some child among the [n] decoded from [b] is a query string declared with negative length *)
Fixpoint children_neg (n : nat) (b : bytes) : bool :=
  match n with
  | O => false
  | S n' => child_neg b || match decode_child b with Ok (_, r) => children_neg n' r | _ => false end
  end.

Lemma decode_children_inv n : forall b cs r,
  decode_children n b = Ok (cs, r) ->
  exists p, b = p ++ r /\ dconsumes (decode_children n) cs p /\ length cs = n /\
    length (concat (map encode_child cs)) = length p /\
    (wf_bytes b -> Forall child_ok cs /\ (concat (map encode_child cs) = p <-> children_neg n b = false)).
Proof.
  induction n as [|n IH]; intros b cs r H.
  - simpl in H. injection H as <- <-. exists []. split; [reflexivity|]. split; [split|].
    + intro t. reflexivity.
    + intros p' Hp. destruct (consumes_nil_no_sprefix _ Hp).
    + split; [reflexivity|]. split; [reflexivity|]. intros _. split; [constructor|]. simpl. split; reflexivity.
  - cbn [decode_children] in H. destruct (decode_child b) as [[c r1]|e|e|] eqn:E1; try discriminate.
    destruct (decode_children n r1) as [[cs' r2]|e|e|] eqn:E2; try discriminate.
    injection H as <- <-.
    destruct (decode_child_inv _ _ _ E1) as (pc & Hb & [Hc1 Hc2] & Hlc & Hwc).
    destruct (IH _ _ _ E2) as (ps & Hr1 & [Hs1 Hs2] & Hn & Hls & Hws).
    exists (pc ++ ps). split; [rewrite Hb, Hr1, app_assoc; reflexivity|]. split; [split|].
    + intro t. cbn [decode_children]. rewrite <- app_assoc, Hc1, Hs1. reflexivity.
    + intros p' Hp. cbn [decode_children]. destruct (sprefix_app _ _ _ Hp) as [Hp1|(q & -> & Hq)].
      * destruct (Hc2 _ Hp1) as [e ->]. eauto.
      * rewrite Hc1. destruct (Hs2 _ Hq) as [e ->]. eauto.
    + split; [simpl; lia|]. split; [cbn [map concat]; rewrite !app_length; lia|].
      intro Hwf. destruct (Hwc Hwf) as [Hok Hiff].
      assert (Hwr1 : wf_bytes r1) by (rewrite Hb in Hwf; apply wf_app in Hwf; tauto).
      destruct (Hws Hwr1) as [Hoks Hiffs]. split; [constructor; assumption|].
      cbn [map concat children_neg]. rewrite E1. split.
      * intro E. destruct (app_eq_len _ _ _ _ Hlc E) as [Ea Eb].
        apply Hiff in Ea. apply Hiffs in Eb. rewrite Ea, Eb. reflexivity.
      * intro E. apply orb_false_iff in E. destruct E as [Ea Eb].
        apply Hiff in Ea. apply Hiffs in Eb. rewrite Ea, Eb. reflexivity.
Qed.

(** some query-string child of the batch body [b] is declared with a negative length *)
Definition batch_neg (b : bytes) : bool :=
  match b with
  | _ :: r => match read_short r with Some (n, r1) => children_neg (N.to_nat n) r1 | None => false end
  | [] => false
  end.

Lemma decode_batch_inv b m :
  decode_batch b = Ok m ->
  exists p, b = p ++ b_params m /\
    (forall t, decode_batch (p ++ t) =
               Ok {| b_type := b_type m; b_children := b_children m; b_cl := b_cl m; b_params := t |}) /\
    (forall p', sprefix p' p -> exists e, decode_batch p' = Err e) /\
    length p = (1 + 2 + length (concat (map encode_child (b_children m))) + 2)%nat /\
    length (encode_batch m) = length b /\
    (wf_bytes b ->
       (encode_batch m = b <-> batch_neg b = false) /\
       b_type m <= 2 /\ Forall child_ok (b_children m) /\
       N.of_nat (length (b_children m)) < 65536 /\ b_cl m < 65536).
Proof.
  unfold decode_batch. destruct (read_byte b) as [[ty r]|] eqn:Et; [|discriminate].
  destruct (read_byte_consumes _ _ _ Et) as (Hb & Hk1 & Hk2).
  destruct (valid_batch_type ty) eqn:Evt; cbn [negb]; [|discriminate].
  destruct (read_short r) as [[n r1]|] eqn:En; [|discriminate].
  destruct (read_short_consumes _ _ _ En) as (x & y & Hr & Hn & Hn1 & Hn2).
  destruct (decode_children (N.to_nat n) r1) as [[cs r2]|e|e|] eqn:Ec; try discriminate.
  destruct (decode_children_inv _ _ _ _ Ec) as (pcs & Hr1 & [Hc1 Hc2] & Hlen & Hlcs & Hwcs).
  destruct (read_short r2) as [[cl r3]|] eqn:Ecl; [|discriminate].
  destruct (read_short_consumes _ _ _ Ecl) as (x' & y' & Hr2 & Hcl & Hl1 & Hl2).
  intro H. injection H as <-. cbn [b_type b_children b_cl b_params].
  assert (Hball : b = [ty] ++ [x; y] ++ pcs ++ [x'; y'] ++ r3) by (rewrite Hb, Hr, Hr1, Hr2; reflexivity).
  exists ([ty] ++ [x; y] ++ pcs ++ [x'; y']).
  split; [rewrite Hball, <- !app_assoc; reflexivity|]. split; [|split; [|split; [|split]]].
  - intro t. unfold decode_batch. rewrite <- !app_assoc. rewrite Hk1, Evt. cbn [negb].
    rewrite Hn1, Hc1, Hl1. reflexivity.
  - intros p' Hp. unfold decode_batch. destruct (sprefix_app _ _ _ Hp) as [Hp1|(s1 & -> & Hs1)].
    { rewrite (Hk2 _ Hp1). eauto. }
    rewrite Hk1, Evt. cbn [negb]. destruct (sprefix_app _ _ _ Hs1) as [Hp2|(s2 & -> & Hs2)].
    { rewrite (Hn2 _ Hp2). eauto. }
    rewrite Hn1. destruct (sprefix_app _ _ _ Hs2) as [Hp3|(s3 & -> & Hs3)].
    { destruct (Hc2 _ Hp3) as [e ->]. eauto. }
    rewrite Hc1, (Hl2 _ Hs3). eauto.
  - rewrite !app_length, Hlcs. simpl. lia.
  - rewrite Hball. unfold encode_batch, enc_byte, enc_short. cbn [b_type b_children b_cl b_params].
    rewrite !app_length, Hlcs. reflexivity.
  - intro Hwf. rewrite Hball in Hwf.
    assert (Hty : ty < 256) by (apply wf_app in Hwf; destruct Hwf as [H1 _]; inversion H1; assumption).
    assert (Hw1 : wf_bytes ([x; y] ++ pcs ++ [x'; y'] ++ r3)) by (apply wf_app in Hwf; tauto).
    destruct (wf_short_pair _ _ _ Hw1) as [Hx Hy].
    assert (Hw2 : wf_bytes (pcs ++ [x'; y'] ++ r3)) by (apply wf_app in Hw1; tauto).
    assert (Hw3 : wf_bytes ([x'; y'] ++ r3)) by (apply wf_app in Hw2; tauto).
    destruct (wf_short_pair _ _ _ Hw3) as [Hx' Hy'].
    assert (Hwr1 : wf_bytes r1) by (rewrite Hr1, Hr2; exact Hw2).
    destruct (Hwcs Hwr1) as [Hoks Hiff].
    assert (Hcnt : N.of_nat (length cs) = x * 256 + y) by lia.
    split; [|split; [unfold valid_batch_type in Evt; lia|split; [exact Hoks|split; lia]]].
    assert (Henc : encode_batch {| b_type := ty; b_children := cs; b_cl := cl; b_params := r3 |} =
                   [ty] ++ [x; y] ++ concat (map encode_child cs) ++ [x'; y'] ++ r3).
    { unfold encode_batch. cbn [b_type b_children b_cl b_params].
      rewrite Hcnt, Hcl, !enc_short_bytes2 by assumption.
      unfold enc_byte. rewrite N.mod_small by exact Hty. reflexivity. }
    assert (Hbn : batch_neg b = children_neg (N.to_nat n) r1)
      by (rewrite Hb; cbn [batch_neg app]; rewrite En; reflexivity).
    rewrite Hbn, Henc, Hball. split.
    + intro E. injection E as E. apply (app_eq_len _ _ _ _ Hlcs) in E. destruct E as [E _].
      apply Hiff. exact E.
    + intro E. apply Hiff in E. rewrite E. reflexivity.
Qed.

Theorem decode_batch_prefix b m :
  decode_batch b = Ok m ->
  exists p, b = p ++ b_params m /\
    length p = (1 + 2 + length (concat (map encode_child (b_children m))) + 2)%nat /\
    (forall t, decode_batch (p ++ t) =
               Ok {| b_type := b_type m; b_children := b_children m; b_cl := b_cl m; b_params := t |}) /\
    (forall p', sprefix p' p -> exists e, decode_batch p' = Err e).
Proof.
  intro H. destruct (decode_batch_inv b m H) as (p & H1 & H2 & H3 & H4 & _). exists p. auto.
Qed.

(** re-encoding never changes the length *)
Theorem encode_decode_batch_length b m : decode_batch b = Ok m -> length (encode_batch m) = length b.
Proof. intro H. destruct (decode_batch_inv b m H) as (p & _ & _ & _ & _ & Hl & _). exact Hl. Qed.

(** Exact side condition: re-encoding reproduces the body iff no query-string child is declared
    with a negative length. *)
Theorem encode_decode_batch_iff b m :
  wf_bytes b -> decode_batch b = Ok m -> (encode_batch m = b <-> batch_neg b = false).
Proof.
  intros Hwf H. destruct (decode_batch_inv b m H) as (p & _ & _ & _ & _ & _ & Hw).
  destruct (Hw Hwf) as [Hiff _]. exact Hiff.
Qed.

Theorem encode_decode_batch b m :
  wf_bytes b -> decode_batch b = Ok m -> batch_neg b = false -> encode_batch m = b.
Proof. intros Hwf H Hn. apply (encode_decode_batch_iff b m Hwf H). exact Hn. Qed.

Lemma child_neg_empty b c r : decode_child b = Ok (c, r) -> child_neg b = true -> ch_id c = QStr [].
Proof.
  intros H Hn. destruct b as [|k r0]; [discriminate|]. cbn [child_neg] in Hn.
  apply andb_true_iff in Hn. destruct Hn as [Hk Hl].
  unfold decode_child in H. cbn [read_byte] in H. rewrite Hk in H.
  destruct (read_long_string r0) as [[q r1]|] eqn:E1; [|discriminate].
  destruct (skip_positional_values r1) as [[vals r2]|]; [|discriminate].
  injection H as <- <-. cbn [ch_id].
  destruct (read_long_string_consumes _ _ _ E1) as (p4 & _ & _ & _ & Hs & _). rewrite (Hs Hl). reflexivity.
Qed.

Lemma children_neg_empty n : forall b cs r,
  decode_children n b = Ok (cs, r) -> Forall (fun c => ch_id c <> QStr []) cs -> children_neg n b = false.
Proof.
  induction n as [|n IH]; intros b cs r H Hall; [reflexivity|].
  cbn [decode_children] in H. destruct (decode_child b) as [[c r1]|e|e|] eqn:E1; try discriminate.
  destruct (decode_children n r1) as [[cs' r2]|e|e|] eqn:E2; try discriminate.
  injection H as <- <-. inversion Hall as [|? ? Hc Hcs]; subst.
  cbn [children_neg]. rewrite E1, (IH _ _ _ E2 Hcs), orb_false_r.
  destruct (child_neg b) eqn:En; [|reflexivity]. exfalso. apply Hc. exact (child_neg_empty _ _ _ E1 En).
Qed.

(** in particular whenever no child is an empty query string *)
Corollary encode_decode_batch_nonempty b m :
  wf_bytes b -> decode_batch b = Ok m -> Forall (fun c => ch_id c <> QStr []) (b_children m) ->
  encode_batch m = b.
Proof.
  intros Hwf H Hall. apply (encode_decode_batch b m Hwf H).
  unfold decode_batch in H. destruct b as [|ty r]; [discriminate|]. cbn [read_byte] in H.
  destruct (negb (valid_batch_type ty)); [discriminate|].
  cbn [batch_neg]. destruct (read_short r) as [[n r1]|]; [|reflexivity].
  destruct (decode_children (N.to_nat n) r1) as [[cs r2]|e|e|] eqn:Ec; try discriminate.
  destruct (read_short r2) as [[cl r3]|]; [|discriminate]. injection H as <-. cbn [b_children] in Hall.
  exact (children_neg_empty _ _ _ _ Ec Hall).
Qed.

(** REFUTED: the unconditional identity, by a one-child batch whose query string is declared
    with length -1. *)
Theorem encode_decode_batch_refuted :
  exists b m, wf_bytes b /\ decode_batch b = Ok m /\ encode_batch m <> b.
Proof.
  exists [0; 0; 1; 0; 255; 255; 255; 255; 0; 0; 0; 1]. eexists. split; [apply wf_bytesb_true; reflexivity|].
  split; [vm_compute; reflexivity|vm_compute; discriminate].
Qed.

Example encode_decode_batch_ex :
  let b := [1; 0;2; 0; 0;0;0;1;65; 0;1; 0;0;0;1;7;  1; 0;2;8;9; 0;2; 255;255;255;255; 255;255;255;254;  0;6; 0] in
  wf_bytes b /\ batch_neg b = false /\
  match decode_batch b with
  | Ok m => encode_batch m = b /\ length (b_children m) = 2%nat /\ b_cl m = 6 /\ b_params m = [0]
  | _ => False
  end.
Proof. split; [apply wf_bytesb_true; reflexivity|]. vm_compute. auto. Qed.

(** *** re-encoding is semantically stable *)
Lemma decode_child_encode c t : child_ok c -> decode_child (encode_child c ++ t) = Ok (c, t).
Proof.
  destruct c as [[q|id] vals]; unfold child_ok; cbn [ch_id ch_values]; intros [Hl Hv];
    unfold decode_child, encode_child; cbn [ch_id ch_values]; rewrite <- !app_assoc;
    rewrite read_byte_enc by lia; cbn [N.eqb Pos.eqb].
  - rewrite read_long_string_enc by exact Hl. rewrite Hv. reflexivity.
  - rewrite read_short_bytes_enc by exact Hl. rewrite Hv. reflexivity.
Qed.

Lemma decode_children_encode cs t :
  Forall child_ok cs -> decode_children (length cs) (concat (map encode_child cs) ++ t) = Ok (cs, t).
Proof.
  induction cs as [|c cs IH]; intro H; [reflexivity|]. inversion H as [|? ? Hc Hcs]; subst.
  cbn [length map concat decode_children]. rewrite <- app_assoc, (decode_child_encode c _ Hc), (IH Hcs).
  reflexivity.
Qed.

Lemma decode_batch_fields_wf b m :
  wf_bytes b -> decode_batch b = Ok m ->
  b_type m <= 2 /\ Forall child_ok (b_children m) /\ N.of_nat (length (b_children m)) < 65536 /\ b_cl m < 65536.
Proof.
  intros Hwf H. destruct (decode_batch_inv b m H) as (p & _ & _ & _ & _ & _ & Hw).
  destruct (Hw Hwf) as [_ Hr]. exact Hr.
Qed.

Theorem decode_encode_batch_stable b m cl' :
  wf_bytes b -> decode_batch b = Ok m -> cl' < 65536 ->
  decode_batch (encode_batch {| b_type := b_type m; b_children := b_children m; b_cl := cl'; b_params := b_params m |}) =
  Ok {| b_type := b_type m; b_children := b_children m; b_cl := cl'; b_params := b_params m |}.
Proof.
  intros Hwf Hd Hcl. destruct (decode_batch_fields_wf b m Hwf Hd) as (Hty & Hcs & Hn & _).
  unfold encode_batch, decode_batch. cbn [b_type b_children b_cl b_params].
  rewrite read_byte_enc by lia. unfold valid_batch_type.
  destruct (N.leb_spec (b_type m) 2) as [_|Hbad]; [|lia]. cbn [negb].
  rewrite read_short_enc by exact Hn. rewrite Nat2N.id.
  rewrite (decode_children_encode _ _ Hcs). rewrite read_short_enc by exact Hcl. reflexivity.
Qed.

(** ** Truncation.  Cutting ANY accepted body anywhere inside its leading part (everything up
    to and including the consistency) yields an error -- never an acceptance with other
    fields, never a panic. *)
Lemma firstn_in_prefix (p t : bytes) k :
  (k < length p)%nat -> firstn k (p ++ t) = firstn k p /\ sprefix (firstn k p) p.
Proof.
  intro H. split; [|apply sprefix_firstn; exact H].
  rewrite firstn_app. replace (k - length p)%nat with 0%nat by lia. apply app_nil_r.
Qed.

Theorem truncated_query_rejected b m k :
  decode_query b = Ok m -> (k < length b - length (q_params m))%nat ->
  exists e, decode_query (firstn k b) = Err e.
Proof.
  intros H Hk. destruct (decode_query_prefix b m H) as (p & Hb & _ & _ & Ht).
  rewrite Hb in Hk |- *. rewrite app_length in Hk.
  destruct (firstn_in_prefix p (q_params m) k ltac:(lia)) as [-> Hs]. exact (Ht _ Hs).
Qed.

Theorem truncated_execute_rejected v b m k :
  decode_execute v b = Ok m -> (k < length b - length (x_params m))%nat ->
  exists e, decode_execute v (firstn k b) = Err e.
Proof.
  intros H Hk. destruct (decode_execute_prefix v b m H) as (p & Hb & _ & _ & Ht).
  rewrite Hb in Hk |- *. rewrite app_length in Hk.
  destruct (firstn_in_prefix p (x_params m) k ltac:(lia)) as [-> Hs]. exact (Ht _ Hs).
Qed.

Theorem truncated_batch_rejected b m k :
  decode_batch b = Ok m -> (k < length b - length (b_params m))%nat ->
  exists e, decode_batch (firstn k b) = Err e.
Proof.
  intros H Hk. destruct (decode_batch_prefix b m H) as (p & Hb & _ & _ & Ht).
  rewrite Hb in Hk |- *. rewrite app_length in Hk.
  destruct (firstn_in_prefix p (b_params m) k ltac:(lia)) as [-> Hs]. exact (Ht _ Hs).
Qed.

(** the same for the reference layouts, with the leading part spelled out *)
Definition ref_query_lead (q : bytes) (cl : N) : bytes := enc_long_string q ++ enc_short cl.
Definition ref_execute_lead (v : N) (id rmid : bytes) (cl : N) : bytes :=
  enc_short_bytes id ++ (if supports_rmid v then enc_short_bytes rmid else []) ++ enc_short cl.
Definition ref_batch_lead (t : N) (cs : list rchild) (cl : N) : bytes :=
  enc_byte t ++ enc_short (N.of_nat (length cs)) ++ concat (map ref_child cs) ++ enc_short cl.

Lemma ref_query_split q cl tail : ref_query q cl tail = ref_query_lead q cl ++ tail.
Proof. unfold ref_query, ref_query_lead. rewrite <- !app_assoc. reflexivity. Qed.
Lemma ref_execute_split v id rmid cl tail : ref_execute v id rmid cl tail = ref_execute_lead v id rmid cl ++ tail.
Proof. unfold ref_execute, ref_execute_lead. rewrite <- !app_assoc. reflexivity. Qed.
Lemma ref_batch_split t cs cl tail : ref_batch t cs cl tail = ref_batch_lead t cs cl ++ tail.
Proof. unfold ref_batch, ref_batch_lead. rewrite <- !app_assoc. reflexivity. Qed.

Theorem truncated_ref_query_rejected q cl tail k :
  len31 q -> cl < 65536 -> (k < length (ref_query_lead q cl))%nat ->
  exists e, decode_query (firstn k (ref_query q cl tail)) = Err e.
Proof.
  intros Hq Hcl Hk. apply (truncated_query_rejected _ _ k (decode_ref_query q cl tail Hq Hcl)).
  cbn [q_params]. rewrite ref_query_split, app_length. lia.
Qed.

Theorem truncated_ref_execute_rejected v id rmid cl tail k :
  id <> [] -> len16 id -> (supports_rmid v = true -> rmid <> [] /\ len16 rmid) -> cl < 65536 ->
  (k < length (ref_execute_lead v id rmid cl))%nat ->
  exists e, decode_execute v (firstn k (ref_execute v id rmid cl tail)) = Err e.
Proof.
  intros H1 H2 H3 Hcl Hk.
  apply (truncated_execute_rejected _ _ _ k (decode_ref_execute v id rmid cl tail H1 H2 H3 Hcl)).
  cbn [x_params]. rewrite ref_execute_split, app_length. lia.
Qed.

Theorem truncated_ref_batch_rejected t cs cl tail k :
  t <= 2 -> Forall wf_child cs -> N.of_nat (length cs) < 65536 -> cl < 65536 ->
  (k < length (ref_batch_lead t cs cl))%nat ->
  exists e, decode_batch (firstn k (ref_batch t cs cl tail)) = Err e.
Proof.
  intros H1 H2 H3 Hcl Hk.
  apply (truncated_batch_rejected _ _ k (decode_ref_batch t cs cl tail H1 H2 H3 Hcl)).
  cbn [b_params]. rewrite ref_batch_split, app_length. lia.
Qed.

Example truncated_ref_batch_ex :
  let cs := [{| rc_id := QStr [65]; rc_values := [VBytes [7]; VNull] |}; {| rc_id := QId [8;9]; rc_values := [] |}] in
  length (ref_batch_lead 1 cs 6) = 29%nat /\
  forallb (fun k => match decode_batch (firstn k (ref_batch 1 cs 6 [0;1;2])) with Err _ => true | _ => false end)
          (seq 0 29) = true /\
  is_ok (decode_batch (firstn 29 (ref_batch 1 cs 6 [0;1;2]))) = true.
Proof. vm_compute. auto. Qed.

(** ** axiom audit *)
Print Assumptions decode_query_prefix.
Print Assumptions encode_decode_query_gen.
Print Assumptions encode_decode_query_iff.
Print Assumptions encode_decode_query_nonempty.
Print Assumptions encode_decode_query_refuted.
Print Assumptions decode_encode_query_stable.
Print Assumptions decode_execute_prefix.
Print Assumptions encode_decode_execute.
Print Assumptions decode_encode_execute_stable.
Print Assumptions decode_batch_prefix.
Print Assumptions encode_decode_batch_length.
Print Assumptions encode_decode_batch_iff.
Print Assumptions encode_decode_batch_nonempty.
Print Assumptions encode_decode_batch_refuted.
Print Assumptions decode_encode_batch_stable.
Print Assumptions truncated_query_rejected.
Print Assumptions truncated_execute_rejected.
Print Assumptions truncated_batch_rejected.
Print Assumptions truncated_ref_query_rejected.
Print Assumptions truncated_ref_execute_rejected.
Print Assumptions truncated_ref_batch_rejected.

(** ** further non-vacuity: the general theorems on a NON-canonical accepted body *)
Example noncanonical_query_ex :
  let b := [255; 255; 255; 255; 0; 1; 7] in
  wf_bytes b /\ lstr_neg b = true /\
  match decode_query b with
  | Ok m =>
      encode_query m = [0; 0; 0; 0; 0; 1; 7] /\                       (* [encode_decode_query_gen] *)
      decode_query (encode_query m) = Ok m /\                          (* [decode_encode_query_stable] *)
      decode_query (firstn 5 b) = Err (str "consistency") /\           (* [truncated_query_rejected] *)
      decode_query (firstn 3 b) = Err (str "query")
  | _ => False
  end.
Proof. split; [apply wf_bytesb_true; reflexivity|]. vm_compute. auto 10. Qed.

Example nonempty_batch_ex :
  let b := [1; 0;2; 0; 0;0;0;1;65; 0;0;  1; 0;0; 0;0;  0;6] in
  wf_bytes b /\
  match decode_batch b with
  | Ok m => Forall (fun c => ch_id c <> QStr []) (b_children m) /\ encode_batch m = b /\
            decode_batch (encode_batch {| b_type := b_type m; b_children := b_children m; b_cl := 4; b_params := b_params m |})
            = Ok {| b_type := b_type m; b_children := b_children m; b_cl := 4; b_params := b_params m |}
  | _ => False
  end.
Proof.
  split; [apply wf_bytesb_true; reflexivity|]. vm_compute.
  split; [repeat constructor; discriminate|auto].
Qed.
