(** More about Model/Gate.v (property C13): classification of every outcome of [receive] on an
    arbitrary byte list, and what a local answer may do to the connection state. *)
From Coq Require Import List ZArith NArith Bool Lia.
From CqlProxy Require Import Lib.Val Lib.Util Lib.Wire Gen.Tables Model.Frame Model.Override Model.Gate
  Proofs.GateProofs.
Import ListNotations.
Local Open Scope N_scope.

(** opcodes whose bodies the model decodes (everything a client may legitimately send, plus READY) *)
Definition modelled_opcode (o : N) : bool :=
  (o =? 5) || (o =? 1) || (o =? 11) || (o =? 7) || (o =? 9) || (o =? 10) || (o =? 13) || (o =? 15) || (o =? 2).

(** Every outcome of [gate], for every header, body and state:
    - closed, or dispatched (only PREPARE/QUERY/EXECUTE/BATCH, only versions in [3, maxv]), or
    - answered with EXACTLY ONE frame, the state changing only through STARTUP (compression, to a
      supported algorithm; registration kept) or REGISTER (registration, only ever switched on;
      compression kept), or
    - [GUnmodelled], only for an in-range version, an opcode outside the modelled set and a
      non-empty message. *)
Theorem gate_classification maxv st h body :
  match gate maxv st h body with
  | GClosed => True
  | GDispatched =>
      3 <= h_version h <= maxv /\
      (h_opcode h = 7 \/ h_opcode h = 9 \/ h_opcode h = 10 \/ h_opcode h = 13)
  | GAnswered rs st' =>
      (exists r, rs = [r]) /\
      (st' = st \/
       (h_opcode h = 1 /\ registered st' = registered st /\ compression_supported (comp st') = true) \/
       (h_opcode h = 11 /\ comp st' = comp st /\ (registered st = true -> registered st' = true)))
  | GUnmodelled =>
      3 <= h_version h <= maxv /\ modelled_opcode (h_opcode h) = false /\
      exists pl msg, split_envelope (h_flags h) body = Some (pl, msg) /\ msg <> []
  end.
Proof.
  unfold gate.
  destruct ((maxv <? h_version h) || (h_version h <? 3)) eqn:Ev.
  { split; [eauto|]. left. reflexivity. }
  assert (Hrange : 3 <= h_version h <= maxv).
  { apply orb_false_iff in Ev. destruct Ev as [E1 E2]. apply N.ltb_ge in E1. apply N.ltb_ge in E2. lia. }
  destruct (flag_compressed (h_flags h) && negb (compression_supported (comp st))); [exact Logic.I|].
  destruct (split_envelope (h_flags h) body) as [[pl msg]|] eqn:Es; [|exact Logic.I].
  unfold modelled_opcode.
  destruct (N.eqb_spec (h_opcode h) 5) as [E5|N5]; [split; [eauto|left; reflexivity]|].
  destruct (N.eqb_spec (h_opcode h) 1) as [E1|N1].
  { destruct (read_string_map msg) as [opts|]; [|exact Logic.I].
    destruct (map_get (str "COMPRESSION") opts) as [cname|].
    - destruct (compression_supported cname) eqn:Ec.
      + split; [eauto|]. right. left. cbn [comp registered]. auto.
      + split; [eauto|]. left. reflexivity.
    - split; [eauto|]. left. reflexivity. }
  destruct (N.eqb_spec (h_opcode h) 11) as [E11|N11].
  { destruct (read_string_list msg) as [evs|]; [|exact Logic.I].
    destruct (forallb valid_event_type evs); [|exact Logic.I].
    split; [eauto|]. right. right. cbn [comp registered]. split; [exact E11|]. split; [reflexivity|].
    intros ->. reflexivity. }
  destruct (N.eqb_spec (h_opcode h) 7) as [E7|N7]; [cbn [orb]; split; [exact Hrange|auto]|].
  destruct (N.eqb_spec (h_opcode h) 9) as [E9|N9]; [cbn [orb]; split; [exact Hrange|auto]|].
  destruct (N.eqb_spec (h_opcode h) 10) as [E10|N10]; [cbn [orb]; split; [exact Hrange|auto]|].
  destruct (N.eqb_spec (h_opcode h) 13) as [E13|N13]; [cbn [orb]; split; [exact Hrange|auto]|].
  cbn [orb].
  destruct (N.eqb_spec (h_opcode h) 15) as [E15|N15].
  { destruct (read_bytes_val msg); [|exact Logic.I]. split; [eauto|left; reflexivity]. }
  destruct (N.eqb_spec (h_opcode h) 2) as [E2|N2]; [split; [eauto|left; reflexivity]|].
  destruct msg as [|m0 msg']; [exact Logic.I|].
  split; [exact Hrange|]. split; [reflexivity|]. exists pl, (m0 :: msg'). split; [reflexivity|discriminate].
Qed.

(** The same for one frame off the wire, for EVERY byte list. *)
Theorem receive_classification maxv st frame lb :
  match receive maxv st frame lb with
  | GClosed => True
  | GDispatched =>
      exists h r, decode_header frame = inr (h, r) /\ 3 <= h_version h <= maxv /\
        (h_opcode h = 7 \/ h_opcode h = 9 \/ h_opcode h = 10 \/ h_opcode h = 13)
  | GAnswered rs st' =>
      exists h r, decode_header frame = inr (h, r) /\ (exists rp, rs = [rp]) /\
      (st' = st \/
       (h_opcode h = 1 /\ registered st' = registered st /\ compression_supported (comp st') = true) \/
       (h_opcode h = 11 /\ comp st' = comp st /\ (registered st = true -> registered st' = true)))
  | GUnmodelled =>
      exists h r, decode_header frame = inr (h, r) /\ 3 <= h_version h <= maxv /\
        modelled_opcode (h_opcode h) = false
  end.
Proof.
  unfold receive. destruct (decode_header frame) as [e|[h r]] eqn:Hd; [exact Logic.I|].
  destruct (h_len h <? 0)%Z; [exact Logic.I|].
  destruct (get_z (h_len h) r) as [[body rest]|]; [|exact Logic.I].
  pose proof (gate_classification maxv st h (match lb with Some l => l | None => body end)) as Hc.
  destruct (gate maxv st h (match lb with Some l => l | None => body end)) as [|rs st'| |].
  - exact Logic.I.
  - exists h, r. split; [reflexivity|]. exact Hc.
  - exists h, r. split; [reflexivity|]. exact Hc.
  - exists h, r. split; [reflexivity|]. destruct Hc as (H1 & H2 & _). auto.
Qed.

(** A frame whose opcode is one the model decodes never ends in [GUnmodelled]: the outcome is
    closed, one local answer, or dispatch -- nothing else. *)
Corollary receive_three_outcomes maxv st frame lb h r :
  decode_header frame = inr (h, r) -> modelled_opcode (h_opcode h) = true ->
  receive maxv st frame lb = GClosed \/
  (exists rp st', receive maxv st frame lb = GAnswered [rp] st') \/
  receive maxv st frame lb = GDispatched.
Proof.
  intros Hd Hm. pose proof (receive_classification maxv st frame lb) as Hc.
  destruct (receive maxv st frame lb) as [|rs st'| |].
  - left. reflexivity.
  - right. left. destruct Hc as (h' & r' & _ & (rp & ->) & _). eauto.
  - right. right. reflexivity.
  - destruct Hc as (h' & r' & Hd' & _ & Hm'). rewrite Hd in Hd'. inversion Hd'; subst. congruence.
Qed.

(** REFUTED: "always one of the three".  The model has a fourth outcome for frames it does not
    decode; e.g. an ERROR frame (response direction) with a non-empty body sent by a client. *)
Theorem receive_three_outcomes_refuted :
  exists maxv st frame lb, receive maxv st frame lb = GUnmodelled.
Proof. exists 4, init_cstate, [132; 0; 0; 1; 0; 0; 0; 0; 1; 9], None. vm_compute. reflexivity. Qed.

Example receive_classification_ex :
  receive 4 init_cstate ([4; 0; 0; 1; 11; 0; 0; 0; 17; 0; 1; 0; 13] ++ str "SCHEMA_CHANGE") None
  = GAnswered [RReady] {| comp := []; registered := true |} /\
  receive 4 init_cstate [4; 0; 0; 1; 7; 0; 0; 0; 0] None = GDispatched /\
  receive 4 init_cstate [4; 0; 0; 1; 7; 0; 0; 0; 5] None = GClosed.
Proof. vm_compute. auto. Qed.

(** ** axiom audit *)
Print Assumptions gate_classification.
Print Assumptions receive_classification.
Print Assumptions receive_three_outcomes.
Print Assumptions receive_three_outcomes_refuted.
