(** Proofs about Model/Layout.v: the token list does not depend on how much blank space separates
    the tokens, for every rule list, under the computable side condition [layout_ok]. *)
From Coq Require Import List Arith NArith Bool Lia.
From CqlProxy Require Import Lib.Val Lib.Regex Gen.LexRules Model.Lexer Model.Parser Proofs.RegexProofs Model.Layout.
Import ListNotations.
Local Open Scope N_scope.

(** ** [dead] and [le_eps] are sound *)

Lemma empty_ranges_sound rs c : empty_ranges rs = true -> in_ranges c rs = false.
Proof.
  induction rs as [|[lo hi] rs IH]; [reflexivity|]. cbn [empty_ranges in_ranges]. intro H.
  apply andb_true_iff in H. destruct H as [Hlt Hrs]. rewrite (IH Hrs). rewrite orb_false_r.
  apply N.ltb_lt in Hlt. destruct (lo <=? c) eqn:E1; [|reflexivity]. destruct (c <=? hi) eqn:E2; [|reflexivity].
  apply N.leb_le in E1. apply N.leb_le in E2. lia.
Qed.

Lemma dead_not_nullable r : dead r = true -> nullable r = false.
Proof.
  induction r as [| |rs|a IHa b IHb|a IHa b IHb|a IHa]; cbn [dead nullable]; intro H; try reflexivity; try discriminate.
  - apply orb_true_iff in H. destruct H as [H|H]; [rewrite (IHa H); reflexivity|rewrite (IHb H); apply andb_false_r].
  - apply andb_true_iff in H. destruct H as [Ha Hb]. rewrite (IHa Ha), (IHb Hb). reflexivity.
Qed.

Lemma dead_mk_cat a b : dead a || dead b = true -> dead (mk_cat a b) = true.
Proof.
  intro H. destruct a; destruct b; cbn [mk_cat dead] in *; try reflexivity; try discriminate; try exact H;
    try (rewrite orb_false_r in H; exact H).
Qed.

Lemma dead_mk_alt a b : dead a = true -> dead b = true -> dead (mk_alt a b) = true.
Proof.
  intros Ha Hb. unfold mk_alt.
  destruct a; destruct b; try exact Ha; try exact Hb; try discriminate;
    match goal with |- dead (if ?c then _ else _) = true => destruct c end;
    cbn [dead] in *; try exact Ha; try exact Hb; try (rewrite Ha, Hb; reflexivity).
Qed.

Lemma dead_deriv c r : dead r = true -> dead (deriv c r) = true.
Proof.
  induction r as [| |rs|a IHa b IHb|a IHa b IHb|a IHa]; cbn [dead deriv]; intro H; try reflexivity; try discriminate.
  - rewrite (empty_ranges_sound rs c H). reflexivity.
  - apply orb_true_iff in H. destruct H as [H|H].
    + rewrite (dead_not_nullable a H). apply dead_mk_cat. rewrite (IHa H). reflexivity.
    + assert (Hc : dead (mk_cat (deriv c a) b) = true) by (apply dead_mk_cat; rewrite H; apply orb_true_r).
      destruct (nullable a); [|exact Hc]. apply dead_mk_alt; [exact Hc|apply IHb; exact H].
  - apply andb_true_iff in H. destruct H as [Ha Hb]. apply dead_mk_alt; [apply IHa; exact Ha|apply IHb; exact Hb].
Qed.

Lemma dead_ders q r : dead r = true -> dead (ders q r) = true.
Proof.
  revert r. induction q as [|c q IH]; intros r H; [exact H|]. change (ders (c :: q) r) with (ders q (deriv c r)).
  apply IH. apply dead_deriv. exact H.
Qed.

(** the specification of [dead] *)
Theorem dead_sound r : dead r = true -> forall s, matches r s = false.
Proof.
  intros H s. rewrite matches_nullable_ders. apply dead_not_nullable. apply dead_ders. exact H.
Qed.

Lemma le_eps_deriv c r : le_eps r = true -> dead (deriv c r) = true.
Proof.
  induction r as [| |rs|a IHa b IHb|a IHa b IHb|a IHa]; cbn [le_eps deriv]; intro H; try reflexivity.
  - rewrite (empty_ranges_sound rs c H). reflexivity.
  - apply orb_true_iff in H. destruct H as [H|H].
    + apply (dead_deriv c (Cat a b)). exact H.
    + apply andb_true_iff in H. destruct H as [Ha Hb].
      assert (Hc : dead (mk_cat (deriv c a) b) = true) by (apply dead_mk_cat; rewrite (IHa Ha); reflexivity).
      destruct (nullable a); [|exact Hc]. apply dead_mk_alt; [exact Hc|apply IHb; exact Hb].
  - apply andb_true_iff in H. destruct H as [Ha Hb]. apply dead_mk_alt; [apply IHa; exact Ha|apply IHb; exact Hb].
  - apply dead_mk_cat. rewrite (IHa H). reflexivity.
Qed.

(** the specification of [le_eps]: only the empty string can match *)
Theorem le_eps_sound r : le_eps r = true -> forall c s, matches r (c :: s) = false.
Proof. intros H c s. cbn [matches]. apply dead_sound. apply le_eps_deriv. exact H. Qed.

(** ** The scanner on an extended input *)

Lemma accept_at_prefix rules t rest k : (k <= length t)%nat -> accept_at rules (t ++ rest) k = accept_at rules t k.
Proof.
  intro Hk. unfold accept_at. rewrite firstn_app. replace (k - length t)%nat with O by lia.
  cbn [firstn]. rewrite app_nil_r. reflexivity.
Qed.

Lemma longest_prefix rules t rest k : (k <= length t)%nat -> longest rules (t ++ rest) k = longest rules t k.
Proof.
  induction k as [|k IH]; intro Hk; [reflexivity|]. cbn [longest]. rewrite accept_at_prefix by exact Hk.
  rewrite IH by lia. reflexivity.
Qed.

Lemma first_nullable_dead rs : forall i, forallb dead rs = true -> first_nullable rs i = None.
Proof.
  induction rs as [|r rs IH]; intros i H; [reflexivity|]. cbn [forallb] in H. apply andb_true_iff in H.
  destruct H as [Hr Hrs]. cbn [first_nullable]. rewrite (dead_not_nullable r Hr). apply IH. exact Hrs.
Qed.

Lemma forallb_dead_ders q rs : forallb dead rs = true -> forallb dead (map (ders q) rs) = true.
Proof.
  intro H. rewrite forallb_forall in *. intros x Hx. apply in_map_iff in Hx. destruct Hx as (r & <- & Hr).
  apply dead_ders. apply H. exact Hr.
Qed.

(** once every derivative is [dead] nothing longer is accepted ([longest_dead] with [dead] for [is_emp]) *)
Lemma longest_dead' rules p rest k :
  forallb dead (map (ders p) rules) = true ->
  longest rules (p ++ rest) (length p + k) = longest rules (p ++ rest) (length p).
Proof.
  intro H. induction k as [|k IH]; [rewrite Nat.add_0_r; reflexivity|].
  rewrite Nat.add_succ_r. cbn [longest]. unfold accept_at.
  rewrite <- Nat.add_succ_r. rewrite firstn_app_len.
  replace (map (ders (p ++ firstn (S k) rest)) rules) with (map (ders (firstn (S k) rest)) (map (ders p) rules))
    by (rewrite map_map; apply map_ext; intro r; rewrite ders_app; reflexivity).
  rewrite first_nullable_dead by (apply forallb_dead_ders; exact H). exact IH.
Qed.

Lemma forallb_map' {A B} (f : A -> B) (p : B -> bool) l : forallb p (map f l) = forallb (fun x => p (f x)) l.
Proof. induction l as [|x l IH]; [reflexivity|]. cbn [map forallb]. rewrite IH. reflexivity. Qed.

Lemma closed_before_spec rules t c :
  closed_before rules t c = forallb dead (map (ders (t ++ [c])) rules).
Proof. unfold closed_before. rewrite forallb_map'. reflexivity. Qed.

(** what follows a token does not disturb it: nothing, or a byte before which the token is closed *)
Definition follows_ok (rules : list re) (t rest : bytes) : Prop :=
  rest = [] \/ closed_before rules t (hd 0 rest) = true.

Lemma single_token_scan rules t idx : single_token rules t = Some idx -> scan_one rules t = Some (length t, idx).
Proof.
  unfold single_token. destruct (scan_one rules t) as [[len i]|]; [|discriminate].
  destruct (Nat.eqb len (length t)) eqn:E; [|discriminate]. apply Nat.eqb_eq in E. intro H. inversion H. subst. reflexivity.
Qed.

Lemma single_token_nonempty rules t idx : single_token rules t = Some idx -> t <> [].
Proof.
  intros H ->. apply single_token_scan in H. apply scan_one_maximal_munch in H. cbn in H. lia.
Qed.

Theorem scan_one_extend rules t idx rest :
  single_token rules t = Some idx -> follows_ok rules t rest -> scan_one rules (t ++ rest) = Some (length t, idx).
Proof.
  intros Hs Hf. apply single_token_scan in Hs. rewrite scan_one_spec in *.
  destruct Hf as [->|Hc]; [rewrite app_nil_r; exact Hs|].
  destruct rest as [|c rest]; [rewrite app_nil_r; exact Hs|]. cbn [hd] in Hc.
  rewrite closed_before_spec in Hc.
  replace (t ++ c :: rest) with ((t ++ [c]) ++ rest) by (rewrite <- app_assoc; reflexivity).
  rewrite app_length. rewrite (longest_dead' rules (t ++ [c]) rest (length rest) Hc).
  assert (Hl : length (t ++ [c]) = S (length t)) by (rewrite app_length; cbn; lia).
  assert (Hfn : firstn (S (length t)) ((t ++ [c]) ++ rest) = t ++ [c]).
  { rewrite <- Hl. rewrite <- (Nat.add_0_r (length (t ++ [c]))). rewrite firstn_app_2. cbn [firstn]. apply app_nil_r. }
  rewrite Hl. cbn [longest]. unfold accept_at. rewrite Hfn.
  rewrite first_nullable_dead by exact Hc.
  rewrite <- app_assoc. rewrite longest_prefix by lia. exact Hs.
Qed.

(** the lexeme the scanner finds is, alone, a single token of the same rule *)
Theorem scan_one_prefix rules input len idx :
  scan_one rules input = Some (len, idx) -> single_token rules (firstn len input) = Some idx.
Proof.
  intro H. pose proof (scan_one_maximal_munch _ _ _ _ H) as (Hlen & _).
  rewrite scan_one_spec in H. unfold single_token. rewrite scan_one_spec.
  assert (Hl : length (firstn len input) = len) by (apply firstn_length_le; lia).
  rewrite Hl. rewrite <- (firstn_skipn len input) in H.
  assert (H2 : longest rules (firstn len input) len = Some (len, idx)).
  { rewrite <- (longest_prefix rules (firstn len input) (skipn len input) len) by lia.
    revert H. generalize (firstn len input ++ skipn len input). intros l H.
    assert (G : forall k, (len <= k)%nat -> longest rules l k = Some (len, idx) -> longest rules l len = Some (len, idx)).
    { induction k as [|k IH]; intros Hk Hk2; [cbn [longest] in Hk2; discriminate|].
      destruct (Nat.eq_dec len (S k)) as [->|Hne]; [exact Hk2|]. cbn [longest] in Hk2.
      destruct (accept_at rules l (S k)); [inversion Hk2; lia|]. apply IH; [lia|exact Hk2]. }
    apply (G (length l)); [|exact H].
    pose proof (longest_sound _ _ _ _ _ H) as (Hle & _). lia. }
  rewrite H2. rewrite Nat.eqb_refl. reflexivity.
Qed.

Lemma longest_none rules input : forall k, longest rules input k = None ->
  forall j, (0 < j <= k)%nat -> accept_at rules input j = None.
Proof.
  induction k as [|k IH]; intros H j Hj; [lia|]. cbn [longest] in H.
  destruct (accept_at rules input (S k)) eqn:Ha; [discriminate|].
  destruct (Nat.eq_dec j (S k)) as [->|Hne]; [exact Ha|]. apply IH; [exact H|lia].
Qed.

Lemma scan_one_none_head rules c rest : scan_one rules (c :: rest) = None -> scan_one rules [c] = None.
Proof.
  rewrite !scan_one_spec. intro H. cbn [length longest].
  pose proof (longest_none _ _ _ H 1%nat) as H1. cbn [length] in H1.
  rewrite <- (accept_at_prefix rules [c] rest 1) by (cbn; lia). cbn [app]. rewrite H1 by lia. reflexivity.
Qed.

(** ** Fuel: any fuel above the input length gives the same result *)
Section Gen.
Variable inv : N.
Variable rules : list re.
Variable acts : list lex_action.

Notation tkz_fuel := (tokenize_gen_fuel inv rules acts).
Notation tkz := (tokenize_gen inv rules acts).
Notation tokof := (token_of inv rules acts).

Lemma scan_one_skipn_shorter input len idx :
  scan_one rules input = Some (len, idx) -> (length (skipn len input) < length input)%nat.
Proof.
  intro H. apply scan_one_maximal_munch in H. destruct H as (Hlen & _). rewrite skipn_length. lia.
Qed.

Lemma tokenize_gen_fuel_irrelevant : forall f1 f2 input,
  (length input < f1)%nat -> (length input < f2)%nat -> tkz_fuel f1 input = tkz_fuel f2 input.
Proof.
  induction f1 as [|f1 IH]; intros f2 input H1 H2; [lia|]. destruct f2 as [|f2]; [lia|].
  cbn [tokenize_gen_fuel]. destruct input as [|c rest1]; [reflexivity|].
  destruct (scan_one rules (c :: rest1)) as [[len idx]|] eqn:Hs.
  - pose proof (scan_one_skipn_shorter _ _ _ Hs) as Hlt. cbv zeta.
    rewrite (IH f2 (skipn len (c :: rest1))) by lia. reflexivity.
  - destruct rest1 as [|d rest2]; [reflexivity|]. rewrite (IH f2 (d :: rest2)) by (cbn [length] in *; lia). reflexivity.
Qed.

Lemma tokenize_gen_fuel_enough f input : (length input < f)%nat -> tkz_fuel f input = tkz input.
Proof. intro H. apply tokenize_gen_fuel_irrelevant; [exact H|lia]. Qed.

(** ** One step of the lexer, at the level of [tokenize_gen] *)

Lemma firstn_app_exact {A} (t rest : list A) : firstn (length t) (t ++ rest) = t.
Proof. rewrite <- (Nat.add_0_r (length t)). rewrite firstn_app_2. cbn. apply app_nil_r. Qed.

Lemma skipn_app_exact {A} (t rest : list A) : skipn (length t) (t ++ rest) = rest.
Proof. induction t as [|x t IH]; [reflexivity|]. cbn. exact IH. Qed.

Lemma step_skip t rest idx :
  t <> [] -> scan_one rules (t ++ rest) = Some (length t, idx) -> nth idx acts Skip = Skip ->
  tkz (t ++ rest) = tkz rest.
Proof.
  intros Hne Hs Ha. unfold tokenize_gen at 1. cbn [tokenize_gen_fuel].
  destruct (t ++ rest) as [|c rest1] eqn:E; [destruct t; [congruence|discriminate]|].
  rewrite Hs. cbv zeta. rewrite Ha. rewrite <- E. rewrite skipn_app_exact.
  apply tokenize_gen_fuel_enough. rewrite app_length. destruct t; [congruence|cbn; lia].
Qed.

Lemma step_tok t rest idx code keep :
  t <> [] -> scan_one rules (t ++ rest) = Some (length t, idx) -> nth idx acts Skip = Tok code keep ->
  (code <> inv \/ rest <> []) ->
  tkz (t ++ rest) = {| t_code := code; t_text := if keep then t else [] |} :: tkz rest.
Proof.
  intros Hne Hs Ha Hc. unfold tokenize_gen at 1. cbn [tokenize_gen_fuel].
  destruct (t ++ rest) as [|c rest1] eqn:E; [destruct t; [congruence|discriminate]|].
  rewrite Hs. cbv zeta. rewrite Ha. rewrite <- E. rewrite skipn_app_exact, firstn_app_exact.
  assert (Hcond : (code =? inv) && match rest with [] => true | _ :: _ => false end = false).
  { destruct Hc as [Hc|Hc]; [apply N.eqb_neq in Hc; rewrite Hc; reflexivity|].
    destruct rest; [congruence|apply andb_false_r]. }
  rewrite Hcond. f_equal.
  apply tokenize_gen_fuel_enough. rewrite app_length. destruct t; [congruence|cbn; lia].
Qed.

(** ** Blank runs are skipped *)

Lemma blank_ok_inv b : blank_ok rules acts b = true ->
  exists idx, single_token rules b = Some idx /\ nth idx acts Skip = Skip /\ forall rest, follows_ok rules b rest.
Proof.
  unfold blank_ok. destruct (single_token rules b) as [idx|] eqn:Hs; [|discriminate].
  destruct (nth idx acts Skip) eqn:Ha; [discriminate|]. intro H. exists idx. split; [reflexivity|]. split; [exact Ha|].
  intros [|c rest]; [left; reflexivity|right]. cbn [hd]. unfold closed_before.
  rewrite forallb_forall in *. intros r Hr. rewrite ders_app. apply le_eps_deriv. apply H. exact Hr.
Qed.

Lemma blanks_ok_in blanks b : blanks_ok rules acts blanks = true -> In b blanks -> blank_ok rules acts b = true.
Proof. unfold blanks_ok. rewrite forallb_forall. intros H Hin. apply H. exact Hin. Qed.

Lemma skip_blank_run blanks s rest :
  blanks_ok rules acts blanks = true -> blank_run blanks s -> tkz (s ++ rest) = tkz rest.
Proof.
  intros Hb Hr. induction Hr as [|b s Hin Hr IH]; [reflexivity|].
  destruct (blank_ok_inv b (blanks_ok_in _ _ Hb Hin)) as (idx & Hs & Ha & Hf).
  rewrite <- app_assoc. rewrite (step_skip b (s ++ rest) idx); [exact IH| |apply scan_one_extend; [exact Hs|apply Hf]|exact Ha].
  apply (single_token_nonempty _ _ _ Hs).
Qed.

Lemma tokenize_gen_nil : tkz [] = [].
Proof. reflexivity. Qed.

Lemma blank_run_tokens blanks s : blanks_ok rules acts blanks = true -> blank_run blanks s -> tkz s = [].
Proof. intros Hb Hr. rewrite <- (app_nil_r s). rewrite (skip_blank_run blanks s [] Hb Hr). reflexivity. Qed.

(** ** Token texts *)

Lemma closed_before_all_spec t cs c :
  closed_before_all rules t cs = true -> In c cs -> closed_before rules t c = true.
Proof.
  unfold closed_before_all, closed_before. cbv zeta. rewrite forallb_forall. intros H Hin. specialize (H c Hin).
  rewrite forallb_map' in H. rewrite forallb_forall in *. intros r Hr. rewrite ders_app. apply H. exact Hr.
Qed.

Lemma tok_ok_inv blanks t : tok_ok rules acts blanks t = true ->
  exists idx code keep, single_token rules t = Some idx /\ nth idx acts Skip = Tok code keep /\
    tokof t = {| t_code := code; t_text := if keep then t else [] |} /\
    forall b, In b blanks -> closed_before rules t (hd 0 b) = true.
Proof.
  unfold tok_ok. destruct (single_token rules t) as [idx|] eqn:Hs; [|discriminate].
  destruct (nth idx acts Skip) as [code keep|] eqn:Ha; [|discriminate]. intro H.
  exists idx, code, keep. split; [reflexivity|]. split; [exact Ha|]. split.
  - unfold token_of. rewrite (single_token_scan _ _ _ Hs). rewrite Ha. reflexivity.
  - intros b Hin. apply (closed_before_all_spec t _ _ H). apply in_map. exact Hin.
Qed.

(** a token followed by a non-empty blank run (and then anything) is not disturbed *)
Lemma follows_blank_run blanks t g rest :
  blanks_ok rules acts blanks = true -> (forall b, In b blanks -> closed_before rules t (hd 0 b) = true) ->
  blank_run blanks g -> g <> [] -> follows_ok rules t (g ++ rest).
Proof.
  intros Hb Hc Hr Hne. right. induction Hr as [|b s Hin Hr IH]; [congruence|].
  destruct (blank_ok_inv b (blanks_ok_in _ _ Hb Hin)) as (idx & Hs & _).
  pose proof (single_token_nonempty _ _ _ Hs) as Hbne. destruct b as [|c b']; [congruence|].
  cbn [app hd]. apply (Hc (c :: b') Hin).
Qed.

Lemma blank_run_nonempty_or_nil blanks g : blank_run blanks g -> g = [] \/ g <> [].
Proof. intros _. destruct g; [left; reflexivity|right; discriminate]. Qed.

Lemma interleave_cons2 t t' ts gaps :
  interleave (t :: t' :: ts) gaps = t ++ hd [] gaps ++ interleave (t' :: ts) (tl gaps).
Proof. reflexivity. Qed.

Lemma last_not_invalid_tail t t' ts :
  last_not_invalid inv rules acts (t :: t' :: ts) = last_not_invalid inv rules acts (t' :: ts).
Proof. reflexivity. Qed.

(** ** The theorem, gaps possibly empty where the tokens allow it *)
Lemma layout_tokens_body blanks : forall ts gaps trail,
  blanks_ok rules acts blanks = true ->
  forallb (tok_ok rules acts blanks) ts = true -> last_not_invalid inv rules acts ts = true ->
  gaps_ok rules blanks ts gaps -> blank_run blanks trail ->
  tkz (interleave ts gaps ++ trail) = map tokof ts.
Proof.
  intros ts gaps trail Hb. revert gaps.
  induction ts as [|t ts IH]; intros gaps Ht Hl Hg Htr.
  - cbn [interleave app map]. apply (blank_run_tokens blanks); assumption.
  - cbn [forallb] in Ht. apply andb_true_iff in Ht. destruct Ht as [Ht Hts].
    destruct (tok_ok_inv blanks t Ht) as (idx & code & keep & Hs & Ha & Htok & Hcl).
    pose proof (single_token_nonempty _ _ _ Hs) as Hne.
    destruct ts as [|t' ts'].
    + (* the last token: followed by the trailing blanks *)
      cbn [interleave map]. rewrite Htok.
      assert (Hf : follows_ok rules t trail).
      { destruct trail as [|c tr] eqn:E; [left; reflexivity|]. rewrite <- (app_nil_r (c :: tr)).
        apply (follows_blank_run blanks); try assumption. discriminate. }
      rewrite (step_tok t trail idx code keep Hne (scan_one_extend _ _ _ _ Hs Hf) Ha).
      * rewrite (blank_run_tokens blanks trail Hb Htr). reflexivity.
      * left. unfold last_not_invalid in Hl. cbn [last] in Hl. rewrite Htok in Hl. cbn [t_code] in Hl.
        apply negb_true_iff in Hl. apply N.eqb_neq. exact Hl.
    + (* an inner token: followed by its gap and the next token *)
      rewrite interleave_cons2. cbn [map]. rewrite Htok.
      cbn [gaps_ok] in Hg. destruct gaps as [|g gaps']; [contradiction|]. destruct Hg as (Hgr & Hgt & Hg').
      cbn [hd tl]. rewrite <- !app_assoc.
      set (X := interleave (t' :: ts') gaps' ++ trail).
      cbn [forallb] in Hts. pose proof Hts as Hts2. apply andb_true_iff in Hts2. destruct Hts2 as [Ht' _].
      destruct (tok_ok_inv blanks t' Ht') as (idx' & _ & _ & Hs' & _).
      pose proof (single_token_nonempty _ _ _ Hs') as Hne'.
      assert (HX : exists c X', X = c :: X' /\ hd 0 t' = c).
      { unfold X. destruct t' as [|c t'']; [congruence|]. destruct ts'; cbn [interleave]; rewrite <- ?app_assoc; cbn [app hd]; eauto. }
      destruct HX as (c & X' & HX & Hc).
      assert (Hf : follows_ok rules t (g ++ X)).
      { destruct g as [|gc g'] eqn:Eg.
        - right. cbn [app]. rewrite HX. cbn [hd]. rewrite <- Hc. apply Hgt. reflexivity.
        - apply (follows_blank_run blanks); try assumption. discriminate. }
      rewrite (step_tok t (g ++ X) idx code keep Hne (scan_one_extend _ _ _ _ Hs Hf) Ha).
      * rewrite (skip_blank_run blanks g X Hb Hgr). unfold X. rewrite (IH gaps' Hts Hl Hg' Htr). reflexivity.
      * right. rewrite HX. destruct g; discriminate.
Qed.

Theorem layout_tokens_gaps blanks ts gaps lead trail :
  layout_ok inv rules acts blanks ts = true ->
  gaps_ok rules blanks ts gaps -> blank_run blanks lead -> blank_run blanks trail ->
  tkz (layout ts gaps lead trail) = map tokof ts.
Proof.
  unfold layout_ok, toks_ok. intros H Hg Hlead Htrail.
  apply andb_true_iff in H. destruct H as [Hb H]. apply andb_true_iff in H. destruct H as [Ht Hl].
  unfold layout. rewrite (skip_blank_run blanks lead _ Hb Hlead). apply (layout_tokens_body blanks); assumption.
Qed.

(** non-empty separators are a special case of gaps *)
Lemma seps_gaps blanks : forall ts seps, seps_ok blanks ts seps -> gaps_ok rules blanks ts seps.
Proof.
  unfold seps_ok. induction ts as [|t ts IH]; intros seps [Hlen Hall]; [exact Logic.I|].
  cbn [gaps_ok]. destruct ts as [|t' ts']; [exact Logic.I|]. destruct seps as [|s seps']; [discriminate|].
  inversion Hall as [|? ? [Hr Hne] Hall']; subst. split; [exact Hr|]. split; [intro; congruence|].
  apply IH. split; [cbn [length pred] in *; lia|exact Hall'].
Qed.

(** The theorem of the brief: every layout of [ts] with non-empty blank separators, any leading
    and trailing blank runs, lexes to exactly the tokens of [ts]. *)
Theorem layout_tokens blanks ts seps lead trail :
  layout_ok inv rules acts blanks ts = true ->
  seps_ok blanks ts seps -> blank_run blanks lead -> blank_run blanks trail ->
  tkz (lead ++ interleave ts seps ++ trail) = map tokof ts.
Proof. intros H Hs. apply (layout_tokens_gaps blanks ts seps lead trail H). apply seps_gaps. exact Hs. Qed.

Corollary layout_invariance_gen blanks ts seps1 lead1 trail1 seps2 lead2 trail2 :
  layout_ok inv rules acts blanks ts = true ->
  gaps_ok rules blanks ts seps1 -> blank_run blanks lead1 -> blank_run blanks trail1 ->
  gaps_ok rules blanks ts seps2 -> blank_run blanks lead2 -> blank_run blanks trail2 ->
  tkz (layout ts seps1 lead1 trail1) = tkz (layout ts seps2 lead2 trail2).
Proof. intros. rewrite !(layout_tokens_gaps blanks); try assumption. reflexivity. Qed.

(** ** The lexemes the lexer finds give back its tokens *)
Notation lexs_fuel := (lexemes_fuel inv rules acts).

Lemma lexemes_tokens_fuel : forall f input, tkz_fuel f input = map tokof (lexs_fuel f input).
Proof.
  induction f as [|f IH]; intro input; [reflexivity|]. cbn [tokenize_gen_fuel lexemes_fuel].
  destruct input as [|c rest1]; [reflexivity|].
  destruct (scan_one rules (c :: rest1)) as [[len idx]|] eqn:Hs.
  - cbv zeta. destruct (nth idx acts Skip) as [code keep|] eqn:Ha; [|apply IH].
    destruct ((code =? inv) && match skipn len (c :: rest1) with [] => true | _ :: _ => false end); [reflexivity|].
    cbn [map]. rewrite IH. f_equal. unfold token_of.
    rewrite (single_token_scan _ _ _ (scan_one_prefix _ _ _ _ Hs)). rewrite Ha. reflexivity.
  - destruct rest1 as [|d rest2]; [reflexivity|]. cbn [map]. rewrite IH. f_equal.
    unfold token_of. rewrite (scan_one_none_head _ _ _ Hs). reflexivity.
Qed.

Theorem lexemes_tokens input : tkz input = map tokof (lexemes inv rules acts input).
Proof. apply lexemes_tokens_fuel. Qed.

End Gen.

(** ** The real lexer *)

Theorem tokenize_is_gen : tokenize = tokenize_gen tkInvalid rule_res rule_acts.
Proof. reflexivity. Qed.

Lemma is_std_blank_run_sound : forall s, is_std_blank_run s = true -> blank_run std_blanks s.
Proof.
  fix IH 1. intros [|c r]; [constructor|]. cbn [is_std_blank_run].
  destruct (c =? 32) eqn:E1; [apply N.eqb_eq in E1; subst; intro H; apply (br_cons std_blanks [32] r); [cbn; tauto|apply IH; exact H]|].
  destruct (c =? 9) eqn:E2; [apply N.eqb_eq in E2; subst; intro H; apply (br_cons std_blanks [9] r); [cbn; tauto|apply IH; exact H]|].
  destruct (c =? 10) eqn:E3; [apply N.eqb_eq in E3; subst; intro H; apply (br_cons std_blanks [10] r); [cbn; tauto|apply IH; exact H]|].
  cbn [orb]. destruct (c =? 13) eqn:E4; [|discriminate]. apply N.eqb_eq in E4; subst.
  destruct r as [|d r']; [discriminate|]. intro H. apply andb_true_iff in H. destruct H as [Hd H].
  apply N.eqb_eq in Hd; subst. apply (br_cons std_blanks [13; 10] r'); [cbn; tauto|apply IH; exact H].
Qed.

Lemma layout_ok_text_unfold q :
  layout_ok_text q = layout_ok tkInvalid rule_res rule_acts std_blanks (lexemes_of q).
Proof. reflexivity. Qed.

(** [layout_ok_text q]: every re-layout of the lexemes of [q] lexes like [q] *)
Theorem layout_ok_text_sound q :
  layout_ok_text q = true ->
  forall gaps lead trail,
    gaps_ok rule_res std_blanks (lexemes_of q) gaps -> blank_run std_blanks lead -> blank_run std_blanks trail ->
    tokenize (layout (lexemes_of q) gaps lead trail) = tokenize q.
Proof.
  intros H gaps lead trail Hg Hl Ht. rewrite tokenize_is_gen.
  rewrite (layout_tokens_gaps tkInvalid rule_res rule_acts std_blanks _ gaps lead trail H Hg Hl Ht).
  symmetry. apply lexemes_tokens.
Qed.

Lemma gaps_okb_sound : forall ts gaps, gaps_okb rule_res ts gaps = true -> gaps_ok rule_res std_blanks ts gaps.
Proof.
  induction ts as [|t ts IH]; intros gaps H; [exact Logic.I|]. cbn [gaps_okb gaps_ok] in *.
  destruct ts as [|t' ts']; [exact Logic.I|]. destruct gaps as [|g gaps']; [discriminate|].
  apply andb_true_iff in H. destruct H as [H Hrest]. apply andb_true_iff in H. destruct H as [Hrun Htight].
  split; [apply is_std_blank_run_sound; exact Hrun|]. split; [|apply IH; exact Hrest].
  intros ->. cbn in Htight. exact Htight.
Qed.

Lemma seps_okb_sound ts seps : seps_okb ts seps = true -> seps_ok std_blanks ts seps.
Proof.
  unfold seps_okb, seps_ok. intro H. apply andb_true_iff in H. destruct H as [Hlen Hall].
  split; [apply Nat.eqb_eq; exact Hlen|]. apply Forall_forall. intros s Hs.
  rewrite forallb_forall in Hall. specialize (Hall s Hs). apply andb_true_iff in Hall. destruct Hall as [Hr Hne].
  split; [apply is_std_blank_run_sound; exact Hr|]. destruct s; [discriminate|discriminate].
Qed.

(** Two layouts of the same token texts lex identically (real lexer) ... *)
Theorem layout_invariance_tokens ts seps1 lead1 trail1 seps2 lead2 trail2 :
  layout_ok tkInvalid rule_res rule_acts std_blanks ts = true ->
  gaps_ok rule_res std_blanks ts seps1 -> blank_run std_blanks lead1 -> blank_run std_blanks trail1 ->
  gaps_ok rule_res std_blanks ts seps2 -> blank_run std_blanks lead2 -> blank_run std_blanks trail2 ->
  tokenize (layout ts seps1 lead1 trail1) = tokenize (layout ts seps2 lead2 trail2).
Proof. rewrite tokenize_is_gen. apply layout_invariance_gen. Qed.

(** ... hence are classified identically. *)
Theorem layout_invariance ts seps1 lead1 trail1 seps2 lead2 trail2 :
  layout_ok tkInvalid rule_res rule_acts std_blanks ts = true ->
  gaps_ok rule_res std_blanks ts seps1 -> blank_run std_blanks lead1 -> blank_run std_blanks trail1 ->
  gaps_ok rule_res std_blanks ts seps2 -> blank_run std_blanks lead2 -> blank_run std_blanks trail2 ->
  is_query_idempotent (layout ts seps1 lead1 trail1) = is_query_idempotent (layout ts seps2 lead2 trail2).
Proof.
  intros. unfold is_query_idempotent. rewrite (layout_invariance_tokens ts seps1 lead1 trail1 seps2 lead2 trail2); auto.
Qed.

Theorem layout_ok_text_verdict q :
  layout_ok_text q = true ->
  forall gaps lead trail,
    gaps_ok rule_res std_blanks (lexemes_of q) gaps -> blank_run std_blanks lead -> blank_run std_blanks trail ->
    is_query_idempotent (layout (lexemes_of q) gaps lead trail) = is_query_idempotent q.
Proof.
  intros H gaps lead trail Hg Hl Ht. unfold is_query_idempotent. rewrite (layout_ok_text_sound q H gaps lead trail Hg Hl Ht). reflexivity.
Qed.

(** ** Non-vacuity *)

(** [dead] / [le_eps] on derivatives: after "ab" the one-letter class is dead; after "a" it is [Eps] *)
Example ex_dead : dead (ders (str "ab") (Cls [(97, 122)])) = true /\ le_eps (ders (str "a") (Cls [(97, 122)])) = true /\
                  dead (Cat (Cls [(5, 3)]) (Star (Cls [(0, 255)]))) = true /\ dead (ders (str "a") (Cls [(97, 122)])) = false.
Proof. vm_compute. repeat split. Qed.

(** a toy lexer (independent of Gen/LexRules.v): words, single spaces, anything else *)
Definition toy_rules : list re := [Cat (Cls [(97, 122)]) (Star (Cls [(97, 122)])); Cls [(32, 32)]; Cls [(0, 255)]].
Definition toy_acts : list lex_action := [Tok 5 true; Skip; Tok 0 false].

Example ex_toy_layout_ok : layout_ok 0 toy_rules toy_acts [[32]] [str "ab"; str "c"; str "#"; str "d"] = true.
Proof. vm_compute. reflexivity. Qed.

Example ex_toy_layout :
  tokenize_gen 0 toy_rules toy_acts (str "  ab   c # d ") = map (token_of 0 toy_rules toy_acts) [str "ab"; str "c"; str "#"; str "d"].
Proof.
  apply (layout_tokens 0 toy_rules toy_acts [[32]] [str "ab"; str "c"; str "#"; str "d"] [str "   "; str " "; str " "] (str "  ") (str " ")).
  - exact ex_toy_layout_ok.
  - split; [reflexivity|]. repeat constructor; try discriminate;
      repeat (apply (br_cons [[32]] [32]); [left; reflexivity|]); constructor.
  - repeat (apply (br_cons [[32]] [32]); [left; reflexivity|]); constructor.
  - repeat (apply (br_cons [[32]] [32]); [left; reflexivity|]); constructor.
Qed.

(** the hypotheses of [scan_one_extend]: SELECT alone is one token and is closed before a space
    (reflection on the current rule list) *)
Example ex_single_token :
  closed_before rule_res (str "SELECT") 32 = true /\
  match single_token rule_res (str "SELECT") with
  | Some idx => scan_one rule_res (str "SELECT * FROM t") = Some (6%nat, idx)
  | None => False
  end.
Proof. vm_compute. split; reflexivity. Qed.

(** the four blank units are accepted for the current rule list; a lone CR is not a blank *)
Example ex_std_blanks : std_blanks_ok = true /\ blank_ok rule_res rule_acts [13] = false.
Proof. vm_compute. split; reflexivity. Qed.

(** statements exercising every token kind of the current rule list *)
Definition kinds_texts : list String.string := [
 "SELECT a, ""B c"", ""q""""q"" FROM ks.t WHERE x <= -1.5e3 AND y >= 2 AND z < 3 AND w > 4 AND v != 5 AND token(k) = ? AND b IN (true, FALSE, null) AND c IS NOT NULL;";
 "UPDATE t USING TTL 5 SET y += 0xAF, z -= {1}, l = [1, 2] + l, m[:k] = 'it''s', u = $do l$, d = 1h30m, d2 = P1Y2M, d3 = 2us - 1 WHERE k = 123e4567-e89b-12d3-a456-426614174000 IF n = -NaN AND i = Infinity;";
 "BEGIN BATCH INSERT INTO t (a) VALUES (1.5) DELETE a FROM t WHERE k = * APPLY BATCH; CREATE ALTER DROP USE x" ]%string.

Example ex_layout_ok_text_all_kinds : map (fun q => layout_ok_text (str q)) kinds_texts = [true; true; true].
Proof. vm_compute. reflexivity. Qed.

(** ... every token code of the rule list except tkInvalid occurs in them (reflection: holds for
    whatever rule list was regenerated, or this Example fails and the texts must be extended) *)
Example ex_all_kinds_covered :
  let codes := flat_map (fun q => map t_code (tokenize (str q))) kinds_texts in
  forallb (fun a => match a with Tok c _ => (c =? tkInvalid) || existsb (N.eqb c) codes | Skip => true end) rule_acts = true.
Proof. vm_compute. reflexivity. Qed.

(** the theorem applied: a statement written tightly, and the same lexemes spread over lines *)
Definition ex_q : bytes := str "INSERT INTO ks.t(a,b)VALUES(-1,'it''s');".
Definition ex_gaps_tight : list bytes := map str [" "; " "; ""; ""; ""; ""; ""; ""; ""; ""; ""; ""; ""; ""; ""; ""]%string.
Definition ex_gaps_wide : list bytes :=
  map (fun s => s ++ [13; 10; 9]) (map str [" "; " "; ""; ""; ""; ""; ""; ""; ""; ""; ""; ""; ""; ""; ""; ""]%string).

Example ex_relayout_hyps :
  layout_ok_text ex_q = true /\ length (lexemes_of ex_q) = 17%nat /\
  gaps_okb rule_res (lexemes_of ex_q) ex_gaps_tight = true /\ layout (lexemes_of ex_q) ex_gaps_tight [] [] = ex_q /\
  gaps_okb rule_res (lexemes_of ex_q) ex_gaps_wide = true /\ seps_okb (lexemes_of ex_q) ex_gaps_wide = true /\
  is_std_blank_run (str "  ") = true.
Proof. vm_compute. repeat split. Qed.

Example ex_relayout :
  is_query_idempotent (layout (lexemes_of ex_q) ex_gaps_wide (str "  ") [10]) = is_query_idempotent ex_q /\
  is_query_idempotent ex_q = (true, 0).
Proof.
  split; [|vm_compute; reflexivity].
  apply layout_ok_text_verdict.
  - vm_compute; reflexivity.
  - apply gaps_okb_sound. vm_compute. reflexivity.
  - apply is_std_blank_run_sound. reflexivity.
  - apply is_std_blank_run_sound. reflexivity.
Qed.

(** ** Where the side condition is FALSE, and rightly so *)

(** an unterminated quoted identifier / string: the lone quote is a tkInvalid lexeme after which the
    string rule is still alive over a blank; re-laying the lexemes of [x "a<LF>b" c] with spaces
    really changes the tokens (the newline was what kept the quoted identifier from forming) *)
Example ex_open_quote_not_ok :
  let q := str "x ""a" ++ [10] ++ str "b"" c" in
  layout_ok_text q = false /\
  lexemes_of q = map str ["x"; """"; "a"; "b"; """"; "c"]%string /\
  closed_before rule_res (str """") 32 = false /\ closed_before rule_res (str """") 10 = true /\
  tokenize (layout (lexemes_of q) (map str [" "; " "; " "; " "; " "]%string) [] []) <> tokenize q.
Proof. vm_compute. repeat split. discriminate. Qed.

Example ex_false_cases :
  map (fun q => layout_ok_text (str q)) ["SELECT 'abc"; "SELECT ""ab"; "SELECT $ab"; "a ' b"]%string = [false; false; false; false] /\
  (* a lone CR is a tkInvalid token that a following LF turns into a blank *)
  layout_ok_text (str "a" ++ [32; 13; 32] ++ str "b") = false /\
  closed_before rule_res [13] 10 = false /\
  tokenize (str "a" ++ [32; 13; 32] ++ str "b") <> tokenize (str "a" ++ [32; 13; 10] ++ str "b").
Proof. vm_compute. repeat split. discriminate. Qed.

(** the bytes that, as one-byte lexemes, fail [tok_ok]: the blanks themselves, CR, and the three
    opening quotes: double quote, dollar, single quote *)
Example ex_open_bytes :
  filter (fun c => negb (tok_ok rule_res rule_acts std_blanks [c])) (map N.of_nat (seq 0 256)) = [9; 10; 13; 32; 34; 36; 39].
Proof. vm_compute. reflexivity. Qed.

(** gaps may not be empty everywhere: [-] [1] written tightly is the integer -1, [1] [.5] a float *)
Example ex_tight_not_ok :
  closed_before rule_res (str "-") 49 = false /\ closed_before rule_res (str "1") 46 = false /\
  closed_before rule_res (str "<") 61 = false /\ closed_before rule_res (str "a") 61 = true.
Proof. vm_compute. repeat split. Qed.

(** ** REFUTED: a trailing blank is not always harmless *)

(** [last_not_invalid] cannot be dropped from [layout_ok]: the lexer drops a tkInvalid token that
    ends exactly at the end of the input and keeps it when a blank follows. *)
Theorem layout_tokens_without_last_not_invalid_refuted :
  exists ts, blanks_ok rule_res rule_acts std_blanks = true /\ forallb (tok_ok rule_res rule_acts std_blanks) ts = true /\
    seps_ok std_blanks ts [[32]] /\
    tokenize (layout ts [[32]] [] []) <> tokenize (layout ts [[32]] [] [32]).
Proof.
  exists [str "a"; str "@"]. split; [vm_compute; reflexivity|]. split; [vm_compute; reflexivity|].
  split; [apply seps_okb_sound; reflexivity|]. vm_compute. discriminate.
Qed.

(** and the VERDICT changes: "DELETE FROM t WHERE k = 1 @" is reported idempotent (the stray byte is
    silently dropped), the same text followed by one space is a parse error, hence not idempotent.
    (Checked against the Go code: parser.IsQueryIdempotent gives true,nil / false,"unexpected token
    in relation".) *)
Theorem trailing_blank_invariance_refuted :
  exists q, is_query_idempotent q = (true, 0) /\ is_query_idempotent (q ++ [32]) = (false, 1) /\
            is_query_idempotent (q ++ [10]) = (false, 1).
Proof. exists (str "DELETE FROM t WHERE k = 1 @"). vm_compute. repeat split. Qed.

(** ** The one-pass check computes the same thing *)
Section FastProofs.
Variable inv : N.
Variable rules : list re.
Variable acts : list lex_action.

Definition drop_ds (x : nat * nat * list re) : nat * nat := fst x.

Lemma munch2_fst : forall input rs len best,
  option_map drop_ds (munch2 rs input len best) = munch rs input len (option_map drop_ds best).
Proof.
  induction input as [|c rest IH]; intros rs len best; cbn [munch2 munch].
  - destruct (first_nullable rs 0); [destruct (Nat.eqb len 0)|]; reflexivity.
  - destruct (forallb is_emp rs).
    + destruct (first_nullable rs 0); [destruct (Nat.eqb len 0)|]; reflexivity.
    + rewrite IH. f_equal. destruct (first_nullable rs 0); [destruct (Nat.eqb len 0)|]; reflexivity.
Qed.

Lemma firstn_app_le {A} (p q : list A) l : (l <= length p)%nat -> firstn l (p ++ q) = firstn l p.
Proof. intro H. rewrite firstn_app. replace (l - length p)%nat with O by lia. cbn [firstn]. apply app_nil_r. Qed.

Definition best_inv (p : list N) (best : option (nat * nat * list re)) : Prop :=
  forall l i ds, best = Some (l, i, ds) -> ds = map (ders (firstn l p)) rules /\ (l <= length p)%nat.

Lemma munch2_ders : forall rest p best, best_inv p best ->
  forall l i ds, munch2 (map (ders p) rules) rest (length p) best = Some (l, i, ds) ->
    ds = map (ders (firstn l (p ++ rest))) rules.
Proof.
  induction rest as [|c rest IH]; intros p best Hb l i ds; cbn [munch2];
    set (best' := match first_nullable (map (ders p) rules) 0 with
                  | Some i0 => if Nat.eqb (length p) 0 then best else Some (length p, i0, map (ders p) rules)
                  | None => best
                  end);
    assert (Hb' : best_inv p best')
      by (unfold best'; destruct (first_nullable (map (ders p) rules) 0); [destruct (Nat.eqb (length p) 0)|]; try exact Hb;
          intros l0 i0 ds0 E; inversion E; subst; rewrite firstn_all; split; [reflexivity|lia]).
  - intro H. destruct (Hb' l i ds H) as [-> Hl]. rewrite app_nil_r. reflexivity.
  - destruct (forallb is_emp (map (ders p) rules)).
    + intro H. destruct (Hb' l i ds H) as [-> Hl]. rewrite firstn_app_le by exact Hl. reflexivity.
    + replace (map (deriv c) (map (ders p) rules)) with (map (ders (p ++ [c])) rules)
        by (rewrite map_map; apply map_ext; intro r; rewrite ders_app; reflexivity).
      replace (S (length p)) with (length (p ++ [c])) by (rewrite app_length; cbn; lia).
      intro H. replace (p ++ c :: rest) with ((p ++ [c]) ++ rest) by (rewrite <- app_assoc; reflexivity).
      apply (IH (p ++ [c]) best') with (i := i); [|exact H].
      intros l0 i0 ds0 E. destruct (Hb' l0 i0 ds0 E) as [-> Hl]. split; [rewrite firstn_app_le by exact Hl; reflexivity|].
      rewrite app_length. lia.
Qed.

Lemma scan_one2_some input len idx ds : scan_one2 rules input = Some (len, idx, ds) ->
  scan_one rules input = Some (len, idx) /\ ds = map (ders (firstn len input)) rules.
Proof.
  unfold scan_one2, scan_one. intro H. split.
  - pose proof (munch2_fst input rules 0 None) as E. rewrite H in E. cbn in E. symmetry. exact E.
  - apply (munch2_ders input [] None) with (i := idx); [intros ? ? ? E; discriminate|].
    cbn [length]. replace (map (ders []) rules) with rules by (unfold ders; cbn; rewrite map_id; reflexivity). exact H.
Qed.

Lemma scan_one2_none input : scan_one2 rules input = None -> scan_one rules input = None.
Proof.
  unfold scan_one2, scan_one. intro H. pose proof (munch2_fst input rules 0 None) as E. rewrite H in E. symmetry. exact E.
Qed.

Lemma lexinfo_fuel_spec blanks : forall f input,
  lexinfo_fuel inv rules acts (map (hd 0) blanks) f input =
  map (fun t => (t_code (token_of inv rules acts t), tok_ok rules acts blanks t)) (lexemes_fuel inv rules acts f input).
Proof.
  induction f as [|f IH]; intro input; [reflexivity|]. cbn [lexinfo_fuel lexemes_fuel].
  destruct input as [|c rest1]; [reflexivity|].
  destruct (scan_one2 rules (c :: rest1)) as [[[len idx] ds]|] eqn:Hs2.
  - apply scan_one2_some in Hs2. destruct Hs2 as [Hs ->]. rewrite Hs. cbv zeta.
    destruct (nth idx acts Skip) as [code keep|] eqn:Ha; [|apply IH].
    destruct ((code =? inv) && match skipn len (c :: rest1) with [] => true | _ :: _ => false end); [reflexivity|].
    cbn [map]. rewrite IH. f_equal.
    pose proof (scan_one_prefix _ _ _ _ Hs) as Hst.
    unfold token_of, tok_ok. rewrite Hst. rewrite (single_token_scan _ _ _ Hst). rewrite Ha. reflexivity.
  - apply scan_one2_none in Hs2. rewrite Hs2. destruct rest1 as [|d rest2]; [reflexivity|]. cbn [map]. rewrite IH. f_equal.
    pose proof (scan_one_none_head _ _ _ Hs2) as Hn. unfold token_of, tok_ok, single_token. rewrite Hn. reflexivity.
Qed.

Lemma last_map {A B} (f : A -> B) (l : list A) d d' : l <> [] -> last (map f l) d' = f (last l d).
Proof.
  induction l as [|x l IH]; [congruence|]. intros _. destruct l as [|y l]; [reflexivity|].
  change (last (map f (x :: y :: l)) d') with (last (map f (y :: l)) d').
  change (last (x :: y :: l) d) with (last (y :: l) d). apply IH. discriminate.
Qed.

Lemma toks_ok_info_spec blanks ts :
  toks_ok_info inv (map (fun t => (t_code (token_of inv rules acts t), tok_ok rules acts blanks t)) ts) =
  toks_ok inv rules acts blanks ts.
Proof.
  unfold toks_ok_info, toks_ok, last_not_invalid. rewrite forallb_map'. cbn [snd]. f_equal.
  destruct ts as [|t ts]; [reflexivity|]. cbn [map].
  change ((t_code (token_of inv rules acts t), tok_ok rules acts blanks t) :: map (fun t0 => (t_code (token_of inv rules acts t0), tok_ok rules acts blanks t0)) ts)
    with (map (fun t0 => (t_code (token_of inv rules acts t0), tok_ok rules acts blanks t0)) (t :: ts)).
  rewrite (last_map _ (t :: ts) []) by discriminate. reflexivity.
Qed.
End FastProofs.

Theorem layout_ok_text_fast_eq q : layout_ok_text_fast q = layout_ok_text q.
Proof.
  unfold layout_ok_text_fast, layout_ok_text, lexinfo, std_heads, lexemes_of, lexemes.
  rewrite lexinfo_fuel_spec. rewrite toks_ok_info_spec. reflexivity.
Qed.

Example ex_fast : map (fun q => layout_ok_text_fast (str q)) kinds_texts = [true; true; true] /\
                  layout_ok_text_fast (str "SELECT 'abc") = false.
Proof. vm_compute. split; reflexivity. Qed.
