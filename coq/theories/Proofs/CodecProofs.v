From Coq Require Import List ZArith NArith Bool Lia ZifyN ZifyNat ZifyBool.
From CqlProxy Require Import Lib.Val Lib.Util Lib.Wire Proofs.WireProofs Model.Codec.
Import ListNotations.
Local Open Scope N_scope.

Definition len31 (s : bytes) : Prop := (Z.of_nat (length s) < 2147483648)%Z.
Definition len16 (s : bytes) : Prop := N.of_nat (length s) < 65536.

(** ** QUERY *)
Lemma decode_ref_query q cl tail :
  len31 q -> cl < 65536 ->
  decode_query (ref_query q cl tail) = Ok {| q_query := q; q_cl := cl; q_params := tail |}.
Proof.
  intros Hq Hcl. unfold decode_query, ref_query.
  rewrite read_long_string_enc by exact Hq. rewrite read_short_enc by exact Hcl. reflexivity.
Qed.

Lemma encode_query_ref q cl tail :
  encode_query {| q_query := q; q_cl := cl; q_params := tail |} = ref_query q cl tail.
Proof. reflexivity. Qed.

(** ** EXECUTE *)
Lemma decode_ref_execute v id rmid cl tail :
  id <> [] -> len16 id -> (supports_rmid v = true -> rmid <> [] /\ len16 rmid) -> cl < 65536 ->
  decode_execute v (ref_execute v id rmid cl tail) =
  Ok {| x_id := id; x_rmid := (if supports_rmid v then rmid else []); x_cl := cl; x_params := tail |}.
Proof.
  intros Hid Hidl Hrm Hcl. unfold decode_execute, ref_execute.
  rewrite read_short_bytes_enc by exact Hidl.
  destruct id as [|i0 id']; [congruence|].
  destruct (supports_rmid v) eqn:Ev.
  - destruct (Hrm eq_refl) as [Hne Hl].
    rewrite read_short_bytes_enc by exact Hl.
    destruct rmid as [|r0 rmid']; [congruence|].
    rewrite read_short_enc by exact Hcl. reflexivity.
  - rewrite app_nil_l. rewrite read_short_enc by exact Hcl. reflexivity.
Qed.

Lemma encode_execute_ref v id rmid cl tail :
  encode_execute v {| x_id := id; x_rmid := (if supports_rmid v then rmid else []); x_cl := cl; x_params := tail |}
  = ref_execute v id rmid cl tail.
Proof. unfold encode_execute, ref_execute. simpl. destruct (supports_rmid v); reflexivity. Qed.

(** ** BATCH *)
Definition wf_value (v : rvalue) : Prop := match v with VBytes c => len31 c | _ => True end.

Lemma firstn_app_exact {A} (a b : list A) n : length a = n -> firstn n (a ++ b) = a.
Proof.
  intro H. subst n. rewrite firstn_app, Nat.sub_diag, firstn_all. simpl. apply app_nil_r.
Qed.

Lemma skip_value_enc v r : wf_value v -> skip_value (enc_value v ++ r) = Some (enc_value v, r).
Proof.
  intro Hwf. destruct v as [c| |]; unfold enc_value.
  - rewrite <- app_assoc. unfold skip_value.
    rewrite read_int_enc by (unfold wf_value, len31 in Hwf; lia).
    rewrite (firstn_app_exact (enc_int (Z.of_nat (length c))) (c ++ r) 4 eq_refl).
    destruct (Z.leb_spec (Z.of_nat (length c)) 0) as [Hle|Hgt].
    + assert (length c = 0%nat) by lia. destruct c; [|discriminate]. rewrite app_nil_r. reflexivity.
    + rewrite get_z_app. reflexivity.
  - unfold skip_value. rewrite read_int_enc by lia.
    rewrite (firstn_app_exact (enc_int (-1)) r 4 eq_refl). reflexivity.
  - unfold skip_value. rewrite read_int_enc by lia.
    rewrite (firstn_app_exact (enc_int (-2)) r 4 eq_refl). reflexivity.
Qed.

Lemma skip_n_values_enc vs r :
  Forall wf_value vs ->
  skip_n_values (length vs) (concat (map enc_value vs) ++ r) = Some (concat (map enc_value vs), r).
Proof.
  induction vs as [|v vs IH]; intro Hwf; [reflexivity|].
  inversion Hwf as [|? ? Hv Hvs]; subst. simpl. rewrite <- app_assoc.
  rewrite skip_value_enc by exact Hv. rewrite IH by exact Hvs. reflexivity.
Qed.

Lemma skip_positional_values_enc vs r :
  Forall wf_value vs -> N.of_nat (length vs) < 65536 ->
  skip_positional_values (enc_values vs ++ r) = Some (enc_values vs, r).
Proof.
  intros Hwf Hlen. unfold skip_positional_values, enc_values. rewrite <- app_assoc.
  rewrite read_short_enc by exact Hlen. rewrite Nat2N.id.
  rewrite skip_n_values_enc by exact Hwf. rewrite firstn_app_exact by reflexivity. reflexivity.
Qed.

Definition wf_child (c : rchild) : Prop :=
  match rc_id c with QStr q => len31 q | QId id => len16 id end /\
  Forall wf_value (rc_values c) /\ N.of_nat (length (rc_values c)) < 65536.

Definition partial_of (c : rchild) : pchild := {| ch_id := rc_id c; ch_values := enc_values (rc_values c) |}.

Lemma decode_child_ref c r : wf_child c -> decode_child (ref_child c ++ r) = Ok (partial_of c, r).
Proof.
  intros [Hid [Hvs Hn]]. unfold decode_child, ref_child, partial_of.
  destruct (rc_id c) as [q|id] eqn:E; rewrite <- !app_assoc.
  - rewrite read_byte_enc by lia. simpl N.eqb. cbv iota.
    rewrite read_long_string_enc by exact Hid.
    rewrite skip_positional_values_enc by assumption. reflexivity.
  - rewrite read_byte_enc by lia. simpl N.eqb. cbv iota.
    rewrite read_short_bytes_enc by exact Hid.
    rewrite skip_positional_values_enc by assumption. reflexivity.
Qed.

Lemma decode_children_ref cs r :
  Forall wf_child cs ->
  decode_children (length cs) (concat (map ref_child cs) ++ r) = Ok (map partial_of cs, r).
Proof.
  induction cs as [|c cs IH]; intro Hwf; [reflexivity|].
  inversion Hwf as [|? ? Hc Hcs]; subst. simpl. rewrite <- app_assoc.
  rewrite decode_child_ref by exact Hc. rewrite IH by exact Hcs. reflexivity.
Qed.

Lemma decode_ref_batch t cs cl tail :
  t <= 2 -> Forall wf_child cs -> N.of_nat (length cs) < 65536 -> cl < 65536 ->
  decode_batch (ref_batch t cs cl tail) =
  Ok {| b_type := t; b_children := map partial_of cs; b_cl := cl; b_params := tail |}.
Proof.
  intros Ht Hcs Hn Hcl. unfold decode_batch, ref_batch.
  rewrite read_byte_enc by lia.
  unfold valid_batch_type. destruct (N.leb_spec t 2) as [_|Hbad]; [|lia]. simpl negb. cbv iota.
  rewrite read_short_enc by exact Hn. rewrite Nat2N.id.
  rewrite decode_children_ref by exact Hcs. rewrite read_short_enc by exact Hcl. reflexivity.
Qed.

Lemma encode_child_ref c : encode_child (partial_of c) = ref_child c.
Proof. unfold encode_child, partial_of, ref_child. simpl. destruct (rc_id c); reflexivity. Qed.

Lemma encode_batch_ref t cs cl tail :
  encode_batch {| b_type := t; b_children := map partial_of cs; b_cl := cl; b_params := tail |}
  = ref_batch t cs cl tail.
Proof.
  unfold encode_batch, ref_batch. simpl. rewrite map_length, map_map.
  rewrite (map_ext _ _ encode_child_ref). reflexivity.
Qed.

(** ** No decoder ever panics or runs out of fuel, on any byte list *)
Lemma decode_query_total b : match decode_query b with Ok _ | Err _ => True | _ => False end.
Proof.
  unfold decode_query. destruct (read_long_string b) as [[q r]|]; [|exact Logic.I].
  destruct (read_short r) as [[cl r']|]; exact Logic.I.
Qed.

Lemma decode_execute_total v b : match decode_execute v b with Ok _ | Err _ => True | _ => False end.
Proof.
  unfold decode_execute. destruct (read_short_bytes b) as [[id r]|]; [|exact Logic.I].
  destruct id as [|i0 id']; [exact Logic.I|].
  destruct (supports_rmid v).
  - destruct (read_short_bytes r) as [[rm r1]|]; [|exact Logic.I].
    destruct rm as [|r0 rm']; [exact Logic.I|]. destruct (read_short r1) as [[cl r2]|]; exact Logic.I.
  - destruct (read_short r) as [[cl r2]|]; exact Logic.I.
Qed.

Lemma decode_child_total b : match decode_child b with Ok _ | Err _ => True | _ => False end.
Proof.
  unfold decode_child. destruct (read_byte b) as [[k r]|]; [|exact Logic.I].
  destruct (k =? 0).
  - destruct (read_long_string r) as [[q r1]|]; [|exact Logic.I].
    destruct (skip_positional_values r1) as [[vs r2]|]; exact Logic.I.
  - destruct (k =? 1); [|exact Logic.I].
    destruct (read_short_bytes r) as [[q r1]|]; [|exact Logic.I].
    destruct (skip_positional_values r1) as [[vs r2]|]; exact Logic.I.
Qed.

Lemma decode_children_total n : forall b, match decode_children n b with Ok _ | Err _ => True | _ => False end.
Proof.
  induction n as [|n IH]; intro b; [exact Logic.I|]. simpl.
  pose proof (decode_child_total b) as Hc. destruct (decode_child b) as [[c r]|e|e|]; try contradiction; [|exact Logic.I].
  specialize (IH r). destruct (decode_children n r) as [[cs r']|e|e|]; try contradiction; exact Logic.I.
Qed.

Lemma decode_batch_total b : match decode_batch b with Ok _ | Err _ => True | _ => False end.
Proof.
  unfold decode_batch. destruct (read_byte b) as [[t r]|]; [|exact Logic.I].
  destruct (negb (valid_batch_type t)); [exact Logic.I|].
  destruct (read_short r) as [[n r1]|]; [|exact Logic.I].
  pose proof (decode_children_total (N.to_nat n) r1) as Hc.
  destruct (decode_children (N.to_nat n) r1) as [[cs r2]|e|e|]; try contradiction; [|exact Logic.I].
  destruct (read_short r2) as [[cl r3]|]; exact Logic.I.
Qed.

(** ** The opaque remainder is a suffix of the input: nothing beyond the body is read *)
Lemma read_short_suffix b n r : read_short b = Some (n, r) -> exists p, b = p ++ r.
Proof.
  unfold read_short. destruct b as [|x [|y b']]; try discriminate.
  intro E. inversion E; subst. exists [x; y]. reflexivity.
Qed.

Lemma read_int_suffix b n r : read_int b = Some (n, r) -> exists p, b = p ++ r.
Proof.
  unfold read_int, read_u32. destruct b as [|x [|y [|z [|w b']]]]; try discriminate.
  intro E. inversion E; subst. exists [x; y; z; w]. reflexivity.
Qed.

Lemma read_long_string_suffix b s r : read_long_string b = Some (s, r) -> exists p, b = p ++ r.
Proof.
  unfold read_long_string. destruct (read_int b) as [[n r0]|] eqn:E; [|discriminate].
  apply read_int_suffix in E. destruct E as [p ->].
  destruct (n <=? 0)%Z.
  - intro H. inversion H; subst. exists p. reflexivity.
  - intro H. apply get_z_split in H. subst r0. exists (p ++ s). rewrite app_assoc. reflexivity.
Qed.

Lemma decode_query_suffix b m : decode_query b = Ok m -> exists p, b = p ++ q_params m.
Proof.
  unfold decode_query. destruct (read_long_string b) as [[q r]|] eqn:E1; [|discriminate].
  destruct (read_short r) as [[cl r']|] eqn:E2; [|discriminate].
  intro H. inversion H; subst. simpl.
  apply read_long_string_suffix in E1. destruct E1 as [p1 ->].
  apply read_short_suffix in E2. destruct E2 as [p2 ->].
  exists (p1 ++ p2). rewrite app_assoc. reflexivity.
Qed.
