(** Proofs about Model/Hostile.v (C17). *)
From Coq Require Import List ZArith NArith Bool Lia.
From CqlProxy Require Import Lib.Val Lib.Util Gen.Tables Model.Lexer Model.Parser Model.Hostile.
Import ListNotations.
Local Open Scope Z_scope.

Lemma zlen_cons x s : zlen (x :: s) = 1 + zlen s.
Proof. unfold zlen. cbn [length]. lia. Qed.

Lemma zlen_nonneg s : 0 <= zlen s.
Proof. unfold zlen. lia. Qed.

(** with a guard of at least 1 the quoted branch has two bytes to work with: no panic, for every string *)
Theorem identifier_from_string_with_never_panics guard id :
  1 <= guard -> exists i, identifier_from_string_with guard id = Ok i.
Proof.
  intro Hg. unfold identifier_from_string_with.
  destruct (zlen id >? guard) eqn:Hl; [|eexists; reflexivity].
  assert (H2 : 2 <= zlen id) by lia.
  unfold go_index. pose proof (zlen_nonneg id).
  replace ((0 <=? 0) && (0 <? zlen id)) with true by (symmetry; apply andb_true_intro; split; lia).
  cbn [bind]. destruct (nth (Z.to_nat 0) id 0%N =? 34)%N; [|eexists; reflexivity].
  unfold go_slice.
  replace ((0 <=? 1) && (1 <=? zlen id - 1) && (zlen id - 1 <=? zlen id)) with true
    by (symmetry; repeat (apply andb_true_intro; split); lia).
  cbn [bind]. eexists; reflexivity.
Qed.

Theorem identifier_from_string_never_panics id : exists i, identifier_from_string id = Ok i.
Proof. apply identifier_from_string_with_never_panics. vm_compute. discriminate. Qed.

(** it computes what the other models use (Parser.ident_of_string) *)
Lemma removelast_firstn_len {A} (l : list A) : removelast l = firstn (length l - 1) l.
Proof.
  induction l as [|x l IH]; [reflexivity|]. destruct l as [|y l]; [reflexivity|].
  change (removelast (x :: y :: l)) with (x :: removelast (y :: l)). rewrite IH.
  cbn [length]. replace (S (S (length l)) - 1)%nat with (S (S (length l) - 1)) by lia. reflexivity.
Qed.

Theorem identifier_from_string_is_ident_of_string id :
  identifier_quote_guard = 1 -> identifier_from_string id = ident_of_string id.
Proof.
  intro Hg. unfold identifier_from_string, identifier_from_string_with. rewrite Hg.
  destruct id as [|c [|d r]]; [reflexivity|reflexivity|].
  rewrite !zlen_cons. pose proof (zlen_nonneg r).
  replace (1 + (1 + zlen r) >? 1) with true by lia.
  unfold go_index. rewrite !zlen_cons.
  replace ((0 <=? 0) && (0 <? 1 + (1 + zlen r))) with true by (symmetry; apply andb_true_intro; split; lia).
  cbn [bind nth Z.to_nat]. unfold ident_of_string.
  destruct (N.eqb_spec c 34) as [->|Hc]; [|reflexivity].
  unfold go_slice. rewrite !zlen_cons.
  replace ((0 <=? 1) && (1 <=? 1 + (1 + zlen r) - 1) && (1 + (1 + zlen r) - 1 <=? 1 + (1 + zlen r))) with true
    by (symmetry; repeat (apply andb_true_intro; split); lia).
  cbn [bind]. unfold ident_of_lexed. f_equal. f_equal.
  replace (Z.to_nat 1) with 1%nat by reflexivity. cbn [skipn].
  rewrite removelast_firstn_len. f_equal. unfold zlen. cbn [length]. lia.
Qed.

(** the defect that was repaired: with the original guard (len > 0) the one-byte string
    consisting of a double quote panics *)
Example original_guard_panics : is_panic (identifier_from_string_with 0 [34%N]) = true.
Proof. vm_compute. reflexivity. Qed.

(** ** the body reader: positions stay within the body, so both slices are in range *)
Lemma read_n_wf r n b r' : reader_wf r -> read_n r n = Some (b, r') -> reader_wf r' /\ r_body r' = r_body r /\ r_pos r <= r_pos r'.
Proof.
  unfold reader_wf, read_n. intros Hwf H.
  destruct ((0 <=? n) && (r_pos r + n <=? zlen (r_body r))) eqn:E; [|discriminate].
  injection H as _ <-. cbn [r_body r_pos]. apply andb_prop in E. destruct E as [E1 E2].
  split; [lia|split; [reflexivity|lia]].
Qed.

Theorem remaining_bytes_never_panics r : reader_wf r -> exists b, remaining_bytes r = Ok b.
Proof.
  unfold reader_wf, remaining_bytes, go_slice. intro H.
  replace ((0 <=? r_pos r) && (r_pos r <=? zlen (r_body r)) && (zlen (r_body r) <=? zlen (r_body r))) with true
    by (symmetry; repeat (apply andb_true_intro; split); lia).
  eexists; reflexivity.
Qed.

(** any sequence of successful reads after noting a position keeps BytesSince(position) in range *)
Fixpoint reads (r : reader) (ns : list Z) : option reader :=
  match ns with
  | [] => Some r
  | n :: rest => match read_n r n with Some (_, r') => reads r' rest | None => None end
  end.

Lemma reads_wf ns : forall r r', reader_wf r -> reads r ns = Some r' -> reader_wf r' /\ r_body r' = r_body r /\ r_pos r <= r_pos r'.
Proof.
  induction ns as [|n rest IH]; intros r r' Hwf H; cbn [reads] in H.
  - injection H as <-. split; [exact Hwf|split; [reflexivity|lia]].
  - destruct (read_n r n) as [[b r1]|] eqn:E; [|discriminate].
    destruct (read_n_wf r n b r1 Hwf E) as (W1 & B1 & P1).
    destruct (IH r1 r' W1 H) as (W2 & B2 & P2). split; [exact W2|split; [congruence|lia]].
Qed.

Theorem bytes_since_never_panics r ns r' :
  reader_wf r -> reads r ns = Some r' -> exists b, bytes_since r' (r_pos r) = Ok b.
Proof.
  intros Hwf H. destruct (reads_wf ns r r' Hwf H) as (W & Bd & P).
  unfold bytes_since, go_slice, reader_wf in *.
  replace ((0 <=? r_pos r) && (r_pos r <=? r_pos r') && (r_pos r' <=? zlen (r_body r'))) with true
    by (symmetry; repeat (apply andb_true_intro; split); lia).
  eexists; reflexivity.
Qed.

(** Execute of every Request implementation, however deeply re-PREPAREs are nested, returns. *)
Theorem execute_never_panics k : exists e, execute_req false k = Ok e.
Proof. induction k as [| |orig IH]; cbn; eauto. Qed.

(** before the repair a backend could reach the two panics *)
Theorem execute_panicked_before_the_repair :
  (exists w, execute_req true KInternal = Panic w) /\ (exists w, execute_req true (KPrepare KClient) = Panic w).
Proof. split; eexists; reflexivity. Qed.
