(** * MonitorExamples: a concrete accepted trace on which every hypothesis of the theorems of MonitorProofs holds,
    one tiny trace per rejection reason of the monitor (every rule can fire, except the two proved unreachable in
    MonitorProofs), and the witnesses of the statements that are false as literally worded. *)
From Coq Require Import List ZArith NArith Bool Lia.
From CqlProxy Require Import Lib.Val Lib.Util Gen.Tables Model.Retry Model.Monitor Model.MonitorSpec Proofs.MonitorProofs.
Import ListNotations.
Local Open Scope Z_scope.

(** ** a checker for [recording_complete] *)
Definition table_kind (x : val) : bool := (rkind x =? 1) || (rkind x =? 2) || (rkind x =? 3) || (rkind x =? 4).
Definition req_kind (x : val) : bool := (rkind x =? 1) || (rkind x =? 2) || (rkind x =? 3) || ((6 <=? rkind x) && (rkind x <=? 8)).

Fixpoint complete_from (pre l : list val) : bool :=
  match l with
  | [] => true
  | x :: l' =>
      (if table_kind x then known pre (rtable x) else true) &&
      (if req_kind x && negb (rreq x =? 0) then started pre (rreq x) else true) &&
      complete_from (pre ++ [x]) l'
  end.

Lemma complete_from_sound l : forall pre, complete_from pre l = true ->
  forall l1 x l2, l = l1 ++ x :: l2 ->
    ((rkind x = 1 \/ rkind x = 2 \/ rkind x = 3 \/ rkind x = 4) -> known (pre ++ l1) (rtable x) = true) /\
    ((rkind x = 1 \/ rkind x = 2 \/ rkind x = 3 \/ 6 <= rkind x <= 8) -> rreq x <> 0 -> started (pre ++ l1) (rreq x) = true).
Proof.
  induction l as [|a l IH]; intros pre H l1 x l2 E; [destruct l1; discriminate|].
  cbn [complete_from] in H. apply andb_true_iff in H. destruct H as [H H3]. apply andb_true_iff in H. destruct H as [H1 H2].
  destruct l1 as [|b l1]; cbn [app] in E; injection E as E1 E2.
  - subst a l. rewrite app_nil_r. split.
    + intro K. assert (T : table_kind x = true) by (unfold table_kind; destruct K as [K|[K|[K|K]]]; rewrite K; reflexivity).
      rewrite T in H1. exact H1.
    + intros K N. assert (T : req_kind x = true).
      { unfold req_kind. destruct K as [K|[K|[K|K]]]; try (rewrite K; reflexivity).
        replace (6 <=? rkind x) with true by (symmetry; apply Z.leb_le; lia). replace (rkind x <=? 8) with true by (symmetry; apply Z.leb_le; lia).
        rewrite !orb_true_r. reflexivity. }
      rewrite T in H2. apply Z.eqb_neq in N. rewrite N in H2. exact H2.
  - subst b l. replace (pre ++ a :: l1) with ((pre ++ [a]) ++ l1) by (rewrite <- app_assoc; reflexivity). eapply IH; eauto.
Qed.

Lemma complete_check recs : complete_from [] recs = true -> recording_complete recs.
Proof. intros H l1 x l2 E. exact (complete_from_sound recs [] H l1 x l2 E). Qed.

(** ** the example: two requests, a retry after UNAVAILABLE, a connection close that moves one request on and exhausts
    the other's plan.  Tables 1 (host h1) and 2 (host h2); requests 1 (plan h1,h2) and 2 (plan h2,h1). *)
Definition h1 := str "h1".
Definition h2 := str "h2".
Definition ex_trace : list val :=
  [ rec_table 1 h1; rec_table 2 h2;
    rec_start 1 7 3 2 (str "h1,h2"); rec_host 1 h1; rec_push 1 0 1 0;
    rec_start 2 7 4 2 (str "h2,h1"); rec_host 2 h2; rec_push 2 0 2 0;
    rec_pop 1 0 1 0; rec_decision 1 1 0 2 (str "4096,0,0,false,"); rec_host 1 h2; rec_push 2 1 1 0;
    rec_closing 2;
    rec_notify 2 0 2 0; rec_onclose 2; rec_host 2 h1; rec_push 1 0 2 0;
    rec_notify 2 1 1 0; rec_onclose 1; rec_host 1 []; rec_reply 1;
    rec_pop 1 0 2 0; rec_reply 2 ].

Definition ex_final : mstate := snd (mrun init_mstate ex_trace 0).

Example ex_trace_accepted : accepted ex_trace ex_final /\ quiescent_ok ex_final = [].
Proof. split; vm_compute; reflexivity. Qed.

Example ex_trace_run_monitor : run_monitor (L [I 8; I 1; L ex_trace]) = L [I 0].
Proof. vm_compute. reflexivity. Qed.

Example ex_trace_complete : recording_complete ex_trace.
Proof. apply complete_check. vm_compute. reflexivity. Qed.

Example ex_trace_born : born_in_trace ex_trace 1 /\ born_in_trace ex_trace 2.
Proof. split; apply complete_born; try lia; exact ex_trace_complete. Qed.

Example ex_trace_tables_once : table_declared_once ex_trace 1 /\ table_declared_once ex_trace 2.
Proof. split; vm_compute; lia. Qed.

(** the instances of the theorems on the example *)
Example ex_M1 : (count (reply_of 1) (life 1 ex_trace) <= 1)%nat /\ count (reply_of 2) (life 2 ex_trace) = 1%nat.
Proof. split; vm_compute; lia. Qed.

Example ex_M4 : kcount (push_of 1) ex_trace = 2%nat /\ kcount (pop_of 1) ex_trace = 1%nat /\ kcount (notify_of 1) ex_trace = 1%nat.
Proof. vm_compute. auto. Qed.

Example ex_M3_split : exists l1 p1 l2 p2 l3, ex_trace = l1 ++ p1 :: l2 ++ p2 :: l3 /\ push_on (1, 0) p1 = true /\ push_on (1, 0) p2 = true /\
  known l1 1 = true /\ existsb (pop_on (1, 0)) l2 = true.
Proof.
  exists (firstn 4 ex_trace), (rec_push 1 0 1 0), (firstn 11 (skipn 5 ex_trace)), (rec_push 1 0 2 0), (skipn 17 ex_trace).
  vm_compute. auto.
Qed.

Example ex_M5_split : exists l1 x l2, ex_trace = l1 ++ x :: l2 /\ notify_on (2, 1) x = true /\ known l1 2 = true /\
  occupied (2, 1) (firstn 12 ex_trace) = true /\ captures (2, 1) ex_trace = 1%nat.
Proof. exists (firstn 17 ex_trace), (rec_notify 2 1 1 0), (skipn 18 ex_trace). vm_compute. auto. Qed.

Example ex_M6 : hosts_taken 1 (life 1 ex_trace) = [h1; h2; []] /\ plan_of 1 ex_trace = [h1; h2].
Proof. vm_compute. auto. Qed.

Example ex_M7 : exists l1 d l2, ex_trace = l1 ++ d :: l2 /\ rkind d = 7 /\ started l1 (rreq d) = true /\
  ra d = Z.of_N (handle_error (rc d =? 2) (err_of_fields (rtext d)) (rb d)) /\ ra d = Z.of_N dec_RetryNext.
Proof. exists (firstn 9 ex_trace), (rec_decision 1 1 0 2 (str "4096,0,0,false,")), (skipn 10 ex_trace). vm_compute. auto. Qed.

(** ** every rule of the monitor fires on some trace *)
Definition verdict_of (recs : list val) : option (nat * bytes) := fst (mrun init_mstate recs 0).
Definition rejects (recs : list val) (i : nat) (why : String.string) : Prop := verdict_of recs = Some (i, str why).

Example rule_closing_connection : rejects [rec_table 1 h1; rec_closing 1; rec_push 1 0 0 1] 2 "request-registered-on-a-closing-connection".
Proof. vm_compute. reflexivity. Qed.
Example rule_stream_in_use : rejects [rec_table 1 h1; rec_push 1 0 0 1; rec_push 1 0 0 1] 2 "stream-id-handed-out-while-still-in-use".
Proof. vm_compute. reflexivity. Qed.
Example rule_written_after_answer :
  rejects [rec_table 1 h1; rec_start 1 7 3 2 h1; rec_host 1 h1; rec_push 1 0 1 0; rec_pop 1 0 1 0; rec_reply 1; rec_push 1 0 1 0] 6
          "request-written-again-after-it-was-answered".
Proof. vm_compute. reflexivity. Qed.
Example rule_two_places :
  rejects [rec_table 1 h1; rec_start 1 7 3 2 h1; rec_host 1 h1; rec_push 1 0 1 0; rec_push 1 1 1 0] 4 "request-registered-in-two-places-at-once".
Proof. vm_compute. reflexivity. Qed.
Example rule_wrong_host :
  rejects [rec_table 1 h1; rec_start 1 7 3 2 h2; rec_host 1 h2; rec_push 1 0 1 0] 3 "request-written-to-a-host-that-is-not-its-current-host".
Proof. vm_compute. reflexivity. Qed.
Example rule_pop_nothing : rejects [rec_table 1 h1; rec_pop 1 0 0 1] 1 "answer-delivered-for-a-stream-nothing-is-registered-on".
Proof. vm_compute. reflexivity. Qed.
Example rule_pop_other_request :
  rejects [rec_table 1 h1; rec_push 1 0 0 1; rec_pop 1 0 5 0] 2 "answer-delivered-to-another-request-than-the-one-registered-on-its-stream".
Proof. vm_compute. reflexivity. Qed.
Example rule_notify_nothing :
  rejects [rec_table 1 h1; rec_notify 1 0 0 1] 1 "close-notification-for-an-entry-that-was-not-pending-when-the-connection-closed".
Proof. vm_compute. reflexivity. Qed.
Example rule_notify_other_request :
  rejects [rec_table 1 h1; rec_push 1 0 0 1; rec_closing 1; rec_notify 1 0 5 0] 3 "close-notification-delivered-to-another-request".
Proof. vm_compute. reflexivity. Qed.
Example rule_started_twice : rejects [rec_start 1 7 3 2 h1; rec_start 1 7 3 2 h1] 1 "request-started-twice".
Proof. vm_compute. reflexivity. Qed.
Example rule_plan_exhausted : rejects [rec_start 1 7 3 2 []; rec_host 1 h1] 1 "host-taken-although-the-plan-is-exhausted".
Proof. vm_compute. reflexivity. Qed.
Example rule_plan_order : rejects [rec_start 1 7 3 2 (str "h1,h2"); rec_host 1 h2] 1 "hosts-not-taken-in-plan-order".
Proof. vm_compute. reflexivity. Qed.
Example rule_moved_on_while_registered :
  rejects [rec_table 1 h1; rec_start 1 7 3 2 (str "h1,h2"); rec_host 1 h1; rec_push 1 0 1 0; rec_host 1 h2] 4
          "request-moved-on-while-an-attempt-is-still-registered".
Proof. vm_compute. reflexivity. Qed.
Example rule_decision_differs :
  rejects [rec_start 1 7 3 2 h1; rec_decision 1 0 0 2 (str "4096,0,0,false,")] 1 "retry-decision-differs-from-the-policy".
Proof. vm_compute. reflexivity. Qed.
Example rule_answered_twice : rejects [rec_start 1 7 3 2 h1; rec_reply 1; rec_reply 1] 2 "request-answered-twice".
Proof. vm_compute. reflexivity. Qed.
Example rule_answered_while_registered :
  rejects [rec_table 1 h1; rec_start 1 7 3 2 h1; rec_host 1 h1; rec_push 1 0 1 0; rec_reply 1] 4
          "request-answered-while-an-attempt-is-still-registered".
Proof. vm_compute. reflexivity. Qed.

(** the rule "request-not-known-to-be-idempotent-is-retried-after-an-unsafe-error" cannot fire: the rule before it forces the
    decision to be [handle_error]'s, and that never retries a non-idempotent request after an unsafe error
    ([nonidem_retry_is_safe]).  It guards against a future change of [handle_error]. *)

(** likewise the quiescence rule "answered-request-still-registered" ([inv_done_unregistered]): an answered request has no registration. *)

(** quiescence rules *)
Example rule_never_answered : run_monitor (L [I 8; I 1; L [rec_start 1 7 3 2 h1]]) = L [I 1; I 1; B (str "request-never-answered")].
Proof. vm_compute. reflexivity. Qed.
Example rule_never_notified :
  run_monitor (L [I 8; I 1; L [rec_table 1 h1; rec_push 1 0 5 0; rec_closing 1]]) = L [I 1; I 3; B (str "entry-pending-at-a-close-never-notified")].
Proof. vm_compute. reflexivity. Qed.

(** ** statements that are FALSE as literally worded, with their witnesses *)

(** "after [closing t] no push on [t] is ever accepted again" fails when a table record re-declares the id [t]: the monitor
    then forgets that the connection is closing.  (Real traces never re-declare an id: one table record per pending table.) *)
Theorem no_push_after_closing_refuted : exists recs s t l1 c l2 p l3,
  accepted recs s /\ recs = l1 ++ c :: l2 ++ p :: l3 /\ closing_of t c = true /\ known l1 t = true /\ push_at t p = true.
Proof.
  exists [rec_table 1 h1; rec_closing 1; rec_table 1 h1; rec_push 1 0 0 1], (snd (mrun init_mstate [rec_table 1 h1; rec_closing 1; rec_table 1 h1; rec_push 1 0 0 1] 0)),
         1, [rec_table 1 h1], (rec_closing 1), [rec_table 1 h1], (rec_push 1 0 0 1), [].
  vm_compute. auto 10.
Qed.

(** "the non-empty host texts are a prefix of the plan" fails for a plan with an empty key ("a,,b"): the empty key is taken by an empty
    host record, which the wording skips. *)
Theorem nonempty_hosts_prefix_refuted : exists recs s r l0 st l1,
  accepted recs s /\ recs = l0 ++ st :: l1 /\ start_of r st = true /\ ~ prefix_of (filter nonempty (hosts_taken r l1)) (fields (rtext st)).
Proof.
  exists [rec_start 1 7 3 2 (str "a,,b"); rec_host 1 (str "a"); rec_host 1 []; rec_host 1 (str "b")],
         (snd (mrun init_mstate [rec_start 1 7 3 2 (str "a,,b"); rec_host 1 (str "a"); rec_host 1 []; rec_host 1 (str "b")] 0)),
         1, [], (rec_start 1 7 3 2 (str "a,,b")), [rec_host 1 (str "a"); rec_host 1 []; rec_host 1 (str "b")].
  repeat split; try (vm_compute; reflexivity). intros (c & H). vm_compute in H. discriminate.
Qed.

(** "each started request has at most one outstanding registration" needs the request to be born in the trace: pushes recorded
    BEFORE its start record are registered without any request-level check *)
Theorem single_registration_needs_born : exists recs s r,
  accepted recs s /\ r <> 0 /\ started recs r = true /\ kcount (push_of r) recs = (kcount (pop_of r) recs + kcount (notify_of r) recs + 2)%nat.
Proof.
  exists [rec_table 1 h1; rec_push 1 0 5 0; rec_push 1 1 5 0; rec_start 5 7 3 2 h1],
         (snd (mrun init_mstate [rec_table 1 h1; rec_push 1 0 5 0; rec_push 1 1 5 0; rec_start 5 7 3 2 h1] 0)), 5.
  repeat split; try (vm_compute; reflexivity). lia.
Qed.

(** more instances on the example *)
Example ex_M2 : exists l1 x l2, ex_trace = l1 ++ x :: l2 /\ reply_of 1 x = true /\ started l1 1 = true /\
  kcount (push_of 1) l1 = (kcount (pop_of 1) l1 + kcount (notify_of 1) l1)%nat.
Proof. exists (firstn 20 ex_trace), (rec_reply 1), (skipn 21 ex_trace). vm_compute. auto. Qed.

Example ex_M8 : exists l0 st l1, ex_trace = l0 ++ st :: l1 /\ start_of 2 st = true /\ count (reply_of 2) l1 = 1%nat.
Proof. exists (firstn 5 ex_trace), (rec_start 2 7 4 2 (str "h2,h1")), (skipn 6 ex_trace). vm_compute. auto. Qed.

Example ex_M9 : exists recs i why s, mrun init_mstate recs 0 = (Some (i, why), s) /\ (i < length recs)%nat /\ accepted (firstn i recs) s.
Proof.
  exists [rec_table 1 h1; rec_push 1 0 0 1; rec_push 1 0 0 1; rec_pop 1 0 0 1], 2%nat, (str "stream-id-handed-out-while-still-in-use"),
         (snd (mrun init_mstate [rec_table 1 h1; rec_push 1 0 0 1] 0)).
  vm_compute. auto.
Qed.

Print Assumptions no_push_after_closing_refuted.
Print Assumptions nonempty_hosts_prefix_refuted.
Print Assumptions single_registration_needs_born.
