From Coq Require Import Arith Bool Lia.
From CqlProxy Require Import Model.Adapt.

(** what a client sent was decoded by the proxy, so it is a frame the codec accepts *)
Theorem adapt_total : forall v f, encodable f = true ->
  exists g, adapt false v f = Some g /\ pver g = v /\ query g = query f /\ tracing g = tracing f /\ encodable g = true.
Proof.
  intros v f He. unfold adapt. destruct (Nat.eqb (pver f) v) eqn:E.
  - apply Nat.eqb_eq in E. exists f. repeat split; assumption.
  - assert (Hg : encodable {| pver := v; payload := payload f && Nat.leb 4 v; tracing := tracing f; query := query f |} = true).
    { unfold encodable; cbn [payload pver]. destruct (payload f); destruct (Nat.leb 4 v); reflexivity. }
    rewrite Hg. eexists; split; [reflexivity|]. cbn [pver query tracing]. repeat split; try reflexivity. exact Hg.
Qed.

Theorem adapt_keeps_a_payload_the_connection_can_carry : forall v f g, 4 <= v -> adapt false v f = Some g -> payload g = payload f.
Proof.
  intros v f g Hv. unfold adapt. destruct (Nat.eqb (pver f) v); [intros H; inversion H; reflexivity|].
  assert (L : Nat.leb 4 v = true) by (apply Nat.leb_le; exact Hv).
  cbn [payload pver]. unfold encodable; cbn [payload pver]. rewrite L, andb_true_r, orb_true_r.
  intros H; inversion H; reflexivity.
Qed.

Theorem adapt_same_version_is_identity : forall orig f, adapt orig (pver f) f = Some f.
Proof. intros orig f. unfold adapt. rewrite Nat.eqb_refl. reflexivity. Qed.

Theorem orig_adapt_fails_refuted : forall v f, v < 4 -> pver f <> v -> payload f = true -> adapt true v f = None.
Proof.
  intros v f Hv Hn Hp. unfold adapt. assert (E : Nat.eqb (pver f) v = false) by (apply Nat.eqb_neq; exact Hn). rewrite E.
  unfold encodable; cbn [payload pver]. rewrite Hp. assert (L : Nat.leb 4 v = false) by (apply Nat.leb_gt; exact Hv).
  rewrite L. reflexivity.
Qed.

Theorem orig_adapt_agrees_otherwise : forall v f, (4 <= v \/ payload f = false) -> adapt true v f = adapt false v f.
Proof.
  intros v f H. unfold adapt. destruct (Nat.eqb (pver f) v); [reflexivity|].
  destruct H as [H|H].
  - assert (L : Nat.leb 4 v = true) by (apply Nat.leb_le; exact H). rewrite L, andb_true_r. reflexivity.
  - rewrite H. reflexivity.
Qed.

Example adapt_case : adapt false 3 {| pver := 4; payload := true; tracing := true; query := 7 |}
                     = Some {| pver := 3; payload := false; tracing := true; query := 7 |}
                     /\ adapt true 3 {| pver := 4; payload := true; tracing := true; query := 7 |} = None.
Proof. split; reflexivity. Qed.
