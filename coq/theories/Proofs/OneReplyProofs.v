(** Proofs about Model/OneReply.v (C01). *)
From Coq Require Import List Arith ZArith NArith Bool Lia.
From CqlProxy Require Import Lib.Val Lib.Util Model.OneReply.
Import ListNotations.

(** ** never two: the number of replies is 1 if [done] and 0 otherwise *)
Definition inv1 (w : world) : Prop := forall r, r_replies (reqs w r) = if r_done (reqs w r) then 1 else 0.

Lemma upd_same {A} (f : nat -> A) i x : upd f i x i = x.
Proof. unfold upd. rewrite Nat.eqb_refl. reflexivity. Qed.
Lemma upd_other {A} (f : nat -> A) i j x : i <> j -> upd f i x j = f j.
Proof. intro H. unfold upd. destruct (Nat.eqb_spec i j); [contradiction|reflexivity]. Qed.

Lemma reply_once_inv1 w r : inv1 w -> inv1 (reply_once w r).
Proof.
  intros H r'. unfold reply_once. destruct (r_done (reqs w r)) eqn:Hd; [apply H|].
  cbn [reqs]. destruct (Nat.eq_dec r r') as [<-|Hne].
  - rewrite upd_same. cbn. rewrite (H r), Hd. reflexivity.
  - rewrite upd_other by exact Hne. apply H.
Qed.

Lemma progress_inv1 targets : forall w r, inv1 w -> inv1 (progress w r targets).
Proof.
  induction targets as [|k rest IH]; intros w r H; cbn [progress].
  - destruct (r_done (reqs w r)); [exact H|apply reply_once_inv1; exact H].
  - destruct (r_done (reqs w r)); [exact H|].
    destruct (k_closing (conns w k)); [apply IH; exact H|]. intro r'. cbn [reqs]. apply H.
Qed.

Lemma step_inv1 w e : inv1 w -> inv1 (step w e).
Proof.
  intro H. destruct e as [r idem targets|r k final targets|k|r k targets]; cbn [step].
  - destruct (r_started (reqs w r)); [exact H|]. apply progress_inv1.
    intro r'. cbn [reqs]. destruct (Nat.eq_dec r r') as [<-|Hne]; [rewrite upd_same; reflexivity|rewrite upd_other by exact Hne; apply H].
  - destruct (negb (existsb (Nat.eqb r) (k_pending (conns w k)))); [exact H|].
    destruct final; [apply reply_once_inv1|apply progress_inv1]; intro r'; cbn [reqs]; apply H.
  - destruct (k_closing (conns w k)); [exact H|]. intro r'. cbn [reqs]. apply H.
  - destruct (negb (existsb (Nat.eqb r) (k_tonotify (conns w k)))); [exact H|].
    destruct (r_idem (reqs w r)); [apply progress_inv1|apply reply_once_inv1]; intro r'; cbn [reqs]; apply H.
Qed.

Lemma run_inv1 es : forall w, inv1 w -> inv1 (fold_left step es w).
Proof. induction es as [|e es IH]; intros w H; [exact H|]. cbn [fold_left]. apply IH. apply step_inv1. exact H. Qed.

Theorem at_most_one_reply es r : r_replies (reqs (run_events es) r) <= 1.
Proof.
  assert (H : inv1 (run_events es)) by (apply run_inv1; intro r'; reflexivity).
  rewrite (H r). destruct (r_done _); lia.
Qed.

(** ** never none: an unanswered request is registered on a live connection or awaits the
    notification of a closing one *)
Definition waiting (w : world) (r : rid) : Prop :=
  exists k, (In r (k_pending (conns w k)) /\ k_closing (conns w k) = false) \/ In r (k_tonotify (conns w k)).

Definition inv2 (w : world) : Prop :=
  (forall r, r_started (reqs w r) = true -> r_done (reqs w r) = false -> waiting w r) /\
  (forall k, k_closing (conns w k) = false -> k_tonotify (conns w k) = []).

Lemma remove_one_other r r' l : r <> r' -> In r' l -> In r' (remove_one r l).
Proof.
  intros Hne. induction l as [|x l IH]; intro H; [exact H|]. cbn [remove_one].
  destruct (Nat.eqb_spec x r) as [->|Hx].
  - destruct H as [H|H]; [congruence|exact H].
  - destruct H as [H|H]; [left; exact H|right; apply IH; exact H].
Qed.

(** facts about a world that only differs in the requests' done/replies fields *)
Lemma reply_once_conns w r : conns (reply_once w r) = conns w.
Proof. unfold reply_once. destruct (r_done (reqs w r)); reflexivity. Qed.

Lemma reply_once_started w r r' : r_started (reqs (reply_once w r) r') = r_started (reqs w r').
Proof.
  unfold reply_once. destruct (r_done (reqs w r)) eqn:Hd; [reflexivity|]. cbn [reqs].
  destruct (Nat.eq_dec r r') as [<-|Hne]; [rewrite upd_same; reflexivity|rewrite upd_other by exact Hne; reflexivity].
Qed.

Lemma reply_once_done_self w r : r_done (reqs (reply_once w r) r) = true.
Proof.
  unfold reply_once. destruct (r_done (reqs w r)) eqn:Hd; [exact Hd|]. cbn [reqs]. rewrite upd_same. reflexivity.
Qed.

Lemma reply_once_done_other w r r' : r <> r' -> r_done (reqs (reply_once w r) r') = r_done (reqs w r').
Proof.
  intro Hne. unfold reply_once. destruct (r_done (reqs w r)); [reflexivity|]. cbn [reqs]. rewrite upd_other by exact Hne. reflexivity.
Qed.

(** [ok_others w w' r]: going from w to w', requests other than r keep their status and their
    registrations, and the connection flags / notification lists only grow for r *)
Definition carries (w w' : world) (r : rid) : Prop :=
  (forall r', r <> r' -> reqs w' r' = reqs w r') /\
  (forall r', r <> r' -> waiting w r' -> waiting w' r') /\
  (forall k, k_closing (conns w' k) = k_closing (conns w k) /\ k_tonotify (conns w' k) = k_tonotify (conns w k)) /\
  r_started (reqs w' r) = r_started (reqs w r).

Lemma progress_spec targets : forall w r,
  carries w (progress w r targets) r /\
  (r_done (reqs (progress w r targets) r) = true \/ waiting (progress w r targets) r).
Proof.
  induction targets as [|k rest IH]; intros w r; cbn [progress].
  - destruct (r_done (reqs w r)) eqn:Hd.
    + split; [|left; exact Hd]. repeat split; auto.
    + split; [|left; apply reply_once_done_self].
      unfold carries. rewrite reply_once_conns. repeat split; auto.
      * intros r' Hne. unfold reply_once. rewrite Hd. cbn [reqs]. rewrite upd_other by exact Hne. reflexivity.
      * intros r' Hne [k Hk]. exists k. rewrite reply_once_conns. exact Hk.
      * apply reply_once_started.
  - destruct (r_done (reqs w r)) eqn:Hd.
    + split; [|left; exact Hd]. repeat split; auto.
    + destruct (k_closing (conns w k)) eqn:Hc; [apply IH|].
      split.
      * unfold carries. cbn [reqs conns]. repeat split; auto.
        -- intros r' Hne [k' Hk']. exists k'. cbn [conns]. destruct (Nat.eq_dec k k') as [<-|Hkk].
           ++ rewrite upd_same. cbn. destruct Hk' as [[Hin Hcl]|Hin]; [left; split; [right; exact Hin|reflexivity]|right; exact Hin].
           ++ rewrite upd_other by exact Hkk. exact Hk'.
        -- destruct (Nat.eq_dec k k0) as [<-|Hkk]; [rewrite upd_same; cbn; symmetry; exact Hc|rewrite upd_other by exact Hkk; reflexivity].
        -- destruct (Nat.eq_dec k k0) as [<-|Hkk]; [rewrite upd_same; reflexivity|rewrite upd_other by exact Hkk; reflexivity].
      * right. exists k. cbn [conns]. rewrite upd_same. cbn. left. split; [left; reflexivity|reflexivity].
Qed.

Definition inv2_except (w : world) (r : rid) : Prop :=
  (forall r', r <> r' -> r_started (reqs w r') = true -> r_done (reqs w r') = false -> waiting w r') /\
  (forall k, k_closing (conns w k) = false -> k_tonotify (conns w k) = []).

Lemma progress_inv2 targets w r : inv2_except w r -> inv2 (progress w r targets).
Proof.
  intros [H1 H2]. destruct (progress_spec targets w r) as [(Hreq & Hwait & Hconn & _) Hr]. split.
  - intros r' Hs Hd. destruct (Nat.eq_dec r r') as [<-|Hne].
    + destruct Hr as [Hdone|Hw]; [congruence|exact Hw].
    + rewrite (Hreq r' Hne) in Hs, Hd. apply (Hwait r' Hne). apply H1; assumption.
  - intros k Hc. destruct (Hconn k) as [Ec Et]. rewrite Et. apply H2. rewrite <- Ec. exact Hc.
Qed.

Lemma reply_once_inv2 w r : inv2_except w r -> inv2 (reply_once w r).
Proof.
  intros [H1 H2]. split.
  - intros r' Hs Hd. destruct (Nat.eq_dec r r') as [<-|Hne].
    + rewrite reply_once_done_self in Hd. discriminate.
    + rewrite reply_once_started in Hs. rewrite reply_once_done_other in Hd by exact Hne.
      destruct (H1 r' Hne Hs Hd) as [k Hk]. exists k. rewrite reply_once_conns. exact Hk.
  - intro k. rewrite reply_once_conns. apply H2.
Qed.

Lemma step_inv2 w e : inv2 w -> inv2 (step w e).
Proof.
  intros Hinv. pose proof Hinv as [H1 H2].
  destruct e as [r idem targets|r k final targets|k|r k targets]; cbn [step].
  - (* Start *)
    destruct (r_started (reqs w r)) eqn:Hs; [exact Hinv|].
    apply progress_inv2. split; cbn [reqs conns].
    + intros r' Hne Hs' Hd'. rewrite upd_other in Hs', Hd' by exact Hne.
      destruct (H1 r' Hs' Hd') as [k Hk]. exists k. exact Hk.
    + exact H2.
  - (* Result *)
    destruct (negb (existsb (Nat.eqb r) (k_pending (conns w k)))); [exact Hinv|].
    assert (Hex : inv2_except
              {| reqs := reqs w;
                 conns := upd (conns w) k {| k_closing := k_closing (conns w k); k_pending := remove_one r (k_pending (conns w k));
                                            k_tonotify := k_tonotify (conns w k) |} |} r).
    { split; cbn [reqs conns].
      - intros r' Hne Hs' Hd'. destruct (H1 r' Hs' Hd') as [k' Hk']. exists k'. cbn [conns].
        destruct (Nat.eq_dec k k') as [<-|Hkk]; [rewrite upd_same; cbn|rewrite upd_other by exact Hkk; exact Hk'].
        destruct Hk' as [[Hin Hcl]|Hin]; [left; split; [apply remove_one_other; assumption|exact Hcl]|right; exact Hin].
      - intros k' Hc. destruct (Nat.eq_dec k k') as [<-|Hkk]; [rewrite upd_same in *; cbn in *; apply H2; exact Hc|].
        rewrite upd_other in * by exact Hkk. apply H2; exact Hc. }
    destruct final; [apply reply_once_inv2|apply progress_inv2]; exact Hex.
  - (* CloseBegin *)
    destruct (k_closing (conns w k)) eqn:Hc; [exact Hinv|]. split; cbn [reqs conns].
    + intros r' Hs' Hd'. destruct (H1 r' Hs' Hd') as [k' Hk']. exists k'. cbn [conns].
      destruct (Nat.eq_dec k k') as [<-|Hkk]; [rewrite upd_same; cbn|rewrite upd_other by exact Hkk; exact Hk'].
      destruct Hk' as [[Hin _]|Hin]; [right; exact Hin|]. rewrite (H2 k Hc) in Hin. destruct Hin.
    + intros k' Hc'. destruct (Nat.eq_dec k k') as [<-|Hkk]; [rewrite upd_same in Hc'; cbn in Hc'; discriminate|].
      rewrite upd_other in * by exact Hkk. apply H2; exact Hc'.
  - (* Notify *)
    destruct (existsb (Nat.eqb r) (k_tonotify (conns w k))) eqn:Hin; cbn [negb]; [|exact Hinv].
    assert (Hclosing : k_closing (conns w k) = true).
    { destruct (k_closing (conns w k)) eqn:Hc; [reflexivity|]. rewrite (H2 k Hc) in Hin. discriminate. }
    assert (Hex : inv2_except
              {| reqs := reqs w;
                 conns := upd (conns w) k {| k_closing := k_closing (conns w k); k_pending := k_pending (conns w k);
                                            k_tonotify := remove_one r (k_tonotify (conns w k)) |} |} r).
    { split; cbn [reqs conns].
      - intros r' Hne Hs' Hd'. destruct (H1 r' Hs' Hd') as [k' Hk']. exists k'. cbn [conns].
        destruct (Nat.eq_dec k k') as [<-|Hkk]; [rewrite upd_same; cbn|rewrite upd_other by exact Hkk; exact Hk'].
        destruct Hk' as [[Hin' Hcl]|Hin']; [left; split; assumption|right; apply remove_one_other; assumption].
      - intros k' Hc. destruct (Nat.eq_dec k k') as [<-|Hkk]; [rewrite upd_same in Hc; cbn in Hc; congruence|].
        rewrite upd_other in * by exact Hkk. apply H2; exact Hc. }
    destruct (r_idem (reqs w r)); [apply progress_inv2|apply reply_once_inv2]; exact Hex.
Qed.

Lemma run_inv2 es : forall w, inv2 w -> inv2 (fold_left step es w).
Proof. induction es as [|e es IH]; intros w H; [exact H|]. cbn [fold_left]. apply IH. apply step_inv2. exact H. Qed.

Lemma init_inv2 : inv2 init_world.
Proof. split; [intros r Hs; discriminate|reflexivity]. Qed.

(** Never none: once every attempt has been answered or its connection dropped (and the drop
    processed), every request that was started has its reply -- exactly one. *)
Theorem none_lost_at_quiescence es r :
  quiescent (run_events es) -> r_started (reqs (run_events es) r) = true ->
  r_done (reqs (run_events es) r) = true /\ r_replies (reqs (run_events es) r) = 1.
Proof.
  intros Hq Hs.
  assert (H2 : inv2 (run_events es)) by (apply run_inv2, init_inv2).
  assert (H1 : inv1 (run_events es)) by (apply run_inv1; intro r'; reflexivity).
  destruct (r_done (reqs (run_events es) r)) eqn:Hd.
  - split; [reflexivity|]. rewrite (H1 r), Hd. reflexivity.
  - exfalso. destruct H2 as [Hw _]. destruct (Hw r Hs Hd) as [k [[Hin Hc]|Hin]].
    + destruct (Hq k) as [_ Hp]. rewrite (Hp Hc) in Hin. destruct Hin.
    + destruct (Hq k) as [Ht _]. rewrite Ht in Hin. destruct Hin.
Qed.
