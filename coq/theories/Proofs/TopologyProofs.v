(** Proofs about Model/Topology.v (C16). *)
From Coq Require Import List ZArith NArith Arith Bool Lia ZifyBool ZifyNat ZifyN.
From CqlProxy Require Import Lib.Val Lib.Util Model.Topology.
Import ListNotations.
Ltac Zify.zify_post_hook ::= Z.div_mod_to_equations.

(** ** A. backoff *)
Local Open Scope Z_scope.

Lemma wrap64_id z : - 2 ^ 63 <= z < 2 ^ 63 -> wrap64 z = z.
Proof. intro H. unfold wrap64. rewrite Z.mod_small; lia. Qed.

(** every delay lies within the configured bounds, for every configuration with 0 < base <= max,
    every attempt counter and every jitter *)
Theorem next_delay_bounds base max attempts j :
  0 < base -> base <= max -> base <= fst (next_delay base max attempts j) <= max.
Proof.
  intros Hb Hm. unfold next_delay.
  destruct (attempts >=? max_attempts base); cbn [fst]; [lia|].
  set (d := wrap64 (wrap64 (base + wrap64 (ms * 2 ^ attempts)) + j * ms)).
  destruct (d >? max) eqn:E1; cbn [orb]; [lia|].
  destruct (d <? base) eqn:E2; lia.
Qed.

Lemma pow2_le_mono a b : 0 <= a <= b -> 2 ^ a <= 2 ^ b.
Proof. intro H. apply Z.pow_le_mono_r; lia. Qed.

(** while nothing overflows -- base delays below 2^45 ns, about 9.7 hours -- the delay is the
    documented one: base + 2^attempts ms + jitter, capped at max *)
Theorem next_delay_exact base max attempts j :
  0 < base < 2 ^ 45 -> base <= max -> 0 <= attempts < max_attempts base -> 85 <= j < 115 ->
  next_delay base max attempts j = (Z.min max (base + ms * 2 ^ attempts + j * ms), attempts + 1).
Proof.
  intros Hb Hm Ha Hj. unfold next_delay.
  assert (Hma : max_attempts base = Z.log2 base).
  { unfold max_attempts. destruct (base =? 0) eqn:E; [lia|]. destruct (base <? 0) eqn:E'; [lia|reflexivity]. }
  rewrite Hma in *.
  assert (Hlog : Z.log2 base < 45) by (apply Z.log2_lt_pow2; lia).
  destruct (attempts >=? Z.log2 base) eqn:E; [lia|].
  assert (Hp : 2 ^ attempts <= 2 ^ 43) by (apply pow2_le_mono; lia).
  assert (Hp0 : 0 < 2 ^ attempts) by (apply Z.pow_pos_nonneg; lia).
  assert (H43 : 2 ^ 43 = 8796093022208) by reflexivity.
  assert (H63 : 2 ^ 63 = 9223372036854775808) by reflexivity.
  assert (H45 : 2 ^ 45 = 35184372088832) by reflexivity.
  unfold ms in *.
  rewrite (wrap64_id (1000000 * 2 ^ attempts)) by lia.
  rewrite (wrap64_id (base + 1000000 * 2 ^ attempts)) by lia.
  rewrite (wrap64_id (base + 1000000 * 2 ^ attempts + j * 1000000)) by lia.
  f_equal.
  destruct (base + 1000000 * 2 ^ attempts + j * 1000000 >? max) eqn:E1; cbn [orb]; [lia|].
  destruct (base + 1000000 * 2 ^ attempts + j * 1000000 <? base) eqn:E2; lia.
Qed.

(** once the attempt counter reaches its ceiling the delay is max and stays there *)
Theorem next_delay_saturates base max attempts j :
  max_attempts base <= attempts -> next_delay base max attempts j = (max, attempts).
Proof. intro H. unfold next_delay. destruct (attempts >=? max_attempts base) eqn:E; [reflexivity|lia]. Qed.

(** every delay of every run of calls is within bounds, whatever the jitters *)
Theorem delays_bounds base max : forall js attempts,
  0 < base -> base <= max -> Forall (fun d => base <= d <= max) (delays base max attempts js).
Proof.
  induction js as [|j r IH]; intros attempts Hb Hm; cbn [delays]; [constructor|].
  pose proof (next_delay_bounds base max attempts j Hb Hm) as H.
  destruct (next_delay base max attempts j) as [d a]. constructor; [exact H|apply IH; assumption].
Qed.

(** after Reset (attempts = 0) the first delay is base + 1 ms + jitter again (capped) *)
Corollary first_delay_after_reset base max j :
  2 <= base < 2 ^ 45 -> base <= max -> 85 <= j < 115 ->
  fst (next_delay base max 0 j) = Z.min max (base + ms + j * ms).
Proof.
  intros Hb Hm Hj. rewrite next_delay_exact; try lia.
  - cbn [fst]. rewrite Z.pow_0_r, Z.mul_1_r. reflexivity.
  - unfold max_attempts. destruct (base =? 0) eqn:E; [lia|]. destruct (base <? 0) eqn:E'; [lia|].
    assert (1 <= Z.log2 base) by (apply Z.log2_le_pow2; lia). lia.
Qed.

(** the guard against overflow matters: without it a base delay of 2^45 ns gives a negative
    delay at attempt 44 (a timer that fires at once, reconnecting in a busy loop) *)
Definition next_delay_unguarded (base max attempts jitter : Z) : Z :=
  let exp := wrap64 (ms * 2 ^ attempts) in
  let delay := wrap64 (wrap64 (base + exp) + jitter * ms) in
  if delay >? max then max else delay.
Example unguarded_delay_negative : next_delay_unguarded (2 ^ 45) (2 ^ 46) 44 100 < 0.
Proof. vm_compute. reflexivity. Qed.

(** ** B. following the peers table *)
Local Open Scope N_scope.

Lemma memh_In x l : memh x l = true <-> In x l.
Proof.
  unfold memh. rewrite existsb_exists. split.
  - intros (y & Hy & He). apply N.eqb_eq in He. subst. exact Hy.
  - intro H. exists x. split; [exact H|apply N.eqb_refl].
Qed.

Lemma memh_app x a b : memh x (a ++ b) = memh x a || memh x b.
Proof. unfold memh. apply existsb_app. Qed.

Lemma memh_cons x y l : memh x (y :: l) = N.eqb x y || memh x l.
Proof. reflexivity. Qed.

Lemma memh_remove_first x h l : NoDup l -> memh x (remove_first h l) = negb (N.eqb x h) && memh x l.
Proof.
  induction l as [|y l IH]; intro Hnd; [cbn; rewrite andb_false_r; reflexivity|].
  inversion Hnd as [|? ? Hy Hnd']; subst. cbn [remove_first]. rewrite memh_cons.
  destruct (N.eqb y h) eqn:Eyh.
  - apply N.eqb_eq in Eyh. subst y.
    destruct (N.eqb x h) eqn:Exh; cbn [negb orb andb]; [|reflexivity].
    apply N.eqb_eq in Exh. subst x. destruct (memh h l) eqn:Hm; [apply memh_In in Hm; contradiction|reflexivity].
  - rewrite memh_cons, (IH Hnd').
    destruct (N.eqb x y) eqn:Exy; cbn [orb]; [|reflexivity].
    apply N.eqb_eq in Exy. subst x. rewrite Eyh. reflexivity.
Qed.

Lemma In_remove_first x h l : In x (remove_first h l) -> In x l.
Proof.
  induction l as [|y l IH]; cbn [remove_first]; [intros []|].
  destruct (N.eqb y h); [intro H; right; exact H|]. intros [H|H]; [left; exact H|right; apply IH; exact H].
Qed.

Lemma NoDup_remove_first h l : NoDup l -> NoDup (remove_first h l).
Proof.
  induction l as [|y l IH]; intro Hnd; [constructor|].
  inversion Hnd as [|? ? Hy Hnd']; subst. cbn [remove_first].
  destruct (N.eqb y h); [exact Hnd'|]. constructor; [|apply IH; exact Hnd'].
  intro H. apply Hy. apply (In_remove_first _ _ _ H).
Qed.

Lemma NoDup_snoc (x : N) l : NoDup l -> ~ In x l -> NoDup (l ++ [x]).
Proof.
  induction l as [|y l IH]; intros Hnd Hx; cbn; [constructor; [intros []|constructor]|].
  inversion Hnd as [|? ? Hy Hnd']; subst. constructor.
  - rewrite in_app_iff. intros [H|[H|[]]]; [exact (Hy H)|subst; apply Hx; left; reflexivity].
  - apply IH; [exact Hnd'|]. intro H. apply Hx. right. exact H.
Qed.

(** applying a run of Add events for hosts that are new and distinct *)
Lemma apply_adds adds : forall lb,
  NoDup lb -> NoDup adds -> (forall h, In h adds -> ~ In h lb) ->
  NoDup (fold_left lb_apply (map Add adds) lb) /\
  forall x, memh x (fold_left lb_apply (map Add adds) lb) = memh x lb || memh x adds.
Proof.
  induction adds as [|a r IH]; intros lb Hnd Hadds Hnew; cbn [map fold_left].
  - split; [exact Hnd|]. intro x. cbn. rewrite orb_false_r. reflexivity.
  - inversion Hadds as [|? ? Ha Hr]; subst. cbn [lb_apply].
    destruct (IH (lb ++ [a])) as [H1 H2].
    + apply NoDup_snoc; [exact Hnd|]. apply Hnew. left. reflexivity.
    + exact Hr.
    + intros h Hh. rewrite in_app_iff. intros [H|[H|[]]]; [exact (Hnew h (or_intror Hh) H)|subst; contradiction].
    + split; [exact H1|]. intro x. rewrite H2, memh_app, memh_cons. cbn. rewrite orb_false_r, <- orb_assoc. reflexivity.
Qed.

Lemma apply_removes rems : forall lb, NoDup lb ->
  NoDup (fold_left lb_apply (map Remove rems) lb) /\
  forall x, memh x (fold_left lb_apply (map Remove rems) lb) = memh x lb && negb (memh x rems).
Proof.
  induction rems as [|a r IH]; intros lb Hnd; cbn [map fold_left].
  - split; [exact Hnd|]. intro x. cbn. rewrite andb_true_r. reflexivity.
  - cbn [lb_apply]. destruct (IH (remove_first a lb) (NoDup_remove_first a lb Hnd)) as [H1 H2].
    split; [exact H1|]. intro x. rewrite H2, (memh_remove_first x a lb Hnd), memh_cons.
    destruct (N.eqb x a), (memh x lb), (memh x r); reflexivity.
Qed.

Lemma memh_filter x f l : memh x (filter f l) = memh x l && f x.
Proof.
  induction l as [|y l IH]; [reflexivity|]. cbn [filter].
  destruct (f y) eqn:Hf; rewrite ?memh_cons, IH.
  - destruct (N.eqb x y) eqn:E; cbn [orb]; [|reflexivity].
    apply N.eqb_eq in E. subst. rewrite Hf. destruct (memh y l); reflexivity.
  - destruct (N.eqb x y) eqn:E; cbn [orb]; [|reflexivity].
    apply N.eqb_eq in E. subst. rewrite Hf. rewrite !andb_false_r. reflexivity.
Qed.

(** one merge: afterwards the balancer lists exactly the new peers table *)
Theorem follow_tracks lb old new :
  NoDup lb -> NoDup new -> (forall x, memh x lb = memh x old) ->
  NoDup (follow lb old new) /\ forall x, memh x (follow lb old new) = memh x new.
Proof.
  intros Hnd Hnew Hsame. unfold follow, merge_events. rewrite fold_left_app.
  destruct (apply_adds (filter (fun h => negb (memh h old)) new) lb Hnd) as [A1 A2].
  - apply NoDup_filter. exact Hnew.
  - intros h Hh Hin. apply filter_In in Hh. destruct Hh as [_ Hh]. apply memh_In in Hin.
    rewrite Hsame in Hin. rewrite Hin in Hh. discriminate.
  - destruct (apply_removes (filter (fun h => negb (memh h new)) old) _ A1) as [R1 R2].
    split; [exact R1|]. intro x. rewrite R2, A2, !memh_filter, Hsame.
    destruct (memh x old), (memh x new); reflexivity.
Qed.

Lemma last_default {A} (a : A) l d d' : last (a :: l) d = last (a :: l) d'.
Proof. revert a. induction l as [|b l IH]; intro a; [reflexivity|]. change (last (b :: l) d = last (b :: l) d'). apply IH. Qed.

(** any history of peers tables: the balancer ends up listing exactly the last one *)
Theorem follow_all_tracks tables : forall lb cur,
  NoDup lb -> (forall x, memh x lb = memh x cur) -> Forall (@NoDup N) tables ->
  forall x, memh x (follow_all lb cur tables) = memh x (last tables cur).
Proof.
  induction tables as [|t r IH]; intros lb cur Hnd Hsame Hall x; cbn [follow_all]; [apply Hsame|].
  inversion Hall as [|? ? Ht Hr]; subst.
  destruct (follow_tracks lb cur t Hnd Ht Hsame) as [F1 F2].
  rewrite (IH (follow lb cur t) t F1 F2 Hr x). destruct r as [|t' r']; [reflexivity|].
  change (last (t :: t' :: r') cur) with (last (t' :: r') cur). rewrite (last_default t' r' t cur). reflexivity.
Qed.

(** the hosts that receive requests are the listed hosts that are up: a newly listed host that
    is up receives requests, a host no longer listed receives none *)
Theorem routed_spec lb up x : memh x (routed lb up) = memh x lb && memh x up.
Proof. unfold routed. apply memh_filter. Qed.

(** ** C. failover *)
Lemma failover_none hosts up : forall fuel idx,
  (0 < length hosts)%nat ->
  failover hosts up idx fuel = None ->
  forall k, (1 <= k <= fuel)%nat -> exists h, nth_error hosts ((idx + k) mod length hosts) = Some h /\ memh h up = false.
Proof.
  induction fuel as [|f IH]; intros idx Hn Hnone k Hk; [lia|].
  cbn [failover] in Hnone.
  destruct (nth_error hosts ((idx + 1) mod length hosts)) as [h|] eqn:Hnth.
  2:{ apply nth_error_None in Hnth. pose proof (Nat.mod_upper_bound (idx + 1) (length hosts)). lia. }
  destruct (memh h up) eqn:Hup; [discriminate|].
  destruct (Nat.eq_dec k 1) as [->|Hk1]; [exists h; split; assumption|].
  destruct (IH _ Hn Hnone (k - 1)%nat ltac:(lia)) as (h' & Hh' & Hup').
  exists h'. split; [|exact Hup'].
  rewrite <- Hh'. f_equal. rewrite Nat.add_mod_idemp_l by lia. f_equal. lia.
Qed.

Lemma failover_some hosts up : forall fuel idx i h,
  failover hosts up idx fuel = Some (i, h) -> nth_error hosts i = Some h /\ memh h up = true.
Proof.
  induction fuel as [|f IH]; intros idx i h Hf; [discriminate|]. cbn [failover] in Hf.
  destruct (nth_error hosts ((idx + 1) mod length hosts)) as [h0|] eqn:Hnth; [|discriminate].
  destruct (memh h0 up) eqn:Hup; [|apply (IH _ _ _ Hf)].
  injection Hf as <- <-. split; assumption.
Qed.

(** if any known host is up, the control connection fails over to a known host that is up
    within one round over the host list *)
Theorem failover_finds_a_live_host hosts up idx :
  (exists h, In h hosts /\ memh h up = true) ->
  exists i h, failover hosts up idx (length hosts) = Some (i, h) /\ nth_error hosts i = Some h /\ memh h up = true.
Proof.
  intros (h & Hin & Hup).
  assert (Hn : (0 < length hosts)%nat) by (destruct hosts; [destruct Hin|cbn; lia]).
  destruct (failover hosts up idx (length hosts)) as [[i h']|] eqn:Hf.
  - exists i, h'. split; [reflexivity|].
    apply (failover_some _ _ _ _ _ _ Hf).
  - exfalso. apply In_nth_error in Hin. destruct Hin as [j Hj].
    assert (Hjn : (j < length hosts)%nat) by (apply nth_error_Some; congruence).
    set (n := length hosts) in *.
    pose proof (failover_none hosts up n idx Hn Hf ((j + n - (idx + 1) mod n) mod n + 1)%nat) as H.
    destruct H as (h' & Hh' & Hup').
    { pose proof (Nat.mod_upper_bound (j + n - (idx + 1) mod n) n). lia. }
    fold n in Hh'.
    replace ((idx + ((j + n - (idx + 1) mod n) mod n + 1)) mod n)%nat with j in Hh'.
    + rewrite Hj in Hh'. injection Hh' as <-. congruence.
    + pose proof (Nat.mod_upper_bound (idx + 1) n ltac:(lia)) as Hb.
      replace (idx + ((j + n - (idx + 1) mod n) mod n + 1))%nat with ((idx + 1) + (j + n - (idx + 1) mod n) mod n)%nat by lia.
      rewrite Nat.add_mod_idemp_r by lia.
      rewrite <- Nat.add_mod_idemp_l by lia.
      replace ((idx + 1) mod n + (j + n - (idx + 1) mod n))%nat with (j + 1 * n)%nat by lia.
      rewrite Nat.mod_add by lia. rewrite Nat.mod_small by lia. reflexivity.
Qed.

(** ** D. the outage clock *)
Local Open Scope Z_scope.
Definition cinv (s : cstate) : Prop := control s = true <-> since s = None.

Lemma cstep_inv s e : cinv s -> cinv (fst (cstep s e)).
Proof. unfold cinv. destruct e; cbn; intro H; [split; discriminate|split; reflexivity|exact H]. Qed.

Fixpoint cfinal (s : cstate) (es : list cev) : cstate :=
  match es with [] => s | e :: r => cfinal (fst (cstep s e)) r end.

Lemma cfinal_inv es : forall s, cinv s -> cinv (cfinal s es).
Proof. induction es as [|e r IH]; intros s H; [exact H|]. apply IH, cstep_inv, H. Qed.

(** after any history, the reported outage is zero whenever a control connection exists; while
    none exists it is the time since the connection was lost *)
Theorem outage_zero_iff_connected es t :
  let s := cfinal {| control := true; since := None |} es in
  (control s = true -> snd (cstep s (CSample t)) = Some 0) /\
  (control s = false -> exists t0, since s = Some t0 /\ snd (cstep s (CSample t)) = Some (t - t0)).
Proof.
  intro s. assert (Hinv : cinv s) by (apply cfinal_inv; split; reflexivity).
  unfold cinv in Hinv. split; intro Hc.
  - apply Hinv in Hc. cbn. rewrite Hc. reflexivity.
  - destruct (since s) as [t0|] eqn:Hs.
    + exists t0. split; [reflexivity|]. cbn. rewrite Hs. reflexivity.
    + destruct Hinv as [_ H]. rewrite (H eq_refl) in Hc. discriminate.
Qed.

(** readiness fails exactly when the outage has lasted the readiness timeout *)
Theorem readiness_spec outage timeout : ready outage timeout = false <-> timeout <= outage.
Proof. unfold ready. lia. Qed.
