(** Proofs about Model/SessionBoot.v *)
From Coq Require Import List NArith Bool Lia.
From CqlProxy Require Import Model.SessionBoot.
Import ListNotations.
Local Open Scope N_scope.

(** the repaired table never holds a nil pool *)
Lemma table_repaired_no_nil b h : lookup h (table false b) <> Some false.
Proof.
  unfold table. induction (done b) as [|[k r] l IH]; cbn [flat_map]; [cbn; discriminate|].
  destruct r; cbn [snd fst app]; [|exact IH].
  cbn [lookup]. destruct (N.eqb k h); [discriminate|exact IH].
Qed.

Theorem repaired_send_never_panics b pick t h :
  select false b pick = Session t -> send t h <> SendPanic.
Proof.
  unfold select. destruct (connected_ready b), (failed_ready b); try discriminate.
  intros H; inversion H; subst t. unfold send.
  destruct (lookup h (table false b)) as [[|]|] eqn:E; try discriminate.
  exfalso. exact (table_repaired_no_nil b h E).
Qed.

(** a session is handed out by the repaired code only when no pool failed critically *)
Theorem repaired_session_means_no_failure b pick t :
  select false b pick = Session t -> failed_ready b = false /\ connected_ready b = true.
Proof.
  unfold select. destruct (connected_ready b), (failed_ready b); try discriminate; auto.
Qed.

(** ... and then every host that finished has a usable pool *)
Lemma table_all_ok orig b : failed_ready b = false -> forall h r, In (h, r) (done b) -> lookup h (table orig b) = Some true.
Proof.
  unfold failed_ready, table. induction (done b) as [|[k r0] l IH]; cbn [existsb flat_map]; intros Hf h r Hin; [destruct Hin|].
  cbn [snd] in Hf. destruct r0; [|discriminate]. cbn [orb] in Hf. cbn [snd fst app lookup].
  destruct (N.eqb_spec k h) as [->|Hne]; [reflexivity|].
  destruct Hin as [Heq|Hin]; [inversion Heq; congruence|]. exact (IH Hf h r Hin).
Qed.

Theorem repaired_session_has_a_pool_for_every_finished_host b pick t h r :
  select false b pick = Session t -> In (h, r) (done b) -> send t h = SendOk.
Proof.
  intros Hs Hin. destruct (repaired_session_means_no_failure _ _ _ Hs) as [Hf _].
  unfold select in Hs. rewrite Hf in Hs. destruct (connected_ready b); [|discriminate].
  inversion Hs; subst t. unfold send. rewrite (table_all_ok false b Hf h r Hin). reflexivity.
Qed.

(** whichever way the runtime picks, the repaired outcome does not depend on it *)
Theorem repaired_outcome_is_deterministic b p1 p2 : select false b p1 = select false b p2.
Proof. unfold select. destruct (connected_ready b), (failed_ready b); reflexivity. Qed.

(** a critical failure always ends in an error once the select can fire *)
Theorem repaired_failure_is_reported b pick : failed_ready b = true -> select false b pick = Error.
Proof. unfold select. intros ->. destruct (connected_ready b); reflexivity. Qed.

(** the original code: with both channels ready the unlucky pick hands out a session whose request panics *)
Theorem original_hands_out_a_session_that_panics_refuted :
  exists hosts results h t, run true hosts results true = Session t /\ send t h = SendPanic.
Proof. exists [1; 2], [(1, PCritical); (2, PCritical)], 1, [(1, false); (2, false)]. vm_compute. auto. Qed.

(** the lucky pick, and the select reached in time, report the error: why it is rare *)
Example original_lucky_pick : run true [1; 2] [(1, PCritical); (2, PCritical)] false = Error.
Proof. reflexivity. Qed.
Example original_select_in_time : run true [1; 2] [(1, PCritical)] true = Error.
Proof. reflexivity. Qed.

(** the same history under the repaired code *)
Example repaired_same_history : run false [1; 2] [(1, PCritical); (2, PCritical)] true = Error /\ run false [1; 2] [(1, POk); (2, POk)] true = Session [(1, true); (2, true)].
Proof. split; reflexivity. Qed.

(** without a critical failure both versions agree *)
Theorem versions_agree_without_failure b pick : failed_ready b = false -> select true b pick = select false b pick.
Proof.
  unfold select. intros Hf. rewrite Hf. destruct (connected_ready b); [|reflexivity].
  f_equal. unfold table. clear pick. unfold failed_ready in Hf.
  induction (done b) as [|[k r] l IH]; [reflexivity|]. cbn [existsb snd] in Hf. cbn [flat_map snd fst].
  destruct r; [|discriminate]. cbn [orb] in Hf. rewrite (IH Hf). reflexivity.
Qed.
