(** * MonitorSimProofs: the monitor accepts every execution of the model Model/CorePrep.v (no false alarms).
    [trace_of hk es] (Model/MonitorTrace.v) is the record sequence the instrumented code writes during the
    execution [es]; the theorem [model_traces_accepted] says the monitor accepts it, whatever the events. *)
From Coq Require Import List ZArith NArith Bool Lia Permutation.
From CqlProxy Require Import Lib.Val Lib.Util Gen.Tables Model.Retry Model.Monitor Model.MonitorSpec Model.CorePrep Model.MonitorTrace
                             Proofs.CorePrepProofs Proofs.MonitorProofs.
Import ListNotations.
Local Open Scope Z_scope.

(** ** texts: the plan *)
Lemma split_commas_nocomma s : forall acc, ~ In 44%N s -> split_commas s acc = [rev acc ++ s].
Proof.
  induction s as [|c s IH]; intros acc H; cbn [split_commas]; [rewrite app_nil_r; reflexivity|].
  destruct (c =? 44)%N eqn:E; [apply N.eqb_eq in E; exfalso; apply H; left; auto|].
  rewrite IH by (intro X; apply H; right; exact X). cbn [rev]. rewrite <- app_assoc. reflexivity.
Qed.

Lemma split_commas_app a rest : forall acc, ~ In 44%N a -> split_commas (a ++ 44%N :: rest) acc = (rev acc ++ a) :: split_commas rest [].
Proof.
  induction a as [|c a IH]; intros acc H; cbn [app split_commas].
  - rewrite app_nil_r. reflexivity.
  - destruct (c =? 44)%N eqn:E; [apply N.eqb_eq in E; exfalso; apply H; left; auto|].
    rewrite IH by (intro X; apply H; right; exact X). cbn [rev]. rewrite <- app_assoc. reflexivity.
Qed.

Lemma split_join l : l <> [] -> Forall (fun k => ~ In 44%N k) l -> split_commas (join_commas l) [] = l.
Proof.
  induction l as [|a l IH]; intros N F; [contradiction|]. inversion F as [|? ? Fa Fl]; subst.
  destruct l as [|b l].
  - cbn [join_commas]. rewrite split_commas_nocomma by exact Fa. reflexivity.
  - change (join_commas (a :: b :: l)) with (a ++ 44%N :: join_commas (b :: l)).
    rewrite split_commas_app by exact Fa. cbn [rev app]. rewrite IH; [reflexivity|discriminate|exact Fl].
Qed.

Lemma fields_join hk (p : list N) : good_keys hk -> fields (join_commas (map hk p)) = map hk p.
Proof.
  intro G. destruct p as [|h p]; [reflexivity|].
  assert (F : Forall (fun k => ~ In 44%N k) (map hk (h :: p))).
  { apply Forall_forall. intros k Hk. apply in_map_iff in Hk. destruct Hk as (x & <- & _). apply G. }
  pose proof (split_join (map hk (h :: p))) as S. unfold fields.
  destruct (join_commas (map hk (h :: p))) as [|c s] eqn:J.
  - exfalso. cbn [map join_commas] in J. destruct (map hk p) as [|b l].
    + apply (proj1 (G h)). exact J.
    + destruct (hk h); discriminate.
  - apply S; [discriminate|exact F].
Qed.

(** ** texts: decimal numbers *)
Lemma parse_dec_digits fuel : forall n acc a, (N.to_nat n < fuel)%nat ->
  exists k, parse_dec (digits_fuel fuel n acc) a = parse_dec acc (a * k + Z.of_N n).
Proof.
  induction fuel as [|f IH]; intros n acc a H; [lia|]. cbn [digits_fuel].
  destruct (n <? 10)%N eqn:E.
  - exists 10. cbn [parse_dec]. replace (48 + n - 48)%N with n by lia. reflexivity.
  - apply N.ltb_ge in E. assert (Hd : (N.to_nat (n / 10) < f)%nat).
    { assert (n / 10 < n)%N by (apply N.div_lt; lia). lia. }
    destruct (IH (n / 10)%N ((48 + n mod 10)%N :: acc) a Hd) as (k & Hk). exists (k * 10). rewrite Hk. cbn [parse_dec].
    assert (X : (48 + n mod 10 - 48 = n mod 10)%N) by (generalize (n mod 10)%N; intro; lia). rewrite X. f_equal.
    rewrite N2Z.inj_div, N2Z.inj_mod. change (Z.of_N 10) with 10.
    pose proof (Z.div_mod (Z.of_N n) 10). lia.
Qed.

Lemma parse_dec_ndec n : parse_dec (ndec n) 0 = Z.of_N n.
Proof. unfold ndec. destruct (parse_dec_digits (S (N.to_nat n)) n [] 0) as (k & Hk); [lia|]. rewrite Hk. cbn [parse_dec]. lia. Qed.

Definition digit_bytes (s : bytes) : Prop := Forall (fun c => (48 <= c <= 57)%N) s.

Lemma digits_fuel_digits fuel : forall n acc, digit_bytes acc -> digit_bytes (digits_fuel fuel n acc).
Proof.
  induction fuel as [|f IH]; intros n acc H; cbn [digits_fuel]; [exact H|].
  destruct (n <? 10)%N eqn:E.
  - apply N.ltb_lt in E. constructor; [lia|exact H].
  - apply IH. constructor; [|exact H]. assert (B : (n mod 10 < 10)%N) by (apply N.mod_upper_bound; lia). revert B. generalize (n mod 10)%N. intros d B. lia.
Qed.

Lemma digits_fuel_nonempty fuel n acc : digits_fuel (S fuel) n acc <> [].
Proof.
  revert n acc. induction fuel as [|f IH]; intros n acc.
  - cbn [digits_fuel]. destruct (n <? 10)%N; discriminate.
  - change (digits_fuel (S (S f)) n acc) with (if (n <? 10)%N then (48 + n)%N :: acc else digits_fuel (S f) (n / 10) ((48 + n mod 10)%N :: acc)).
    destruct (n <? 10)%N; [discriminate|apply IH].
Qed.

Lemma ndec_digits n : digit_bytes (ndec n) /\ ndec n <> [].
Proof. split; [apply digits_fuel_digits; constructor|apply digits_fuel_nonempty]. Qed.

Lemma parse_int_not_minus c rest : c <> 45%N -> parse_int (c :: rest) = parse_dec (c :: rest) 0.
Proof.
  intro H. unfold parse_int. destruct c as [|p]; [reflexivity|].
  do 6 (destruct p as [p|p|]; try reflexivity). exfalso. apply H. reflexivity.
Qed.

Lemma parse_int_zdec z : parse_int (zdec z) = z.
Proof.
  assert (P : forall n, parse_int (ndec n) = Z.of_N n).
  { intro n. destruct (ndec_digits n) as [D NE]. destruct (ndec n) as [|c rest] eqn:E; [contradiction|].
    rewrite parse_int_not_minus; [rewrite <- E; apply parse_dec_ndec|]. inversion D; subst. lia. }
  destruct z as [|p|p]; cbn [zdec]; [exact (P 0%N)|exact (P (Npos p))|].
  change (parse_int (45%N :: ndec (N.pos p))) with (- parse_dec (ndec (N.pos p)) 0). rewrite parse_dec_ndec. reflexivity.
Qed.

Lemma digits_no_comma s : digit_bytes s -> ~ In 44%N s.
Proof. intros D H. unfold digit_bytes in D. rewrite Forall_forall in D. specialize (D _ H). lia. Qed.

Lemma zdec_no_comma z : ~ In 44%N (zdec z).
Proof.
  destruct z as [|p|p]; cbn [zdec]; try (apply digits_no_comma; apply ndec_digits).
  intros [H|H]; [discriminate|]. revert H. apply digits_no_comma. apply ndec_digits.
Qed.

Lemma split_commas_nonempty s : forall acc, split_commas s acc <> [].
Proof. induction s as [|c s IH]; intro acc; cbn [split_commas]; [discriminate|]. destruct (c =? 44)%N; [discriminate|apply IH]. Qed.

Lemma join_commas_cons x l : l <> [] -> join_commas (x :: l) = x ++ 44%N :: join_commas l.
Proof. destruct l; [contradiction|reflexivity]. Qed.

(** splitting at commas and joining again gives the text back: whatever the write type contains *)
Lemma join_split s : forall acc, join_commas (split_commas s acc) = rev acc ++ s.
Proof.
  induction s as [|c s IH]; intro acc; cbn [split_commas].
  - cbn [join_commas]. rewrite app_nil_r. reflexivity.
  - destruct (c =? 44)%N eqn:E.
    + apply N.eqb_eq in E. subst c. rewrite join_commas_cons by apply split_commas_nonempty. rewrite IH. reflexivity.
    + rewrite IH. cbn [rev]. rewrite <- app_assoc. reflexivity.
Qed.

Lemma fields5 a b c d e : ~ In 44%N a -> ~ In 44%N b -> ~ In 44%N c -> ~ In 44%N d ->
  fields (a ++ 44%N :: b ++ 44%N :: c ++ 44%N :: d ++ 44%N :: e) = a :: b :: c :: d :: split_commas e [].
Proof.
  intros Ha Hb Hc Hd. unfold fields. destruct (a ++ 44%N :: b ++ 44%N :: c ++ 44%N :: d ++ 44%N :: e) eqn:E.
  - destruct a; discriminate.
  - rewrite <- E. rewrite !split_commas_app by assumption. reflexivity.
Qed.

Lemma err_of_fields_text m : traceable_err m -> err_of_fields (err_text m) = m.
Proof.
  intros (A1 & A2 & A3 & A4). unfold err_of_fields, err_text.
  assert (Bn : ~ In 44%N (if e_dataPresent m then str "true" else str "false")) by (destruct (e_dataPresent m); vm_compute; intuition discriminate).
  rewrite fields5 by (try apply zdec_no_comma; assumption). cbn [nth skipn]. rewrite !parse_int_zdec, join_split. cbn [rev app].
  unfold mk_err. destruct m as [c r b dp wt al rq nf cs]; cbn [e_code e_received e_blockFor e_dataPresent e_writeType e_alive e_required e_numFailures e_consistency] in *.
  subst. destruct dp; reflexivity.
Qed.

(** ** the monitor's step on each kind of record the model writes *)
Lemma mstep_table s t key : mstep s (rec_table t key) = Accept (st_tables s (zupdate t (key, false) (ms_tables s))).
Proof. reflexivity. Qed.

Lemma mstep_push_ok s t st r rk hkey m0 :
  zlookup t (ms_tables s) = Some (hkey, false) -> plookup (t, st) (ms_regs s) = None -> r <> 0 ->
  zlookup r (ms_reqs s) = Some m0 -> m_done m0 = false -> m_regs m0 = 0%nat -> hkey = m_host m0 ->
  mstep s (rec_push t st r rk) = Accept (set_q (st_regs s (((t, st), (r, rk)) :: ms_regs s)) r (with_regs m0 1)).
Proof.
  intros HT HP N HQ HD HR HH. unfold mstep. cbn -[zlookup plookup zupdate bytes_eqb]. rewrite HT, HP.
  apply Z.eqb_neq in N. rewrite N, HQ, HD, HR. cbn [Nat.eqb negb]. subst hkey. rewrite bytes_eqb_refl. reflexivity.
Qed.

Lemma mstep_pop_ok s t st r rk rk0 : plookup (t, st) (ms_regs s) = Some (r, rk0) -> r <> 0 ->
  mstep s (rec_pop t st r rk) = Accept (dec_regs (st_regs s (premove (t, st) (ms_regs s))) r).
Proof.
  intros HP N. unfold mstep. cbn -[zlookup plookup zupdate premove dec_regs]. rewrite HP, Z.eqb_refl. apply Z.eqb_neq in N. rewrite N. reflexivity.
Qed.

Lemma mstep_notify_ok s t st r rk rk0 : plookup (t, st) (ms_tonotify s) = Some (r, rk0) -> r <> 0 ->
  mstep s (rec_notify t st r rk) = Accept (dec_regs (st_tonotify s (premove (t, st) (ms_tonotify s))) r).
Proof.
  intros HP N. unfold mstep. cbn -[zlookup plookup zupdate premove dec_regs]. rewrite HP, Z.eqb_refl. apply Z.eqb_neq in N. rewrite N. reflexivity.
Qed.

Lemma mstep_closing_ok s t hkey b : zlookup t (ms_tables s) = Some (hkey, b) ->
  mstep s (rec_closing t) = Accept {| ms_tables := zupdate t (hkey, true) (ms_tables s);
                                      ms_regs := filter (fun e => negb (on_table t e)) (ms_regs s);
                                      ms_tonotify := filter (on_table t) (ms_regs s) ++ ms_tonotify s; ms_reqs := ms_reqs s |}.
Proof. intros HT. unfold mstep. cbn -[zlookup plookup zupdate filter]. rewrite HT. reflexivity. Qed.

Lemma mstep_start_ok s r cl cs st plan : zlookup r (ms_reqs s) = None ->
  mstep s (rec_start r cl cs st plan) =
  Accept (set_q s r {| m_client := cl; m_cstream := cs; m_plan := fields plan; m_host := []; m_done := false; m_regs := 0; m_resend_ok := true |}).
Proof. intros HQ. unfold mstep. cbn -[zlookup plookup zupdate fields]. rewrite HQ. reflexivity. Qed.

Lemma mstep_host_end_ok s r m0 : zlookup r (ms_reqs s) = Some m0 -> m_plan m0 = [] ->
  mstep s (rec_host r []) = Accept (set_q s r (mq m0 [] [] (m_done m0) (m_regs m0) (m_resend_ok m0))).
Proof. intros HQ HP. unfold mstep. cbn -[zlookup plookup zupdate]. rewrite HQ, HP. reflexivity. Qed.

Lemma mstep_host_ok s r m0 h rest : zlookup r (ms_reqs s) = Some m0 -> m_plan m0 = h :: rest -> m_regs m0 = 0%nat ->
  mstep s (rec_host r h) = Accept (set_q s r (MonitorProofs.mq m0 rest h (m_done m0) (m_regs m0) (m_resend_ok m0))).
Proof.
  intros HQ HP HR. unfold mstep. cbn -[zlookup plookup zupdate bytes_eqb]. rewrite HQ, HP, bytes_eqb_refl, HR. reflexivity.
Qed.

Lemma mstep_reply_ok s r m0 : zlookup r (ms_reqs s) = Some m0 -> m_done m0 = false -> m_regs m0 = 0%nat ->
  mstep s (rec_reply r) = Accept (set_q s r (MonitorProofs.mq m0 (m_plan m0) (m_host m0) true (m_regs m0) (m_resend_ok m0))).
Proof. intros HQ HD HR. unfold mstep. cbn -[zlookup plookup zupdate]. rewrite HQ, HD, HR. reflexivity. Qed.

Lemma mstep_onclose s r : mstep s (rec_onclose r) = Accept s.
Proof. unfold mstep. cbn -[zlookup plookup zupdate]. destruct (zlookup r (ms_reqs s)); reflexivity. Qed.

Lemma mstep_decision_ok s r m0 idem m retry : zlookup r (ms_reqs s) = Some m0 -> traceable_err m ->
  exists m1, mstep s (rec_decision r (Z.of_N (handle_error idem m retry)) retry (idem_state idem) (err_text m)) = Accept (set_q s r m1) /\
              m_plan m1 = m_plan m0 /\ m_host m1 = m_host m0 /\ m_done m1 = m_done m0 /\ m_regs m1 = m_regs m0.
Proof.
  intros HQ HT. unfold mstep. cbn -[zlookup plookup zupdate err_of_fields handle_error safe_to_resend Z.of_N err_text]. rewrite HQ.
  rewrite (err_of_fields_text m HT). assert (I : (idem_state idem =? 2) = idem) by (destruct idem; reflexivity). rewrite I, Z.eqb_refl. cbn [negb].
  rewrite (unsafe_retry_guard_never_true idem m retry _ eq_refl). eexists. split; [reflexivity|]. cbn. auto.
Qed.

(** ** names are injective *)
Lemma tid_eqb k k' : (tid k =? tid k') = (k =? k')%N.
Proof. unfold tid. destruct (N.eqb_spec k k') as [->|N]; [apply Z.eqb_refl|]. apply Z.eqb_neq. lia. Qed.
Lemma sid_eqb k k' : (sid k =? sid k') = (k =? k')%N.
Proof. unfold sid. destruct (N.eqb_spec k k') as [->|N]; [apply Z.eqb_refl|]. apply Z.eqb_neq. lia. Qed.
Lemma qid_eqb k k' : (qid k =? qid k') = (k =? k')%N.
Proof. unfold qid. destruct (N.eqb_spec k k') as [->|N]; [apply Z.eqb_refl|]. apply Z.eqb_neq. lia. Qed.
Lemma qid_nonzero r : qid r <> 0.
Proof. unfold qid. lia. Qed.
Lemma key_eqb k st k' st' : pair_eqb (tid k, sid st) (tid k', sid st') = ((k =? k') && (st =? st'))%N.
Proof. unfold pair_eqb. cbn [fst snd]. rewrite tid_eqb, sid_eqb. reflexivity. Qed.

Section Sim.
Variable hk : N -> bytes.
Hypothesis Hgood : good_keys hk.

Definition ecode (e : entry) : Z * Z := (qid (entry_req e), ekind e).
Definition hkopt (o : option N) : bytes := match o with Some h => hk h | None => [] end.

Definition req_rel (act : option rid) (w : world) (r : rid) (q : creq) (m0 : mreq) : Prop :=
  m_done m0 = q_done q /\ m_host m0 = hkopt (q_host q) /\ m_plan m0 = map hk (q_plan q) /\ m_regs m0 = expect act w r.

Record Rel (act : option rid) (w : world) (s : mstate) : Prop := {
  rl_tables : forall k, zlookup (tid k) (ms_tables s) = option_map (fun c => (hk (b_host c), b_closing c)) (lookupN k (w_conns w));
  rl_regs : forall k st, plookup (tid k, sid st) (ms_regs s) =
                         match lookupN k (w_conns w) with
                         | Some c => if b_closing c then None else option_map ecode (lookupN st (b_pending c))
                         | None => None
                         end;
  rl_tonotify : forall k c ent, lookupN k (w_conns w) = Some c -> In ent (b_tonotify c) ->
                                plookup (tid k, sid (stream_of ent (b_pending c))) (ms_tonotify s) = Some (ecode ent);
  rl_sub : forall k c ent, lookupN k (w_conns w) = Some c -> In ent (b_tonotify c) -> In ent (map snd (b_pending c));
  rl_nodup : NoDup (map fst (ms_regs s));
  rl_reqs : forall r, match lookupN r (w_reqs w) with
                      | None => zlookup (qid r) (ms_reqs s) = None
                      | Some q => exists m0, zlookup (qid r) (ms_reqs s) = Some m0 /\ req_rel act w r q m0
                      end
}.

Lemma rel_init : Rel None init_world init_mstate.
Proof. split; intros; cbn in *; try reflexivity; try discriminate; try constructor. Qed.

(** [Rel] does not look at the output log *)
Lemma expect_ext act w w' r : w_reqs w' = w_reqs w -> expect act w' r = expect act w r.
Proof. intro E. unfold expect. rewrite E. reflexivity. Qed.

Lemma rel_ext act w w' s : w_reqs w' = w_reqs w -> w_conns w' = w_conns w -> Rel act w s -> Rel act w' s.
Proof.
  intros Er Ec [T G Nt Sb ND Q]. split; intros; rewrite ?Ec, ?Er in *; eauto.
  specialize (Q r). destruct (lookupN r (w_reqs w)) as [q|]; [|exact Q]. destruct Q as (m0 & L & D & H & P & R).
  exists m0. split; [exact L|]. unfold req_rel. rewrite (expect_ext act w w' r Er). auto.
Qed.

Lemma rel_emit act w s o : Rel act w s -> Rel act (emit w o) s.
Proof. apply rel_ext; reflexivity. Qed.

(** *** a change of one request's record (reply, host, decision, start; leaving or entering its critical section) *)
Lemma rel_change_req act act' w s s' r q' m1 :
  Rel act w s ->
  ms_tables s' = ms_tables s -> ms_regs s' = ms_regs s -> ms_tonotify s' = ms_tonotify s ->
  (forall z, zlookup z (ms_reqs s') = if z =? qid r then Some m1 else zlookup z (ms_reqs s)) ->
  req_rel act' (set_req w r q') r q' m1 ->
  (forall r', r' <> r -> is_act act' r' = is_act act r') ->
  Rel act' (set_req w r q') s'.
Proof.
  intros [T G Nt Sb ND Q] ET EG EN EQ RR Hact. split; rewrite ?ET, ?EG, ?EN; try assumption.
  intro r'. rewrite reqs_set_req, lookupN_updateN, EQ, qid_eqb. destruct (N.eqb_spec r' r) as [->|Ne].
  - exists m1. auto.
  - specialize (Q r'). destruct (lookupN r' (w_reqs w)) as [q|] eqn:L; [|exact Q]. destruct Q as (m0 & L0 & D & H & P & R).
    exists m0. split; [exact L0|]. unfold req_rel. repeat split; try assumption. rewrite R. unfold expect.
    rewrite reqs_set_req, lookupN_updateN_other by exact Ne. rewrite L, (Hact r' Ne). reflexivity.
Qed.

Lemma set_q_lookup s r m1 z : zlookup z (ms_reqs (set_q s r m1)) = if z =? r then Some m1 else zlookup z (ms_reqs s).
Proof. cbn [ms_reqs set_q]. apply zlookup_zupdate. Qed.

(** the world does not change, the active request leaves its critical section answered or unknown *)
Lemma rel_deactivate w s r : Rel (Some r) w s ->
  match lookupN r (w_reqs w) with Some q => q_done q = true | None => True end -> Rel None w s.
Proof.
  intros [T G Nt Sb ND Q] H. split; try assumption. intro r'. specialize (Q r').
  destruct (lookupN r' (w_reqs w)) as [q|] eqn:L; [|exact Q]. destruct Q as (m0 & L0 & D & Hh & P & R). exists m0. split; [exact L0|].
  unfold req_rel. repeat split; try assumption. rewrite R. destruct (N.eq_dec r' r) as [->|Ne]; [|apply expect_act_other; exact Ne].
  unfold expect. rewrite L in *. rewrite H. reflexivity.
Qed.

(** *** reply *)
Lemma sim_reply_once w s r what : Rel (Some r) w s ->
  exists s', arun s (tr_reply_once w r) = Some s' /\ Rel None (reply_once w r what) s'.
Proof.
  intro R. unfold tr_reply_once, reply_once. pose proof (rl_reqs _ _ _ R r) as Q.
  destruct (lookupN r (w_reqs w)) as [q|] eqn:L.
  2:{ exists s. split; [reflexivity|]. apply (rel_deactivate _ _ r R). rewrite L. exact Logic.I. }
  destruct (q_done q) eqn:D.
  { exists s. split; [reflexivity|]. apply (rel_deactivate _ _ r R). rewrite L. exact D. }
  destruct Q as (m0 & L0 & Dm & Hm & Pm & Rm). unfold expect in Rm. rewrite L, D in Rm. cbn [is_act] in Rm. rewrite N.eqb_refl in Rm.
  rewrite D in Dm. eexists. split.
  - cbn [arun]. rewrite (mstep_reply_ok s (qid r) m0 L0 Dm Rm). reflexivity.
  - apply rel_emit. eapply rel_change_req; [exact R|reflexivity|reflexivity|reflexivity|intro z; apply set_q_lookup| |intros r' Ne; cbn [is_act]; destruct (N.eqb_spec r r'); [congruence|reflexivity]].
    unfold req_rel, expect. rewrite reqs_set_req, lookupN_updateN_same. cbn [m_done m_host m_plan m_regs mq q_done q_host q_plan]. auto.
Qed.

(** *** a change of the monitor's record of one request, the world unchanged *)
Lemma rel_mon_req act act' w s s' r q m1 :
  Rel act w s ->
  ms_tables s' = ms_tables s -> ms_regs s' = ms_regs s -> ms_tonotify s' = ms_tonotify s ->
  (forall z, zlookup z (ms_reqs s') = if z =? qid r then Some m1 else zlookup z (ms_reqs s)) ->
  lookupN r (w_reqs w) = Some q -> req_rel act' w r q m1 ->
  (forall r', r' <> r -> is_act act' r' = is_act act r') ->
  Rel act' w s'.
Proof.
  intros [T G Nt Sb ND Q] ET EG EN EQ Lq RR Hact. split; rewrite ?ET, ?EG, ?EN; try assumption.
  intro r'. rewrite EQ, qid_eqb. destruct (N.eqb_spec r' r) as [->|Ne].
  - rewrite Lq. exists m1. auto.
  - specialize (Q r'). destruct (lookupN r' (w_reqs w)) as [q0|] eqn:L; [|exact Q]. destruct Q as (m0 & L0 & D & H & P & R).
    exists m0. split; [exact L0|]. unfold req_rel. repeat split; try assumption. rewrite R. unfold expect. rewrite L, (Hact r' Ne). reflexivity.
Qed.

(** *** a change of one connection *)
Lemma rel_change_conn act w s s' k c' :
  Rel act w s ->
  zlookup (tid k) (ms_tables s') = Some (hk (b_host c'), b_closing c') ->
  (forall k', k' <> k -> zlookup (tid k') (ms_tables s') = zlookup (tid k') (ms_tables s)) ->
  (forall st, plookup (tid k, sid st) (ms_regs s') = if b_closing c' then None else option_map ecode (lookupN st (b_pending c'))) ->
  (forall k' st, k' <> k -> plookup (tid k', sid st) (ms_regs s') = plookup (tid k', sid st) (ms_regs s)) ->
  (forall ent, In ent (b_tonotify c') -> plookup (tid k, sid (stream_of ent (b_pending c'))) (ms_tonotify s') = Some (ecode ent)) ->
  (forall k' st, k' <> k -> plookup (tid k', sid st) (ms_tonotify s') = plookup (tid k', sid st) (ms_tonotify s)) ->
  (forall ent, In ent (b_tonotify c') -> In ent (map snd (b_pending c'))) ->
  NoDup (map fst (ms_regs s')) ->
  ms_reqs s' = ms_reqs s ->
  Rel act (set_conn w k c') s'.
Proof.
  intros [T G Nt Sb ND Q] T1 T2 G1 G2 N1 N2 S1 ND' EQ. split.
  - intro k'. rewrite conns_set_conn, lookupN_updateN. destruct (N.eqb_spec k' k) as [->|Ne]; [exact T1|]. rewrite (T2 k' Ne). apply T.
  - intros k' st. rewrite conns_set_conn, lookupN_updateN. destruct (N.eqb_spec k' k) as [->|Ne]; [apply G1|]. rewrite (G2 k' st Ne). apply G.
  - intros k' c ent. rewrite conns_set_conn, lookupN_updateN. destruct (N.eqb_spec k' k) as [->|Ne].
    + intro E. injection E as E. subst c. apply N1.
    + intros L Hin. rewrite (N2 k' _ Ne). eapply Nt; eauto.
  - intros k' c ent. rewrite conns_set_conn, lookupN_updateN. destruct (N.eqb_spec k' k) as [->|Ne].
    + intro E. injection E as E. subst c. apply S1.
    + intros L Hin. eapply Sb; eauto.
  - exact ND'.
  - intro r. rewrite EQ. specialize (Q r). change (w_reqs (set_conn w k c')) with (w_reqs w).
    destruct (lookupN r (w_reqs w)) as [q|]; [|exact Q]. destruct Q as (m0 & L0 & D & H & P & R). exists m0. split; [exact L0|].
    unfold req_rel. repeat split; try assumption.
Qed.

Lemma plookup_cons_key {A} k st (v : A) l k' st' :
  plookup (tid k', sid st') (((tid k, sid st), v) :: l) = if ((k' =? k) && (st' =? st))%N then Some v else plookup (tid k', sid st') l.
Proof. cbn [plookup]. rewrite key_eqb. reflexivity. Qed.

Lemma lookupN_cons {A} (st st' : N) (e : A) l : lookupN st' ((st, e) :: l) = if (st' =? st)%N then Some e else lookupN st' l.
Proof. reflexivity. Qed.

(** a free stream id is not in the pending table *)
Lemma free_not_pending c st fr : NoDup (ids c) -> b_free c = st :: fr -> lookupN st (b_pending c) = None.
Proof.
  unfold ids. intros ND F. rewrite F in ND. cbn [app] in ND. inversion ND as [|? ? Hn _]; subst.
  apply lookupN_none_iff. intro H. apply Hn. apply in_or_app. right. exact H.
Qed.

(** *** registering an entry for the active request (ClientConn.Send of the request or of the proxy's PREPARE) *)
Lemma sim_register w s r q k c st fr ent rk :
  Rel (Some r) w s -> InvG (Some r) w -> lookupN r (w_reqs w) = Some q -> q_done q = false ->
  lookupN k (w_conns w) = Some c -> b_closing c = false -> b_free c = st :: fr -> q_host q = Some (b_host c) ->
  entry_req ent = r -> rk = ekind ent ->
  exists s', mstep s (rec_push (tid k) (sid st) (qid r) rk) = Accept s' /\
             Rel None (set_conn w k {| b_host := b_host c; b_closing := false; b_free := fr; b_pending := (st, ent) :: b_pending c;
                                       b_tonotify := b_tonotify c |}) s'.
Proof.
  intros R I Lq D Lk Cl Fr Hq Er Ek. pose proof (rl_reqs _ _ _ R r) as Q. rewrite Lq in Q. destruct Q as (m0 & L0 & Dm & Hm & Pm & Rm).
  pose proof (rl_tables _ _ _ R k) as T. rewrite Lk in T. cbn [option_map] in T. rewrite Cl in T.
  pose proof (rl_regs _ _ _ R k st) as G. rewrite Lk, Cl, (free_not_pending c st fr (ig_ids _ _ I k c Lk) Fr) in G. cbn [option_map] in G.
  destruct (expect_act_self r w q Lq D) as [E0 E1]. rewrite E0 in Rm. rewrite D in Dm. rewrite Hq in Hm. cbn [hkopt] in Hm.
  pose proof (ig_open _ _ I k c Lk Cl) as Op.
  eexists. split; [apply (mstep_push_ok s (tid k) (sid st) (qid r) rk _ m0 T G (qid_nonzero r) L0 Dm Rm); symmetry; exact Hm|].
  eapply rel_mon_req with (s := st_regs s (((tid k, sid st), (qid r, rk)) :: ms_regs s)) (act := Some r) (q := q);
    [|reflexivity|reflexivity|reflexivity|intro z; apply set_q_lookup|exact Lq| |intros r' Ne; cbn [is_act]; destruct (N.eqb_spec r r'); [congruence|reflexivity]].
  - apply rel_change_conn with (s := s); cbn [b_host b_closing b_pending b_tonotify ms_tables ms_regs ms_tonotify ms_reqs st_regs]; try reflexivity.
    + exact R.
    + exact T.
    + intro st'. rewrite plookup_cons_key, N.eqb_refl, lookupN_cons. cbn [andb]. destruct (N.eqb_spec st' st) as [->|Ne].
      * cbn [option_map]. unfold ecode. rewrite Er, Ek. reflexivity.
      * rewrite (rl_regs _ _ _ R k st'), Lk, Cl. reflexivity.
    + intros k' st' Ne. rewrite plookup_cons_key. destruct (N.eqb_spec k' k); [contradiction|]. reflexivity.
    + rewrite Op. intros ent0 [].
    + rewrite Op. intros ent0 [].
    + constructor; [apply plookup_none_keys; exact G|exact (rl_nodup _ _ _ R)].
  - unfold req_rel. cbn [m_done m_host m_plan m_regs with_regs]. change (w_reqs (set_conn w k _)) with (w_reqs w).
    rewrite Dm, Pm, D, Hq. cbn [hkopt]. repeat split; try assumption. symmetry.
    unfold expect. change (w_reqs (set_conn w k _)) with (w_reqs w). rewrite Lq, D. reflexivity.
Qed.

Lemma dec_regs_some s r m0 : zlookup r (ms_reqs s) = Some m0 -> dec_regs s r = set_q s r (with_regs m0 (pred (m_regs m0))).
Proof. intro H. unfold dec_regs. rewrite H. reflexivity. Qed.

Lemma lookupN_removeN_other {A} (s s' : N) (l : list (N * A)) : s' <> s -> lookupN s' (removeN s l) = lookupN s' l.
Proof.
  intro Ne. induction l as [|[s0 v0] l IH]; cbn [removeN lookupN]; [reflexivity|].
  destruct (N.eqb_spec s s0) as [->|N0].
  - destruct (N.eqb_spec s' s0); [contradiction|reflexivity].
  - cbn [lookupN]. destruct (s' =? s0)%N; [reflexivity|exact IH].
Qed.

Lemma lookupN_removeN_same {A} (s : N) (l : list (N * A)) : NoDup (map fst l) -> lookupN s (removeN s l) = None.
Proof.
  induction l as [|[s0 v0] l IH]; cbn [removeN lookupN map fst]; [reflexivity|]. intro ND. inversion ND as [|? ? Hn ND']; subst.
  destruct (N.eqb_spec s s0) as [->|N0].
  - apply lookupN_none_iff. exact Hn.
  - cbn [lookupN]. destruct (N.eqb_spec s s0); [contradiction|]. apply IH. exact ND'.
Qed.

Lemma pending_keys_nodup c : NoDup (ids c) -> NoDup (map fst (b_pending c)).
Proof.
  unfold ids. generalize (map fst (b_pending c)) as l. induction (b_free c) as [|a f IH]; intros l H; [exact H|].
  cbn [app] in H. inversion H; subst. apply IH. assumption.
Qed.

(** *** ClientConn.Receive takes an entry out of the pending table: the pop record *)
Lemma sim_pop w s k c st ent q :
  Rel None w s -> lookupN k (w_conns w) = Some c -> b_closing c = false -> lookupN st (b_pending c) = Some ent ->
  NoDup (ids c) -> b_tonotify c = [] ->
  lookupN (entry_req ent) (w_reqs w) = Some q -> q_done q = false ->
  exists s', mstep s (rec_pop (tid k) (sid st) (qid (entry_req ent)) (ekind ent)) = Accept s' /\
             Rel (Some (entry_req ent)) (set_conn w k (popped c st)) s'.
Proof.
  intros R Lk Cl Ls ND Op Lq D. set (r := entry_req ent) in *.
  pose proof (rl_regs _ _ _ R k st) as G. rewrite Lk, Cl, Ls in G. cbn [option_map] in G. unfold ecode in G. fold r in G.
  pose proof (rl_reqs _ _ _ R r) as Q. rewrite Lq in Q. destruct Q as (m0 & L0 & Dm & Hm & Pm & Rm).
  destruct (expect_act_self r w q Lq D) as [E0 E1]. rewrite E1 in Rm.
  pose proof (rl_tables _ _ _ R k) as T. rewrite Lk in T. cbn [option_map] in T. rewrite Cl in T.
  eexists. split; [apply (mstep_pop_ok s (tid k) (sid st) (qid r) (ekind ent) _ G (qid_nonzero r))|].
  rewrite (dec_regs_some _ _ m0) by exact L0.
  eapply rel_mon_req with (s := st_regs s (premove (tid k, sid st) (ms_regs s))) (act := None) (q := q);
    [|reflexivity|reflexivity|reflexivity|intro z; apply set_q_lookup|exact Lq| |intros r' Ne; cbn [is_act]; destruct (N.eqb_spec r r'); [congruence|reflexivity]].
  - apply rel_change_conn with (s := s); cbn [popped b_host b_closing b_pending b_tonotify ms_tables ms_regs ms_tonotify ms_reqs st_regs]; try reflexivity.
    + exact R.
    + exact T.
    + intro st'. destruct (N.eqb_spec st' st) as [->|Ne].
      * rewrite (lookupN_removeN_same st _ (pending_keys_nodup c ND)). cbn [option_map].
        apply plookup_none_keys. apply premove_nodup_notin. exact (rl_nodup _ _ _ R).
      * rewrite lookupN_removeN_other by exact Ne. rewrite plookup_premove_other.
        -- rewrite (rl_regs _ _ _ R k st'), Lk, Cl. reflexivity.
        -- intro E. apply (f_equal snd) in E. cbn [snd] in E. apply Ne. unfold sid in E. lia.
    + intros k' st' Ne. apply plookup_premove_other. intro E. apply (f_equal fst) in E. cbn [fst] in E. apply Ne. unfold tid in E. lia.
    + rewrite Op. intros ent0 [].
    + rewrite Op. intros ent0 [].
    + apply premove_nodup. exact (rl_nodup _ _ _ R).
  - unfold req_rel. cbn [m_done m_host m_plan m_regs with_regs]. rewrite Rm. cbn [pred]. repeat split; try assumption.
    symmetry. unfold expect. change (w_reqs (set_conn w k _)) with (w_reqs w). rewrite Lq, D. cbn [is_act]. rewrite N.eqb_refl. reflexivity.
Qed.

(** *** streams of the entries awaiting their close notification *)
Lemma stream_of_in ent l : In ent (map snd l) -> In (stream_of ent l, ent) l.
Proof.
  induction l as [|[s e] l IH]; cbn [map snd stream_of]; [intros []|]. intro H.
  destruct (entry_eqb_spec e ent) as [->|Ne]; [left; reflexivity|]. right. apply IH. destruct H as [H|H]; [contradiction|exact H].
Qed.

Lemma stream_of_lookup ent l : NoDup (map fst l) -> In ent (map snd l) -> lookupN (stream_of ent l) l = Some ent.
Proof. intros ND H. apply lookupN_nodup_in; [exact ND|apply stream_of_in; exact H]. Qed.

Lemma stream_of_inj ent ent' l : NoDup (map fst l) -> In ent (map snd l) -> In ent' (map snd l) ->
  stream_of ent l = stream_of ent' l -> ent = ent'.
Proof.
  intros ND H H' E. pose proof (stream_of_lookup ent l ND H) as L. pose proof (stream_of_lookup ent' l ND H') as L'.
  rewrite E in L. congruence.
Qed.

Lemma remove_first_not_same ent l : (occ (entry_req ent) l <= 1)%nat -> In ent l -> ~ In ent (remove_first ent l).
Proof.
  intros O Hin H. pose proof (occ_remove_first_same ent l Hin). pose proof (occ_in ent _ H). lia.
Qed.

(** *** a close notification *)
Lemma sim_notify w s k c ent q :
  Rel None w s -> InvG None w -> lookupN k (w_conns w) = Some c -> In ent (b_tonotify c) ->
  lookupN (entry_req ent) (w_reqs w) = Some q -> q_done q = false ->
  exists s', mstep s (rec_notify (tid k) (sid (stream_of ent (b_pending c))) (qid (entry_req ent)) (ekind ent)) = Accept s' /\
             Rel (Some (entry_req ent)) (set_conn w k {| b_host := b_host c; b_closing := b_closing c; b_free := b_free c; b_pending := b_pending c;
                                                        b_tonotify := remove_first ent (b_tonotify c) |}) s'.
Proof.
  intros R I Lk Hin Lq D. set (r := entry_req ent) in *.
  pose proof (rl_tonotify _ _ _ R k c ent Lk Hin) as G. unfold ecode in G. fold r in G.
  pose proof (rl_reqs _ _ _ R r) as Q. rewrite Lq in Q. destruct Q as (m0 & L0 & Dm & Hm & Pm & Rm).
  destruct (expect_act_self r w q Lq D) as [E0 E1]. rewrite E1 in Rm.
  pose proof (rl_tables _ _ _ R k) as T. rewrite Lk in T. cbn [option_map] in T.
  pose proof (pending_keys_nodup c (ig_ids _ _ I k c Lk)) as NDp.
  assert (Occ : (occ r (b_tonotify c) <= 1)%nat).
  { pose proof (ig_regs _ _ I r) as X. rewrite E1 in X. pose proof (regs_in r k c (w_conns w) (lookupN_In _ _ _ Lk)) as Y.
    unfold regs in X. unfold regs_conn in Y. lia. }
  eexists. split; [apply (mstep_notify_ok s (tid k) (sid (stream_of ent (b_pending c))) (qid r) (ekind ent) _ G (qid_nonzero r))|].
  rewrite (dec_regs_some _ _ m0) by exact L0.
  eapply rel_mon_req with (s := st_tonotify s (premove (tid k, sid (stream_of ent (b_pending c))) (ms_tonotify s))) (act := None) (q := q);
    [|reflexivity|reflexivity|reflexivity|intro z; apply set_q_lookup|exact Lq| |intros r' Ne; cbn [is_act]; destruct (N.eqb_spec r r'); [congruence|reflexivity]].
  - apply rel_change_conn with (s := s); cbn [b_host b_closing b_pending b_tonotify ms_tables ms_regs ms_tonotify ms_reqs st_tonotify]; try reflexivity.
    + exact R.
    + exact T.
    + intro st'. rewrite (rl_regs _ _ _ R k st'), Lk. reflexivity.
    + intros ent' Hin'. pose proof (In_remove_first _ _ _ Hin') as Hin0. rewrite plookup_premove_other; [apply (rl_tonotify _ _ _ R k c ent' Lk Hin0)|].
      intro E. apply (f_equal snd) in E. cbn [snd] in E. assert (E2 : stream_of ent' (b_pending c) = stream_of ent (b_pending c)) by (unfold sid in E; lia).
      apply (stream_of_inj _ _ _ NDp (rl_sub _ _ _ R k c ent' Lk Hin0) (rl_sub _ _ _ R k c ent Lk Hin)) in E2. subst ent'.
      exact (remove_first_not_same ent _ Occ Hin Hin').
    + intros k' st' Ne. apply plookup_premove_other. intro E. apply (f_equal fst) in E. cbn [fst] in E. apply Ne. unfold tid in E. lia.
    + intros ent' Hin'. apply (rl_sub _ _ _ R k c ent' Lk). eapply In_remove_first. exact Hin'.
    + exact (rl_nodup _ _ _ R).
  - unfold req_rel. cbn [m_done m_host m_plan m_regs with_regs]. rewrite Rm. cbn [pred]. repeat split; try assumption.
    symmetry. unfold expect. change (w_reqs (set_conn w k _)) with (w_reqs w). rewrite Lq, D. cbn [is_act]. rewrite N.eqb_refl. reflexivity.
Qed.

(** *** Closing, ConnectClient *)
Lemma sim_closing w s k c :
  Rel None w s -> InvG None w -> lookupN k (w_conns w) = Some c -> b_closing c = false ->
  exists s', mstep s (rec_closing (tid k)) = Accept s' /\
             Rel None (set_conn w k {| b_host := b_host c; b_closing := true; b_free := b_free c; b_pending := b_pending c;
                                       b_tonotify := map snd (b_pending c) |}) s'.
Proof.
  intros R I Lk Cl. pose proof (rl_tables _ _ _ R k) as T. rewrite Lk in T. cbn [option_map] in T.
  pose proof (pending_keys_nodup c (ig_ids _ _ I k c Lk)) as NDp.
  eexists. split; [apply (mstep_closing_ok s (tid k) _ _ T)|].
  apply rel_change_conn with (s := s); cbn [b_host b_closing b_pending b_tonotify ms_tables ms_regs ms_tonotify ms_reqs]; try reflexivity.
  - exact R.
  - apply zlookup_zupdate_same.
  - intros k' Ne. apply zlookup_zupdate_other. unfold tid. lia.
  - intro st'. unfold on_table. rewrite (plookup_filter (fun z => negb (z =? tid k))). cbn [fst]. rewrite Z.eqb_refl. reflexivity.
  - intros k' st' Ne. unfold on_table. rewrite (plookup_filter (fun z => negb (z =? tid k))). cbn [fst]. rewrite tid_eqb.
    destruct (N.eqb_spec k' k); [contradiction|reflexivity].
  - intros ent Hin. rewrite plookup_app. unfold on_table. rewrite (plookup_filter (fun z => z =? tid k)). cbn [fst]. rewrite Z.eqb_refl.
    rewrite (rl_regs _ _ _ R k), Lk, Cl, (stream_of_lookup ent _ NDp Hin). reflexivity.
  - intros k' st' Ne. rewrite plookup_app. unfold on_table. rewrite (plookup_filter (fun z => z =? tid k)). cbn [fst]. rewrite tid_eqb.
    destruct (N.eqb_spec k' k); [contradiction|reflexivity].
  - auto.
  - apply filter_keys_nodup. exact (rl_nodup _ _ _ R).
Qed.

Lemma sim_connect w s k h n :
  Rel None w s -> lookupN k (w_conns w) = None ->
  exists s', mstep s (rec_table (tid k) (hk h)) = Accept s' /\
             Rel None (set_conn w k {| b_host := h; b_closing := false; b_free := map N.of_nat (seq 0 n); b_pending := []; b_tonotify := [] |}) s'.
Proof.
  intros R Lk. eexists. split; [apply mstep_table|].
  apply rel_change_conn with (s := s); cbn [b_host b_closing b_pending b_tonotify ms_tables ms_regs ms_tonotify ms_reqs st_tables]; try reflexivity.
  - exact R.
  - apply zlookup_zupdate_same.
  - intros k' Ne. apply zlookup_zupdate_other. unfold tid. lia.
  - intro st'. rewrite (rl_regs _ _ _ R k st'), Lk. reflexivity.
  - intros ent [].
  - intros ent [].
  - exact (rl_nodup _ _ _ R).
Qed.

(** *** Session.Send *)
Lemma arun_one s x s' : mstep s x = Accept s' -> arun s [x] = Some s'.
Proof. intro H. cbn [arun]. rewrite H. reflexivity. Qed.

Lemma arun_cons s x l s1 : mstep s x = Accept s1 -> arun s (x :: l) = arun s1 l.
Proof. intro H. cbn [arun]. rewrite H. reflexivity. Qed.

Lemma sim_send_to w s r q h ch :
  Rel (Some r) w s -> InvG (Some r) w -> lookupN r (w_reqs w) = Some q -> q_done q = false -> q_host q = Some h ->
  exists s', arun s (tr_send_to w r h ch) = Some s' /\
             match send_to false w r h ch with
             | (w1, SentOk) => Rel None w1 s'
             | (w1, SendErr) => Rel (Some r) w1 s'
             end.
Proof.
  intros R I Lq D Hq. unfold tr_send_to, send_to. destruct ch as [[k ok]|]; [|exists s; auto].
  destruct (lookupN k (w_conns w)) as [c|] eqn:Lk; [|exists s; auto].
  destruct (N.eqb_spec (b_host c) h) as [Eh|Nh]; cbn [negb]; [|exists s; auto].
  destruct (b_closing c) eqn:Cl; [exists s; auto|]. destruct (b_free c) as [|st fr] eqn:Fr; [exists s; auto|].
  assert (Hq' : q_host q = Some (b_host c)) by (rewrite Eh; exact Hq).
  destruct (sim_register w s r q k c st fr (EReq r) 0 R I Lq D Lk Cl Fr Hq' eq_refl eq_refl) as (s1 & M1 & R1).
  destruct ok.
  - exists s1. split; [apply arun_one; exact M1|]. apply rel_emit. exact R1.
  - set (c1 := {| b_host := b_host c; b_closing := false; b_free := fr; b_pending := (st, EReq r) :: b_pending c; b_tonotify := b_tonotify c |}) in *.
    set (w1 := set_conn w k c1) in *.
    assert (Lk1 : lookupN k (w_conns w1) = Some c1) by (unfold w1; rewrite conns_set_conn; apply lookupN_updateN_same).
    assert (ND1 : NoDup (ids c1)).
    { pose proof (ig_ids _ _ I k c Lk) as ND. unfold ids in *. rewrite Fr in ND. cbn [c1 b_free b_pending map fst].
      eapply Permutation_NoDup; [|exact ND]. cbn [app]. apply Permutation_middle. }
    assert (Ls1 : lookupN st (b_pending c1) = Some (EReq r)) by (cbn [c1 b_pending lookupN]; rewrite N.eqb_refl; reflexivity).
    destruct (sim_pop w1 s1 k c1 st (EReq r) q R1 Lk1 eq_refl Ls1 ND1 (ig_open _ _ I k c Lk Cl) Lq D) as (s2 & M2 & R2).
    exists s2. split; [rewrite (arun_cons _ _ _ _ M1); apply arun_one; exact M2|].
    eapply rel_ext; [| |exact R2]; [reflexivity|]. cbn [entry_req]. unfold w1. rewrite !conns_set_conn, updateN_updateN.
    unfold popped. cbn [c1 b_host b_free b_pending b_tonotify removeN]. rewrite N.eqb_refl. reflexivity.
Qed.

Lemma sim_send_prepare w s r q k c nested ok :
  Rel (Some r) w s -> InvG (Some r) w -> lookupN r (w_reqs w) = Some q -> q_done q = false ->
  lookupN k (w_conns w) = Some c -> q_host q = Some (b_host c) ->
  exists s', arun s (tr_send_prepare w k r nested ok) = Some s' /\
             match send_prepare w k r nested ok with
             | (w1, SentOk) => Rel None w1 s'
             | (w1, SendErr) => w1 = w /\ s' = s
             end.
Proof.
  intros R I Lq D Lk Hq. unfold tr_send_prepare, send_prepare. rewrite Lk.
  destruct (b_closing c) eqn:Cl; cbn [orb]; [exists s; auto|]. destruct ok; cbn [negb]; [|exists s; auto].
  destruct (b_free c) as [|st fr] eqn:Fr; [exists s; auto|].
  destruct (sim_register w s r q k c st fr (EPrep r nested) (if nested then 3 else 2) R I Lq D Lk Cl Fr Hq eq_refl) as (s1 & M1 & R1).
  { destruct nested; reflexivity. }
  exists s1. split; [apply arun_one; exact M1|]. apply rel_emit. exact R1.
Qed.

(** *** the plan advances: the host record *)
Lemma sim_host w s r q h p' :
  Rel (Some r) w s -> lookupN r (w_reqs w) = Some q -> q_done q = false -> q_plan q = h :: p' ->
  exists s', mstep s (rec_host (qid r) (hk h)) = Accept s' /\ Rel (Some r) (set_req w r (with_host q (Some h) p')) s'.
Proof.
  intros R Lq D Pq. pose proof (rl_reqs _ _ _ R r) as Q. rewrite Lq in Q. destruct Q as (m0 & L0 & Dm & Hm & Pm & Rm).
  destruct (expect_act_self r w q Lq D) as [E0 _]. rewrite E0 in Rm. rewrite Pq in Pm. cbn [map] in Pm.
  eexists. split; [apply (mstep_host_ok s (qid r) m0 (hk h) (map hk p') L0 Pm Rm)|].
  eapply rel_change_req; [exact R|reflexivity|reflexivity|reflexivity|intro z; apply set_q_lookup| |auto].
  unfold req_rel, expect. rewrite reqs_set_req, lookupN_updateN_same. cbn [m_done m_host m_plan m_regs mq with_host q_done q_host q_plan hkopt is_act].
  rewrite D, N.eqb_refl. rewrite D in Dm. auto.
Qed.

Lemma sim_host_end w s r q :
  Rel (Some r) w s -> lookupN r (w_reqs w) = Some q -> q_done q = false -> q_plan q = [] ->
  exists s', mstep s (rec_host (qid r) []) = Accept s' /\ Rel (Some r) (set_req w r (with_host q None [])) s'.
Proof.
  intros R Lq D Pq. pose proof (rl_reqs _ _ _ R r) as Q. rewrite Lq in Q. destruct Q as (m0 & L0 & Dm & Hm & Pm & Rm).
  destruct (expect_act_self r w q Lq D) as [E0 _]. rewrite E0 in Rm. rewrite Pq in Pm. cbn [map] in Pm.
  eexists. split; [apply (mstep_host_end_ok s (qid r) m0 L0 Pm)|].
  eapply rel_change_req; [exact R|reflexivity|reflexivity|reflexivity|intro z; apply set_q_lookup| |auto].
  unfold req_rel, expect. rewrite reqs_set_req, lookupN_updateN_same. cbn [m_done m_host m_plan m_regs mq with_host q_done q_host q_plan hkopt is_act map].
  rewrite D, N.eqb_refl. rewrite D in Dm. auto.
Qed.

(** *** executeInternal *)
Lemma sim_exec_next (r : rid) : forall p o w s q,
  Rel (Some r) w s -> InvG (Some r) w -> lookupN r (w_reqs w) = Some q -> q_done q = false -> q_plan q = p ->
  exists s', arun s (tr_exec_next hk w r q p o) = Some s' /\ Rel None (exec_next false w r q p o) s'.
Proof.
  induction p as [|h p' IH]; intros o w s q R I Lq D Pq; cbn [tr_exec_next exec_next].
  - destruct (sim_host_end w s r q R Lq D Pq) as (s1 & M1 & R1).
    destruct (sim_reply_once (set_req w r (with_host q None [])) s1 r CNoHosts R1) as (s2 & A2 & R2).
    exists s2. split; [rewrite (arun_cons _ _ _ _ M1); exact A2|exact R2].
  - cbv zeta. set (q1 := with_host q (Some h) p'). set (w0 := set_req w r q1).
    destruct (sim_host w s r q h p' R Lq D Pq) as (s1 & M1 & R1). fold q1 in R1. fold w0 in R1.
    assert (I0 : InvG (Some r) w0) by (eapply inv_set_req; [exact I|exact Lq|exact D|exact D|reflexivity|reflexivity|discriminate]).
    assert (Lq1 : lookupN r (w_reqs w0) = Some q1) by (unfold w0; rewrite reqs_set_req; apply lookupN_updateN_same).
    destruct (sim_send_to w0 s1 r q1 h (hd None o) R1 I0 Lq1 D eq_refl) as (s2 & A2 & R2).
    pose proof (inv_send_to w0 r q1 h (hd None o) I0 Lq1 D eq_refl) as S.
    destruct (send_to false w0 r h (hd None o)) as [w1 res]. destruct res.
    + exists s2. split; [|exact R2]. rewrite (arun_cons _ _ _ _ M1), app_nil_r. exact A2.
    + destruct S as (I1 & E1). destruct (IH (tl o) w1 s2 q1 R2 I1) as (s3 & A3 & R3); [rewrite E1; exact Lq1|exact D|reflexivity|].
      exists s3. split; [|exact R3]. rewrite (arun_cons _ _ _ _ M1), arun_app, A2. exact A3.
Qed.

Lemma sim_exec_internal w s (r : rid) next o :
  Rel (Some r) w s -> InvG (Some r) w ->
  exists s', arun s (tr_exec_internal hk w r next o) = Some s' /\ Rel None (exec_internal false w r next o) s'.
Proof.
  intros R I. unfold tr_exec_internal, exec_internal. destruct (lookupN r (w_reqs w)) as [q|] eqn:Lq.
  2:{ exists s. split; [reflexivity|]. apply (rel_deactivate _ _ r R). rewrite Lq. exact Logic.I. }
  destruct (q_done q) eqn:D.
  { exists s. split; [reflexivity|]. apply (rel_deactivate _ _ r R). rewrite Lq. exact D. }
  destruct next; [apply sim_exec_next; auto|].
  destruct (q_host q) as [h|] eqn:Hq.
  - destruct (sim_send_to w s r q h (hd None o) R I Lq D Hq) as (s2 & A2 & R2).
    pose proof (inv_send_to w r q h (hd None o) I Lq D Hq) as S.
    destruct (send_to false w r h (hd None o)) as [w1 res]. destruct res.
    + exists s2. split; [rewrite app_nil_r; exact A2|exact R2].
    + destruct S as (I1 & E1). destruct (sim_exec_next r (q_plan q) (tl o) w1 s2 q R2 I1) as (s3 & A3 & R3); [rewrite E1; exact Lq|exact D|reflexivity|].
      exists s3. split; [rewrite arun_app, A2; exact A3|exact R3].
  - pose proof (sim_reply_once w s r CNoHosts R) as X. unfold tr_reply_once, reply_once in X. rewrite Lq, D in X.
    unfold tr_reply_once, reply_once. rewrite Lq, D. exact X.
Qed.

(** *** handleErrorResult: the decision record, retryCount++ *)
Lemma sim_decision w s r q m :
  Rel (Some r) w s -> lookupN r (w_reqs w) = Some q -> traceable_err m ->
  exists s', mstep s (rec_decision (qid r) (Z.of_N (handle_error (q_idem q) m (q_retry q))) (q_retry q) (idem_state (q_idem q)) (err_text m)) = Accept s' /\
             Rel (Some r) w s'.
Proof.
  intros R Lq Tm. pose proof (rl_reqs _ _ _ R r) as Q. rewrite Lq in Q. destruct Q as (m0 & L0 & Dm & Hm & Pm & Rm).
  destruct (mstep_decision_ok s (qid r) m0 (q_idem q) m (q_retry q) L0 Tm) as (m1 & M & P1 & H1 & D1 & R1).
  exists (set_q s (qid r) m1). split; [exact M|].
  eapply rel_mon_req; [exact R|reflexivity|reflexivity|reflexivity|intro z; apply set_q_lookup|exact Lq| |auto].
  unfold req_rel. rewrite P1, H1, D1, R1. auto.
Qed.

Lemma rel_bump_retry act w s r : Rel act w s -> Rel act (bump_retry w r) s.
Proof.
  intros R. unfold bump_retry. destruct (lookupN r (w_reqs w)) as [q|] eqn:Lq; [|exact R].
  destruct R as [T G Nt Sb ND Q]. split; try assumption.
  intro r'. rewrite reqs_set_req, lookupN_updateN. specialize (Q r'). destruct (N.eqb_spec r' r) as [->|Ne].
  - rewrite Lq in Q. destruct Q as (m0 & L0 & Dm & Hm & Pm & Rm). exists m0. split; [exact L0|]. unfold req_rel, expect.
    rewrite reqs_set_req, lookupN_updateN_same. cbn [q_done q_host q_plan]. unfold expect in Rm. rewrite Lq in Rm. auto.
  - destruct (lookupN r' (w_reqs w)) as [q0|] eqn:L; [|exact Q]. destruct Q as (m0 & L0 & Dm & Hm & Pm & Rm). exists m0. split; [exact L0|].
    unfold req_rel, expect. rewrite reqs_set_req, lookupN_updateN_other by exact Ne. unfold expect in Rm. rewrite L in *. auto.
Qed.

(** a Send to the current host, and the walk through the rest of the plan when it fails *)
Lemma sim_send_then_next w s (r : rid) q h o :
  Rel (Some r) w s -> InvG (Some r) w -> lookupN r (w_reqs w) = Some q -> q_done q = false -> q_host q = Some h ->
  exists s', arun s (let '(w1, res) := send_to false w r h (hd None o) in
                     tr_send_to w r h (hd None o) ++ match res with SentOk => [] | SendErr => tr_exec_next hk w1 r q (q_plan q) (tl o) end) = Some s' /\
             Rel None (let '(w1, res) := send_to false w r h (hd None o) in
                       match res with SentOk => w1 | SendErr => exec_next false w1 r q (q_plan q) (tl o) end) s'.
Proof.
  intros R I Lq D Hq. destruct (sim_send_to w s r q h (hd None o) R I Lq D Hq) as (s2 & A2 & R2).
  pose proof (inv_send_to w r q h (hd None o) I Lq D Hq) as S.
  destruct (send_to false w r h (hd None o)) as [w1 res]. destruct res.
  - exists s2. split; [rewrite app_nil_r; exact A2|exact R2].
  - destruct S as (I1 & E1). destruct (sim_exec_next r (q_plan q) (tl o) w1 s2 q R2 I1) as (s3 & A3 & R3); [rewrite E1; exact Lq|exact D|reflexivity|].
    exists s3. split; [rewrite arun_app, A2; exact A3|exact R3].
Qed.

(** ** one event *)
Lemma sim_step w s e :
  Rel None w s -> InvG None w -> traceable_event e ->
  exists s', arun s (trace_of_step hk w e) = Some s' /\ Rel None (step w e) s'.
Proof.
  intros R I Te. unfold step.
  destruct e as [r cl cs idem p o|k st f o|k|k ent o|k h n]; cbn [step_gen trace_of_step].
  - (* EStart *)
    destruct (lookupN r (w_reqs w)) as [q|] eqn:Lq; [exists s; auto|].
    set (q0 := {| q_client := cl; q_cstream := cs; q_idem := idem; q_plan := p; q_host := None; q_retry := 0%Z; q_done := false |}).
    pose proof (rl_reqs _ _ _ R r) as Q. rewrite Lq in Q.
    pose proof (mstep_start_ok s (qid r) (Z.of_N cl + 1) cs (idem_state idem) (join_commas (map hk p)) Q) as M.
    rewrite (fields_join hk p Hgood) in M.
    match type of M with _ = Accept ?x => set (s1 := x) in * end.
    assert (R1 : Rel (Some r) (set_req w r q0) s1).
    { eapply rel_change_req; [exact R|reflexivity|reflexivity|reflexivity|intro z; apply set_q_lookup| |].
      - unfold req_rel, expect. rewrite reqs_set_req, lookupN_updateN_same. cbn [m_done m_host m_plan m_regs q0 q_done q_host q_plan hkopt is_act].
        rewrite N.eqb_refl. auto.
      - intros r' Ne. cbn [is_act]. destruct (N.eqb_spec r r'); [congruence|reflexivity]. }
    assert (Lq0 : lookupN r (w_reqs (set_req w r q0)) = Some q0) by (rewrite reqs_set_req; apply lookupN_updateN_same).
    unfold tr_exec_internal, exec_internal. rewrite Lq0. cbn [q_done q0 q_plan]. fold q0.
    destruct p as [|h p']; cbn [tr_exec_next exec_next]; cbv zeta.
    + destruct (sim_host_end _ s1 r q0 R1 Lq0 eq_refl eq_refl) as (s2 & M2 & R2).
      destruct (sim_reply_once _ s2 r CNoHosts R2) as (s3 & A3 & R3).
      exists s3. split; [rewrite (arun_cons _ _ _ _ M), (arun_cons _ _ _ _ M2); exact A3|exact R3].
    + destruct (sim_host _ s1 r q0 h p' R1 Lq0 eq_refl eq_refl) as (s2 & M2 & R2).
      set (q1 := with_host q0 (Some h) p') in *. rewrite set_req_set_req in *.
      assert (I0 : InvG (Some r) (set_req w r q1)) by (apply inv_start; [exact I|exact Lq|reflexivity|discriminate]).
      assert (Lq1 : lookupN r (w_reqs (set_req w r q1)) = Some q1) by (rewrite reqs_set_req; apply lookupN_updateN_same).
      destruct (sim_send_then_next _ s2 r q1 h o R2 I0 Lq1 eq_refl eq_refl) as (s3 & A3 & R3).
      revert A3 R3. destruct (send_to false (set_req w r q1) r h (hd None o)) as [w1' res']. intros A3 R3.
      exists s3. split; [rewrite (arun_cons _ _ _ _ M), (arun_cons _ _ _ _ M2); exact A3|exact R3].
  - (* EFrame *)
    destruct (lookupN k (w_conns w)) as [c|] eqn:Lk; [|exists s; auto].
    destruct (b_closing c) eqn:Cl; [exists s; auto|].
    destruct (lookupN st (b_pending c)) as [ent|] eqn:Ls; [|exists s; auto].
    fold (popped c st). set (w1 := set_conn w k (popped c st)).
    destruct (inv_pop w k c st ent I Lk Cl Ls) as (I1 & q & Lq & D & Hqh). fold w1 in I1.
    destruct (sim_pop w s k c st ent q R Lk Cl Ls (ig_ids _ _ I k c Lk) (ig_open _ _ I k c Lk Cl) Lq D) as (s1 & M1 & R1). fold w1 in R1.
    assert (Lk1 : lookupN k (w_conns w1) = Some (popped c st)) by (unfold w1; rewrite conns_set_conn; apply lookupN_updateN_same).
    assert (Lq1 : lookupN (entry_req ent) (w_reqs w1) = Some q) by exact Lq.
    assert (IP : forall nested ok,
               exists s', arun s1 (let '(w2, res) := send_prepare w1 k (entry_req ent) nested ok in
                                   tr_send_prepare w1 k (entry_req ent) nested ok ++
                                   match res with SentOk => [] | SendErr => tr_exec_internal hk w2 (entry_req ent) true o end) = Some s' /\
                          Rel None (let '(w2, res) := send_prepare w1 k (entry_req ent) nested ok in
                                    match res with SentOk => w2 | SendErr => exec_internal false w2 (entry_req ent) true o end) s').
    { intros nested ok. destruct (sim_send_prepare w1 s1 (entry_req ent) q k (popped c st) nested ok R1 I1 Lq1 D Lk1 Hqh) as (s2 & A2 & R2).
      destruct (send_prepare w1 k (entry_req ent) nested ok) as [w2 res]. destruct res.
      - exists s2. split; [rewrite app_nil_r; exact A2|exact R2].
      - destruct R2 as [-> ->]. destruct (sim_exec_internal w1 s1 (entry_req ent) true o R1 I1) as (s3 & A3 & R3).
        exists s3. split; [rewrite arun_app, A2; exact A3|exact R3]. }
    assert (IE : forall next, exists s', arun s1 (tr_exec_internal hk w1 (entry_req ent) next o) = Some s' /\
                                         Rel None (exec_internal false w1 (entry_req ent) next o) s')
      by (intro next; apply sim_exec_internal; assumption).
    assert (Fin : forall l wf, (exists s', arun s1 l = Some s' /\ Rel None wf s') ->
                               exists s', arun s (rec_pop (tid k) (sid st) (qid (entry_req ent)) (ekind ent) :: l) = Some s' /\ Rel None wf s').
    { intros l wf (s' & A & Rf). exists s'. split; [rewrite (arun_cons _ _ _ _ M1); exact A|exact Rf]. }
    apply Fin. clear Fin.
    destruct ent as [r|r nested]; cbn [entry_req] in *.
    + assert (Rp : forall what, exists s', arun s1 (tr_reply_once w1 r) = Some s' /\ Rel None (reply_once w1 r what) s')
        by (intro what; apply sim_reply_once; exact R1).
      destruct f as [|m|[|] ok]; try apply IP; rewrite Lq1, D.
      * apply Rp.
      * cbv zeta. cbn [traceable_event] in Te. destruct (sim_decision w1 s1 r q m R1 Lq1 Te) as (s2 & M2 & R2).
        assert (Ib : InvG (Some r) (bump_retry w1 r)) by (eapply inv_bump_retry; [exact I1|exact Lq1|exact D]).
        pose proof (rel_bump_retry (Some r) w1 s2 r R2) as Rb.
        assert (Fin2 : forall l wf, (exists s', arun s2 l = Some s' /\ Rel None wf s') ->
                   exists s', arun s1 (rec_decision (qid r) (Z.of_N (handle_error (q_idem q) m (q_retry q))) (q_retry q) (idem_state (q_idem q)) (err_text m) :: l) = Some s' /\ Rel None wf s').
        { intros l wf (s' & A & Rf). exists s'. split; [rewrite (arun_cons _ _ _ _ M2); exact A|exact Rf]. }
        apply Fin2.
        destruct (handle_error (q_idem q) m (q_retry q) =? dec_RetryNext)%N; [apply sim_exec_internal; assumption|].
        destruct (handle_error (q_idem q) m (q_retry q) =? dec_RetrySame)%N; [apply sim_exec_internal; assumption|].
        apply sim_reply_once. exact R2.
      * apply Rp.
    + destruct f as [|m|[|] ok]; try apply IP; apply IE.
  - (* ECloseBegin *)
    destruct (lookupN k (w_conns w)) as [c|] eqn:Lk; [|exists s; auto].
    destruct (b_closing c) eqn:Cl; [exists s; auto|].
    destruct (sim_closing w s k c R I Lk Cl) as (s1 & M1 & R1). exists s1. split; [apply arun_one; exact M1|exact R1].
  - (* ENotify *)
    destruct (lookupN k (w_conns w)) as [c|] eqn:Lk; [|exists s; auto].
    destruct (existsb (entry_eqb ent) (b_tonotify c)) eqn:Hex; cbn [negb]; [|exists s; auto].
    apply existsb_eqb_in in Hex.
    set (c' := {| b_host := b_host c; b_closing := b_closing c; b_free := b_free c; b_pending := b_pending c;
                  b_tonotify := remove_first ent (b_tonotify c) |}).
    set (w1 := set_conn w k c').
    destruct (inv_unregister w k c c' (entry_req ent) I Lk) as (I1 & q & Lq & D).
    { exact (ig_ids _ _ I k c Lk). }
    { cbn [c' b_closing]. intro Hcl. rewrite (ig_open _ _ I k c Lk Hcl) in Hex. destruct Hex. }
    { unfold live_of. cbn [c' b_closing b_pending]. auto. }
    { reflexivity. }
    { unfold ents, live_of. cbn [c' b_closing b_pending b_tonotify]. intros x Hx.
      apply in_app_or in Hx. apply in_or_app. destruct Hx as [Hx|Hx]; [left; exact Hx|right].
      eapply In_remove_first. exact Hx. }
    { unfold regs_conn. cbn [c' b_closing b_pending b_tonotify].
      pose proof (occ_remove_first_same ent (b_tonotify c) Hex). lia. }
    { intros r0 Hne. unfold regs_conn. cbn [c' b_closing b_pending b_tonotify].
      rewrite (occ_remove_first_other ent r0 (b_tonotify c) Hne). reflexivity. }
    fold w1 in I1.
    destruct (sim_notify w s k c ent q R I Lk Hex Lq D) as (s1 & M1 & R1). fold c' in R1. fold w1 in R1.
    change (w_reqs w1) with (w_reqs w). rewrite Lq.
    assert (X : exists s', arun s1 (if q_idem q then tr_exec_internal hk w1 (entry_req ent) true o else tr_reply_once w1 (entry_req ent)) = Some s' /\
                           Rel None (if q_idem q then exec_internal false w1 (entry_req ent) true o else reply_once w1 (entry_req ent) CConnLost) s').
    { destruct (q_idem q); [apply sim_exec_internal; assumption|apply sim_reply_once; exact R1]. }
    destruct X as (s2 & A2 & R2). exists s2. split; [|exact R2].
    rewrite (arun_cons _ _ _ _ M1), (arun_cons _ _ _ _ (mstep_onclose s1 _)). exact A2.
  - (* EConnect *)
    destruct (lookupN k (w_conns w)) as [c|] eqn:Lk; [exists s; auto|].
    destruct (sim_connect w s k h n R Lk) as (s1 & M1 & R1). exists s1. split; [apply arun_one; exact M1|exact R1].
Qed.

(** ** whole executions *)
Lemma sim_run es : forall w s, Rel None w s -> InvG None w -> Forall traceable_event es ->
  exists s', arun s (trace_from hk w es) = Some s' /\ Rel None (fold_left step es w) s'.
Proof.
  induction es as [|e es IH]; intros w s R I F; cbn [trace_from fold_left]; [exists s; auto|].
  inversion F as [|? ? Fe Fes]; subst. destruct (sim_step w s e R I Fe) as (s1 & A1 & R1).
  destruct (IH (step w e) s1 R1 (inv_step w e I) Fes) as (s2 & A2 & R2). exists s2. split; [rewrite arun_app, A1; exact A2|exact R2].
Qed.

Theorem model_traces_accepted_gen es : Forall traceable_event es -> fst (mrun init_mstate (trace_of hk es) 0) = None.
Proof.
  intro F. destruct (sim_run es init_world init_mstate rel_init inv_init F) as (s' & A & _).
  apply (mrun_arun (trace_of hk es) init_mstate 0%nat s') in A. unfold trace_of. unfold trace_of in A. rewrite A. reflexivity.
Qed.

End Sim.

(** the statement for the concrete host naming of Model/MonitorTrace.v *)
Lemma host_key_good : good_keys host_key.
Proof. intro h. unfold host_key. split; [discriminate|]. intros [H|[H|[]]]; [discriminate|lia]. Qed.

Theorem model_traces_accepted es : Forall traceable_event es -> fst (mrun init_mstate (trace_of host_key es) 0) = None.
Proof. apply model_traces_accepted_gen. exact host_key_good. Qed.

(** events without error frames need no side condition *)
Definition no_error_frames (es : list event) : Prop := forall k s m o, ~ In (EFrame k s (FError m) o) es.

Lemma no_error_frames_traceable es : no_error_frames es -> Forall traceable_event es.
Proof.
  intro H. apply Forall_forall. intros e He. destruct e as [| k s [|m|] o | | |]; cbn [traceable_event]; auto.
  exfalso. exact (H _ _ _ _ He).
Qed.

(** ** example: two requests, a retry after UNAVAILABLE, a close that moves one request on and exhausts the other's plan *)
Definition ex_events : list event :=
  [ EConnect 0%N 1%N 4; EConnect 1%N 2%N 4;
    EStart 0%N 7%N 3 true [1; 2]%N [Some (0%N, true)];
    EStart 1%N 7%N 4 true [2; 1]%N [Some (1%N, true)];
    EFrame 0%N 0%N (FError (mk_err 4096 0 0 false [])) [Some (1%N, true)];
    ECloseBegin 1%N;
    ENotify 1%N (EReq 1%N) [Some (0%N, true)];
    ENotify 1%N (EReq 0%N) [];
    EFrame 0%N 1%N FResult [] ].

Example ex_events_traceable : Forall traceable_event ex_events.
Proof. repeat constructor; cbn; intuition discriminate. Qed.

Example ex_events_trace_kinds : map rkind (trace_of host_key ex_events) = [0; 0; 5; 6; 1; 5; 6; 1; 2; 7; 6; 1; 4; 3; 9; 6; 1; 3; 9; 6; 8; 2; 8].
Proof. vm_compute. reflexivity. Qed.

Example ex_events_accepted_and_quiescent : run_monitor (L [I 8; I 1; L (trace_of host_key ex_events)]) = L [I 0].
Proof. vm_compute. reflexivity. Qed.

(** a write type with a comma in it (only a hostile backend sends one) is read back whole: the execution that made the earlier
    [err_of_fields] (write type = fifth field) raise "retry-decision-differs-from-the-policy" is accepted *)
Definition comma_events : list event :=
  [ EConnect 0%N 1%N 4; EStart 0%N 7%N 3 true [1]%N [Some (0%N, true)];
    EFrame 0%N 0%N (FError (mk_err 4352 0 0 false (str "BATCH_LOG,x"))) [] ].

Example comma_in_write_type_accepted :
  Forall traceable_event comma_events /\ run_monitor (L [I 8; I 1; L (trace_of host_key comma_events)]) = L [I 0] /\
  err_of_fields (str "4352,0,0,false,BATCH_LOG,x") = mk_err 4352 0 0 false (str "BATCH_LOG,x").
Proof. split; [repeat constructor; cbn; intuition discriminate|]. split; vm_compute; reflexivity. Qed.

Print Assumptions model_traces_accepted_gen.
Print Assumptions model_traces_accepted.
Print Assumptions comma_in_write_type_accepted.
Print Assumptions err_of_fields_text.
