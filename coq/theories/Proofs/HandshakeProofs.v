(** * Proofs about Model/Handshake.v: how the proxy opens a backend connection.

    The backend is an ARBITRARY function [list hframe -> hframe -> bresp]; every theorem below quantifies over all of
    them unless it says [simple].

    Plan.  (0) [answers be l] replays a list of frames against the backend (feeding prefixes).  (1) facts about the
    downgrade chain.  (2) ONE structural theorem, [transcript_shape]: the replayed transcript of every handshake is
    [rejected STARTUPs ++ (the last STARTUP, its answer) :: tail] where the tail has one of eleven explicit shapes
    ([tail_shape]).  (3) every property of the brief is read off that shape. *)
From Coq Require Import List ZArith NArith Bool Lia.
From CqlProxy Require Import Lib.Val Lib.Util Model.Handshake.
Import ListNotations.
Local Open Scope N_scope.

(** ** 0. replaying what was sent against the backend *)

Fixpoint answers_from (be : backend) (hist l : list hframe) : list (hframe * bresp) :=
  match l with
  | [] => []
  | f :: r => (f, be hist f) :: answers_from be (hist ++ [f]) r
  end.
(** [answers be l]: the pairs (frame, answer) obtained by feeding [l] to [be] frame by frame, each frame together with
    the frames before it *)
Definition answers (be : backend) (l : list hframe) : list (hframe * bresp) := answers_from be [] l.

Lemma answers_from_fst : forall be l h, map fst (answers_from be h l) = l.
Proof. intros be l. induction l as [|f l IH]; intro h; cbn [answers_from map fst]; [reflexivity|]. rewrite IH. reflexivity. Qed.

Lemma answers_fst : forall be l, map fst (answers be l) = l.
Proof. intros. apply answers_from_fst. Qed.

Lemma answers_from_app : forall be l1 l2 h,
  answers_from be h (l1 ++ l2) = answers_from be h l1 ++ answers_from be (h ++ l1) l2.
Proof.
  intros be l1. induction l1 as [|f l1 IH]; intros l2 h; cbn [answers_from app].
  - rewrite app_nil_r. reflexivity.
  - rewrite IH. rewrite <- app_assoc. reflexivity.
Qed.

Lemma answers_from_nth : forall be l h i f,
  nth_error l i = Some f -> nth_error (answers_from be h l) i = Some (f, be (h ++ firstn i l) f).
Proof.
  intros be l. induction l as [|g l IH]; intros h i f Hn.
  - destruct i; discriminate Hn.
  - destruct i as [|i]; cbn [nth_error answers_from firstn] in *.
    + inversion Hn; subst. rewrite app_nil_r. reflexivity.
    + rewrite (IH (h ++ [g]) i f Hn). rewrite <- app_assoc. reflexivity.
Qed.

(** the i-th pair of [answers be l] is the i-th frame with the backend's answer to it after the first i frames *)
Lemma answers_nth : forall be l i f,
  nth_error l i = Some f -> nth_error (answers be l) i = Some (f, be (firstn i l) f).
Proof. intros be l i f Hn. unfold answers. rewrite (answers_from_nth be l [] i f Hn). reflexivity. Qed.

Lemma answers_from_in : forall be l h f r, In (f, r) (answers_from be h l) -> exists h', be h' f = r.
Proof.
  intros be l. induction l as [|g l IH]; intros h f r Hin; cbn [answers_from] in Hin.
  - destruct Hin.
  - destruct Hin as [Heq|Hin].
    + inversion Heq; subst. exists h. reflexivity.
    + exact (IH _ _ _ Hin).
Qed.

Definition rej (x : N) : hframe * bresp := (FStartup x, RUnsupportedVersion).

Lemma map_fst_rej : forall l, map fst (map rej l) = map FStartup l.
Proof. intro l. rewrite map_map. reflexivity. Qed.

(** ** small list facts *)

Lemma startups_app : forall a b, startups (a ++ b) = startups a ++ startups b.
Proof. intros. unfold startups. apply flat_map_app. Qed.
Lemma tokens_app : forall a b, tokens_sent (a ++ b) = tokens_sent a ++ tokens_sent b.
Proof. intros. unfold tokens_sent. apply flat_map_app. Qed.
Lemma startups_map_startup : forall l, startups (map FStartup l) = l.
Proof. induction l as [|x l IH]; cbn; [reflexivity|]. unfold startups in IH. rewrite IH. reflexivity. Qed.
Lemma tokens_map_startup : forall l, tokens_sent (map FStartup l) = [].
Proof. induction l as [|x l IH]; cbn; [reflexivity|]. exact IH. Qed.

Lemma is_prefix_N_app : forall a b, is_prefix_N a (a ++ b) = true.
Proof. induction a as [|x a IH]; intro b; cbn [is_prefix_N app]; [reflexivity|]. rewrite N.eqb_refl, IH. reflexivity. Qed.

Lemma last_app_cons : forall (A : Type) (l1 : list A) x l2 d, last (l1 ++ x :: l2) d = last (x :: l2) d.
Proof.
  intros A l1 x l2 d. induction l1 as [|y l1 IH]; cbn [app]; [reflexivity|].
  rewrite <- IH. destruct l1; reflexivity.
Qed.

Lemma memv_In : forall x l, memv x l = true <-> In x l.
Proof.
  intros x l. unfold memv. rewrite existsb_exists. split.
  - intros (y & Hy & He). apply N.eqb_eq in He. subst. exact Hy.
  - intro H. exists x. split; [exact H|apply N.eqb_refl].
Qed.

Lemma find_app_first : forall (p : N -> bool) pre w rest,
  (forall x, In x pre -> p x = false) -> p w = true -> find p (pre ++ w :: rest) = Some w.
Proof.
  intros p pre w rest. induction pre as [|y pre IH]; intros Hpre Hw; cbn [app find].
  - rewrite Hw. reflexivity.
  - rewrite (Hpre y (or_introl eq_refl)). apply IH; [|exact Hw]. intros x Hx. apply Hpre. right. exact Hx.
Qed.

Lemma find_none_all : forall (p : N -> bool) l, (forall x, In x l -> p x = false) -> find p l = None.
Proof.
  intros p l. induction l as [|y l IH]; intro H; cbn [find]; [reflexivity|].
  rewrite (H y (or_introl eq_refl)). apply IH. intros x Hx. apply H. right. exact Hx.
Qed.

(** ** 1. the downgrade chain *)

Lemma downgrade_byte : forall v v', downgrade v = Some v' -> v' < 256.
Proof.
  intros v v'. unfold downgrade.
  destruct (v =? 66); [intro H; inversion H; lia|].
  destruct (v =? 65); [intro H; inversion H; lia|].
  destruct (v =? 2); [discriminate|].
  intro H; inversion H. apply N.mod_lt. lia.
Qed.

Lemma chain_head : forall fuel v, chain fuel v = v :: tl (chain fuel v).
Proof. intros fuel v. destruct fuel; reflexivity. Qed.

Lemma chain_bytes : forall fuel v, v < 256 -> forall x, In x (chain fuel v) -> x < 256.
Proof.
  induction fuel as [|f IH]; intros v Hv x Hin; cbn [chain] in Hin.
  - destruct Hin as [<-|[]]. exact Hv.
  - destruct Hin as [<-|Hin]; [exact Hv|].
    destruct (downgrade v) as [v'|] eqn:Hd; [|destruct Hin].
    exact (IH v' (downgrade_byte _ _ Hd) x Hin).
Qed.

Lemma chain_tail_bytes : forall fuel v x, In x (tl (chain fuel v)) -> x < 256.
Proof.
  intros fuel v x Hin. destruct fuel as [|f]; cbn [chain tl] in Hin; [destruct Hin|].
  destruct (downgrade v) as [v'|] eqn:Hd; [|destruct Hin].
  exact (chain_bytes f v' (downgrade_byte _ _ Hd) x Hin).
Qed.

(** once the chain has stopped, more fuel does not change it *)
Lemma chain_stable : forall n v, (length (chain n v) <= n)%nat -> forall m, (n <= m)%nat -> chain m v = chain n v.
Proof.
  induction n as [|n IH]; intros v Hl m Hm.
  - cbn in Hl. lia.
  - destruct m as [|m]; [lia|]. cbn [chain] in *.
    destruct (downgrade v) as [v'|]; [|reflexivity].
    cbn [length] in Hl. rewrite (IH v'); [reflexivity|lia|lia].
Qed.

(** the element after which the chain stops is its last *)
Lemma chain_last_stops : forall pre fuel v w rest,
  chain fuel v = pre ++ w :: rest -> downgrade w = None -> rest = [].
Proof.
  induction pre as [|x pre IH]; intros fuel v w rest Hc Hd; cbn [app] in Hc.
  - destruct fuel as [|f]; cbn [chain] in Hc.
    + inversion Hc. reflexivity.
    + inversion Hc; subst. rewrite Hd. reflexivity.
  - destruct fuel as [|f]; cbn [chain] in Hc.
    + inversion Hc. destruct pre; discriminate.
    + destruct (downgrade v) as [v'|]; inversion Hc as [[Hx Hc']].
      * exact (IH f v' w rest Hc' Hd).
      * destruct pre; discriminate.
Qed.

Definition all_bytes : list N := map N.of_nat (seq 0 256).

Lemma in_all_bytes : forall v, v < 256 -> In v all_bytes.
Proof.
  intros v Hv. unfold all_bytes. rewrite <- (N2Nat.id v). apply in_map. apply in_seq. lia.
Qed.

(** reflection: for every byte the chain stops within 196 requests and never comes back to where it started *)
Lemma chain_check_bytes :
  forallb (fun v => (length (chain 200 v) <=? 196)%nat && negb (memv v (tl (chain 200 v)))) all_bytes = true.
Proof. vm_compute. reflexivity. Qed.

Lemma chain_byte_facts : forall v, v < 256 ->
  (length (chain 200 v) <= 196)%nat /\ ~ In v (tl (chain 200 v)).
Proof.
  intros v Hv. pose proof chain_check_bytes as H. rewrite forallb_forall in H.
  specialize (H v (in_all_bytes v Hv)). apply andb_true_iff in H. destruct H as [H1 H2].
  split.
  - apply Nat.leb_le in H1. exact H1.
  - intro Hin. apply memv_In in Hin. rewrite Hin in H2. discriminate H2.
Qed.

Lemma chain_300_200 : forall v, v < 256 -> forall m, (200 <= m)%nat -> chain m v = chain 200 v.
Proof.
  intros v Hv m Hm. apply chain_stable; [|exact Hm].
  destruct (chain_byte_facts v Hv) as [H _]. lia.
Qed.

(** H1 (chain part): from a byte the chain has at most 196 elements; the bound is exact (v = 1) *)
Theorem chain_length_bound : forall v, v < 256 -> (length (chain 300 v) <= 196)%nat.
Proof.
  intros v Hv. rewrite (chain_300_200 v Hv 300%nat) by lia. apply (chain_byte_facts v Hv).
Qed.
Example chain_length_bound_exact : length (chain 300 1) = 196%nat.
Proof. vm_compute. reflexivity. Qed.

Theorem chain_length_known : forall v, In v [2; 3; 4; 5; 65; 66] -> (length (chain 300 v) <= 5)%nat.
Proof.
  intros v Hin. cbn [In] in Hin.
  repeat (destruct Hin as [<-|Hin]; [vm_compute; lia|]). destruct Hin.
Qed.
Example chain_length_known_ex : length (chain 300 66) = 5%nat.
Proof. vm_compute. reflexivity. Qed.

(** for ANY requested version (also one that is not a byte) *)
Theorem chain_length_any : forall v, (length (chain 300 v) <= 197)%nat.
Proof.
  intro v. destruct (N.ltb_spec v 256) as [Hv|Hv].
  - pose proof (chain_length_bound v Hv). lia.
  - change (chain 300 v) with (v :: match downgrade v with Some v' => chain 299 v' | None => [] end).
    destruct (downgrade v) as [v'|] eqn:Hd; cbn [length]; [|lia].
    pose proof (downgrade_byte _ _ Hd) as Hv'.
    rewrite (chain_300_200 v' Hv' 299%nat) by lia.
    destruct (chain_byte_facts v' Hv') as [H _]. lia.
Qed.

(** the chain never returns to the version it started from *)
Theorem chain_never_returns : forall v, ~ In v (tl (chain 300 v)).
Proof.
  intros v Hin. destruct (N.ltb_spec v 256) as [Hv|Hv].
  - rewrite (chain_300_200 v Hv 300%nat) in Hin by lia. exact (proj2 (chain_byte_facts v Hv) Hin).
  - apply chain_tail_bytes in Hin. lia.
Qed.

(** H8 *)
Theorem known_versions_chain :
  chain 300 66 = [66; 65; 4; 3; 2] /\ chain 300 65 = [65; 4; 3; 2] /\ chain 300 5 = [5; 4; 3; 2]
  /\ chain 300 4 = [4; 3; 2] /\ chain 300 3 = [3; 2] /\ chain 300 2 = [2].
Proof. vm_compute. repeat split. Qed.

Theorem dse1_skips_v5 : ~ In 5 (chain 300 66).
Proof. vm_compute. intuition discriminate. Qed.

(** H9.  A requested version below 2 walks 1, 0, 255, 254, ... 66, 65, 4, 3, 2.  Configuration parsing never
    produces such a version (the proxy's --protocol-version accepts 3, 4, 5, 65, 66 only). *)
Theorem wrap_observation :
  length (chain 300 1) = 196%nat /\ firstn 4 (chain 300 1) = [1; 0; 255; 254] /\ length (chain 300 0) = 195%nat.
Proof. vm_compute. repeat split. Qed.

(** ** 2. the shape of every handshake *)

Definition last_round (be : backend) (hist : list hframe) (v : N) (auth : option creds) (events : bool) : hstate :=
  let '(h1, r) := send be hist (FStartup v) in
  match r with
  | RNone => {| sent := h1; h_version := v; h_out := HSendError |}
  | RReady =>
      if events then let '(h2, o) := register be h1 v in {| sent := h2; h_version := v; h_out := o |}
      else {| sent := h1; h_version := v; h_out := HOk |}
  | RAuthenticate name =>
      match auth with
      | None => {| sent := h1; h_version := v; h_out := HAuthExpected |}
      | Some c =>
          let '(h2, o) := authenticate be h1 v c name in
          match o with
          | HOk => if events then let '(h3, o3) := register be h2 v in {| sent := h3; h_version := v; h_out := o3 |}
                   else {| sent := h2; h_version := v; h_out := HOk |}
          | _ => {| sent := h2; h_version := v; h_out := o |}
          end
      end
  | RUnsupportedVersion => {| sent := h1; h_version := v; h_out := HCqlError |}
  | RError => {| sent := h1; h_version := v; h_out := HCqlError |}
  | _ => {| sent := h1; h_version := v; h_out := HUnexpected |}
  end.

Lemma handshake_S_cases : forall f be hist v auth ev,
  (exists v', be hist (FStartup v) = RUnsupportedVersion /\ downgrade v = Some v'
              /\ handshake (S f) be hist v auth ev = handshake f be (hist ++ [FStartup v]) v' auth ev)
  \/ ((be hist (FStartup v) = RUnsupportedVersion -> downgrade v = None)
      /\ handshake (S f) be hist v auth ev = last_round be hist v auth ev).
Proof.
  intros f be hist v auth ev. cbn [handshake]. unfold last_round, send.
  destruct (be hist (FStartup v)) eqn:Ha; try (right; split; [discriminate|reflexivity]).
  destruct (downgrade v) as [v'|] eqn:Hd.
  - left. exists v'. repeat split.
  - right. split; reflexivity.
Qed.

Definition reg_outcome (r : bresp) : houtcome :=
  match r with RReady => HOk | RNone => HSendError | RError | RUnsupportedVersion => HCqlError | _ => HUnexpected end.
Definition auth2_outcome (r : bresp) : houtcome :=
  match r with RAuthSuccess => HOk | RNone => HSendError | RError | RUnsupportedVersion => HCqlError | _ => HUnexpected end.
Definition auth1_fail (r : bresp) : option houtcome :=
  match r with
  | RAuthSuccess | RAuthChallenge _ => None
  | RNone => Some HSendError
  | RError | RUnsupportedVersion => Some HCqlError
  | _ => Some HUnexpected
  end.

(** what follows the authentication (or the READY): nothing, or one REGISTER and its answer *)
Inductive reg_part (w : N) (ev : bool) : list (hframe * bresp) -> houtcome -> Prop :=
| RP_none : ev = false -> reg_part w ev [] HOk
| RP_reg r : ev = true -> reg_part w ev [(FRegister w, r)] (reg_outcome r).

(** [tail_shape w auth ev a post o]: the last STARTUP (version w) was answered [a]; then the proxy sent the frames of
    [post] and got the answers of [post]; the outcome was [o] *)
Inductive tail_shape (w : N) (auth : option creds) (ev : bool) : bresp -> list (hframe * bresp) -> houtcome -> Prop :=
| TS_noanswer : tail_shape w auth ev RNone [] HSendError
| TS_lowest : downgrade w = None -> tail_shape w auth ev RUnsupportedVersion [] HCqlError
| TS_error : tail_shape w auth ev RError [] HCqlError
| TS_unexpected a : (a = RAuthSuccess \/ a = ROther \/ exists t, a = RAuthChallenge t) -> tail_shape w auth ev a [] HUnexpected
| TS_ready rp o : reg_part w ev rp o -> tail_shape w auth ev RReady rp o
| TS_nocreds n : auth = None -> tail_shape w auth ev (RAuthenticate n) [] HAuthExpected
| TS_auth_ok c n rp o : auth = Some c -> reg_part w ev rp o ->
    tail_shape w auth ev (RAuthenticate n) ((FAuthResponse w (initial_response c n), RAuthSuccess) :: rp) o
| TS_auth_fail c n r o : auth = Some c -> auth1_fail r = Some o ->
    tail_shape w auth ev (RAuthenticate n) [(FAuthResponse w (initial_response c n), r)] o
| TS_bad_challenge c n t : auth = Some c -> t <> plain_start ->
    tail_shape w auth ev (RAuthenticate n) [(FAuthResponse w (initial_response c n), RAuthChallenge t)] HBadChallenge
| TS_challenge_ok c n rp o : auth = Some c -> reg_part w ev rp o ->
    tail_shape w auth ev (RAuthenticate n)
      ((FAuthResponse w (initial_response c n), RAuthChallenge plain_start)
         :: (FAuthResponse w (make_token c), RAuthSuccess) :: rp) o
| TS_challenge_fail c n r : auth = Some c -> r <> RAuthSuccess ->
    tail_shape w auth ev (RAuthenticate n)
      [(FAuthResponse w (initial_response c n), RAuthChallenge plain_start); (FAuthResponse w (make_token c), r)]
      (auth2_outcome r).

Ltac shape_leaf :=
  do 3 eexists; split; [cbn [sent]; rewrite <- ?app_assoc; cbn [app]; reflexivity|];
  split; [reflexivity|];
  split; [cbn [answers_from]; repeat match goal with H : @eq bresp _ _ |- _ => rewrite H end; reflexivity|cbn [h_out]].

Lemma last_round_shape : forall be hist w auth ev,
  (be hist (FStartup w) = RUnsupportedVersion -> downgrade w = None) ->
  exists fr a post,
    sent (last_round be hist w auth ev) = hist ++ fr /\
    h_version (last_round be hist w auth ev) = w /\
    answers_from be hist fr = (FStartup w, a) :: post /\
    tail_shape w auth ev a post (h_out (last_round be hist w auth ev)).
Proof.
  intros be hist w auth ev Hlow.
  unfold last_round, authenticate, register, send. cbv beta iota zeta.
  destruct (be hist (FStartup w)) eqn:Ha.
  - (* READY *)
    destruct ev.
    + shape_leaf. apply TS_ready. apply RP_reg. reflexivity.
    + shape_leaf. apply TS_ready. apply RP_none. reflexivity.
  - (* AUTHENTICATE *)
    destruct auth as [c|].
    2:{ shape_leaf. apply TS_nocreds. reflexivity. }
    destruct (be (hist ++ [FStartup w]) (FAuthResponse w (initial_response c authenticator))) eqn:Ha1.
    all: try (shape_leaf; eapply TS_auth_fail; reflexivity).
    + (* AUTH_CHALLENGE *)
      destruct (bytes_eqb token plain_start) eqn:Ht.
      * apply bytes_eqb_eq in Ht. subst token.
        destruct (be ((hist ++ [FStartup w]) ++ [FAuthResponse w (initial_response c authenticator)])
                     (FAuthResponse w (make_token c))) eqn:Ha2.
        all: try (shape_leaf;
                  match goal with |- tail_shape _ _ _ _ [_; (_, ?r)] _ =>
                    apply (TS_challenge_fail w (Some c) ev c authenticator r eq_refl); discriminate end).
        destruct ev.
        -- shape_leaf. apply TS_challenge_ok; [reflexivity|]. apply RP_reg. reflexivity.
        -- shape_leaf. apply TS_challenge_ok; [reflexivity|]. apply RP_none. reflexivity.
      * shape_leaf. apply TS_bad_challenge; [reflexivity|].
        intro He. subst token. rewrite bytes_eqb_refl in Ht. discriminate Ht.
    + (* AUTH_SUCCESS *)
      destruct ev.
      * shape_leaf. apply TS_auth_ok; [reflexivity|]. apply RP_reg. reflexivity.
      * shape_leaf. apply TS_auth_ok; [reflexivity|]. apply RP_none. reflexivity.
  - shape_leaf. apply TS_unexpected. right. right. eexists. reflexivity.
  - shape_leaf. apply TS_unexpected. left. reflexivity.
  - shape_leaf. apply TS_lowest. apply Hlow. reflexivity.
  - shape_leaf. apply TS_error.
  - shape_leaf. apply TS_unexpected. right. left. reflexivity.
  - shape_leaf. apply TS_noanswer.
Qed.

(** the loop: some rejected STARTUPs, then either the fuel is gone or one last round *)
Lemma handshake_shape : forall fuel be hist v auth ev,
  exists pre w rest fr,
    chain fuel v = pre ++ w :: rest /\
    h_version (handshake fuel be hist v auth ev) = w /\
    sent (handshake fuel be hist v auth ev) = hist ++ map FStartup pre ++ fr /\
    answers_from be hist (map FStartup pre) = map rej pre /\
    ((h_out (handshake fuel be hist v auth ev) = HOutOfFuel /\ fr = [] /\ rest = [] /\ length pre = fuel)
     \/ exists a post,
          answers_from be (hist ++ map FStartup pre) fr = (FStartup w, a) :: post /\
          tail_shape w auth ev a post (h_out (handshake fuel be hist v auth ev))).
Proof.
  induction fuel as [|f IH]; intros be hist v auth ev.
  - exists [], v, [], []. cbn [handshake chain sent h_version h_out map app length].
    rewrite app_nil_r. repeat split. left. repeat split.
  - destruct (handshake_S_cases f be hist v auth ev) as [(v' & Ha & Hd & Heq)|[Hlow Heq]]; rewrite Heq.
    + destruct (IH be (hist ++ [FStartup v]) v' auth ev) as (pre & w & rest & fr & Hc & Hv & Hs & Han & Hor).
      exists (v :: pre), w, rest, fr. split; [|split; [|split; [|split]]].
      * cbn [chain]. rewrite Hd, Hc. reflexivity.
      * exact Hv.
      * rewrite Hs. cbn [map app]. rewrite <- app_assoc. reflexivity.
      * cbn [map answers_from]. rewrite Ha, Han. reflexivity.
      * destruct Hor as [(Ho & Hfr & Hr & Hl)|(a & post & Hp & Hts)].
        -- left. repeat split; try assumption. cbn [length]. rewrite Hl. reflexivity.
        -- right. exists a, post. split; [|exact Hts].
           cbn [map]. rewrite <- app_assoc in Hp. exact Hp.
    + destruct (last_round_shape be hist v auth ev Hlow) as (fr & a & post & Hs & Hv & Han & Hts).
      exists [], v, (match downgrade v with Some v' => chain f v' | None => [] end), fr.
      cbn [map app answers_from]. rewrite app_nil_r. repeat split; try assumption.
      right. exists a, post. split; assumption.
Qed.

(** general form of H1: if the chain stops within the fuel, the loop does not run out of it *)
Theorem enough_fuel_general : forall fuel be hist v auth ev,
  (length (chain fuel v) <= fuel)%nat -> h_out (handshake fuel be hist v auth ev) <> HOutOfFuel.
Proof.
  intros fuel be hist v auth ev Hl Ho.
  destruct (handshake_shape fuel be hist v auth ev) as (pre & w & rest & fr & Hc & _ & _ & _ & Hor).
  destruct Hor as [(_ & _ & Hr & Hlen)|(a & post & _ & Hts)].
  - subst rest. rewrite Hc, app_length in Hl. cbn [length] in Hl. lia.
  - rewrite Ho in Hts. inversion Hts; subst;
      repeat match goal with
             | H : reg_part _ _ _ HOutOfFuel |- _ => inversion H; clear H
             | H : reg_outcome ?r = HOutOfFuel |- _ => destruct r; discriminate H
             | H : HOutOfFuel = reg_outcome ?r |- _ => destruct r; discriminate H
             | H : auth2_outcome ?r = HOutOfFuel |- _ => destruct r; discriminate H
             | H : HOutOfFuel = auth2_outcome ?r |- _ => destruct r; discriminate H
             | H : auth1_fail ?r = Some HOutOfFuel |- _ => destruct r; discriminate H
             end.
Qed.

(** ** the structural theorem for [run_handshake] (fuel 300), for ANY requested version and ANY backend *)
Theorem transcript_shape : forall be v auth ev,
  let s := run_handshake be v auth ev in
  exists pre rest a post,
    chain 300 v = pre ++ h_version s :: rest /\
    answers be (sent s) = map rej pre ++ (FStartup (h_version s), a) :: post /\
    sent s = map FStartup pre ++ FStartup (h_version s) :: map fst post /\
    tail_shape (h_version s) auth ev a post (h_out s).
Proof.
  intros be v auth ev s. subst s. unfold run_handshake.
  destruct (handshake_shape 300 be [] v auth ev) as (pre & w & rest & fr & Hc & Hv & Hs & Han & Hor).
  destruct Hor as [(_ & _ & Hr & Hlen)|(a & post & Hp & Hts)].
  - exfalso. pose proof (chain_length_any v) as Hl. subst rest.
    rewrite Hc, app_length in Hl. cbn [length] in Hl. lia.
  - rewrite Hv. exists pre, rest, a, post.
    assert (Hans : answers be (sent (handshake 300 be [] v auth ev)) = map rej pre ++ (FStartup w, a) :: post).
    { rewrite Hs. cbn [app]. unfold answers. rewrite answers_from_app, Han. cbn [app] in Hp |- *. rewrite Hp. reflexivity. }
    split; [exact Hc|]. split; [exact Hans|]. split; [|exact Hts].
    rewrite <- (answers_fst be (sent (handshake 300 be [] v auth ev))) at 1.
    rewrite Hans, map_app, map_fst_rej. reflexivity.
Qed.

(** *** facts read off [tail_shape] *)

Ltac tail_cases H :=
  destruct H;
  repeat match goal with Hr : reg_part _ _ _ _ |- _ => destruct Hr end.

Lemma tail_no_startups : forall w auth ev a post o,
  tail_shape w auth ev a post o -> startups (map fst post) = [].
Proof. intros w auth ev a post o H. tail_cases H; reflexivity. Qed.

Lemma tail_no_startup_pairs : forall w auth ev a post o,
  tail_shape w auth ev a post o -> forall x r, ~ In (FStartup x, r) post.
Proof. intros w auth ev a post o H x r Hin. tail_cases H; cbn [In] in Hin; intuition discriminate. Qed.

Lemma reg_outcome_ok : forall r, reg_outcome r = HOk -> r = RReady.
Proof. intros r H. destruct r; try discriminate H. reflexivity. Qed.

Lemma tail_ok_accepted : forall w auth ev a post o,
  tail_shape w auth ev a post o -> o = HOk -> a = RReady \/ exists n, a = RAuthenticate n.
Proof. intros w auth ev a post o H Ho. destruct H; try discriminate Ho; eauto. Qed.

Lemma tail_not_out_of_fuel : forall w auth ev a post o, tail_shape w auth ev a post o -> o <> HOutOfFuel.
Proof.
  intros w auth ev a post o H Ho. tail_cases H; try discriminate Ho;
    repeat match goal with
           | H : reg_outcome ?r = HOutOfFuel |- _ => destruct r; discriminate H
           | H : auth2_outcome ?r = HOutOfFuel |- _ => destruct r; discriminate H
           | H : auth1_fail ?r = Some ?o, H' : ?o = HOutOfFuel |- _ => subst o; destruct r; discriminate H
           end.
Qed.

(** shorthand used below *)
Ltac open_shape be v auth ev :=
  let pre := fresh "pre" in let rest := fresh "rest" in let a := fresh "a" in let post := fresh "post" in
  let Hc := fresh "Hc" in let Han := fresh "Han" in let Hs := fresh "Hs" in let Hts := fresh "Hts" in
  destruct (transcript_shape be v auth ev) as (pre & rest & a & post & Hc & Han & Hs & Hts).

(** ** H1 *)
Theorem handshake_terminates_any_version : forall be v auth ev,
  h_out (run_handshake be v auth ev) <> HOutOfFuel.
Proof. intros be v auth ev. open_shape be v auth ev. exact (tail_not_out_of_fuel _ _ _ _ _ _ Hts). Qed.

Theorem handshake_terminates : forall be v auth ev, v < 256 -> h_out (run_handshake be v auth ev) <> HOutOfFuel.
Proof. intros be v auth ev _. apply handshake_terminates_any_version. Qed.

(** ** H2 *)
Lemma startups_of_shape : forall pre w (post : list (hframe * bresp)),
  startups (map fst post) = [] -> startups (map FStartup pre ++ FStartup w :: map fst post) = pre ++ [w].
Proof.
  intros pre w post Hp. rewrite startups_app, startups_map_startup.
  change (startups (FStartup w :: map fst post)) with (w :: startups (map fst post)). rewrite Hp. reflexivity.
Qed.

Theorem startups_exact : forall be v auth ev,
  let s := run_handshake be v auth ev in
  exists pre rest, startups (sent s) = pre ++ [h_version s] /\ chain 300 v = startups (sent s) ++ rest.
Proof.
  intros be v auth ev s. subst s. open_shape be v auth ev.
  exists pre, rest. rewrite Hs at 1 2. rewrite (startups_of_shape _ _ _ (tail_no_startups _ _ _ _ _ _ Hts)).
  split; [reflexivity|]. rewrite <- app_assoc. exact Hc.
Qed.

Theorem startups_follow_chain : forall be v auth ev,
  is_prefix_N (startups (sent (run_handshake be v auth ev))) (chain 300 v) = true.
Proof.
  intros be v auth ev. destruct (startups_exact be v auth ev) as (pre & rest & _ & Hc).
  rewrite Hc. apply is_prefix_N_app.
Qed.

(** ** H3 *)
Theorem success_means_last_startup_accepted : forall be v auth ev,
  let s := run_handshake be v auth ev in
  h_out s = HOk ->
  exists pre a post,
    answers be (sent s) = map rej pre ++ (FStartup (h_version s), a) :: post /\
    (a = RReady \/ exists name, a = RAuthenticate name) /\
    startups (map fst post) = [].
Proof.
  intros be v auth ev s Ho. subst s. open_shape be v auth ev.
  exists pre, a, post. split; [exact Han|]. split.
  - exact (tail_ok_accepted _ _ _ _ _ _ Hts Ho).
  - exact (tail_no_startups _ _ _ _ _ _ Hts).
Qed.

(** ** H3s: a [simple] backend *)
Lemma simple_startup_rejected : forall b h x,
  simple b h (FStartup x) = RUnsupportedVersion -> memv x (accepts b) = false.
Proof.
  intros b h x. unfold simple. destruct (memv x (accepts b)); [destruct (need_auth b); discriminate|reflexivity].
Qed.
Lemma simple_startup_accepted : forall b h x a,
  simple b h (FStartup x) = a -> (a = RReady \/ exists n, a = RAuthenticate n) -> memv x (accepts b) = true.
Proof.
  intros b h x a. unfold simple. destruct (memv x (accepts b)); [reflexivity|].
  intros <- [H|[n H]]; discriminate H.
Qed.
Lemma simple_startup_eval : forall b h x,
  simple b h (FStartup x) =
  if memv x (accepts b) then match need_auth b with Some n => RAuthenticate n | None => RReady end
  else RUnsupportedVersion.
Proof. reflexivity. Qed.
Lemma simple_register_ready : forall b h x, simple b h (FRegister x) = RReady.
Proof. reflexivity. Qed.

Lemma shape_pre_rejected : forall be l pre w a post,
  answers be l = map rej pre ++ (FStartup w, a) :: post ->
  (forall x, In x pre -> exists h, be h (FStartup x) = RUnsupportedVersion) /\ (exists h, be h (FStartup w) = a)
  /\ (forall f r, In (f, r) post -> exists h, be h f = r).
Proof.
  intros be l pre w a post Han. unfold answers in Han. repeat split.
  - intros x Hx. apply (answers_from_in be l [] (FStartup x) RUnsupportedVersion).
    rewrite Han. apply in_or_app. left. apply (in_map rej). exact Hx.
  - apply (answers_from_in be l [] (FStartup w) a). rewrite Han. apply in_or_app. right. left. reflexivity.
  - intros f r Hin. apply (answers_from_in be l [] f r). rewrite Han. apply in_or_app. right. right. exact Hin.
Qed.

Theorem simple_success_first_accepted : forall b v auth ev,
  let s := run_handshake (simple b) v auth ev in
  h_out s = HOk ->
  memv (h_version s) (accepts b) = true /\
  find (fun x => memv x (accepts b)) (chain 300 v) = Some (h_version s).
Proof.
  intros b v auth ev s Ho. subst s. open_shape (simple b) v auth ev.
  destruct (shape_pre_rejected _ _ _ _ _ _ Han) as (Hpre & (h & Hw) & _).
  assert (Hm : memv (h_version (run_handshake (simple b) v auth ev)) (accepts b) = true).
  { exact (simple_startup_accepted b h _ a Hw (tail_ok_accepted _ _ _ _ _ _ Hts Ho)). }
  split; [exact Hm|]. rewrite Hc. apply find_app_first; [|exact Hm].
  intros x Hx. destruct (Hpre x Hx) as (h' & Hr). exact (simple_startup_rejected b h' x Hr).
Qed.

Lemma tail_ready_ok : forall w auth ev a post o,
  tail_shape w auth ev a post o -> a = RReady -> (forall r, In (FRegister w, r) post -> r = RReady) -> o = HOk.
Proof.
  intros w auth ev a post o H Ea Hr. destruct H; try discriminate Ea.
  - destruct H as [H|[H|[t H]]]; rewrite H in Ea; discriminate Ea.
  - destruct H; [reflexivity|]. rewrite (Hr r (or_introl eq_refl)). reflexivity.
Qed.

Lemma tail_unsupported_lowest : forall w auth ev a post o,
  tail_shape w auth ev a post o -> a = RUnsupportedVersion -> downgrade w = None.
Proof.
  intros w auth ev a post o H Ea. destruct H; try discriminate Ea; [assumption|].
  destruct H as [H|[H|[t H]]]; rewrite H in Ea; discriminate Ea.
Qed.

(** conversely: if some version of the chain is accepted and the backend asks for no authentication, the handshake
    succeeds (with or without REGISTER: a [simple] backend answers READY to it), on the first accepted version *)
Theorem simple_accepted_means_success : forall b v auth ev w,
  need_auth b = None ->
  find (fun x => memv x (accepts b)) (chain 300 v) = Some w ->
  let s := run_handshake (simple b) v auth ev in h_out s = HOk /\ h_version s = w.
Proof.
  intros b v auth ev w Hna Hfind s. subst s. open_shape (simple b) v auth ev.
  destruct (shape_pre_rejected _ _ _ _ _ _ Han) as (Hpre & (h & Hw) & Hpost).
  assert (Hrej : forall x, In x pre -> memv x (accepts b) = false).
  { intros x Hx. destruct (Hpre x Hx) as (h' & Hr). exact (simple_startup_rejected b h' x Hr). }
  destruct (memv (h_version (run_handshake (simple b) v auth ev)) (accepts b)) eqn:Hm.
  - split.
    + apply (tail_ready_ok _ _ _ _ _ _ Hts).
      * rewrite <- Hw, simple_startup_eval, Hm, Hna. reflexivity.
      * intros r Hin. destruct (Hpost _ _ Hin) as (h' & Hr). rewrite <- Hr. reflexivity.
    + rewrite Hc in Hfind. rewrite (find_app_first _ pre _ rest Hrej Hm) in Hfind. inversion Hfind. reflexivity.
  - exfalso.
    assert (Hlow : downgrade (h_version (run_handshake (simple b) v auth ev)) = None).
    { apply (tail_unsupported_lowest _ _ _ _ _ _ Hts). rewrite <- Hw, simple_startup_eval, Hm. reflexivity. }
    pose proof (chain_last_stops _ _ _ _ _ Hc Hlow) as Hr. subst rest.
    rewrite Hc, find_none_all in Hfind; [discriminate Hfind|].
    intros x Hx. apply in_app_or in Hx. destruct Hx as [Hx|[<-|[]]]; [exact (Hrej x Hx)|exact Hm].
Qed.

(** ** H4 *)
Theorem connect_exact_one_startup : forall be v auth ev,
  connect_exact be v auth ev = true -> startups (sent (run_handshake be v auth ev)) = [v].
Proof.
  intros be v auth ev H. unfold connect_exact in H.
  destruct (h_out (run_handshake be v auth ev)); try discriminate H.
  apply N.eqb_eq in H. destruct (startups_exact be v auth ev) as (pre & rest & Hst & Hc).
  rewrite H in Hst. rewrite Hst in Hc |- *.
  destruct pre as [|x pre]; [reflexivity|exfalso].
  apply (chain_never_returns v). rewrite Hc. cbn [app tl].
  apply in_or_app. left. apply in_or_app. right. left. reflexivity.
Qed.

Theorem connect_exact_spec : forall be v auth ev,
  connect_exact be v auth ev = true ->
  h_out (run_handshake be v auth ev) = HOk /\ h_version (run_handshake be v auth ev) = v.
Proof.
  intros be v auth ev H. unfold connect_exact in H.
  destruct (h_out (run_handshake be v auth ev)); try discriminate H.
  apply N.eqb_eq in H. split; [reflexivity|exact H].
Qed.

Theorem connect_initial_version_in_chain : forall be v auth w,
  connect_initial be v auth = Some w -> In w (chain 300 v).
Proof.
  intros be v auth w H. unfold connect_initial in H.
  destruct (h_out (run_handshake be v auth true)); try discriminate H. inversion H as [Hw].
  open_shape be v auth true. rewrite Hc. apply in_or_app. right. left. reflexivity.
Qed.

(** ** H5: credentials *)
Lemma tokens_of_shape : forall pre w (post : list (hframe * bresp)),
  tokens_sent (map FStartup pre ++ FStartup w :: map fst post) = tokens_sent (map fst post).
Proof. intros. rewrite tokens_app, tokens_map_startup. reflexivity. Qed.

Ltac creds_cleanup :=
  repeat match goal with
         | He : Some _ = Some _ |- _ => inversion He; subst; clear He
         | He : None = Some _ |- _ => discriminate He
         | He : Some _ = None |- _ => discriminate He
         end.
Ltac tok_cbn := cbn [tokens_sent flat_map map fst app length In].
Ltac tok_cbn_in H := cbn [tokens_sent flat_map map fst app length In] in H.

Lemma make_token_not_plain : forall c, make_token c <> plain.
Proof.
  intros c H. assert (Hin : In 0 (make_token c)).
  { unfold make_token. apply in_or_app. right. left. reflexivity. }
  rewrite H in Hin. vm_compute in Hin. intuition discriminate.
Qed.

Lemma initial_response_cases : forall c n, initial_response c n = plain \/ initial_response c n = make_token c.
Proof. intros c n. unfold initial_response. destruct (bytes_eqb n dse_authenticator); [left|right]; reflexivity. Qed.

Lemma initial_response_plain_iff : forall c n, initial_response c n = plain <-> n = dse_authenticator.
Proof.
  intros c n. unfold initial_response. destruct (bytes_eqb n dse_authenticator) eqn:E.
  - apply bytes_eqb_eq in E. tauto.
  - split; intro H.
    + exfalso. exact (make_token_not_plain c H).
    + subst n. rewrite bytes_eqb_refl in E. discriminate E.
Qed.

Lemma initial_response_other : forall c n, n <> dse_authenticator -> initial_response c n = make_token c.
Proof.
  intros c n Hn. destruct (initial_response_cases c n) as [H|H]; [|exact H].
  apply initial_response_plain_iff in H. contradiction.
Qed.

Lemma tail_tokens_nocreds : forall w ev a post o,
  tail_shape w None ev a post o -> tokens_sent (map fst post) = [].
Proof. intros w ev a post o H. tail_cases H; creds_cleanup; reflexivity. Qed.

Lemma tail_tokens_need_auth : forall w auth ev a post o,
  tail_shape w auth ev a post o -> tokens_sent (map fst post) <> [] -> exists n, a = RAuthenticate n.
Proof. intros w auth ev a post o H Hne. tail_cases H; tok_cbn_in Hne; try congruence; eauto. Qed.

Lemma tail_token_values : forall w c ev a post o,
  tail_shape w (Some c) ev a post o ->
  forall t, In t (tokens_sent (map fst post)) -> t = plain \/ t = make_token c.
Proof.
  intros w c ev a post o H t Hin.
  tail_cases H; creds_cleanup; tok_cbn_in Hin;
    repeat (destruct Hin as [<-|Hin]; [first [apply initial_response_cases | right; reflexivity]|]); destruct Hin.
Qed.

Lemma tail_at_most_two : forall w auth ev a post o,
  tail_shape w auth ev a post o -> (length (tokens_sent (map fst post)) <= 2)%nat.
Proof. intros w auth ev a post o H. tail_cases H; tok_cbn; lia. Qed.

Lemma tail_two_tokens : forall w c ev a post o,
  tail_shape w (Some c) ev a post o ->
  forall t1 t2, tokens_sent (map fst post) = [t1; t2] ->
  t2 = make_token c /\ In (FAuthResponse w t1, RAuthChallenge plain_start) post
  /\ exists n, a = RAuthenticate n /\ t1 = initial_response c n.
Proof.
  intros w c ev a post o H t1 t2 Ht.
  tail_cases H; creds_cleanup; tok_cbn_in Ht; try discriminate Ht;
    inversion Ht; subst; (split; [reflexivity|split; [left; reflexivity|eauto]]).
Qed.

Lemma tail_first_token : forall w c ev a post o,
  tail_shape w (Some c) ev a post o ->
  forall n t ts, a = RAuthenticate n -> tokens_sent (map fst post) = t :: ts -> t = initial_response c n.
Proof.
  intros w c ev a post o H n t ts Ea Ht.
  tail_cases H; creds_cleanup; tok_cbn_in Ht; try discriminate Ht; inversion Ea; inversion Ht; subst; reflexivity.
Qed.

Theorem no_token_without_credentials : forall be v ev,
  tokens_sent (sent (run_handshake be v None ev)) = [].
Proof.
  intros be v ev. open_shape be v (@None creds) ev. rewrite Hs, tokens_of_shape.
  exact (tail_tokens_nocreds _ _ _ _ _ Hts).
Qed.

Theorem no_token_unless_asked : forall be v auth ev,
  let s := run_handshake be v auth ev in
  tokens_sent (sent s) <> [] ->
  exists pre name post,
    answers be (sent s) = map rej pre ++ (FStartup (h_version s), RAuthenticate name) :: post.
Proof.
  intros be v auth ev s Hne. subst s. open_shape be v auth ev.
  rewrite Hs, tokens_of_shape in Hne.
  destruct (tail_tokens_need_auth _ _ _ _ _ _ Hts Hne) as (n & Ea). subst a.
  exists pre, n, post. exact Han.
Qed.

(** the weaker reading, with [In] *)
Corollary no_token_unless_asked_in : forall be v auth ev,
  let s := run_handshake be v auth ev in
  tokens_sent (sent s) <> [] ->
  exists name, In (FStartup (h_version s), RAuthenticate name) (answers be (sent s)).
Proof.
  intros be v auth ev s Hne. destruct (no_token_unless_asked be v auth ev Hne) as (pre & n & post & H).
  exists n. fold s in H. rewrite H. apply in_or_app. right. left. reflexivity.
Qed.

Theorem tokens_are_plain_or_the_token : forall be v c ev t,
  In t (tokens_sent (sent (run_handshake be v (Some c) ev))) -> t = plain \/ t = make_token c.
Proof.
  intros be v c ev t Hin. open_shape be v (Some c) ev. rewrite Hs, tokens_of_shape in Hin.
  exact (tail_token_values _ _ _ _ _ _ Hts t Hin).
Qed.

Theorem at_most_two_tokens : forall be v auth ev,
  (length (tokens_sent (sent (run_handshake be v auth ev))) <= 2)%nat.
Proof.
  intros be v auth ev. open_shape be v auth ev. rewrite Hs, tokens_of_shape.
  exact (tail_at_most_two _ _ _ _ _ _ Hts).
Qed.

Theorem password_after_plain_only_on_plain_start : forall be v c ev t1 t2,
  let s := run_handshake be v (Some c) ev in
  tokens_sent (sent s) = [t1; t2] ->
  t2 = make_token c /\ In (FAuthResponse (h_version s) t1, RAuthChallenge plain_start) (answers be (sent s)).
Proof.
  intros be v c ev t1 t2 s Ht. subst s. open_shape be v (Some c) ev.
  rewrite Hs, tokens_of_shape in Ht.
  destruct (tail_two_tokens _ _ _ _ _ _ Hts t1 t2 Ht) as (H2 & Hin & _).
  split; [exact H2|]. rewrite Han. apply in_or_app. right. right. exact Hin.
Qed.

(** the last STARTUP's answer is the only place an AUTHENTICATE can be *)
Lemma authenticate_answer_unique : forall pre w a post x n,
  (forall y r, ~ In (FStartup y, r) post) ->
  In (FStartup x, RAuthenticate n) (map rej pre ++ (FStartup w, a) :: post) -> x = w /\ a = RAuthenticate n.
Proof.
  intros pre w a post x n Hpost Hin. apply in_app_or in Hin. destruct Hin as [Hin|[Heq|Hin]].
  - apply in_map_iff in Hin. destruct Hin as (y & Hy & _). discriminate Hy.
  - inversion Heq. split; reflexivity.
  - exfalso. exact (Hpost _ _ Hin).
Qed.

Theorem dse_gets_plain_first : forall be v c ev name t ts,
  let s := run_handshake be v (Some c) ev in
  In (FStartup (h_version s), RAuthenticate name) (answers be (sent s)) ->
  tokens_sent (sent s) = t :: ts ->
  t = initial_response c name /\ (t = plain <-> name = dse_authenticator)
  /\ (name <> dse_authenticator -> t = make_token c).
Proof.
  intros be v c ev name t ts s Hin Ht. subst s. open_shape be v (Some c) ev.
  rewrite Han in Hin. rewrite Hs, tokens_of_shape in Ht.
  destruct (authenticate_answer_unique _ _ _ _ _ _ (tail_no_startup_pairs _ _ _ _ _ _ Hts) Hin) as [_ Ea].
  pose proof (tail_first_token _ _ _ _ _ _ Hts name t ts Ea Ht) as Hi. subst t.
  split; [reflexivity|]. split; [apply initial_response_plain_iff|apply initial_response_other].
Qed.

(** ** H6 *)
Lemma tail_register_iff : forall w auth ev a post o,
  tail_shape w auth ev a post o -> o = HOk ->
  (ev = true <-> last (FStartup w :: map fst post) (FStartup 0) = FRegister w).
Proof.
  intros w auth ev a post o H Ho.
  tail_cases H; try discriminate Ho; cbn [map fst last]; split; intro Hx; try congruence; try discriminate Hx.
  all: try (subst o; destruct r; discriminate H0).
  all: try (destruct r; try discriminate Ho; congruence).
Qed.

Theorem register_iff_events : forall be v auth ev,
  let s := run_handshake be v auth ev in
  h_out s = HOk -> (ev = true <-> exists l, sent s = l ++ [FRegister (h_version s)]).
Proof.
  intros be v auth ev s Ho. subst s. open_shape be v auth ev.
  pose proof (tail_register_iff _ _ _ _ _ _ Hts Ho) as Hiff.
  assert (Hlast : last (sent (run_handshake be v auth ev)) (FStartup 0)
                  = last (FStartup (h_version (run_handshake be v auth ev)) :: map fst post) (FStartup 0)).
  { rewrite Hs at 1. apply last_app_cons. }
  rewrite Hiff, <- Hlast. split.
  - intro Hl. destruct (exists_last (l := sent (run_handshake be v auth ev))) as (l & x & Hx).
    { rewrite Hs. destruct pre; discriminate. }
    exists l. rewrite Hx in Hl |- *. rewrite last_last in Hl. rewrite Hl. reflexivity.
  - intros (l & Hx). rewrite Hx. apply last_last.
Qed.

Lemma tail_no_register : forall w auth a post o,
  tail_shape w auth false a post o -> forall x, ~ In (FRegister x) (map fst post).
Proof.
  intros w auth a post o H x Hin.
  tail_cases H; try discriminate; cbn [map fst In] in Hin; intuition discriminate.
Qed.

Theorem no_register_without_events : forall be v auth x,
  ~ In (FRegister x) (sent (run_handshake be v auth false)).
Proof.
  intros be v auth x Hin. open_shape be v auth false. rewrite Hs in Hin.
  apply in_app_or in Hin. destruct Hin as [Hin|[Heq|Hin]].
  - apply in_map_iff in Hin. destruct Hin as (y & Hy & _). discriminate Hy.
  - discriminate Heq.
  - exact (tail_no_register _ _ _ _ _ Hts x Hin).
Qed.

(** ** H7 *)
Lemma tail_versions : forall w auth ev a post o,
  tail_shape w auth ev a post o ->
  forall f, In f (map fst post) -> match f with FStartup _ => False | FRegister x | FAuthResponse x _ => x = w end.
Proof.
  intros w auth ev a post o H f Hin.
  tail_cases H; cbn [map fst In] in Hin;
    repeat (destruct Hin as [<-|Hin]; [reflexivity|]); destruct Hin.
Qed.

Theorem frames_after_startup_carry_the_negotiated_version : forall be v auth ev,
  let s := run_handshake be v auth ev in
  (forall x t, In (FAuthResponse x t) (sent s) -> x = h_version s) /\
  (forall x, In (FRegister x) (sent s) -> x = h_version s).
Proof.
  intros be v auth ev s. subst s. open_shape be v auth ev.
  assert (Hall : forall f, In f (sent (run_handshake be v auth ev)) ->
                 match f with FStartup _ => True | FRegister x | FAuthResponse x _ => x = h_version (run_handshake be v auth ev) end).
  { intros f Hin. rewrite Hs in Hin. apply in_app_or in Hin. destruct Hin as [Hin|[<-|Hin]].
    - apply in_map_iff in Hin. destruct Hin as (y & <- & _). exact Logic.I.
    - exact Logic.I.
    - pose proof (tail_versions _ _ _ _ _ _ Hts f Hin) as Hv. destruct f; [exact Logic.I|exact Hv|exact Hv]. }
  split.
  - intros x t Hin. exact (Hall _ Hin).
  - intros x Hin. exact (Hall _ Hin).
Qed.

(** ** Examples: every theorem's hypotheses are satisfiable on a non-trivial instance *)

Definition c0 : creds := {| c_authid := []; c_user := str "cassandra"; c_pass := str "secret" |}.
Definition pw_name : bytes := str "org.apache.cassandra.auth.PasswordAuthenticator".
Definition odd_name : bytes := str "com.example.SomeAuthenticator".
Definition be_open : simple_be := {| accepts := [4; 3]; need_auth := None; good_token := []; dse_flow := false |}.
Definition be_pw : simple_be := {| accepts := [4]; need_auth := Some pw_name; good_token := make_token c0; dse_flow := false |}.
Definition be_dse : simple_be := {| accepts := [65; 4]; need_auth := Some dse_authenticator; good_token := make_token c0; dse_flow := true |}.
Definition be_odd : simple_be := {| accepts := [4]; need_auth := Some odd_name; good_token := make_token c0; dse_flow := false |}.
Definition be_v5 : simple_be := {| accepts := [5]; need_auth := None; good_token := []; dse_flow := false |}.
Definition be_v54 : simple_be := {| accepts := [5; 4]; need_auth := None; good_token := []; dse_flow := false |}.
(** not a [simple] backend: names the password authenticator, yet challenges with PLAIN-START *)
Definition be_twice : backend := fun hist f =>
  match f with
  | FStartup _ => RAuthenticate pw_name
  | FAuthResponse _ _ => match hist with [_] => RAuthChallenge plain_start | _ => RAuthSuccess end
  | FRegister _ => RReady
  end.

(** the whole story in one transcript: DSEv2 requested, DSEv1 accepted, PLAIN / PLAIN-START / token, REGISTER *)
Example transcript_shape_ex :
  let s := run_handshake (simple be_dse) 66 (Some c0) true in
  answers (simple be_dse) (sent s) =
    [ (FStartup 66, RUnsupportedVersion);
      (FStartup 65, RAuthenticate dse_authenticator);
      (FAuthResponse 65 plain, RAuthChallenge plain_start);
      (FAuthResponse 65 (make_token c0), RAuthSuccess);
      (FRegister 65, RReady) ]
  /\ h_out s = HOk /\ h_version s = 65.
Proof. vm_compute. repeat split. Qed.

(** H1: even the longest walk (requested version 1, nothing accepted) ends with an error, not with the fuel *)
Example handshake_terminates_ex :
  let s := run_handshake (simple {| accepts := [100]; need_auth := None; good_token := []; dse_flow := false |}) 1 None false in
  h_out s = HOk /\ h_version s = 100 /\ length (startups (sent s)) = 158%nat.
Proof. vm_compute. repeat split. Qed.
Example handshake_terminates_ex2 :
  let s := run_handshake (simple {| accepts := []; need_auth := None; good_token := []; dse_flow := false |}) 1 None false in
  h_out s = HCqlError /\ h_version s = 2 /\ length (startups (sent s)) = 196%nat.
Proof. vm_compute. repeat split. Qed.
Example enough_fuel_general_ex : (length (chain 5 66) <= 5)%nat /\ ~ (length (chain 4 66) <= 4)%nat.
Proof. vm_compute. lia. Qed.
Example enough_fuel_tight :
  h_out (handshake 4 (simple {| accepts := [2]; need_auth := None; good_token := []; dse_flow := false |}) [] 66 None false) = HOutOfFuel
  /\ h_out (handshake 5 (simple {| accepts := [2]; need_auth := None; good_token := []; dse_flow := false |}) [] 66 None false) = HOk.
Proof. vm_compute. split; reflexivity. Qed.

(** H2 *)
Example startups_follow_chain_ex :
  startups (sent (run_handshake (simple be_open) 66 None false)) = [66; 65; 4]
  /\ is_prefix_N [66; 65; 4] (chain 300 66) = true.
Proof. vm_compute. split; reflexivity. Qed.

(** H3 *)
Example success_means_last_startup_accepted_ex :
  let s := run_handshake (simple be_pw) 5 (Some c0) false in
  h_out s = HOk /\
  answers (simple be_pw) (sent s) =
    map rej [5] ++ (FStartup 4, RAuthenticate pw_name) :: [(FAuthResponse 4 (make_token c0), RAuthSuccess)].
Proof. vm_compute. split; reflexivity. Qed.

(** H3s *)
Example simple_success_first_accepted_ex :
  let s := run_handshake (simple be_dse) 66 (Some c0) true in
  h_out s = HOk /\ memv (h_version s) (accepts be_dse) = true
  /\ find (fun x => memv x (accepts be_dse)) (chain 300 66) = Some 65.
Proof. vm_compute. repeat split. Qed.
Example simple_accepted_means_success_ex :
  need_auth be_open = None /\ find (fun x => memv x (accepts be_open)) (chain 300 66) = Some 4
  /\ h_out (run_handshake (simple be_open) 66 None true) = HOk.
Proof. vm_compute. repeat split. Qed.
(** without the premise "no authentication is needed" the converse fails: no credentials configured *)
Example simple_accepted_means_success_needs_no_auth_refuted :
  exists b v w, find (fun x => memv x (accepts b)) (chain 300 v) = Some w
                /\ h_out (run_handshake (simple b) v None false) <> HOk.
Proof. exists be_pw, 4, 4. vm_compute. split; [reflexivity|discriminate]. Qed.

(** H4: the pooled connection asks for 4 and gets 4; asked for 5 the same backend lands on 4 and the caller refuses *)
Example connect_exact_one_startup_ex :
  connect_exact (simple be_pw) 4 (Some c0) false = true
  /\ startups (sent (run_handshake (simple be_pw) 4 (Some c0) false)) = [4].
Proof. vm_compute. split; reflexivity. Qed.
Example connect_exact_refuses_a_downgrade :
  connect_exact (simple be_pw) 5 (Some c0) false = false
  /\ h_out (run_handshake (simple be_pw) 5 (Some c0) false) = HOk
  /\ h_version (run_handshake (simple be_pw) 5 (Some c0) false) = 4.
Proof. vm_compute. repeat split. Qed.
Example connect_initial_version_in_chain_ex : connect_initial (simple be_open) 66 None = Some 4.
Proof. vm_compute. reflexivity. Qed.

(** H5 *)
Example no_token_without_credentials_ex :
  let s := run_handshake (simple be_pw) 4 None true in h_out s = HAuthExpected /\ tokens_sent (sent s) = [] /\ sent s = [FStartup 4].
Proof. vm_compute. repeat split. Qed.
Example no_token_unless_asked_ex :
  let s := run_handshake (simple be_open) 4 (Some c0) true in h_out s = HOk /\ tokens_sent (sent s) = [].
Proof. vm_compute. split; reflexivity. Qed.
Example tokens_are_plain_or_the_token_ex :
  tokens_sent (sent (run_handshake (simple be_dse) 66 (Some c0) true)) = [plain; make_token c0].
Proof. vm_compute. reflexivity. Qed.
(** the bound 2 is reached; and the first token need not be PLAIN for a second one to follow: a backend that names
    the password authenticator and then challenges with PLAIN-START receives the password twice *)
Example password_can_be_sent_twice :
  let s := run_handshake be_twice 4 (Some c0) false in
  h_out s = HOk /\ tokens_sent (sent s) = [make_token c0; make_token c0].
Proof. vm_compute. split; reflexivity. Qed.
(** observation: an authenticator the proxy does not know still receives the user name and password *)
Example unknown_authenticator_gets_the_password :
  let s := run_handshake (simple be_odd) 4 (Some c0) false in
  answers (simple be_odd) (sent s) = [(FStartup 4, RAuthenticate odd_name); (FAuthResponse 4 (make_token c0), RAuthSuccess)].
Proof. vm_compute. reflexivity. Qed.
Example dse_gets_plain_first_ex :
  hd [] (tokens_sent (sent (run_handshake (simple be_dse) 65 (Some c0) false))) = plain
  /\ hd [] (tokens_sent (sent (run_handshake (simple be_pw) 4 (Some c0) false))) = make_token c0.
Proof. vm_compute. split; reflexivity. Qed.

(** H6 / H7 *)
Example register_iff_events_ex :
  sent (run_handshake (simple be_open) 5 None true) = [FStartup 5; FStartup 4; FRegister 4]
  /\ sent (run_handshake (simple be_open) 5 None false) = [FStartup 5; FStartup 4].
Proof. vm_compute. split; reflexivity. Qed.
(** without [h_out s = HOk] the REGISTER may be missing although events = true *)
Example register_iff_events_needs_success_refuted :
  exists be v auth, h_out (run_handshake be v auth true) <> HOk
    /\ forall l, sent (run_handshake be v auth true) <> l ++ [FRegister (h_version (run_handshake be v auth true))].
Proof.
  exists (simple be_pw), 4, None. split; [vm_compute; discriminate|].
  intros l H. apply (f_equal (fun x => last x (FStartup 0))) in H. rewrite last_last in H. vm_compute in H. discriminate H.
Qed.
Example frames_carry_version_ex :
  sent (run_handshake (simple be_dse) 66 (Some c0) true)
  = [FStartup 66; FStartup 65; FAuthResponse 65 plain; FAuthResponse 65 (make_token c0); FRegister 65].
Proof. vm_compute. reflexivity. Qed.

(** ** Observations about the version rules (natural statements that are FALSE) *)

(** "the handshake lands on the highest version the backend accepts below the requested one": false, the chain from
    DSEv2 / DSEv1 jumps from 65 to 4 and never asks for 5 *)
Example negotiates_highest_accepted_refuted :
  exists b v w, memv w (accepts b) = true /\ w < v /\
    h_out (run_handshake (simple b) v None false) = HOk /\ h_version (run_handshake (simple b) v None false) < w.
Proof. exists be_v54, 66, 5. vm_compute. repeat split. Qed.

(** "if the backend accepts some version below the requested one the handshake succeeds": false for a v5-only
    backend and a DSE request *)
Example v5_only_backend_unreachable_from_dse_refuted :
  exists b v w, memv w (accepts b) = true /\ w < v /\ need_auth b = None
    /\ h_out (run_handshake (simple b) v None false) = HCqlError
    /\ startups (sent (run_handshake (simple b) v None false)) = [66; 65; 4; 3; 2].
Proof. exists be_v5, 66, 5. vm_compute. repeat split. Qed.

(** ** closedness of the headline theorems *)
Print Assumptions transcript_shape.
Print Assumptions enough_fuel_general.
Print Assumptions chain_length_bound.
Print Assumptions chain_length_known.
Print Assumptions chain_length_any.
Print Assumptions chain_never_returns.
Print Assumptions handshake_terminates.
Print Assumptions handshake_terminates_any_version.
Print Assumptions startups_exact.
Print Assumptions startups_follow_chain.
Print Assumptions answers_nth.
Print Assumptions success_means_last_startup_accepted.
Print Assumptions simple_success_first_accepted.
Print Assumptions simple_accepted_means_success.
Print Assumptions connect_exact_one_startup.
Print Assumptions connect_initial_version_in_chain.
Print Assumptions no_token_without_credentials.
Print Assumptions no_token_unless_asked.
Print Assumptions tokens_are_plain_or_the_token.
Print Assumptions at_most_two_tokens.
Print Assumptions password_after_plain_only_on_plain_start.
Print Assumptions dse_gets_plain_first.
Print Assumptions register_iff_events.
Print Assumptions no_register_without_events.
Print Assumptions frames_after_startup_carry_the_negotiated_version.
Print Assumptions known_versions_chain.
Print Assumptions dse1_skips_v5.
Print Assumptions wrap_observation.
