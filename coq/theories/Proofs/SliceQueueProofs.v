From Coq Require Import List NArith Arith Bool Lia.
From CqlProxy Require Import Model.SliceQueue.
Import ListNotations.

Lemma set_arr_length : forall h a f, length (set_arr a f h) = length h.
Proof. induction h as [|c r IH]; intros [|a] f; cbn; try reflexivity; rewrite IH; reflexivity. Qed.

Lemma set_arr_other : forall h a b f, a <> b -> nth a (set_arr b f h) [] = nth a h [].
Proof.
  induction h as [|c r IH]; intros a b f Hab; [destruct b; reflexivity|].
  destruct b as [|b]; destruct a as [|a]; cbn; try reflexivity; [congruence|].
  apply IH. congruence.
Qed.

Definition wf (st : qstate) : Prop := match q st with Some s => arr s < length (hp st) | None => True end.

Definition inv (a : nat) (st : qstate) : Prop :=
  a < length (hp st) /\ match q st with Some s => arr s <> a | None => True end.

Lemma append_wf : forall st x, wf st -> wf (append st x).
Proof.
  intros [h [s|]] x H; unfold wf, append in *; cbn [q hp] in *.
  - destruct (Nat.ltb (len s) (cap s)); cbn [q hp arr].
    + rewrite set_arr_length. exact H.
    + rewrite app_length; cbn; lia.
  - rewrite app_length; cbn; lia.
Qed.

Lemma appends_wf : forall xs st, wf st -> wf (appends st xs).
Proof.
  induction xs as [|x xs IH]; intros st H; [exact H|].
  unfold appends in *; cbn [fold_left]. apply IH. apply append_wf. exact H.
Qed.

Lemma append_inv : forall a st x, inv a st -> inv a (append st x) /\ cells (hp (append st x)) a = cells (hp st) a.
Proof.
  intros a [h [s|]] x [Hlt Hne]; unfold inv, append, cells in *; cbn [q hp] in *.
  - destruct (Nat.ltb (len s) (cap s)); cbn [q hp arr].
    + rewrite set_arr_length. repeat split; try assumption. apply set_arr_other. congruence.
    + rewrite app_length; cbn [length]. split; [split; [lia|intros Hq; lia]|apply app_nth1; exact Hlt].
  - rewrite app_length; cbn [length q arr]. split; [split; [lia|intros Hq; lia]|apply app_nth1; exact Hlt].
Qed.

Lemma appends_inv : forall a xs st, inv a st -> cells (hp (appends st xs)) a = cells (hp st) a.
Proof.
  intros a xs; induction xs as [|x xs IH]; intros st H; [reflexivity|].
  unfold appends in *; cbn [fold_left]. destruct (append_inv a st x H) as [Hi Hc].
  rewrite IH by exact Hi. exact Hc.
Qed.

(** the batch the loop took is not touched by anything that arrives afterwards *)
Theorem batch_is_stable : forall before after,
  fst (batch_after false before after) = snd (batch_after false before after).
Proof.
  intros before after. unfold batch_after, take. set (st := appends empty before).
  assert (W : wf st) by (apply appends_wf; exact I). unfold wf in W.
  destruct (q st) as [s|] eqn:E; cbv beta iota zeta; cbn [fst snd]; [|reflexivity].
  unfold view. f_equal. symmetry.
  apply (appends_inv (arr s) after {| hp := hp st; q := None |}).
  unfold inv; cbn [hp q]. split; [exact W|exact I].
Qed.

(** the seeded change: what arrives while the batch is being delivered overwrites it *)
Theorem shared_array_overwrites_refuted :
  batch_after true [1; 2; 3]%N [7; 8; 9; 10]%N = ([1; 2; 3]%N, [7; 8; 9]%N).
Proof. vm_compute. reflexivity. Qed.

Example stable_case : batch_after false [1; 2; 3]%N [7; 8; 9; 10]%N = ([1; 2; 3]%N, [1; 2; 3]%N).
Proof. vm_compute. reflexivity. Qed.
