From Coq Require Import List NArith Arith Bool Lia.
From CqlProxy Require Import Model.SliceQueue.
Import ListNotations.

Lemma set_arr_length : forall h a f, length (set_arr a f h) = length h.
Proof. induction h as [|c r IH]; intros [|a] f; cbn; try reflexivity; rewrite IH; reflexivity. Qed.

Lemma set_arr_other : forall h a b f, a <> b -> nth a (set_arr b f h) [] = nth a h [].
Proof.
  induction h as [|c r IH]; intros a b f Hab; [destruct b; reflexivity|].
  destruct b as [|b]; destruct a as [|a]; cbn; try reflexivity; [congruence|].
  apply IH. congruence.
Qed.

Definition wf (st : qstate) : Prop := match q st with Some s => arr s < length (hp st) | None => True end.

Definition inv (a : nat) (st : qstate) : Prop :=
  a < length (hp st) /\ match q st with Some s => arr s <> a | None => True end.

Lemma append_wf : forall st x, wf st -> wf (append st x).
Proof.
  intros [h [s|]] x H; unfold wf, append in *; cbn [q hp] in *.
  - destruct (Nat.ltb (len s) (cap s)); cbn [q hp arr].
    + rewrite set_arr_length. exact H.
    + rewrite app_length; cbn; lia.
  - rewrite app_length; cbn; lia.
Qed.

Lemma appends_wf : forall xs st, wf st -> wf (appends st xs).
Proof.
  induction xs as [|x xs IH]; intros st H; [exact H|].
  unfold appends in *; cbn [fold_left]. apply IH. apply append_wf. exact H.
Qed.

Lemma append_inv : forall a st x, inv a st -> inv a (append st x) /\ cells (hp (append st x)) a = cells (hp st) a.
Proof.
  intros a [h [s|]] x [Hlt Hne]; unfold inv, append, cells in *; cbn [q hp] in *.
  - destruct (Nat.ltb (len s) (cap s)); cbn [q hp arr].
    + rewrite set_arr_length. repeat split; try assumption. apply set_arr_other. congruence.
    + rewrite app_length; cbn [length]. split; [split; [lia|intros Hq; lia]|apply app_nth1; exact Hlt].
  - rewrite app_length; cbn [length q arr]. split; [split; [lia|intros Hq; lia]|apply app_nth1; exact Hlt].
Qed.

Lemma appends_inv : forall a xs st, inv a st -> cells (hp (appends st xs)) a = cells (hp st) a.
Proof.
  intros a xs; induction xs as [|x xs IH]; intros st H; [reflexivity|].
  unfold appends in *; cbn [fold_left]. destruct (append_inv a st x H) as [Hi Hc].
  rewrite IH by exact Hi. exact Hc.
Qed.

(** the batch the loop took is not touched by anything that arrives afterwards *)
Theorem batch_is_stable : forall before after,
  fst (batch_after false before after) = snd (batch_after false before after).
Proof.
  intros before after. unfold batch_after, take. set (st := appends empty before).
  assert (W : wf st) by (apply appends_wf; exact I). unfold wf in W.
  destruct (q st) as [s|] eqn:E; cbv beta iota zeta; cbn [fst snd]; [|reflexivity].
  unfold view. f_equal. symmetry.
  apply (appends_inv (arr s) after {| hp := hp st; q := None |}).
  unfold inv; cbn [hp q]. split; [exact W|exact I].
Qed.

(** the seeded change: what arrives while the batch is being delivered overwrites it *)
Theorem shared_array_overwrites_refuted :
  batch_after true [1; 2; 3]%N [7; 8; 9; 10]%N = ([1; 2; 3]%N, [7; 8; 9]%N).
Proof. vm_compute. reflexivity. Qed.

Example stable_case : batch_after false [1; 2; 3]%N [7; 8; 9; 10]%N = ([1; 2; 3]%N, [1; 2; 3]%N).
Proof. vm_compute. reflexivity. Qed.

(** ** the batch is what arrived *)
Lemma set_arr_same : forall h a f, a < length h -> nth a (set_arr a f h) [] = f (nth a h []).
Proof.
  induction h as [|c r IH]; intros a f Ha; [cbn in Ha; lia|].
  destruct a as [|a]; cbn; [reflexivity|]. apply IH. cbn in Ha. lia.
Qed.

Lemma set_nth_length : forall l i x, length (set_nth i x l) = length l.
Proof. induction l as [|y l IH]; intros [|i] x; cbn; try reflexivity. rewrite IH. reflexivity. Qed.

Lemma firstn_set_nth : forall l n x, n < length l -> firstn (S n) (set_nth n x l) = firstn n l ++ [x].
Proof.
  induction l as [|y l IH]; intros n x Hn; [cbn in Hn; lia|].
  destruct n as [|n]; [reflexivity|]. cbn [set_nth]. rewrite !firstn_cons. cbn [app]. f_equal. apply IH. cbn in Hn. lia.
Qed.

Lemma firstn_snoc_pad : forall (A : list N) x R n, n = S (length A) -> firstn n (A ++ x :: R) = A ++ [x].
Proof. intros A x R n H; subst n. induction A as [|a A IH]; cbn; [reflexivity|]. f_equal. exact IH. Qed.

Definition J (st : qstate) (xs : list N) : Prop :=
  match q st with
  | None => xs = []
  | Some s => arr s < length (hp st) /\ len s <= cap s /\ length (cells (hp st) (arr s)) = cap s /\ view (hp st) s = xs
  end.

Lemma view_length : forall h s, len s <= length (cells h (arr s)) -> length (view h s) = len s.
Proof. intros h s H. unfold view. rewrite firstn_length. lia. Qed.

Lemma append_J : forall st xs x, J st xs -> J (append st x) (xs ++ [x]).
Proof.
  intros [h [s|]] xs x H; unfold J, append in *; cbn [q hp] in *.
  - destruct H as (Ha & Hl & Hc & Hv).
    destruct (Nat.ltb (len s) (cap s)) eqn:E; cbn [q hp arr len cap].
    + apply Nat.ltb_lt in E. rewrite set_arr_length.
      assert (Hcell : cells (set_arr (arr s) (set_nth (len s) x) h) (arr s) = set_nth (len s) x (cells h (arr s))).
      { unfold cells. apply set_arr_same. exact Ha. }
      repeat split; try lia.
      * rewrite Hcell, set_nth_length. exact Hc.
      * unfold view; cbn [len arr]. rewrite Hcell. rewrite firstn_set_nth by lia. unfold view in Hv. rewrite Hv. reflexivity.
    + apply Nat.ltb_ge in E.
      assert (Hlen : length (view h s) = len s) by (apply view_length; lia).
      assert (Hcell : cells (h ++ [view h s ++ x :: repeat 0%N (2 * cap s + 1 - S (len s))]) (length h)
                      = view h s ++ x :: repeat 0%N (2 * cap s + 1 - S (len s))).
      { unfold cells. rewrite app_nth2 by lia. rewrite Nat.sub_diag. reflexivity. }
      rewrite app_length; cbn [length]. repeat split; try lia.
      * rewrite Hcell, app_length; cbn [length]. rewrite repeat_length, Hlen. lia.
      * unfold view at 1; cbn [len arr]. rewrite Hcell.
        rewrite firstn_snoc_pad by lia. rewrite Hv. reflexivity.
  - subst xs. rewrite app_length; cbn [length app]. unfold view, cells; cbn [arr len cap].
    rewrite app_nth2 by lia. rewrite Nat.sub_diag. cbn. repeat split; try lia; reflexivity.
Qed.

Lemma appends_J : forall ys st xs, J st xs -> J (appends st ys) (xs ++ ys).
Proof.
  induction ys as [|y ys IH]; intros st xs H; [rewrite app_nil_r; exact H|].
  unfold appends in *; cbn [fold_left]. replace (xs ++ y :: ys) with ((xs ++ [y]) ++ ys) by (rewrite <- app_assoc; reflexivity).
  apply IH. apply append_J. exact H.
Qed.

(** the batch is exactly what arrived before it was taken, and stays so *)
Theorem batch_is_what_arrived : forall before after, batch_after false before after = (before, before).
Proof.
  intros before after.
  assert (S := batch_is_stable before after).
  assert (Hj : J (appends empty before) ([] ++ before)) by (apply appends_J; reflexivity).
  cbn [app] in Hj. unfold batch_after, take in *. set (st := appends empty before) in *.
  unfold J in Hj. destruct (q st) as [s|] eqn:E; cbv beta iota zeta in *; cbn [fst snd] in *.
  - destruct Hj as (_ & _ & _ & Hv). rewrite <- S, Hv. reflexivity.
  - subst before. reflexivity.
Qed.
