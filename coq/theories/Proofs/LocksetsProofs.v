(** Proofs about Model/Locksets.v (C18): the lock discipline implies that conflicting accesses
    are ordered by happens-before. *)
From Coq Require Import List Arith Bool Lia.
From CqlProxy Require Import Model.Locksets.
Import ListNotations.

Lemma mode_eqb_eq a b : mode_eqb a b = true <-> a = b.
Proof. destruct a, b; cbn; split; intro H; try reflexivity; try discriminate. Qed.

Lemma hold_eqb_eq a b : hold_eqb a b = true <-> a = b.
Proof.
  destruct a as [[t1 l1] m1], b as [[t2 l2] m2]. cbn. split.
  - intro H. apply andb_prop in H. destruct H as [H Hm]. apply andb_prop in H. destruct H as [Ht Hl].
    apply Nat.eqb_eq in Ht. apply Nat.eqb_eq in Hl. apply mode_eqb_eq in Hm. subst. reflexivity.
  - intro H. injection H as -> -> ->. rewrite !Nat.eqb_refl. destruct m2; reflexivity.
Qed.

Lemma compatible_sym a b : compatible a b = compatible b a.
Proof. destruct a, b; reflexivity. Qed.

(** all holds of one lock that are in the state together are pairwise compatible *)
Fixpoint pairwise (hs : list hold) : Prop :=
  match hs with
  | [] => True
  | h :: r => (forall h', In h' r -> lock_of h' = lock_of h -> compatible (mode_of h) (mode_of h') = true) /\ pairwise r
  end.

Lemma In_remove_one h x hs : In x (remove_one h hs) -> In x hs.
Proof.
  induction hs as [|y r IH]; cbn; [intros []|].
  destruct (hold_eqb h y); [intro H; right; exact H|]. intros [H|H]; [left; exact H|right; apply IH; exact H].
Qed.

Lemma pairwise_remove_one h hs : pairwise hs -> pairwise (remove_one h hs).
Proof.
  induction hs as [|y r IH]; cbn [remove_one pairwise]; [trivial|]. intros [Hy Hr].
  destruct (hold_eqb h y); [exact Hr|]. cbn [pairwise]. split; [|apply IH; exact Hr].
  intros h' Hin. apply Hy. apply (In_remove_one _ _ _ Hin).
Qed.

Lemma step_pairwise hs e hs' : pairwise hs -> step hs e = Some hs' -> pairwise hs'.
Proof.
  intros Hp H. destruct e as [h|h|t x w]; cbn [step] in H.
  - destruct (can_acquire hs h) eqn:Hc; [|discriminate]. injection H as <-. cbn [pairwise]. split; [|exact Hp].
    intros h' Hin Hl. unfold can_acquire in Hc. rewrite forallb_forall in Hc. specialize (Hc h' Hin).
    rewrite Hl, Nat.eqb_refl in Hc. exact Hc.
  - destruct (existsb (hold_eqb h) hs); [|discriminate]. injection H as <-. apply pairwise_remove_one. exact Hp.
  - injection H as <-. exact Hp.
Qed.

Lemma run_pairwise tr : forall hs hs', pairwise hs -> run hs tr = Some hs' -> pairwise hs'.
Proof.
  induction tr as [|e r IH]; intros hs hs' Hp H; cbn [run] in H; [injection H as <-; exact Hp|].
  destruct (step hs e) as [hs1|] eqn:Hs; [|discriminate]. apply (IH hs1 hs' (step_pairwise _ _ _ Hp Hs) H).
Qed.

(** two holds of one lock by different threads that are in the state together are compatible *)
Lemma pairwise_compat hs h1 h2 : pairwise hs -> In h1 hs -> In h2 hs -> fst (fst h1) <> fst (fst h2) -> lock_of h1 = lock_of h2 ->
  compatible (mode_of h1) (mode_of h2) = true.
Proof.
  induction hs as [|y r IH]; intros Hp H1 H2 Hne Hl; [destruct H1|]. cbn [pairwise] in Hp. destruct Hp as [Hy Hr].
  destruct H1 as [<-|H1], H2 as [<-|H2].
  - exfalso. apply Hne. reflexivity.
  - apply Hy; [exact H2|symmetry; exact Hl].
  - rewrite compatible_sym. apply Hy; [exact H1|exact Hl].
  - apply IH; assumption.
Qed.

(** runs split at any position *)
Lemma run_app tr1 : forall tr2 hs hs', run hs (tr1 ++ tr2) = Some hs' -> exists mid, run hs tr1 = Some mid /\ run mid tr2 = Some hs'.
Proof.
  induction tr1 as [|e r IH]; intros tr2 hs hs' H; cbn [app run] in *; [exists hs; split; [reflexivity|exact H]|].
  destruct (step hs e) as [hs1|]; [|discriminate]. apply IH. exact H.
Qed.

Lemma run_prefix tr hs hs' i : run hs tr = Some hs' -> exists mid, run hs (firstn i tr) = Some mid /\ run mid (skipn i tr) = Some hs'.
Proof. intro H. rewrite <- (firstn_skipn i tr) in H. apply run_app. exact H. Qed.

(** a hold that appears over a segment was acquired in it; one that disappears was released in it *)
Lemma acquired_in_segment seg : forall hs hs' h, run hs seg = Some hs' -> ~ In h hs -> In h hs' ->
  exists k, nth_error seg k = Some (Acq h).
Proof.
  induction seg as [|e r IH]; intros hs hs' h H Hn Hi; cbn [run] in H; [injection H as <-; contradiction|].
  destruct (step hs e) as [hs1|] eqn:Hs; [|discriminate].
  destruct e as [h0|h0|t x w]; cbn [step] in Hs.
  - destruct (can_acquire hs h0); [|discriminate]. injection Hs as <-.
    destruct (hold_eqb h h0) eqn:E.
    + apply hold_eqb_eq in E. subst. exists 0. reflexivity.
    + destruct (IH (h0 :: hs) hs' h H) as [k Hk]; [|exact Hi|exists (S k); exact Hk].
      intros [->|Hin]; [rewrite (proj2 (hold_eqb_eq h h) eq_refl) in E; discriminate|contradiction].
  - destruct (existsb (hold_eqb h0) hs); [|discriminate]. injection Hs as <-.
    destruct (IH (remove_one h0 hs) hs' h H) as [k Hk]; [|exact Hi|exists (S k); exact Hk].
    intro Hin. apply Hn. apply (In_remove_one _ _ _ Hin).
  - injection Hs as <-. destruct (IH hs hs' h H Hn Hi) as [k Hk]. exists (S k). exact Hk.
Qed.

Lemma In_remove_one_other h x hs : In x hs -> x <> h -> In x (remove_one h hs).
Proof.
  induction hs as [|y r IH]; cbn [remove_one]; [intros []|]. intros [->|Hin] Hne.
  - destruct (hold_eqb h x) eqn:E; [apply hold_eqb_eq in E; subst; contradiction|left; reflexivity].
  - destruct (hold_eqb h y); [exact Hin|right; apply IH; assumption].
Qed.

Lemma released_in_segment seg : forall hs hs' h, run hs seg = Some hs' -> In h hs -> ~ In h hs' ->
  exists k, nth_error seg k = Some (Rel h).
Proof.
  induction seg as [|e r IH]; intros hs hs' h H Hi Hn; cbn [run] in H; [injection H as <-; contradiction|].
  destruct (step hs e) as [hs1|] eqn:Hs; [|discriminate].
  destruct e as [h0|h0|t x w]; cbn [step] in Hs.
  - destruct (can_acquire hs h0); [|discriminate]. injection Hs as <-.
    destruct (IH (h0 :: hs) hs' h H) as [k Hk]; [right; exact Hi|exact Hn|exists (S k); exact Hk].
  - destruct (existsb (hold_eqb h0) hs); [|discriminate]. injection Hs as <-.
    destruct (hold_eqb h h0) eqn:E.
    + apply hold_eqb_eq in E. subst. exists 0. reflexivity.
    + destruct (IH (remove_one h0 hs) hs' h H) as [k Hk]; [|exact Hn|exists (S k); exact Hk].
      apply In_remove_one_other; [exact Hi|]. intros ->. rewrite (proj2 (hold_eqb_eq h0 h0) eq_refl) in E. discriminate.
  - injection Hs as <-. destruct (IH hs hs' h H Hi Hn) as [k Hk]. exists (S k). exact Hk.
Qed.

Lemma nth_error_skipn {A} (l : list A) i k : nth_error (skipn i l) k = nth_error l (i + k).
Proof. revert l. induction i as [|i IH]; intro l; [reflexivity|]. destruct l as [|x l]; [destruct k; reflexivity|]. cbn. apply IH. Qed.

Lemma nth_error_firstn {A} (l : list A) n k : k < n -> nth_error (firstn n l) k = nth_error l k.
Proof.
  revert l k. induction n as [|n IH]; intros l k Hk; [lia|]. destruct l as [|x l]; [destruct k; reflexivity|].
  destruct k as [|k]; [reflexivity|]. cbn. apply IH. lia.
Qed.

(** an acquisition succeeds only when no incompatible hold of the lock is in the state *)
Lemma acquire_excludes hs h hs' h0 : step hs (Acq h) = Some hs' -> In h0 hs -> lock_of h0 = lock_of h -> compatible (mode_of h) (mode_of h0) = true.
Proof.
  cbn [step]. intros H Hin Hl. destruct (can_acquire hs h) eqn:Hc; [|discriminate].
  unfold can_acquire in Hc. rewrite forallb_forall in Hc. specialize (Hc h0 Hin). rewrite Hl, Nat.eqb_refl in Hc. exact Hc.
Qed.

Lemma run_step_at tr : forall hs hs' k e, run hs tr = Some hs' -> nth_error tr k = Some e ->
  exists before after, run hs (firstn k tr) = Some before /\ step before e = Some after.
Proof.
  induction tr as [|e0 r IH]; intros hs hs' k e H Hk; [destruct k; discriminate|].
  cbn [run] in H. destruct (step hs e0) as [hs1|] eqn:Hs; [|discriminate].
  destruct k as [|k]; cbn in Hk.
  - injection Hk as <-. exists hs, hs1. split; [reflexivity|exact Hs].
  - destruct (IH hs1 hs' k e H Hk) as (b & a & Hb & Ha). exists b, a. split; [|exact Ha].
    cbn [firstn run]. rewrite Hs. exact Hb.
Qed.

(** ** the theorem: under the discipline, two conflicting accesses by different threads are
    ordered by happens-before -- there is no data race *)
Theorem discipline_orders_conflicting_accesses guard tr final i j t1 t2 x w1 w2 :
  run [] tr = Some final -> disciplined guard tr ->
  i < j -> nth_error tr i = Some (Acc t1 x w1) -> nth_error tr j = Some (Acc t2 x w2) ->
  t1 <> t2 -> w1 || w2 = true -> hb tr i j.
Proof.
  intros Hrun Hd Hij Hi Hj Hne Hconf.
  destruct (Hd i t1 x w1 Hi) as (si & m1 & Hsi & Hin1 & Hw1).
  destruct (Hd j t2 x w2 Hj) as (sj & m2 & Hsj & Hin2 & Hw2).
  set (l := guard x) in *.
  assert (Hinc : compatible m1 m2 = false).
  { destruct w1; [rewrite (Hw1 eq_refl); reflexivity|]. cbn in Hconf. subst w2. rewrite (Hw2 eq_refl). destruct m1; reflexivity. }
  assert (Hpi : pairwise si) by (apply (run_pairwise (firstn i tr) [] si); [exact Logic.I|exact Hsi]).
  (* t2's hold is not in the state at i *)
  assert (Hn2 : ~ In (t2, l, m2) si).
  { intro H2. pose proof (pairwise_compat si (t1, l, m1) (t2, l, m2) Hpi Hin1 H2 Hne eq_refl) as Hc. cbn in Hc. congruence. }
  (* so it is acquired between i and j *)
  destruct (run_prefix tr [] final i Hrun) as (si' & Hsi' & Hrest). rewrite Hsi in Hsi'. injection Hsi' as <-.
  destruct (run_prefix (skipn i tr) si final (j - i) Hrest) as (sj' & Hseg & _).
  assert (Hsj' : sj' = sj).
  { assert (Hcat : firstn j tr = firstn i tr ++ firstn (j - i) (skipn i tr)).
    { rewrite <- (firstn_skipn i (firstn j tr)). rewrite firstn_firstn, Nat.min_l by lia. f_equal.
      rewrite skipn_firstn_comm. reflexivity. }
    rewrite Hcat in Hsj. destruct (run_app _ _ _ _ Hsj) as (mid & Hm1 & Hm2). rewrite Hsi in Hm1. injection Hm1 as <-.
    rewrite Hseg in Hm2. injection Hm2 as ->. reflexivity. }
  subst sj'.
  destruct (acquired_in_segment _ _ _ _ Hseg Hn2 Hin2) as (k & Hk).
  assert (Hklt : k < j - i).
  { destruct (Nat.lt_ge_cases k (j - i)) as [H|H]; [exact H|].
    assert (Hnone : nth_error (firstn (j - i) (skipn i tr)) k = None) by (apply nth_error_None; rewrite firstn_length; lia).
    congruence. }
  rewrite nth_error_firstn in Hk by exact Hklt. rewrite nth_error_skipn in Hk.
  set (a := i + k) in *.
  assert (Hia : i < a).
  { destruct k; [|lia]. unfold a in Hk. rewrite Nat.add_0_r in Hk. congruence. }
  (* at a, t1's hold from time i is no longer in the state: it was released between i and a *)
  destruct (run_step_at tr [] final a (Acq (t2, l, m2)) Hrun Hk) as (sa & sa' & Hsa & Hstep).
  assert (Hn1 : ~ In (t1, l, m1) sa).
  { intro H1. pose proof (acquire_excludes sa (t2, l, m2) sa' (t1, l, m1) Hstep H1 eq_refl) as Hc. cbn in Hc.
    rewrite compatible_sym in Hc. congruence. }
  destruct (run_prefix (skipn i tr) si final (a - i) Hrest) as (sa2 & Hseg2 & _).
  assert (Hsa2 : sa2 = sa).
  { assert (Hcat : firstn a tr = firstn i tr ++ firstn (a - i) (skipn i tr)).
    { rewrite <- (firstn_skipn i (firstn a tr)). rewrite firstn_firstn, Nat.min_l by lia. f_equal.
      rewrite skipn_firstn_comm. reflexivity. }
    rewrite Hcat in Hsa. destruct (run_app _ _ _ _ Hsa) as (mid & Hm1 & Hm2). rewrite Hsi in Hm1. injection Hm1 as <-.
    rewrite Hseg2 in Hm2. injection Hm2 as ->. reflexivity. }
  subst sa2.
  destruct (released_in_segment _ _ _ _ Hseg2 Hin1 Hn1) as (k2 & Hk2).
  assert (Hk2lt : k2 < a - i).
  { destruct (Nat.lt_ge_cases k2 (a - i)) as [H|H]; [exact H|].
    assert (Hnone : nth_error (firstn (a - i) (skipn i tr)) k2 = None) by (apply nth_error_None; rewrite firstn_length; lia).
    congruence. }
  rewrite nth_error_firstn in Hk2 by exact Hk2lt. rewrite nth_error_skipn in Hk2.
  set (r := i + k2) in *.
  assert (Hir : i < r).
  { destruct k2; [|lia]. unfold r in Hk2. rewrite Nat.add_0_r in Hk2. congruence. }
  (* i -po-> r -sync-> a -po-> j *)
  apply hb_trans with r.
  - eapply hb_po; [exact Hir|exact Hi|exact Hk2|reflexivity].
  - apply hb_trans with a.
    + eapply hb_sync; [lia|exact Hk2|exact Hk|reflexivity|exact Hinc].
    + eapply hb_po; [unfold a; lia|exact Hk|exact Hj|reflexivity].
Qed.
