(** Proofs about Model/Handled.v (C09): a SELECT is handled exactly when its table is a
    virtualised system table in keyspace system, whatever the selectors and trailing clauses. *)
From Coq Require Import List Arith ZArith NArith Bool Lia.
From CqlProxy Require Import Lib.Val Lib.Util Lib.Regex Gen.LexRules Gen.Tables Model.Lexer Model.Parser Model.Handled.
Import ListNotations.
Local Open Scope N_scope.

Definition idtok (text : bytes) : tok := {| t_code := tkIdentifier; t_text := text |}.
Definition kwtok (code : N) : tok := {| t_code := code; t_text := [] |}.

(** the lexer state sits between [pre] and [post] *)
Definition at_split (s : lstate) (pre post : list tok) : Prop := toks s = pre ++ post /\ pos s = length pre.

Lemma next_at s pre t post :
  at_split s pre (t :: post) ->
  fst (next s) = t_code t /\ at_split (snd (next s)) (pre ++ [t]) post /\
  lid (snd (next s)) = (if t_code t =? tkIdentifier then t_text t else lid s) /\
  mpos (snd (next s)) = mpos s /\ mlid (snd (next s)) = mlid s.
Proof.
  intros [Ht Hp]. unfold next. rewrite Ht, Hp.
  rewrite nth_error_app2 by lia. rewrite Nat.sub_diag. cbn [nth_error fst snd toks pos lid mpos mlid].
  repeat split; try reflexivity.
  - rewrite <- app_assoc. reflexivity.
  - rewrite app_length. cbn. lia.
Qed.

Lemma next_at_end s pre : at_split s pre [] -> next s = (tkEOF, s).
Proof.
  intros [Ht Hp]. unfold next. rewrite Ht, Hp, app_nil_r.
  replace (nth_error pre (length pre)) with (@None tok); [reflexivity|].
  symmetry. apply nth_error_None. lia.
Qed.

(** untilToken runs over tokens that are neither the target nor (impossible for lexed tokens) EOF *)
Lemma until_token_skips sels : forall n s pre post to t,
  (length sels < n)%nat ->
  Forall (fun x => t_code x <> to /\ t_code x <> tkEOF) sels ->
  at_split s pre (sels ++ kwtok to :: post) -> t <> to -> t <> tkEOF ->
  exists s', until_token n s to t = (to, s') /\ at_split s' (pre ++ sels ++ [kwtok to]) post /\ mpos s' = mpos s /\ mlid s' = mlid s.
Proof.
  induction sels as [|x sels IH]; intros n s pre post to t Hn Hf Hs Ht1 Ht2.
  - destruct n as [|n]; [simpl in Hn; lia|]. cbn [until_token].
    replace ((t =? to) || (t =? tkEOF)) with false
      by (symmetry; apply orb_false_iff; split; apply N.eqb_neq; assumption).
    destruct (next_at s pre (kwtok to) post Hs) as (Hc & Hs' & _ & Hm & Hml).
    destruct (next s) as [t1 s1]. cbn [fst snd] in *. subst t1. cbn [kwtok t_code].
    destruct n; cbn [until_token]; rewrite N.eqb_refl; cbn [orb]; exists s1; auto.
  - destruct n as [|n]; [simpl in Hn; lia|]. cbn [until_token].
    replace ((t =? to) || (t =? tkEOF)) with false
      by (symmetry; apply orb_false_iff; split; apply N.eqb_neq; assumption).
    inversion Hf as [|? ? [Hx1 Hx2] Hf']; subst.
    cbn [app] in Hs. destruct (next_at s pre x (sels ++ kwtok to :: post) Hs) as (Hc & Hs' & _ & Hm & Hml).
    destruct (next s) as [t1 s1]. cbn [fst snd] in *. subst t1.
    destruct (IH n s1 (pre ++ [x]) post to (t_code x)) as (s' & Hu & Hs'' & Hm' & Hml'); auto.
    + simpl in Hn. lia.
    + exists s'. rewrite Hu. split; [reflexivity|]. rewrite <- app_assoc in Hs''. cbn [app] in Hs''.
      split; [exact Hs''|]. split; congruence.
Qed.

(** the decision of isHandledSelectStmt, with the table written [qualifier.]table *)
Definition target_tokens (qualifier : option bytes) (table : bytes) : list tok :=
  match qualifier with
  | Some q => [idtok q; kwtok tkDot; idtok table]
  | None => [idtok table]
  end.

Definition effective_keyspace (cur : ident) (qualifier : option bytes) : ident :=
  match qualifier with
  | Some q => if ident_is_empty (ident_of_lexed q) then cur else ident_of_lexed q
  | None => cur
  end.

Lemma handled_select_decision cur sels qualifier table rest :
  Forall (fun x => t_code x <> tkFrom /\ t_code x <> tkEOF) sels ->
  (qualifier = None -> match rest with t :: _ => t_code t <> tkDot | [] => True end) ->
  let ts := kwtok tkSelect :: sels ++ kwtok tkFrom :: target_tokens qualifier table ++ rest in
  fst (fst (is_handled_tokens cur ts)) =
  ident_equal (effective_keyspace cur qualifier) (str "system") && is_system_table (ident_of_lexed table).
Proof.
  intros Hsels Hrest ts. unfold is_handled_tokens.
  set (n := S (length ts)).
  assert (H0 : at_split (init_lstate ts) [] ts) by (split; reflexivity).
  unfold ts in H0 at 2.
  destruct (next_at _ _ _ _ H0) as (Hc & Hs1 & _ & _ & _).
  destruct (next (init_lstate ts)) as [t s1]. cbn [fst snd] in *. subst t. cbn [kwtok t_code].
  rewrite N.eqb_refl. unfold handled_select.
  assert (Hm : at_split (mark s1) [kwtok tkSelect] (sels ++ kwtok tkFrom :: target_tokens qualifier table ++ rest)).
  { destruct Hs1 as [A B]. split; cbn [mark toks pos]; assumption. }
  destruct (until_token_skips sels n (mark s1) [kwtok tkSelect] (target_tokens qualifier table ++ rest) tkFrom tkInvalid)
    as (s2 & Hu & Hs2 & _ & _); auto.
  { unfold n, ts. cbn [length]. rewrite app_length. lia. }
  { discriminate. } { discriminate. }
  rewrite Hu. rewrite N.eqb_refl. cbn [negb].
  (* the identifier after FROM *)
  destruct qualifier as [q|]; cbn [target_tokens app] in Hs2.
  - destruct (next_at _ _ _ _ Hs2) as (Hc1 & Hs3 & Hl3 & _ & _).
    destruct (next s2) as [t1 s3]. cbn [fst snd] in *. subst t1. cbn [idtok t_code t_text] in *.
    rewrite N.eqb_refl in *. cbn [negb].
    unfold parse_qualified.
    destruct (next_at _ _ _ _ Hs3) as (Hc2 & Hs4 & Hl4 & _ & _).
    destruct (next s3) as [t2 s4]. cbn [fst snd] in *. subst t2. cbn [kwtok t_code] in *.
    rewrite N.eqb_refl.
    destruct (next_at _ _ _ _ Hs4) as (Hc3 & Hs5 & Hl5 & _ & _).
    destruct (next s4) as [t3 s5]. cbn [fst snd] in *. subst t3. cbn [idtok t_code t_text] in *.
    rewrite N.eqb_refl in *. cbn [negb].
    destruct (next s5) as [t4 s6].
    rewrite Hl5. replace (tkDot =? tkIdentifier) with false in Hl4 by reflexivity.
    rewrite Hl3. cbn [effective_keyspace orb].
    destruct (ident_equal (if ident_is_empty (ident_of_lexed q) then cur else ident_of_lexed q) (str "system")); cbn [negb orb andb]; [|reflexivity].
    destruct (is_system_table (ident_of_lexed table)); cbn [negb]; [|reflexivity].
    destruct (next (rewind s6)) as [t5 s7]. destruct (selectors_loop n s7 t5 []); reflexivity.
  - destruct (next_at _ _ _ _ Hs2) as (Hc1 & Hs3 & Hl3 & _ & _).
    destruct (next s2) as [t1 s3]. cbn [fst snd] in *. subst t1. cbn [idtok t_code t_text] in *.
    rewrite N.eqb_refl in *. cbn [negb].
    unfold parse_qualified. rewrite Hl3.
    assert (Hnd : fst (next s3) <> tkDot).
    { destruct rest as [|r0 rest'].
      - rewrite (next_at_end s3 _ Hs3). discriminate.
      - destruct (next_at _ _ _ _ Hs3) as (Hc2 & _). rewrite Hc2. apply (Hrest eq_refl). }
    destruct (next s3) as [t2 s4]. cbn [fst] in Hnd.
    replace (t2 =? tkDot) with false by (symmetry; apply N.eqb_neq; exact Hnd).
    cbn [effective_keyspace ident_is_empty empty_ident i_id orb].
    destruct (ident_equal cur (str "system")); cbn [negb orb andb]; [|reflexivity].
    destruct (is_system_table (ident_of_lexed table)); cbn [negb]; [|reflexivity].
    destruct (next (rewind s4)) as [t5 s7]. destruct (selectors_loop n s7 t5 []); reflexivity.
Qed.

(** USE <identifier> is always handled; anything that starts with another token never is *)
Lemma use_handled cur ks rest :
  is_handled_tokens cur (kwtok tkUse :: idtok ks :: rest) = (true, StUse ks, false).
Proof. reflexivity. Qed.

Lemma other_statements_not_handled cur t rest :
  t_code t <> tkSelect -> t_code t <> tkUse -> fst (fst (is_handled_tokens cur (t :: rest))) = false.
Proof.
  intros H1 H2. unfold is_handled_tokens. cbn [init_lstate next nth_error toks pos fst snd].
  replace (t_code t =? tkSelect) with false by (symmetry; apply N.eqb_neq; exact H1).
  replace (t_code t =? tkUse) with false by (symmetry; apply N.eqb_neq; exact H2). reflexivity.
Qed.
