(** * AstClauseSim: relations and WHERE, USING, update operations, delete operations *)
From Coq Require Import List NArith Bool Lia Arith.
From CqlProxy Require Import Lib.Val Lib.Util Lib.Regex Gen.LexRules Gen.Tables Model.Lexer Model.Parser Model.Ast
  Proofs.AstBase Proofs.AstTermSim.
Import ListNotations.

Definition rsim (ts : list tok) (r : RRes) (c : bool) (rest : list tok) : Prop :=
  if c then exists p' m', skipn p' ts = rest /\ r = (true, 0%N, mk ts p' m') else fst (fst r) = false.

Lemma term_then_sim ts r c ty rest :
  tsim ts r c ty rest -> rsim ts (term_then r (fun s => (true, 0%N, s))) c rest.
Proof.
  unfold tsim, rsim, term_then. destruct c.
  - intros (p' & m' & H & E). rewrite E. cbn. exists p', m'. auto.
  - destruct r as [[[i ty'] e] s]. cbn. intro; subst. reflexivity.
Qed.

(** ** small facts about operators and bind markers *)
Lemma relop_not_ident o : (relop_code o =? tkIdentifier)%N = false.
Proof. destruct o; reflexivity. Qed.
Lemma relop_is_operator o : is_operator (relop_code o) = true.
Proof. destruct o; reflexivity. Qed.
Lemma oprel_ok o : let t := oprel_code o in
  ((t =? tkIn) || (t =? tkEqual) || (t =? tkLt) || (t =? tkLtEqual) || (t =? tkGt) || (t =? tkGtEqual) || (t =? tkNotEqual))%N = true.
Proof. destruct o as [[]|]; reflexivity. Qed.

Lemma bind_marker_sim ts b p m rest : skipn p ts = tokens_of_bind b ++ rest ->
  exists p', skipn p' ts = rest /\
    parse_bind_marker (mk ts (S p) m) (hd_code (tokens_of_bind b ++ rest)) = (false, mk ts p' m).
Proof.
  intro H. destruct b as [|nm]; cbn [tokens_of_bind app hd_code t_code tk] in *; unfold parse_bind_marker; simp.
  - exists (S p). split; [apply skipn_S with (tk tkQMark), H|reflexivity].
  - pose proof (skipn_S _ _ _ _ H) as H1. step. exists (S (S p)). split; [apply skipn_S with (tki nm), H1|reflexivity].
Qed.

Lemma bind_hd b rest : let c := hd_code (tokens_of_bind b ++ rest) in
  ((c =? tkColon) || (c =? tkQMark))%N = true /\ (c =? tkLparen)%N = false.
Proof. destruct b; split; reflexivity. Qed.

(** ** ( terms ) *)
Lemma paren_terms_sim ts n pt es p m rest :
  Forall_terms (pt_sim ts n pt) es -> wf_terms es = true ->
  skipn p ts = tokens_of_terms es ++ tk tkRparen :: rest ->
  length (tokens_of_terms es ++ tk tkRparen :: rest) <= n ->
  rsim ts (paren_terms n pt (mk ts p m)) (cls_terms es) rest.
Proof.
  intros HF W H Hn. unfold paren_terms. rewrite (next_ne ts p m _ H (app_cons_ne _ _ _)).
  pose proof (loop_terms_sim ts n pt tkRparen eq_refl eq_refl eq_refl es HF W n p m rest H Hn Hn) as L.
  unfold lsim in L. unfold rsim. destruct (cls_terms es).
  - destruct L as (p' & m' & HL & EL). rewrite EL. simp. exists p', m'. auto.
  - destruct L as (x & EL & F). rewrite EL. destruct x as [[[i ty] er] s]. cbn in F. subst. reflexivity.
Qed.

(** ** parse_relation by leading token *)
Definition head_code_rel (r : relation) : N :=
  match r with
  | RToken _ _ _ => tkToken
  | RTuple _ _ _ | RTupleBind _ _ _ | RParen _ => tkLparen
  | _ => tkIdentifier
  end.

Lemma pr_ident f n s : parse_relation (S f) n s tkIdentifier =
  let pt := parse_term f n in
  let '(t1, s1) := next s in
  if (t1 =? tkIdentifier)%N then
    if is_kw s1 t1 (str "contains") then
      let '(t2, s2) := next s1 in
      let '(t3, s3) := if is_kw s2 t2 (str "key") then next s2 else (t2, s2) in
      term_then (pt s3 t3) (fun s4 => (true, 0%N, s4))
    else if is_kw s1 t1 (str "like") then
      let '(t2, s2) := next s1 in term_then (pt s2 t2) (fun s4 => (true, 0%N, s4))
    else (false, 1%N, s1)
  else if is_operator t1 then
    let '(t2, s2) := next s1 in term_then (pt s2 t2) (fun s4 => (true, 0%N, s4))
  else if (t1 =? tkIs)%N then
    let '(t2, s2) := next s1 in
    if negb (t2 =? tkNot)%N then (false, 1%N, s2)
    else let '(t3, s3) := next s2 in if negb (t3 =? tkNull)%N then (false, 1%N, s3) else (true, 0%N, s3)
  else if (t1 =? tkLsquare)%N then
    let '(t2, s2) := next s1 in
    term_then (pt s2 t2) (fun s3 =>
      let '(t3, s4) := next s3 in
      if negb (t3 =? tkRsquare)%N then (false, 1%N, s4)
      else
        let '(t4, s5) := next s4 in
        if negb (is_operator t4) then (false, 1%N, s5)
        else let '(t5, s6) := next s5 in term_then (pt s6 t5) (fun s7 => (true, 0%N, s7)))
  else if (t1 =? tkIn)%N then
    let '(t2, s2) := next s1 in
    if (t2 =? tkLparen)%N then paren_terms n pt s2
    else if ((t2 =? tkColon) || (t2 =? tkQMark))%N then
      let '(err, s3) := parse_bind_marker s2 t2 in if err then (false, 1%N, s3) else (true, 0%N, s3)
    else (false, 1%N, s2)
  else (false, 1%N, s1).
Proof. reflexivity. Qed.

Lemma pr_token f n s : parse_relation (S f) n s tkToken =
  let pt := parse_term f n in
  let '(t1, s1) := next s in
  if negb (t1 =? tkLparen)%N then (false, 1%N, s1)
  else
    let '(t2, s2) := next s1 in
    let '(err, s3) := parse_identifiers n s2 t2 in
    if err then (false, 1%N, s3)
    else
      let '(t3, s4) := next s3 in
      if negb (is_operator t3) then (false, 1%N, s4)
      else let '(t4, s5) := next s4 in term_then (pt s5 t4) (fun s6 => (true, 0%N, s6)).
Proof. reflexivity. Qed.

Lemma pr_lparen f n s : parse_relation (S f) n s tkLparen =
  let pt := parse_term f n in
  let sm := mark s in
  let '(maybeId, s1) := next sm in
  let '(maybeCR, s2) := next s1 in
  if (maybeId =? tkIdentifier)%N && ((maybeCR =? tkComma) || (maybeCR =? tkRparen))%N then
    let '(t1, s3) := skip_token s2 maybeCR tkComma in
    let '(err, s4) := parse_identifiers n s3 t1 in
    if err then (false, 1%N, s4) else parse_identifiers_relation n pt s4
  else
    let sr := rewind s2 in
    let '(t1, s3) := next sr in
    let '(idem, e, s4) := parse_relation f n s3 t1 in
    if negb idem then (idem, e, s4)
    else let '(t2, s5) := next s4 in if negb (t2 =? tkRparen)%N then (false, 1%N, s5) else (true, 0%N, s5).
Proof. reflexivity. Qed.

(** the first two tokens of a relation never look like the start of a tuple relation's column list,
    unless it is one *)
Lemma rel_shape r x : wf_relation r = true ->
  exists a b l, tokens_of_relation r ++ x = a :: b :: l /\ t_code a = head_code_rel r /\
    ((t_code a =? tkIdentifier)%N && ((t_code b =? tkComma) || (t_code b =? tkRparen))%N) = false.
Proof.
  intro W.
  assert (Hne : forall r' y, exists a l, tokens_of_relation r' ++ y = a :: l).
  { intros r' y. destruct r'; cbn; eauto. }
  destruct r as [c o t|c es|c b|c key t|c t|c|c i o t|cols o t|cols o es|cols o b|r']; cbn [tokens_of_relation app head_code_rel].
  - do 3 eexists. split; [reflexivity|split; [reflexivity|]]. destruct o; reflexivity.
  - do 3 eexists. split; [reflexivity|split; reflexivity].
  - do 3 eexists. split; [reflexivity|split; reflexivity].
  - do 3 eexists. split; [reflexivity|split; reflexivity].
  - do 3 eexists. split; [reflexivity|split; reflexivity].
  - do 3 eexists. split; [reflexivity|split; reflexivity].
  - do 3 eexists. split; [reflexivity|split; reflexivity].
  - do 3 eexists. split; [reflexivity|split; reflexivity].
  - destruct cols as [|c0 cs]; [discriminate|]. cbn [tokens_of_idents app]. do 3 eexists. split; [reflexivity|split; reflexivity].
  - destruct cols as [|c0 cs]; [discriminate|]. cbn [tokens_of_idents app]. do 3 eexists. split; [reflexivity|split; reflexivity].
  - destruct (Hne r' ([tk tkRparen] ++ x)) as (a & l & E). rewrite <- app_assoc, E.
    do 3 eexists. split; [reflexivity|split; reflexivity].
Qed.

Lemma is_kw_key_false ts q m t x : wf_term t = true -> not_key_headed t = true ->
  skipn q ts = tokens_of_term t ++ x -> is_kw (mk ts (S q) m) (head_code t) (str "key") = false.
Proof.
  intros W K H. unfold is_kw.
  destruct t as [|c|[|n]|es|es|kvs|fs|es|ty t|[k|] name args]; cbn [head_code]; try reflexivity.
  - cbn [wf_term] in W. rewrite (prim_not_ident c W). reflexivity.
  - cbn [tokens_of_term tokens_of_qname app] in H. step. unfold not_key_headed in K. cbn [head_ident] in K.
    apply negb_true_iff in K. rewrite K. reflexivity.
  - cbn [tokens_of_term tokens_of_qname app] in H. step. unfold not_key_headed in K. cbn [head_ident] in K.
    apply negb_true_iff in K. rewrite K. reflexivity.
Qed.

Lemma term_then_true ty s (k : lstate -> RRes) : term_then (true, ty, 0%N, s) k = k s.
Proof. reflexivity. Qed.
Lemma term_then_false r (k : lstate -> RRes) : idem_of r = false -> fst (fst (term_then r k)) = false.
Proof. destruct r as [[[i ty] e] s]. cbn. intro; subst. reflexivity. Qed.

Ltac fin_term t W :=
  eapply term_then_sim; apply (parse_term_sim t _ _ _ W); [lia|assumption|len].

Theorem relation_sim : forall r fuel n ts p m rest,
  wf_relation r = true -> depth_relation r <= fuel ->
  skipn p ts = tokens_of_relation r ++ rest -> length (tokens_of_relation r ++ rest) <= n ->
  rsim ts (parse_relation fuel n (mk ts (S p) m) (head_code_rel r)) (cls_relation r) rest.
Proof.
  induction r as [c o t|c es|c b|c key t|c t|c|c i o t|cols o t|cols o es|cols o b|r IH];
    intros fuel n ts p m rest W D H Hn; (destruct fuel as [|f]; [cbn in D; lia|]);
    cbn [head_code_rel tokens_of_relation cls_relation wf_relation depth_relation] in *; norm;
    pose proof (skipn_S _ _ _ _ H) as H1.
  - (* RCmp *) rewrite pr_ident. cbv zeta. step. rewrite relop_not_ident, relop_is_operator.
    pose proof (skipn_S _ _ _ _ H1) as H2. stept. fin_term t W.
  - (* RIn *) rewrite pr_ident. cbv zeta. step. pose proof (skipn_S _ _ _ _ H1) as H2. step.
    apply paren_terms_sim; [apply parse_terms_sim; [exact W|lia]|exact W|assumption|len].
  - (* RInBind *) rewrite pr_ident. cbv zeta. step. pose proof (skipn_S _ _ _ _ H1) as H2.
    assert (Hne : tokens_of_bind b ++ rest <> []) by (destruct b; discriminate).
    rewrite (next_ne ts (S (S p)) m _ H2 Hne).
    destruct (bind_hd b rest) as [B1 B2]. cbv zeta in B1, B2. rewrite B2, B1.
    destruct (bind_marker_sim ts b (S (S p)) m rest H2) as (p' & H3 & E). rewrite E.
    cbn [rsim]. exists p', m. auto.
  - (* RContains *) apply andb_true_iff in W. destruct W as [Wt Wk].
    rewrite pr_ident. cbv zeta. step. step. pose proof (skipn_S _ _ _ _ H1) as H2.
    destruct key; cbn [app] in *.
    + step. step. pose proof (skipn_S _ _ _ _ H2) as H3. stept. fin_term t Wt.
    + stept. cbn [orb] in Wk. rewrite (is_kw_key_false ts (S (S p)) m t rest Wt Wk H2). fin_term t Wt.
  - (* RLike *) rewrite pr_ident. cbv zeta. step. step. step. pose proof (skipn_S _ _ _ _ H1) as H2. stept.
    fin_term t W.
  - (* RIsNotNull *) rewrite pr_ident. cbv zeta. step. step. step.
    cbn [rsim]. exists (S (S (S (S p)))), m. split; [assumption|reflexivity].
  - (* RIndex *) apply andb_true_iff in W. destruct W as [Wi Wt].
    rewrite pr_ident. cbv zeta. step. pose proof (skipn_S _ _ _ _ H1) as H2. stept.
    pose proof (parse_term_sim i f n ts Wi ltac:(lia) (S (S p)) m _ H2 ltac:(len)) as T.
    unfold tsim in T. destruct (cls_term i); cbn [andb].
    + destruct T as (p1 & m1 & H3 & E3). rewrite E3, term_then_true.
      step. step. rewrite relop_is_operator. simp. stept.
      fin_term t Wt.
    + apply term_then_false, T.
  - (* RToken *) rewrite pr_token. cbv zeta. step. pose proof (skipn_S _ _ _ _ H1) as H2.
    rewrite (next_ne ts (S (S p)) m _ H2 (app_cons_ne _ _ _)).
    destruct (idents_sim ts cols n (S (S p)) m _ H2 ltac:(len)) as (p' & H3 & E). rewrite E. simp.
    step. rewrite relop_is_operator. simp. pose proof (skipn_S _ _ _ _ H3) as H4. stept.
    fin_term t W.
  - (* RTuple *) apply andb_true_iff in W. destruct W as [Wc We].
    destruct cols as [|c0 cs]; [discriminate|]. cbn [tokens_of_idents] in *. norm.
    rewrite pr_lparen. cbv zeta. rewrite mark_mk. step. pose proof (skipn_S _ _ _ _ H1) as H2.
    destruct (sep_step ts (S (S p)) (S p) tkComma _ _ H2 (app_cons_ne _ _ _) (sepc_ok cs tkRparen _ eq_refl))
      as (s2 & q & N1 & N2 & H3).
    rewrite N1.
    assert (Hc : forall y, ((hd_code (sepc cs ++ tokens_of_idents cs ++ tk tkRparen :: y) =? tkComma)%N ||
                 (hd_code (sepc cs ++ tokens_of_idents cs ++ tk tkRparen :: y) =? tkRparen)%N) = true)
      by (intro y; destruct cs; reflexivity).
    rewrite Hc, N2. cbn [andb].
    destruct (idents_sim ts cs n q (S p) _ H3 ltac:(pose proof (f_equal (@length tok) H3); len)) as (p' & H4 & E).
    rewrite E. simp. unfold parse_identifiers_relation. step.
    pose proof (oprel_ok o) as Hop. cbv zeta in Hop. rewrite Hop.
    pose proof (skipn_S _ _ _ _ H4) as H5. step.
    apply paren_terms_sim; [apply parse_terms_sim; [exact We|lia]|exact We|assumption|].
    pose proof (f_equal (@length tok) H3). len.
  - (* RTupleBind *)
    destruct cols as [|c0 cs]; [discriminate|]. cbn [tokens_of_idents] in *. norm.
    rewrite pr_lparen. cbv zeta. rewrite mark_mk. step. pose proof (skipn_S _ _ _ _ H1) as H2.
    destruct (sep_step ts (S (S p)) (S p) tkComma _ _ H2 (app_cons_ne _ _ _) (sepc_ok cs tkRparen _ eq_refl))
      as (s2 & q & N1 & N2 & H3).
    rewrite N1.
    assert (Hc : forall y, ((hd_code (sepc cs ++ tokens_of_idents cs ++ tk tkRparen :: y) =? tkComma)%N ||
                 (hd_code (sepc cs ++ tokens_of_idents cs ++ tk tkRparen :: y) =? tkRparen)%N) = true)
      by (intro y; destruct cs; reflexivity).
    rewrite Hc, N2. cbn [andb].
    destruct (idents_sim ts cs n q (S p) _ H3 ltac:(pose proof (f_equal (@length tok) H3); len)) as (p' & H4 & E).
    rewrite E. simp. unfold parse_identifiers_relation. step.
    pose proof (oprel_ok o) as Hop. cbv zeta in Hop. rewrite Hop.
    pose proof (skipn_S _ _ _ _ H4) as H5.
    assert (Hne : tokens_of_bind b ++ rest <> []) by (destruct b; discriminate).
    rewrite (next_ne ts (S p') (S p) _ H5 Hne).
    destruct (bind_hd b rest) as [B1 B2]. cbv zeta in B1, B2. rewrite B1.
    destruct (bind_marker_sim ts b (S p') (S p) rest H5) as (p3 & H6 & E6). rewrite E6.
    cbn [rsim]. exists p3, (S p). auto.
  - (* RParen *)
    destruct (rel_shape r (tk tkRparen :: rest) W) as (a & b & l & E & Ca & Cond).
    rewrite pr_lparen. cbv zeta. rewrite mark_mk.
    pose proof H1 as H1'. rewrite E in H1'.
    step. pose proof (skipn_S _ _ _ _ H1') as H2'. step. rewrite Cond. rewrite rewind_mk. step. rewrite Ca.
    pose proof (IH f n ts (S p) (S p) _ W ltac:(lia) H1 ltac:(len)) as R.
    unfold rsim in *. destruct (cls_relation r).
    + destruct R as (p1 & m1 & H3 & E3). rewrite E3. simp. step.
      exists (S p1), m1. split; [apply skipn_S with (tk tkRparen), H3|reflexivity].
    + destruct (parse_relation f n (mk ts (S (S p)) (S p)) (head_code_rel r)) as [[i e] s]. cbn in R. subst. reflexivity.
Qed.

(** ** WHERE *)
Definition FUEL : nat := N.to_nat max_nesting_depth.

Lemma depth_ok_le d : depth_ok d = true -> d <= FUEL.
Proof. unfold depth_ok, FUEL. intro H. apply N.leb_le in H. lia. Qed.

Lemma wf_top_term_inv t : wf_top_term t = true -> wf_term t = true /\ depth t <= FUEL.
Proof. unfold wf_top_term. intro H. apply andb_true_iff in H. destruct H as [A B]. split; [exact A|apply depth_ok_le, B]. Qed.
Lemma wf_top_terms_inv es : wf_top_terms es = true -> wf_terms es = true /\ depth_terms es <= FUEL.
Proof. unfold wf_top_terms. intro H. apply andb_true_iff in H. destruct H as [A B]. split; [exact A|apply depth_ok_le, B]. Qed.
Lemma wf_top_relation_inv r : wf_top_relation r = true -> wf_relation r = true /\ depth_relation r <= FUEL.
Proof. unfold wf_top_relation. intro H. apply andb_true_iff in H. destruct H as [A B]. split; [exact A|apply depth_ok_le, B]. Qed.

Lemma sep_step_adv ts p m c sep L : skipn p ts = sep ++ L ->
  (sep = [] /\ (hd_code L =? c)%N = false) \/ sep = [tk c] ->
  exists s2 q, next (mk ts p m) = (hd_code (sep ++ L), s2) /\
               skip_token s2 (hd_code (sep ++ L)) c = (hd_code L, mk ts (adv L q) m) /\ skipn q ts = L.
Proof.
  intros H [[E1 E2]|E]; subst sep; cbn [app] in *.
  - exists (mk ts (adv L p) m), p. rewrite (next_adv _ _ _ _ H). unfold skip_token. rewrite E2. auto.
  - exists (mk ts (S p) m), (S p). rewrite (next_cons _ _ _ _ _ H). cbn [hd_code t_code tk].
    unfold skip_token. rewrite N.eqb_refl.
    pose proof (skipn_S _ _ _ _ H) as H1. rewrite (next_adv _ _ _ _ H1). auto.
Qed.

(** statement-level results: verdict, the look-ahead token that ended the clause, no error *)
Definition ssim (ts : list tok) (r : bool * N * N * lstate) (c : bool) (rest : list tok) : Prop :=
  if c then exists p' m', skipn p' ts = rest /\ r = (true, hd_code rest, 0%N, mk ts (adv rest p') m')
  else fst (fst (fst r)) = false.

Definition where_stop (c : N) : bool := (c =? tkIf)%N || is_dml_terminator c.

Lemma terminator_cases c : is_dml_terminator c = true -> In c [tkEOF; tkEOS; tkInsert; tkUpdate; tkDelete; tkApply].
Proof.
  unfold is_dml_terminator. intro H. repeat (apply orb_true_iff in H; destruct H as [H|H]);
    apply N.eqb_eq in H; subst; cbn; tauto.
Qed.

Lemma where_stop_cases c : where_stop c = true -> In c [tkIf; tkEOF; tkEOS; tkInsert; tkUpdate; tkDelete; tkApply].
Proof.
  unfold where_stop. intro H. apply orb_true_iff in H. destruct H as [H|H].
  - apply N.eqb_eq in H. subst. left. reflexivity.
  - right. apply terminator_cases, H.
Qed.

(** a stopping token differs from any given non-stopping code *)
Lemma stop_neq c d : where_stop c = true -> where_stop d = false -> (c =? d)%N = false.
Proof. intros Hc Hd. destruct (N.eqb_spec c d) as [E|]; [subst; congruence|reflexivity]. Qed.

Lemma terminator_stop c : is_dml_terminator c = true -> where_stop c = true.
Proof. intro H. unfold where_stop. rewrite H. apply orb_true_r. Qed.

Lemma rel_head_not_stop r : where_stop (head_code_rel r) = false.
Proof. destruct r; reflexivity. Qed.

Lemma sepa_ok (w : list relation) x : where_stop (hd_code x) = true ->
  (sepa w = [] /\ (hd_code (tokens_of_relations w ++ x) =? tkAnd)%N = false) \/ sepa w = [tk tkAnd].
Proof.
  intro H. destruct w; [left; split; [reflexivity|]|right; reflexivity].
  cbn [tokens_of_relations app]. apply stop_neq; [exact H|reflexivity].
Qed.

Lemma rel_len_pos r : 1 <= length (tokens_of_relation r).
Proof. destruct r; cbn; lia. Qed.

Lemma where_loop_sim ts pt : forall w n p m rest,
  forallb wf_top_relation w = true ->
  skipn p ts = tokens_of_relations w ++ rest -> length (tokens_of_relations w ++ rest) <= n ->
  where_stop (hd_code rest) = true ->
  ssim ts (parse_where_loop n FUEL pt (mk ts (adv (tokens_of_relations w ++ rest) p) m)
             (hd_code (tokens_of_relations w ++ rest))) (forallb cls_relation w) rest.
Proof.
  induction w as [|r w IH]; intros n p m rest W H Hn Hstop.
  - cbn [tokens_of_relations app forallb] in *.
    assert (E : parse_where_loop n FUEL pt (mk ts (adv rest p) m) (hd_code rest) =
                (true, hd_code rest, 0%N, mk ts (adv rest p) m)).
    { unfold where_stop in Hstop. destruct n; cbn [parse_where_loop]; rewrite Hstop; reflexivity. }
    rewrite E. cbn [ssim]. exists p, m. auto.
  - cbn [tokens_of_relations forallb] in *. norm.
    apply andb_true_iff in W. destruct W as [Wr Ww]. apply wf_top_relation_inv in Wr. destruct Wr as [Wr Dr].
    destruct (rel_shape r (sepa w ++ tokens_of_relations w ++ rest) Wr) as (a & b & l & E & Ca & _).
    pose proof H as H'. rewrite E in H'. pose proof Hn as Hn'. rewrite E in Hn'.
    rewrite E at 1 2. cbn [adv hd_code]. rewrite Ca.
    destruct n as [|n]; [exfalso; len|]. cbn [parse_where_loop].
    pose proof (rel_head_not_stop r) as Hns. unfold where_stop in Hns. rewrite Hns.
    pose proof (relation_sim r FUEL (S n) ts p m _ Wr Dr H Hn) as R. unfold rsim in R.
    destruct (cls_relation r); cbn [andb].
    + destruct R as (p1 & m1 & H1 & E1). rewrite E1. simp.
      destruct (sep_step_adv ts p1 m1 tkAnd _ _ H1 (sepa_ok w rest Hstop)) as (s2 & q & N1 & N2 & H2).
      rewrite N1, N2. apply IH; [exact Ww|exact H2| |exact Hstop].
      pose proof (rel_len_pos r). len.
    + destruct (parse_relation FUEL (S n) (mk ts (S p) m) (head_code_rel r)) as [[i e] s]. cbn in R. subst. reflexivity.
Qed.

Lemma scan_if_sim ts n ifc p m rest :
  skipn p ts = tokens_of_if ifc ++ rest -> is_dml_terminator (hd_code rest) = true ->
  ssim ts (scan_for_if n (mk ts (adv (tokens_of_if ifc ++ rest) p) m) (hd_code (tokens_of_if ifc ++ rest)))
       (no_if ifc) rest.
Proof.
  intros H Ht. destruct ifc as [tl|]; cbn [tokens_of_if app no_if ssim hd_code t_code tk adv] in *.
  - destruct n; reflexivity.
  - exists p, m. split; [exact H|]. destruct n; cbn [scan_for_if]; rewrite Ht; reflexivity.
Qed.

Lemma if_rest_stop ifc rest : is_dml_terminator (hd_code rest) = true -> where_stop (hd_code (tokens_of_if ifc ++ rest)) = true.
Proof. intro H. destruct ifc; [reflexivity|]. apply terminator_stop, H. Qed.

Lemma where_and_if_sim ts n pt w ifc p m rest :
  forallb wf_top_relation w = true ->
  skipn p ts = tokens_of_where w ++ tokens_of_if ifc ++ rest ->
  length (tokens_of_where w ++ tokens_of_if ifc ++ rest) <= n ->
  is_dml_terminator (hd_code rest) = true ->
  ssim ts (where_and_if n FUEL pt (mk ts (adv (tokens_of_where w ++ tokens_of_if ifc ++ rest) p) m)
             (hd_code (tokens_of_where w ++ tokens_of_if ifc ++ rest)))
       (forallb cls_relation w && no_if ifc) rest.
Proof.
  intros W H Hn Ht. unfold where_and_if. destruct w as [|r w].
  - cbn [tokens_of_where app forallb andb] in *.
    rewrite (stop_neq _ tkWhere (if_rest_stop ifc rest Ht) eq_refl).
    apply scan_if_sim; assumption.
  - cbn [tokens_of_where app hd_code t_code tk adv] in *. simp.
    pose proof (skipn_S _ _ _ _ H) as H1.
    unfold parse_where_clause. rewrite (next_adv ts (S p) m _ H1).
    pose proof (where_loop_sim ts pt (r :: w) n (S p) m (tokens_of_if ifc ++ rest) W H1 ltac:(len)
                  (if_rest_stop ifc rest Ht)) as L.
    unfold ssim in L.
    destruct (forallb cls_relation (r :: w)); cbn [andb].
    + destruct L as (p1 & m1 & H2 & E2). rewrite E2. simp. apply scan_if_sim; assumption.
    + destruct (parse_where_loop _ _ _ _ _) as [[[i t1] e] s]. cbn in L. subst. reflexivity.
Qed.

(** ** USING *)
Lemma bind_hd_not_int b rest : (hd_code (tokens_of_bind b ++ rest) =? tkInteger)%N = false.
Proof. destruct b; reflexivity. Qed.

Lemma using_item_sim ts a q m rest : skipn q ts = tokens_of_using_item a ++ rest ->
  exists q', skipn q' ts = rest /\ parse_ttl_or_timestamp (mk ts q m) = (false, mk ts q' m).
Proof.
  intro H. unfold parse_ttl_or_timestamp.
  destruct a as [v|v]; cbn [tokens_of_using_item app] in H; pose proof (skipn_S _ _ _ _ H) as H1;
    step; repeat step_kw; (destruct v as [|b]; cbn [tokens_of_uval app] in * ).
  - step. exists (S (S q)). split; [assumption|reflexivity].
  - assert (Hne : tokens_of_bind b ++ rest <> []) by (destruct b; discriminate).
    rewrite (next_ne ts (S q) m _ H1 Hne). rewrite bind_hd_not_int.
    destruct (bind_hd b rest) as [B1 _]. cbv zeta in B1. rewrite B1.
    destruct (bind_marker_sim ts b (S q) m rest H1) as (p' & H3 & E). rewrite E. exists p'. auto.
  - step. exists (S (S q)). split; [assumption|reflexivity].
  - assert (Hne : tokens_of_bind b ++ rest <> []) by (destruct b; discriminate).
    rewrite (next_ne ts (S q) m _ H1 Hne). rewrite bind_hd_not_int.
    destruct (bind_hd b rest) as [B1 _]. cbv zeta in B1. rewrite B1.
    destruct (bind_marker_sim ts b (S q) m rest H1) as (p' & H3 & E). rewrite E. exists p'. auto.
Qed.

Lemma using_sim ts u p m rest : skipn p ts = tokens_of_using u ++ rest ->
  (hd_code rest =? tkUsing)%N = false -> (hd_code rest =? tkAnd)%N = false ->
  exists p', skipn p' ts = rest /\
    parse_using_clause (mk ts (adv (tokens_of_using u ++ rest) p) m) (hd_code (tokens_of_using u ++ rest)) =
    (hd_code rest, false, mk ts (adv rest p') m).
Proof.
  intros H HU HA. unfold parse_using_clause.
  destruct u as [[a [b|]]|]; cbn [tokens_of_using app hd_code t_code tk adv] in *; norm.
  - simp. pose proof (skipn_S _ _ _ _ H) as H1.
    destruct (using_item_sim ts a (S p) m _ H1) as (q1 & H2 & E1). rewrite E1. step.
    pose proof (skipn_S _ _ _ _ H2) as H3.
    destruct (using_item_sim ts b (S q1) m _ H3) as (q2 & H4 & E2). rewrite E2.
    rewrite (next_adv ts q2 m _ H4). exists q2. auto.
  - simp. pose proof (skipn_S _ _ _ _ H) as H1.
    destruct (using_item_sim ts a (S p) m _ H1) as (q1 & H2 & E1). rewrite E1.
    rewrite (next_adv ts q1 m _ H2). rewrite HA. exists q1. auto.
  - rewrite HU. exists p. auto.
Qed.

Global Opaque FUEL.

(** the failing case: the element's verdict is false and so is the result *)
Ltac tfalse T :=
  match type of T with
  | idem_of ?r = false => destruct r as [[[?i ?ty] ?e] ?s]
  end; cbn [idem_of fst] in T; subst; reflexivity.

(** ** update operations *)
Lemma pt_top ts n t : wf_top_term t = true -> pt_sim ts n (parse_term FUEL n) t.
Proof. intro W. apply wf_top_term_inv in W. destruct W as [W D]. apply parse_term_sim; assumption. Qed.

Lemma rsim_true ts r rest p' m' : skipn p' ts = rest -> r = (true, 0%N, mk ts p' m') -> rsim ts r true rest.
Proof. intros H E. cbn. exists p', m'. auto. Qed.

Lemma update_op_sim ts n o p m rest :
  wf_update_op o = true ->
  skipn p ts = tokens_of_update_op o ++ rest -> length (tokens_of_update_op o ++ rest) <= n ->
  (hd_code rest =? tkAdd)%N = false ->
  rsim ts (parse_update_op (parse_term FUEL n) (mk ts (S p) m) tkIdentifier) (cls_update_op o) rest.
Proof.
  intros W H Hn HA. unfold parse_update_op. simp.
  destruct o as [c t|c d t|c d t|c t d|c t|c t|c i t|c f t];
    cbn [tokens_of_update_op cls_update_op wf_update_op] in *; norm;
    pose proof (skipn_S _ _ _ _ H) as H1; step.
  - (* USet *) pose proof (skipn_S _ _ _ _ H1) as H2. rewrite mark_mk.
    pose proof (pt_top ts n t W) as Hpt. apply wf_top_term_inv in W. destruct W as [W D].
    destruct (head_tok t) as (a0 & l0 & E0 & C0).
    pose proof H2 as H2'. rewrite E0 in H2'. cbn [app] in H2'. step. rewrite C0.
    pose proof (skipn_S _ _ _ _ H2') as H3'.
    destruct (next_gen ts (S (S (S p))) (S (S p)) _ H3') as (px & EN & _). rewrite EN.
    assert (Hcond : ((head_code t =? tkIdentifier)%N &&
               ((hd_code (l0 ++ rest) =? tkAdd)%N || (hd_code (l0 ++ rest) =? tkSub)%N)) = false).
    { pose proof (fun d D1 D2 => fun_second_neq t rest d W D1 D2) as F. unfold second_code in F. rewrite E0 in F.
      cbn [app tl] in F. rewrite andb_orb_distrib_r, (F tkAdd eq_refl eq_refl), (F tkSub eq_refl eq_refl). reflexivity. }
    rewrite Hcond. rewrite rewind_mk. stept.
    pose proof (Hpt (S (S p)) (S (S p)) rest H2 ltac:(len)) as T. unfold tsim in T.
    destruct (cls_term t).
    + destruct T as (p1 & m1 & H4 & E4). rewrite E4. simp. rewrite mark_mk.
      destruct (next_gen ts p1 p1 _ H4) as (py & EN2 & _). rewrite EN2. rewrite HA. rewrite rewind_mk.
      exists p1, p1. auto.
    + tfalse T.
  - (* UAdd *) rewrite mark_mk. step. step. pose proof (pt_top ts n t W) as Hpt.
    stept.
    match goal with HS : skipn ?q ts = tokens_of_term t ++ rest |- _ =>
      pose proof (Hpt q (S (S p)) rest HS ltac:(len)) as T end.
    unfold tsim in T. destruct (cls_term t); cbn [andb].
    + destruct T as (p1 & m1 & H4 & E4). rewrite E4. simp.
      destruct (idem_update_op_type (type_of t)); [exists p1, m1; auto|reflexivity].
    + tfalse T.
  - (* USub *) rewrite mark_mk. step. step. pose proof (pt_top ts n t W) as Hpt.
    stept.
    match goal with HS : skipn ?q ts = tokens_of_term t ++ rest |- _ =>
      pose proof (Hpt q (S (S p)) rest HS ltac:(len)) as T end.
    unfold tsim in T. destruct (cls_term t); cbn [andb].
    + destruct T as (p1 & m1 & H4 & E4). rewrite E4. simp.
      destruct (idem_update_op_type (type_of t)); [exists p1, m1; auto|reflexivity].
    + tfalse T.
  - (* UPrepend *) pose proof (skipn_S _ _ _ _ H1) as H2. rewrite mark_mk.
    pose proof (pt_top ts n t W) as Hpt. apply wf_top_term_inv in W. destruct W as [W D].
    destruct (head_tok t) as (a0 & l0 & E0 & C0).
    pose proof H2 as H2'. rewrite E0 in H2'. cbn [app] in H2'. step. rewrite C0.
    pose proof (skipn_S _ _ _ _ H2') as H3'.
    destruct (next_gen ts (S (S (S p))) (S (S p)) _ H3') as (px & EN & _). rewrite EN.
    assert (Hcond : forall y, ((head_code t =? tkIdentifier)%N &&
               ((hd_code (l0 ++ y) =? tkAdd)%N || (hd_code (l0 ++ y) =? tkSub)%N)) = false).
    { intro y. pose proof (fun d D1 D2 => fun_second_neq t y d W D1 D2) as F. unfold second_code in F. rewrite E0 in F.
      cbn [app tl] in F. rewrite andb_orb_distrib_r, (F tkAdd eq_refl eq_refl), (F tkSub eq_refl eq_refl). reflexivity. }
    rewrite Hcond. rewrite rewind_mk. stept.
    pose proof (Hpt (S (S p)) (S (S p)) _ H2 ltac:(len)) as T. unfold tsim in T.
    destruct (cls_term t); cbn [andb].
    + destruct T as (p1 & m1 & H4 & E4). rewrite E4. simp. rewrite mark_mk. step. step.
      destruct (idem_update_op_type (type_of t)); [|reflexivity].
      exists (S (S p1)), p1. split; [assumption|reflexivity].
    + tfalse T.
  - (* UAddEq *) pose proof (skipn_S _ _ _ _ H1) as H2. pose proof (pt_top ts n t W) as Hpt. stept.
    pose proof (Hpt (S (S p)) m rest H2 ltac:(len)) as T. unfold tsim in T. destruct (cls_term t); cbn [andb].
    + destruct T as (p1 & m1 & H4 & E4). rewrite E4. simp.
      destruct (idem_update_op_type (type_of t)); [exists p1, m1; auto|reflexivity].
    + tfalse T.
  - (* USubEq *) pose proof (skipn_S _ _ _ _ H1) as H2. pose proof (pt_top ts n t W) as Hpt. stept.
    pose proof (Hpt (S (S p)) m rest H2 ltac:(len)) as T. unfold tsim in T. destruct (cls_term t); cbn [andb].
    + destruct T as (p1 & m1 & H4 & E4). rewrite E4. simp.
      destruct (idem_update_op_type (type_of t)); [exists p1, m1; auto|reflexivity].
    + tfalse T.
  - (* UIndex *) apply andb_true_iff in W. destruct W as [Wi Wt].
    pose proof (skipn_S _ _ _ _ H1) as H2. stept.
    pose proof (pt_top ts n i Wi (S (S p)) m _ H2 ltac:(len)) as T. unfold tsim in T.
    destruct (cls_term i); cbn [andb].
    + destruct T as (p1 & m1 & H4 & E4). rewrite E4. simp. step. step. stept.
      match goal with HS : skipn ?q ts = tokens_of_term t ++ rest |- _ =>
        pose proof (pt_top ts n t Wt q m1 rest HS ltac:(len)) as T2 end.
      unfold tsim in T2. destruct (cls_term t).
      * destruct T2 as (p2 & m2 & H5 & E5). rewrite E5. simp. exists p2, m2. auto.
      * tfalse T2.
    + tfalse T.
  - (* UField *) step. step. stept.
    match goal with HS : skipn ?q ts = tokens_of_term t ++ rest |- _ =>
      pose proof (pt_top ts n t W q m rest HS ltac:(len)) as T end.
    unfold tsim in T. destruct (cls_term t).
    + destruct T as (p2 & m2 & H5 & E5). rewrite E5. simp. exists p2, m2. auto.
    + tfalse T.
Qed.

(** ** the SET list *)
Definition osim (ts : list tok) (r : (bool * N * lstate) + (N * lstate)) (c : bool) (rest : list tok) : Prop :=
  if c then exists p' m', skipn p' ts = rest /\ r = inr (hd_code rest, mk ts (adv rest p') m')
  else exists x, r = inl x /\ fst (fst x) = false.

Definition ops_stop (c : N) : bool := (c =? tkIf)%N || (c =? tkWhere)%N || is_dml_terminator c.

Lemma ops_neq c d : ops_stop c = true -> ops_stop d = false -> (c =? d)%N = false.
Proof. intros Hc Hd. destruct (N.eqb_spec c d) as [E|]; [subst; congruence|reflexivity]. Qed.

Lemma update_op_tok o x : exists c l, tokens_of_update_op o ++ x = tki c :: l.
Proof. destruct o; cbn; eauto. Qed.

Lemma sepc_ops_ok (ops : list update_op) x : ops_stop (hd_code x) = true ->
  (sepc ops = [] /\ (hd_code (tokens_of_update_ops ops ++ x) =? tkComma)%N = false) \/ sepc ops = [tk tkComma].
Proof.
  intro H. destruct ops; [left; split; [reflexivity|]|right; reflexivity].
  cbn [tokens_of_update_ops app]. apply ops_neq; [exact H|reflexivity].
Qed.

Lemma update_ops_loop_sim ts N : forall ops n p m rest,
  forallb wf_update_op ops = true ->
  skipn p ts = tokens_of_update_ops ops ++ rest ->
  length (tokens_of_update_ops ops ++ rest) <= N -> length (tokens_of_update_ops ops ++ rest) <= n ->
  ops_stop (hd_code rest) = true ->
  osim ts (update_ops_loop n (parse_term FUEL N) (mk ts (adv (tokens_of_update_ops ops ++ rest) p) m)
             (hd_code (tokens_of_update_ops ops ++ rest))) (forallb cls_update_op ops) rest.
Proof.
  induction ops as [|o ops IH]; intros n p m rest W H HN Hn Hstop.
  - cbn [tokens_of_update_ops app forallb] in *.
    assert (E : update_ops_loop n (parse_term FUEL N) (mk ts (adv rest p) m) (hd_code rest) =
                inr (hd_code rest, mk ts (adv rest p) m)).
    { unfold ops_stop in Hstop. destruct n; cbn [update_ops_loop]; rewrite Hstop; reflexivity. }
    rewrite E. cbn [osim]. exists p, m. auto.
  - cbn [tokens_of_update_ops forallb] in *. norm.
    apply andb_true_iff in W. destruct W as [Wo Wops].
    destruct (update_op_tok o (sepc ops ++ tokens_of_update_ops ops ++ rest)) as (c0 & l0 & E).
    pose proof Hn as Hn'. rewrite E in Hn'.
    rewrite E at 1 2. cbn [adv hd_code t_code tki].
    destruct n as [|n]; [exfalso; len|]. cbn [update_ops_loop]. simp.
    assert (HA : (hd_code (sepc ops ++ tokens_of_update_ops ops ++ rest) =? tkAdd)%N = false).
    { destruct ops; [|reflexivity]. cbn [sepc tokens_of_update_ops app]. apply ops_neq; [exact Hstop|reflexivity]. }
    pose proof (update_op_sim ts N o p m _ Wo H HN HA) as R. unfold rsim in R.
    destruct (cls_update_op o); cbn [andb].
    + destruct R as (p1 & m1 & H1 & E1). rewrite E1. simp.
      destruct (sep_step_adv ts p1 m1 tkComma _ _ H1 (sepc_ops_ok ops rest Hstop)) as (s2 & q & N1 & N2 & H2).
      rewrite N1, N2.
      assert (Hlen : 1 <= length (tokens_of_update_op o)) by (destruct o; cbn; lia).
      apply IH; [exact Wops|exact H2|len|len|exact Hstop].
    + destruct (parse_update_op _ _ _) as [[i e] s]. cbn in R. subst. cbn [osim]. eexists. split; reflexivity.
Qed.

(** ** the DELETE column list *)
Definition dsim (ts : list tok) (r : (bool * N * lstate) + (N * lstate)) (c : bool) (rest : list tok) : Prop :=
  if c then exists p' m', skipn p' ts = rest /\ r = inr (tkFrom, mk ts p' m')
  else exists x, r = inl x /\ fst (fst x) = false.

Lemma sepc_dops_ok (ops : list delete_op) x :
  (sepc ops = [] /\ (hd_code (tokens_of_delete_ops ops ++ tk tkFrom :: x) =? tkComma)%N = false) \/ sepc ops = [tk tkComma].
Proof. destruct ops; [left; split; reflexivity|right; reflexivity]. Qed.

Lemma dops_ne (ops : list delete_op) x : sepc ops ++ tokens_of_delete_ops ops ++ tk tkFrom :: x <> [].
Proof. destruct ops; discriminate. Qed.

Lemma delete_ops_loop_sim ts N : forall ops n p m rest,
  forallb wf_delete_op ops = true ->
  skipn p ts = tokens_of_delete_ops ops ++ tk tkFrom :: rest ->
  length (tokens_of_delete_ops ops ++ tk tkFrom :: rest) <= N ->
  length (tokens_of_delete_ops ops ++ tk tkFrom :: rest) <= n ->
  dsim ts (delete_ops_loop n (parse_term FUEL N) (mk ts (S p) m)
             (hd_code (tokens_of_delete_ops ops ++ tk tkFrom :: rest))) (forallb cls_delete_op ops) rest.
Proof.
  induction ops as [|o ops IH]; intros n p m rest W H HN Hn.
  - cbn [tokens_of_delete_ops app forallb hd_code t_code tk] in *.
    assert (E : delete_ops_loop n (parse_term FUEL N) (mk ts (S p) m) tkFrom = inr (tkFrom, mk ts (S p) m)).
    { destruct n; reflexivity. }
    rewrite E. cbn [dsim]. exists (S p), m. split; [apply skipn_S with (tk tkFrom), H|reflexivity].
  - cbn [tokens_of_delete_ops forallb] in *.
    apply andb_true_iff in W. destruct W as [Wo Wops].
    destruct o as [c|c i|c f]; cbn [tokens_of_delete_op cls_delete_op wf_delete_op] in *; norm;
      (destruct n as [|n]; [exfalso; len|]); cbn [delete_ops_loop hd_code t_code tki]; simp;
      rewrite mark_mk; pose proof (skipn_S _ _ _ _ H) as H1.
    + (* DCol *)
      rewrite (next_ne ts (S p) (S p) _ H1 (dops_ne ops rest)).
      assert (Hc : (hd_code (sepc ops ++ tokens_of_delete_ops ops ++ tk tkFrom :: rest) =? tkLsquare)%N = false /\
                   (hd_code (sepc ops ++ tokens_of_delete_ops ops ++ tk tkFrom :: rest) =? tkDot)%N = false)
        by (destruct ops; split; reflexivity).
      destruct Hc as [Hc1 Hc2]. rewrite Hc1, Hc2. rewrite rewind_mk.
      destruct (sep_step ts (S p) (S p) tkComma _ _ H1 (app_cons_ne _ _ _) (sepc_dops_ok ops rest)) as (s2 & q & N1 & N2 & H2).
      rewrite N1, N2. apply IH; [exact Wops|exact H2|len|len].
    + (* DIndex *)
      step. pose proof (skipn_S _ _ _ _ H1) as H2. stept.
      pose proof (pt_top ts N i Wo (S (S p)) (S p) _ H2 ltac:(len)) as T. unfold tsim in T.
      destruct (cls_term i); cbn [andb].
      * destruct T as (p1 & m1 & H3 & E3). rewrite E3. simp. step.
        destruct (idem_delete_element_type (type_of i)); cbn [negb].
        -- pose proof (skipn_S _ _ _ _ H3) as H4.
           destruct (sep_step ts (S p1) m1 tkComma _ _ H4 (app_cons_ne _ _ _) (sepc_dops_ok ops rest)) as (s2 & q & N1 & N2 & H5).
           rewrite N1, N2. pose proof (term_len_pos i). apply IH; [exact Wops|exact H5|len|len].
        -- cbn [dsim]. eexists. split; reflexivity.
      * match type of T with idem_of ?r = false => destruct r as [[[i0 ty] e] s] end.
        cbn [idem_of fst] in T. subst. simp. cbn [dsim]. eexists. split; reflexivity.
    + (* DField *)
      step. step. pose proof (skipn_S _ _ _ _ H1) as H2. pose proof (skipn_S _ _ _ _ H2) as H3.
      destruct (sep_step ts (S (S (S p))) (S p) tkComma _ _ H3 (app_cons_ne _ _ _) (sepc_dops_ok ops rest)) as (s2 & q & N1 & N2 & H5).
      rewrite N1, N2. apply IH; [exact Wops|exact H5|len|len].
Qed.
