(** * AstTermSim: [parse_term] on the tokens of a well-formed term computes [cls_term] and [type_of]
    and stops just after the term. *)
From Coq Require Import List NArith Bool Lia Arith.
From CqlProxy Require Import Lib.Val Lib.Util Lib.Regex Gen.LexRules Gen.Tables Model.Lexer Model.Parser Model.Ast
  Proofs.AstBase.
Import ListNotations.

(** ** [parse_term] by leading token *)
Lemma pt_int f n s : parse_term (S f) n s tkInteger = (true, tInteger, 0%N, s).
Proof. reflexivity. Qed.
Lemma pt_prim f n s c : is_prim_code c = true -> parse_term (S f) n s c = (true, tPrimitive, 0%N, s).
Proof.
  intro H. apply existsb_eqb_In in H. cbn in H.
  repeat (destruct H as [H|H]; [subst c; reflexivity|]). contradiction.
Qed.
Lemma pt_qmark f n s : parse_term (S f) n s tkQMark = (true, tBind, 0%N, s).
Proof. reflexivity. Qed.
Lemma pt_colon f n s : parse_term (S f) n s tkColon =
  let '(t1, s1) := next s in if negb (t1 =? tkIdentifier)%N then (false, tBind, 1%N, s1) else (true, tBind, 0%N, s1).
Proof. reflexivity. Qed.
Lemma pt_lsquare f n s : parse_term (S f) n s tkLsquare = parse_list_term n (parse_term f n) s.
Proof. reflexivity. Qed.
Lemma pt_lcurly f n s : parse_term (S f) n s tkLcurly =
  let pt := parse_term f n in
  let '(t1, s1) := next s in
  if (t1 =? tkIdentifier)%N then
    let sm := mark s1 in
    let '(_, _, maybeColon, err, s2) := parse_qualified sm in
    if err then (false, tSetMapUdt, 1%N, s2)
    else
      let sr := rewind s2 in
      if (maybeColon =? tkColon)%N then parse_udt_term n pt sr t1 else parse_set_or_map_term n pt sr t1
  else parse_set_or_map_term n pt s1 t1.
Proof. reflexivity. Qed.
Lemma pt_lparen f n s : parse_term (S f) n s tkLparen =
  let pt := parse_term f n in
  let '(t1, s1) := next s in
  if (t1 =? tkIdentifier)%N then parse_cast_term n pt s1 else parse_tuple_term n pt s1 t1.
Proof. reflexivity. Qed.
Lemma pt_ident f n s : parse_term (S f) n s tkIdentifier = parse_function_term n (parse_term f n) s.
Proof. reflexivity. Qed.

(** ** separators *)
Lemma sep_step ts p m c sep L : skipn p ts = sep ++ L -> L <> [] ->
  (sep = [] /\ (hd_code L =? c)%N = false) \/ sep = [tk c] ->
  exists s2 q, next (mk ts p m) = (hd_code (sep ++ L), s2) /\
               skip_token s2 (hd_code (sep ++ L)) c = (hd_code L, mk ts (S q) m) /\ skipn q ts = L.
Proof.
  intros H Hne [[E1 E2]|E]; subst sep; cbn [app] in *.
  - exists (mk ts (S p) m), p. rewrite (next_ne _ _ _ _ H Hne). unfold skip_token. rewrite E2. auto.
  - exists (mk ts (S p) m), (S p). rewrite (next_cons _ _ _ _ _ H). cbn [hd_code t_code tk].
    unfold skip_token. rewrite N.eqb_refl.
    pose proof (skipn_S _ _ _ _ H) as H1. rewrite (next_ne _ _ _ _ H1 Hne). auto.
Qed.

Lemma sep_terms_ok r c x : (c =? tkComma)%N = false ->
  (sep_terms r = [] /\ (hd_code (tokens_of_terms r ++ tk c :: x) =? tkComma)%N = false) \/ sep_terms r = [tk tkComma].
Proof. intro H. destruct r; try (right; reflexivity); left; split; [reflexivity|exact H]. Qed.
Lemma sep_entries_ok r c x : (c =? tkComma)%N = false ->
  (sep_entries r = [] /\ (hd_code (tokens_of_entries r ++ tk c :: x) =? tkComma)%N = false) \/ sep_entries r = [tk tkComma].
Proof. intro H. destruct r; try (right; reflexivity); left; split; [reflexivity|exact H]. Qed.
Lemma sep_fields_ok r c x : (c =? tkComma)%N = false ->
  (sep_fields r = [] /\ (hd_code (tokens_of_fields r ++ tk c :: x) =? tkComma)%N = false) \/ sep_fields r = [tk tkComma].
Proof. intro H. destruct r; try (right; reflexivity); left; split; [reflexivity|exact H]. Qed.
Lemma sep_fargs_ok r c x : (c =? tkComma)%N = false ->
  (sep_fargs r = [] /\ (hd_code (tokens_of_fargs r ++ tk c :: x) =? tkComma)%N = false) \/ sep_fargs r = [tk tkComma].
Proof. intro H. destruct r; try (right; reflexivity); left; split; [reflexivity|exact H]. Qed.

Lemma app_cons_ne {A} (x : list A) a y : x ++ a :: y <> [].
Proof. destruct x; discriminate. Qed.

(** ** element-wise hypotheses *)
Fixpoint Forall_terms (Q : term -> Prop) (es : terms) : Prop :=
  match es with TNil => True | TCons e r => Q e /\ Forall_terms Q r end.
Fixpoint Forall_entries (Q : term -> Prop) (es : entries) : Prop :=
  match es with ENil => True | ECons k v r => Q k /\ Q v /\ Forall_entries Q r end.
Fixpoint Forall_fields (Q : term -> Prop) (es : fields) : Prop :=
  match es with FNil => True | FCons _ v r => Q v /\ Forall_fields Q r end.
Fixpoint Forall_fargs (Q : term -> Prop) (es : fargs) : Prop :=
  match es with ANil => True | ATerm t r => Q t /\ Forall_fargs Q r | AIdent _ r => Forall_fargs Q r end.

Definition lsim (ts : list tok) (r : TRes + (N * lstate)) (c : bool) (close : N) (rest : list tok) : Prop :=
  if c then exists p' m', skipn p' ts = rest /\ r = inr (close, mk ts p' m')
  else exists x, r = inl x /\ idem_of x = false.

(** use the simulation of an element: case on its verdict *)
Ltac use_pt Hpt e H p m :=
  let T := fresh "T" in
  match type of H with skipn p ?ts = tokens_of_term e ++ ?rest =>
    assert (T : tsim ts (_ (mk ts (S p) m) (head_code e)) (cls_term e) (type_of e) rest) by (apply Hpt; [exact H|len]);
    unfold tsim in T
  end.

(** ** loop_terms *)
Lemma loop_terms_sim ts N pt close :
  term_start close = false -> (close =? tkEOF)%N = false -> (close =? tkComma)%N = false ->
  forall es, Forall_terms (pt_sim ts N pt) es -> wf_terms es = true ->
  forall n p m rest,
    skipn p ts = tokens_of_terms es ++ tk close :: rest ->
    length (tokens_of_terms es ++ tk close :: rest) <= N ->
    length (tokens_of_terms es ++ tk close :: rest) <= n ->
    lsim ts (loop_terms n pt close (mk ts (S p) m) (hd_code (tokens_of_terms es ++ tk close :: rest)))
         (cls_terms es) close rest.
Proof.
  intros Hc1 Hc2 Hc3. induction es as [|e r IH]; intros HF Hwf n p m rest H HN Hn.
  - cbn [tokens_of_terms app hd_code t_code tk] in *.
    assert (E : loop_terms n pt close (mk ts (S p) m) close = inr (close, mk ts (S p) m)).
    { destruct n; cbn [loop_terms]; rewrite N.eqb_refl; reflexivity. }
    rewrite E. cbn [cls_terms lsim]. exists (S p), m. split; [apply skipn_S with (tk close), H|reflexivity].
  - cbn [tokens_of_terms] in *. rewrite <- !app_assoc in *.
    cbn [Forall_terms] in HF. destruct HF as [He HF].
    cbn [wf_terms] in Hwf. apply andb_true_iff in Hwf. destruct Hwf as [We Wr].
    rewrite hd_code_term.
    pose proof (term_len_pos e) as Hpos.
    destruct n as [|n]; [exfalso; len|]. cbn [loop_terms].
    rewrite (start_neq (head_code e) close (head_code_start e We) Hc1).
    rewrite (start_neq (head_code e) tkEOF (head_code_start e We) eq_refl). cbn [orb].
    use_pt He e H p m. cbn [cls_terms]. destruct (cls_term e) eqn:Ce.
    + destruct T as (p1 & m1 & H1 & E1). rewrite E1. simp.
      destruct (sep_step ts p1 m1 tkComma _ _ H1 (app_cons_ne _ _ _) (sep_terms_ok r close rest Hc3))
        as (s2 & q & N1 & N2 & H2).
      rewrite N1, N2. apply IH; [exact HF|exact Wr|exact H2|len|len].
    + destruct (pt (mk ts (S p) m) (head_code e)) as [[[i ty] er] s1]. cbn in T. subst i. simp.
      cbn [lsim]. eexists. split; [reflexivity|reflexivity].
Qed.

(** one more stepping rule: over the first token of a term *)
Ltac stept :=
  match goal with
  | |- context [next (mk ?ts ?p ?m)] =>
      match goal with
      | H : skipn p ts = tokens_of_term ?e ++ ?x |- _ => rewrite (next_term ts p m e x H)
      end
  end; simp.

Ltac fail_case pt_call T :=
  destruct pt_call as [[[?i ?ty] ?er] ?s1]; cbn in T; subst; simp.

(** ** parse_set_or_map_term on a set *)
Lemma set_loop_sim ts N pt :
  forall es, Forall_terms (pt_sim ts N pt) es -> wf_terms es = true ->
  forall n p m rest,
    skipn p ts = tokens_of_terms es ++ tk tkRcurly :: rest ->
    length (tokens_of_terms es ++ tk tkRcurly :: rest) <= N ->
    length (tokens_of_terms es ++ tk tkRcurly :: rest) <= n ->
    tsim ts (parse_set_or_map_term n pt (mk ts (S p) m) (hd_code (tokens_of_terms es ++ tk tkRcurly :: rest)))
         (cls_terms es) tSetMapUdt rest.
Proof.
  induction es as [|e r IH]; intros HF Hwf n p m rest H HN Hn.
  - cbn [tokens_of_terms app hd_code t_code tk] in *.
    assert (E : parse_set_or_map_term n pt (mk ts (S p) m) tkRcurly = (true, tSetMapUdt, 0%N, mk ts (S p) m)).
    { destruct n; reflexivity. }
    rewrite E. cbn [cls_terms tsim]. exists (S p), m. split; [apply skipn_S with (tk tkRcurly), H|reflexivity].
  - cbn [tokens_of_terms] in *. rewrite <- !app_assoc in *.
    cbn [Forall_terms] in HF. destruct HF as [He HF].
    cbn [wf_terms] in Hwf. apply andb_true_iff in Hwf. destruct Hwf as [We Wr].
    rewrite hd_code_term.
    pose proof (term_len_pos e) as Hpos.
    destruct n as [|n]; [exfalso; len|]. cbn [parse_set_or_map_term].
    rewrite (start_neq (head_code e) tkRcurly (head_code_start e We) eq_refl).
    rewrite (start_neq (head_code e) tkEOF (head_code_start e We) eq_refl). cbn [orb].
    use_pt He e H p m. cbn [cls_terms]. destruct (cls_term e) eqn:Ce.
    + destruct T as (p1 & m1 & H1 & E1). rewrite E1. simp.
      destruct (sep_step ts p1 m1 tkComma _ _ H1 (app_cons_ne _ _ _) (sep_terms_ok r tkRcurly rest eq_refl))
        as (s2 & q & N1 & N2 & H2).
      rewrite N1.
      assert (Hnc : (hd_code (sep_terms r ++ tokens_of_terms r ++ tk tkRcurly :: rest) =? tkColon)%N = false)
        by (destruct r; reflexivity).
      rewrite Hnc, N2. apply IH; [exact HF|exact Wr|exact H2|len|len].
    + fail_case (pt (mk ts (S p) m) (head_code e)) T. reflexivity.
Qed.

(** ** parse_set_or_map_term on a map *)
Lemma map_loop_sim ts N pt :
  forall es, Forall_entries (pt_sim ts N pt) es -> wf_entries es = true ->
  forall n p m rest,
    skipn p ts = tokens_of_entries es ++ tk tkRcurly :: rest ->
    length (tokens_of_entries es ++ tk tkRcurly :: rest) <= N ->
    length (tokens_of_entries es ++ tk tkRcurly :: rest) <= n ->
    tsim ts (parse_set_or_map_term n pt (mk ts (S p) m) (hd_code (tokens_of_entries es ++ tk tkRcurly :: rest)))
         (cls_entries es) tSetMapUdt rest.
Proof.
  induction es as [|k v r IH]; intros HF Hwf n p m rest H HN Hn.
  - cbn [tokens_of_entries app hd_code t_code tk] in *.
    assert (E : parse_set_or_map_term n pt (mk ts (S p) m) tkRcurly = (true, tSetMapUdt, 0%N, mk ts (S p) m)).
    { destruct n; reflexivity. }
    rewrite E. cbn [cls_entries tsim]. exists (S p), m. split; [apply skipn_S with (tk tkRcurly), H|reflexivity].
  - cbn [tokens_of_entries] in *. rewrite <- !app_assoc in *. cbn [app] in *. rewrite <- !app_assoc in *.
    cbn [Forall_entries] in HF. destruct HF as (Hk & Hv & HF).
    cbn [wf_entries] in Hwf. apply andb_true_iff in Hwf. destruct Hwf as [Wkv Wr].
    apply andb_true_iff in Wkv. destruct Wkv as [Wk Wv].
    rewrite hd_code_term.
    pose proof (term_len_pos k) as Hpos.
    destruct n as [|n]; [exfalso; len|]. cbn [parse_set_or_map_term].
    rewrite (start_neq (head_code k) tkRcurly (head_code_start k Wk) eq_refl).
    rewrite (start_neq (head_code k) tkEOF (head_code_start k Wk) eq_refl). cbn [orb].
    use_pt Hk k H p m. cbn [cls_entries]. destruct (cls_term k) eqn:Ck.
    + destruct T as (p1 & m1 & H1 & E1). rewrite E1. simp. step.
      pose proof (skipn_S _ _ _ _ H1) as H2. stept.
      use_pt Hv v H2 (S p1) m1. destruct (cls_term v) eqn:Cv.
      * destruct T as (p3 & m3 & H3 & E3). rewrite E3. simp.
        destruct (sep_step ts p3 m3 tkComma _ _ H3 (app_cons_ne _ _ _) (sep_entries_ok r tkRcurly rest eq_refl))
          as (s2 & q & N1 & N2 & H4).
        rewrite N1, N2. apply IH; [exact HF|exact Wr|exact H4|len|len].
      * fail_case (pt (mk ts (S (S p1)) m1) (head_code v)) T. reflexivity.
    + fail_case (pt (mk ts (S p) m) (head_code k)) T. reflexivity.
Qed.

(** ** parseQualifiedIdentifier on a printed (possibly qualified) name; it reads one token past it *)
Lemma parse_qualified_sim ts p m q rest :
  skipn p ts = tokens_of_qname q ++ rest -> (hd_code rest =? tkDot)%N = false ->
  exists p', parse_qualified (mk ts (S p) m) = (ks_ident (fst q), ident_of_lexed (snd q), hd_code rest, false, mk ts p' m)
             /\ skipn p' ts = tl rest.
Proof.
  intros H Hd. destruct q as [[k|] n]; cbn [tokens_of_qname app fst snd ks_ident] in *; unfold parse_qualified.
  - step. pose proof (skipn_S _ _ _ _ H) as H1. step. pose proof (skipn_S _ _ _ _ H1) as H2. step. step.
    pose proof (skipn_S _ _ _ _ H2) as H4.
    destruct (next_gen ts (S (S (S p))) m rest H4) as (p' & E & H3). rewrite E.
    exists p'. split; [reflexivity|exact H3].
  - step. pose proof (skipn_S _ _ _ _ H) as H1.
    destruct (next_gen ts (S p) m rest H1) as (p' & E & H3). rewrite E. rewrite Hd.
    exists p'. split; [reflexivity|exact H3].
Qed.

(** ** parse_udt_term *)
Lemma udt_loop_sim ts N pt :
  forall fs, Forall_fields (pt_sim ts N pt) fs -> wf_fields fs = true ->
  forall n p m rest,
    skipn p ts = tokens_of_fields fs ++ tk tkRcurly :: rest ->
    length (tokens_of_fields fs ++ tk tkRcurly :: rest) <= N ->
    length (tokens_of_fields fs ++ tk tkRcurly :: rest) <= n ->
    tsim ts (parse_udt_term n pt (mk ts (S p) m) (hd_code (tokens_of_fields fs ++ tk tkRcurly :: rest)))
         (cls_fields fs) tSetMapUdt rest.
Proof.
  induction fs as [|f v r IH]; intros HF Hwf n p m rest H HN Hn.
  - cbn [tokens_of_fields app hd_code t_code tk] in *.
    assert (E : parse_udt_term n pt (mk ts (S p) m) tkRcurly = (true, tSetMapUdt, 0%N, mk ts (S p) m)).
    { destruct n; reflexivity. }
    rewrite E. cbn [cls_fields tsim]. exists (S p), m. split; [apply skipn_S with (tk tkRcurly), H|reflexivity].
  - cbn [tokens_of_fields] in *. norm.
    cbn [Forall_fields] in HF. destruct HF as (Hv & HF).
    cbn [wf_fields] in Hwf. apply andb_true_iff in Hwf. destruct Hwf as [Wv Wr].
    destruct n as [|n]; [exfalso; len|]. cbn [parse_udt_term]. simp.
    destruct (parse_qualified_sim ts p m (None, f) (tk tkColon :: tokens_of_term v ++ sep_fields r ++ tokens_of_fields r ++ tk tkRcurly :: rest) H eq_refl)
      as (p1 & E1 & H1).
    rewrite E1. simp. cbn [tl] in H1. stept.
    use_pt Hv v H1 p1 m. cbn [cls_fields]. destruct (cls_term v) eqn:Cv.
    + destruct T as (p3 & m3 & H3 & E3). rewrite E3. simp.
      destruct (sep_step ts p3 m3 tkComma _ _ H3 (app_cons_ne _ _ _) (sep_fields_ok r tkRcurly rest eq_refl))
        as (s2 & q & N1 & N2 & H4).
      rewrite N1, N2. apply IH; [exact HF|exact Wr|exact H4|len|len].
    + fail_case (pt (mk ts (S p1) m) (head_code v)) T. reflexivity.
Qed.

(** ** the second token of a term that starts with an identifier is '.' or '(' *)
Definition second_code (e : term) (x : list tok) : N := hd_code (tl (tokens_of_term e ++ x)).

Lemma prim_not_ident c : is_prim_code c = true -> (c =? tkIdentifier)%N = false.
Proof.
  intro H. apply existsb_eqb_In in H. cbn in H.
  repeat (destruct H as [H|H]; [subst c; reflexivity|]). contradiction.
Qed.

Lemma fun_second_neq e x d : wf_term e = true -> (d =? tkDot)%N = false -> (d =? tkLparen)%N = false ->
  ((head_code e =? tkIdentifier)%N && (second_code e x =? d)%N) = false.
Proof.
  intros W D1 D2. unfold second_code.
  destruct e as [|c|[|n]|es|es|kvs|fs|es|ty t|[k|] name args]; cbn [head_code]; try reflexivity.
  - cbn [wf_term] in W. rewrite (prim_not_ident c W). reflexivity.
  - cbn [tokens_of_term tokens_of_qname]. simp. rewrite N.eqb_sym. exact D1.
  - cbn [tokens_of_term tokens_of_qname]. simp. rewrite N.eqb_sym. exact D2.
Qed.

Lemma head_ident_is_fun e : wf_term e = true -> is_fun e = false -> (head_code e =? tkIdentifier)%N = false.
Proof.
  intros W F. destruct e as [|c|[|n]|es|es|kvs|fs|es|ty t|k name args]; cbn [head_code]; try reflexivity.
  - apply prim_not_ident, W.
  - discriminate.
Qed.

(** ** the argument loop of parseFunctionTerm *)
Lemma fargs_loop_sim ts N pt :
  forall a, Forall_fargs (pt_sim ts N pt) a -> wf_fargs a = true ->
  forall n p m rest,
    skipn p ts = tokens_of_fargs a ++ tk tkRparen :: rest ->
    length (tokens_of_fargs a ++ tk tkRparen :: rest) <= N ->
    length (tokens_of_fargs a ++ tk tkRparen :: rest) <= n ->
    lsim ts (loop_func_args n pt (mk ts (S p) m) (hd_code (tokens_of_fargs a ++ tk tkRparen :: rest)))
         (cls_fargs a) tkRparen rest.
Proof.
  induction a as [|e r IH|c r IH]; intros HF Hwf n p m rest H HN Hn.
  - cbn [tokens_of_fargs app hd_code t_code tk] in *.
    assert (E : loop_func_args n pt (mk ts (S p) m) tkRparen = inr (tkRparen, mk ts (S p) m)).
    { destruct n; reflexivity. }
    rewrite E. cbn [cls_fargs lsim]. exists (S p), m. split; [apply skipn_S with (tk tkRparen), H|reflexivity].
  - cbn [tokens_of_fargs] in *. rewrite <- !app_assoc in *.
    cbn [Forall_fargs] in HF. destruct HF as [He HF].
    cbn [wf_fargs] in Hwf. apply andb_true_iff in Hwf. destruct Hwf as [We Wr].
    rewrite hd_code_term.
    pose proof (term_len_pos e) as Hpos.
    destruct n as [|n]; [exfalso; len|]. cbn [loop_func_args].
    rewrite (start_neq (head_code e) tkRparen (head_code_start e We) eq_refl).
    rewrite (start_neq (head_code e) tkEOF (head_code_start e We) eq_refl). cbn [orb].
    rewrite mark_mk.
    destruct (head_tok e) as (a0 & l0 & E0 & C0).
    assert (H' : skipn p ts = a0 :: l0 ++ sep_fargs r ++ tokens_of_fargs r ++ tk tkRparen :: rest)
      by (rewrite H, E0; reflexivity).
    pose proof (skipn_S _ _ _ _ H') as HS.
    destruct (next_gen ts (S p) (S p) _ HS) as (p' & EN & _). rewrite EN. simp. rewrite rewind_mk.
    assert (Hsec : forall d, (d =? tkDot)%N = false -> (d =? tkLparen)%N = false ->
              ((head_code e =? tkIdentifier)%N &&
               (hd_code (l0 ++ sep_fargs r ++ tokens_of_fargs r ++ tk tkRparen :: rest) =? d)%N) = false).
    { intros d D1 D2. pose proof (fun_second_neq e (sep_fargs r ++ tokens_of_fargs r ++ tk tkRparen :: rest) d We D1 D2) as F.
      unfold second_code in F. rewrite E0 in F. exact F. }
    assert (Hcond : ((head_code e =? tkIdentifier)%N &&
              ((hd_code (l0 ++ sep_fargs r ++ tokens_of_fargs r ++ tk tkRparen :: rest) =? tkComma)%N ||
               (hd_code (l0 ++ sep_fargs r ++ tokens_of_fargs r ++ tk tkRparen :: rest) =? tkRparen)%N)) = false).
    { rewrite andb_orb_distrib_r, (Hsec tkComma eq_refl eq_refl), (Hsec tkRparen eq_refl eq_refl). reflexivity. }
    rewrite Hcond.
    use_pt He e H p (S p). cbn [cls_fargs]. destruct (cls_term e) eqn:Ce.
    + destruct T as (p1 & m1 & H1 & E1). rewrite E1. simp.
      destruct (sep_step ts p1 m1 tkComma _ _ H1 (app_cons_ne _ _ _) (sep_fargs_ok r tkRparen rest eq_refl))
        as (s2 & q & N1 & N2 & H2).
      rewrite N1, N2. apply IH; [exact HF|exact Wr|exact H2|len|len].
    + fail_case (pt (mk ts (S p) (S p)) (head_code e)) T.
      cbn [lsim]. eexists. split; reflexivity.
  - cbn [tokens_of_fargs] in *. norm.
    cbn [Forall_fargs] in HF. cbn [wf_fargs] in Hwf. cbn [hd_code t_code tki].
    destruct n as [|n]; [exfalso; len|]. cbn [loop_func_args]. simp.
    rewrite mark_mk.
    pose proof (skipn_S _ _ _ _ H) as HS.
    assert (Hne : sep_fargs r ++ tokens_of_fargs r ++ tk tkRparen :: rest <> []).
    { destruct r; discriminate. }
    rewrite (next_ne ts (S p) (S p) _ HS Hne). simp. rewrite rewind_mk.
    assert (Hcond : ((hd_code (sep_fargs r ++ tokens_of_fargs r ++ tk tkRparen :: rest) =? tkComma)%N ||
               (hd_code (sep_fargs r ++ tokens_of_fargs r ++ tk tkRparen :: rest) =? tkRparen)%N) = true)
      by (destruct r; reflexivity).
    rewrite Hcond.
    destruct (sep_step ts (S p) (S p) tkComma _ _ HS (app_cons_ne _ _ _) (sep_fargs_ok r tkRparen rest eq_refl))
      as (s2 & q & N1 & N2 & H2).
    rewrite N1, N2. cbn [cls_fargs]. apply IH; [exact HF|exact Hwf|exact H2|len|len].
Qed.

(** ** identifier lists: type parameters and column lists *)
Lemma sepc_ok (r : list bytes) c x : (c =? tkComma)%N = false ->
  (sepc r = [] /\ (hd_code (tokens_of_idents r ++ tk c :: x) =? tkComma)%N = false) \/ sepc r = [tk tkComma].
Proof. intro H. destruct r; [left; split; [reflexivity|exact H]|right; reflexivity]. Qed.

Lemma type_params_sim ts : forall ps n p m rest,
  skipn p ts = tokens_of_idents ps ++ tk tkGt :: rest ->
  length (tokens_of_idents ps ++ tk tkGt :: rest) <= n ->
  exists p', skipn p' ts = rest /\
    parse_type_params n (mk ts (S p) m) (hd_code (tokens_of_idents ps ++ tk tkGt :: rest)) = (tkGt, false, mk ts p' m).
Proof.
  induction ps as [|a r IH]; intros n p m rest H Hn.
  - cbn [tokens_of_idents app hd_code t_code tk] in *. exists (S p).
    split; [apply skipn_S with (tk tkGt), H|destruct n; reflexivity].
  - cbn [tokens_of_idents] in *. norm.
    destruct n as [|n]; [exfalso; len|]. cbn [hd_code t_code tki parse_type_params]. simp.
    pose proof (skipn_S _ _ _ _ H) as HS.
    destruct (sep_step ts (S p) m tkComma _ _ HS (app_cons_ne _ _ _) (sepc_ok r tkGt rest eq_refl))
      as (s2 & q & N1 & N2 & H2).
    rewrite N1, N2. apply IH; [exact H2|len].
Qed.

Lemma idents_sim ts : forall ps n p m rest,
  skipn p ts = tokens_of_idents ps ++ tk tkRparen :: rest ->
  length (tokens_of_idents ps ++ tk tkRparen :: rest) <= n ->
  exists p', skipn p' ts = rest /\
    parse_identifiers n (mk ts (S p) m) (hd_code (tokens_of_idents ps ++ tk tkRparen :: rest)) = (false, mk ts p' m).
Proof.
  induction ps as [|a r IH]; intros n p m rest H Hn.
  - cbn [tokens_of_idents app hd_code t_code tk] in *. exists (S p).
    split; [apply skipn_S with (tk tkRparen), H|destruct n; reflexivity].
  - cbn [tokens_of_idents] in *. norm.
    destruct n as [|n]; [exfalso; len|]. cbn [hd_code t_code tki parse_identifiers]. simp.
    pose proof (skipn_S _ _ _ _ H) as HS.
    destruct (sep_step ts (S p) m tkComma _ _ HS (app_cons_ne _ _ _) (sepc_ok r tkRparen rest eq_refl))
      as (s2 & q & N1 & N2 & H2).
    rewrite N1, N2. apply IH; [exact H2|len].
Qed.

Lemma parse_type_sim ts n ty p m rest :
  skipn p ts = tokens_of_ctype ty ++ tk tkRparen :: rest ->
  length (tokens_of_ctype ty ++ tk tkRparen :: rest) <= n ->
  exists p', skipn p' ts = rest /\ parse_type n (mk ts (S p) m) = (tkRparen, false, mk ts p' m).
Proof.
  intros H Hn. destruct ty as [nm|nm ps]; cbn [tokens_of_ctype app] in *; unfold parse_type.
  - pose proof (skipn_S _ _ _ _ H) as H1. step. exists (S (S p)). split; [assumption|reflexivity].
  - norm.
    pose proof (skipn_S _ _ _ _ H) as H1. step. pose proof (skipn_S _ _ _ _ H1) as H0.
    assert (Hne : tokens_of_idents ps ++ tk tkGt :: tk tkRparen :: rest <> []) by apply app_cons_ne.
    rewrite (next_ne ts (S (S p)) m _ H0 Hne).
    destruct (type_params_sim ts ps n (S (S p)) m (tk tkRparen :: rest) H0) as (p' & H2 & E); [len|].
    rewrite E. simp. step. exists (S p'). split; [apply skipn_S with (tk tkRparen), H2|reflexivity].
Qed.

(** ** the dispatch on '{' *)
Lemma curly_set_or_map ts f n p m L :
  skipn (S p) ts = L -> L <> [] ->
  ((hd_code L =? tkIdentifier)%N = false \/ exists q x, L = tokens_of_qname q ++ tk tkLparen :: x) ->
  exists m', parse_term (S f) n (mk ts (S p) m) tkLcurly =
             parse_set_or_map_term n (parse_term f n) (mk ts (S (S p)) m') (hd_code L).
Proof.
  intros H Hne Hshape. rewrite pt_lcurly. cbv zeta. rewrite (next_ne ts (S p) m L H Hne).
  destruct ((hd_code L =? tkIdentifier)%N) eqn:Hid.
  - destruct Hshape as [Hs|(q & x & EL)]; [discriminate|].
    rewrite mark_mk. rewrite EL in H.
    destruct (parse_qualified_sim ts (S p) (S (S p)) q (tk tkLparen :: x) H eq_refl) as (p' & E & _).
    rewrite E. simp. rewrite rewind_mk. exists (S (S p)). reflexivity.
  - exists m. reflexivity.
Qed.

Lemma first_tok_shape e x : wf_term e = true ->
  (hd_code (tokens_of_term e ++ x) =? tkIdentifier)%N = false \/
  exists q y, tokens_of_term e ++ x = tokens_of_qname q ++ tk tkLparen :: y.
Proof.
  intro W. destruct e as [|c|[|n]|es|es|kvs|fs|es|ty t|k name args]; try (left; reflexivity).
  - left. cbn. apply prim_not_ident, W.
  - right. exists (k, name), (tokens_of_fargs args ++ tk tkRparen :: x). cbn [tokens_of_term]. norm. reflexivity.
Qed.

Lemma ctype_hd ty x : hd_code (tokens_of_ctype ty ++ x) = tkIdentifier.
Proof. destruct ty; reflexivity. Qed.

(** ** the main simulation, by mutual induction on the syntax *)
Scheme term_ind' := Induction for term Sort Prop
  with terms_ind' := Induction for terms Sort Prop
  with entries_ind' := Induction for entries Sort Prop
  with fields_ind' := Induction for fields Sort Prop
  with fargs_ind' := Induction for fargs Sort Prop.
Combined Scheme term_mutind from term_ind', terms_ind', entries_ind', fields_ind', fargs_ind'.

Definition PT_ok (t : term) : Prop :=
  wf_term t = true -> forall fuel, depth t <= fuel -> forall N ts, pt_sim ts N (parse_term fuel N) t.
Definition PTs_ok (es : terms) : Prop :=
  wf_terms es = true -> forall fuel, depth_terms es <= fuel -> forall N ts, Forall_terms (pt_sim ts N (parse_term fuel N)) es.
Definition PEs_ok (es : entries) : Prop :=
  wf_entries es = true -> forall fuel, depth_entries es <= fuel -> forall N ts, Forall_entries (pt_sim ts N (parse_term fuel N)) es.
Definition PFs_ok (es : fields) : Prop :=
  wf_fields es = true -> forall fuel, depth_fields es <= fuel -> forall N ts, Forall_fields (pt_sim ts N (parse_term fuel N)) es.
Definition PAs_ok (es : fargs) : Prop :=
  wf_fargs es = true -> forall fuel, depth_fargs es <= fuel -> forall N ts, Forall_fargs (pt_sim ts N (parse_term fuel N)) es.

(** finish a term whose body is a loop result *)
Ltac finish_tsim L c :=
  unfold tsim in L; unfold tsim; destruct c;
  [ let p' := fresh "p'" in let m' := fresh "m'" in let HL := fresh "HL" in let EL := fresh "EL" in
    destruct L as (p' & m' & HL & EL); rewrite EL; exists p', m'; split; [exact HL|reflexivity]
  | exact L ].

Ltac finish_lsim L c :=
  unfold lsim in L; unfold tsim; destruct c;
  [ let p' := fresh "p'" in let m' := fresh "m'" in let HL := fresh "HL" in let EL := fresh "EL" in
    destruct L as (p' & m' & HL & EL); rewrite EL; simp; exists p', m'; split; [exact HL|reflexivity]
  | let x := fresh "x" in let EL := fresh "EL" in let F := fresh "F" in
    destruct L as (x & EL & F); rewrite EL; destruct x as [[[?i ?ty] ?er] ?s]; cbn in F; subst; reflexivity ].

Theorem term_sim_all :
  (forall t, PT_ok t) /\ (forall es, PTs_ok es) /\ (forall es, PEs_ok es) /\ (forall es, PFs_ok es) /\ (forall es, PAs_ok es).
Proof.
  apply term_mutind; unfold PT_ok, PTs_ok, PEs_ok, PFs_ok, PAs_ok.
  - (* TInt *) intros W fuel D N ts p m rest H HN. destruct fuel as [|f]; [cbn in D; lia|].
    cbn [head_code tokens_of_term cls_term type_of app tsim] in *. rewrite pt_int.
    exists (S p), m. split; [apply skipn_S with (tk tkInteger), H|reflexivity].
  - (* TPrim *) intros c W fuel D N ts p m rest H HN. destruct fuel as [|f]; [cbn in D; lia|].
    cbn [head_code tokens_of_term cls_term type_of app tsim wf_term] in *. rewrite (pt_prim f N _ c W).
    exists (S p), m. split; [apply skipn_S with (tk c), H|reflexivity].
  - (* TBind *) intros b W fuel D N ts p m rest H HN. destruct fuel as [|f]; [cbn in D; lia|].
    destruct b as [|nm]; cbn [head_code tokens_of_term tokens_of_bind cls_term type_of app tsim] in *.
    + rewrite pt_qmark. exists (S p), m. split; [apply skipn_S with (tk tkQMark), H|reflexivity].
    + rewrite pt_colon. pose proof (skipn_S _ _ _ _ H) as H1. step.
      exists (S (S p)), m. split; [apply skipn_S with (tki nm), H1|reflexivity].
  - (* TList *) intros es IH W fuel D N ts p m rest H HN. destruct fuel as [|f]; [cbn in D; lia|].
    cbn [head_code tokens_of_term cls_term type_of wf_term depth] in *. norm.
    pose proof (skipn_S _ _ _ _ H) as H1.
    rewrite pt_lsquare. unfold parse_list_term. rewrite (next_ne ts (S p) m _ H1 (app_cons_ne _ _ _)).
    assert (L : lsim ts (loop_terms N (parse_term f N) tkRsquare (mk ts (S (S p)) m)
                  (hd_code (tokens_of_terms es ++ tk tkRsquare :: rest))) (cls_terms es) tkRsquare rest).
    { apply (loop_terms_sim ts N (parse_term f N) tkRsquare eq_refl eq_refl eq_refl es); [apply IH; [exact W|lia]|exact W|exact H1|len|len]. }
    finish_lsim L (cls_terms es).
  - (* TSet *) intros es IH W fuel D N ts p m rest H HN. destruct fuel as [|f]; [cbn in D; lia|].
    cbn [head_code tokens_of_term cls_term type_of wf_term depth] in *. norm.
    pose proof (skipn_S _ _ _ _ H) as H1.
    destruct (curly_set_or_map ts f N p m _ H1 (app_cons_ne _ _ _)) as (m' & E).
    { destruct es as [|e r]; [left; reflexivity|]. cbn [tokens_of_terms]. norm.
      cbn [wf_terms] in W. apply andb_true_iff in W. apply first_tok_shape, W. }
    rewrite E.
    assert (L : tsim ts (parse_set_or_map_term N (parse_term f N) (mk ts (S (S p)) m')
                  (hd_code (tokens_of_terms es ++ tk tkRcurly :: rest))) (cls_terms es) tSetMapUdt rest).
    { apply (set_loop_sim ts N (parse_term f N) es); [apply IH; [exact W|lia]|exact W|exact H1|len|len]. }
    finish_tsim L (cls_terms es).
  - (* TMap *) intros es IH W fuel D N ts p m rest H HN. destruct fuel as [|f]; [cbn in D; lia|].
    cbn [head_code tokens_of_term cls_term type_of wf_term depth] in *. norm.
    pose proof (skipn_S _ _ _ _ H) as H1.
    destruct (curly_set_or_map ts f N p m _ H1 (app_cons_ne _ _ _)) as (m' & E).
    { destruct es as [|k v r]; [left; reflexivity|]. cbn [tokens_of_entries]. norm.
      cbn [wf_entries] in W. apply andb_true_iff in W. destruct W as [W _]. apply andb_true_iff in W.
      apply first_tok_shape, W. }
    rewrite E.
    assert (L : tsim ts (parse_set_or_map_term N (parse_term f N) (mk ts (S (S p)) m')
                  (hd_code (tokens_of_entries es ++ tk tkRcurly :: rest))) (cls_entries es) tSetMapUdt rest).
    { apply (map_loop_sim ts N (parse_term f N) es); [apply IH; [exact W|lia]|exact W|exact H1|len|len]. }
    finish_tsim L (cls_entries es).
  - (* TUdt *) intros fs IH W fuel D N ts p m rest H HN. destruct fuel as [|f]; [cbn in D; lia|].
    cbn [head_code tokens_of_term cls_term type_of wf_term depth] in *. norm.
    pose proof (skipn_S _ _ _ _ H) as H1.
    destruct fs as [|f0 v r].
    + cbn [tokens_of_fields app] in *.
      destruct (curly_set_or_map ts f N p m _ H1 ltac:(discriminate)) as (m' & E); [left; reflexivity|].
      rewrite E. cbn [hd_code t_code tk cls_fields tsim].
      pose proof (set_loop_sim ts N (parse_term f N) TNil Logic.I eq_refl N (S p) m' rest H1) as L.
      cbn [tokens_of_terms app hd_code t_code tk cls_terms tsim] in L. apply L; len.
    + assert (L : tsim ts (parse_udt_term N (parse_term f N) (mk ts (S (S p)) (S (S p)))
                    (hd_code (tokens_of_fields (FCons f0 v r) ++ tk tkRcurly :: rest))) (cls_fields (FCons f0 v r)) tSetMapUdt rest).
      { apply (udt_loop_sim ts N (parse_term f N) (FCons f0 v r)); [apply IH; [exact W|lia]|exact W|exact H1|len|len]. }
      cbn [tokens_of_fields] in *. norm.
      rewrite pt_lcurly. cbv zeta. step. rewrite mark_mk.
      destruct (parse_qualified_sim ts (S p) (S (S p)) (None, f0) _ H1 eq_refl) as (p' & E & _).
      rewrite E. simp. rewrite rewind_mk.
      cbn [hd_code t_code tki] in L.
      finish_tsim L (cls_fields (FCons f0 v r)).
  - (* TTuple *) intros es IH W fuel D N ts p m rest H HN. destruct fuel as [|f]; [cbn in D; lia|].
    cbn [head_code tokens_of_term cls_term type_of wf_term depth] in *. norm.
    apply andb_true_iff in W. destruct W as [W3 W].
    pose proof (skipn_S _ _ _ _ H) as H1.
    rewrite pt_lparen. cbv zeta. rewrite (next_ne ts (S p) m _ H1 (app_cons_ne _ _ _)).
    assert (Hni : (hd_code (tokens_of_terms es ++ tk tkRparen :: rest) =? tkIdentifier)%N = false).
    { destruct es as [|e r]; [reflexivity|]. cbn [tokens_of_terms]. norm. rewrite hd_code_term.
      cbn [first_not_fun] in W3. apply negb_true_iff in W3.
      cbn [wf_terms] in W. apply andb_true_iff in W. apply head_ident_is_fun; [apply W|exact W3]. }
    rewrite Hni. unfold parse_tuple_term.
    assert (L : lsim ts (loop_terms N (parse_term f N) tkRparen (mk ts (S (S p)) m)
                  (hd_code (tokens_of_terms es ++ tk tkRparen :: rest))) (cls_terms es) tkRparen rest).
    { apply (loop_terms_sim ts N (parse_term f N) tkRparen eq_refl eq_refl eq_refl es); [apply IH; [exact W|lia]|exact W|exact H1|len|len]. }
    finish_lsim L (cls_terms es).
  - (* TCast *) intros ty t IH W fuel D N ts p m rest H HN. destruct fuel as [|f]; [cbn in D; lia|].
    cbn [head_code tokens_of_term cls_term type_of wf_term depth] in *. norm.
    pose proof (skipn_S _ _ _ _ H) as H1.
    rewrite pt_lparen. cbv zeta. rewrite (next_ne ts (S p) m _ H1 (app_cons_ne _ _ _)), ctype_hd. simp.
    unfold parse_cast_term.
    destruct (parse_type_sim ts N ty (S p) m _ H1) as (p' & H2 & E); [len|].
    rewrite E. simp. stept.
    assert (T : tsim ts (parse_term f N (mk ts (S p') m) (head_code t)) (cls_term t) (type_of t) rest).
    { apply (IH W f ltac:(lia) N ts p' m rest H2). len. }
    unfold tsim in *. destruct (cls_term t).
    + destruct T as (p3 & m3 & H3 & E3). rewrite E3. simp. exists p3, m3. split; [exact H3|reflexivity].
    + fail_case (parse_term f N (mk ts (S p') m) (head_code t)) T. reflexivity.
  - (* TFun *) intros ks name args IH W fuel D N ts p m rest H HN. destruct fuel as [|f]; [cbn in D; lia|].
    cbn [head_code tokens_of_term cls_term type_of wf_term depth] in *. norm.
    rewrite pt_ident. unfold parse_function_term.
    destruct (parse_qualified_sim ts p m (ks, name) _ H eq_refl) as (p' & E & H2).
    rewrite E. cbn [fst snd hd_code tl t_code tk] in *. simp.
    rewrite (next_ne ts p' m _ H2 (app_cons_ne _ _ _)).
    assert (L : lsim ts (loop_func_args N (parse_term f N) (mk ts (S p') m)
                  (hd_code (tokens_of_fargs args ++ tk tkRparen :: rest))) (cls_fargs args) tkRparen rest).
    { apply (fargs_loop_sim ts N (parse_term f N) args); [apply IH; [exact W|lia]|exact W|exact H2| |].
      - pose proof (f_equal (@length tok) H2) as HL. len.
      - len. }
    unfold lsim in L. unfold tsim. destruct (cls_fargs args); cbn [andb].
    + destruct L as (p3 & m3 & H3 & E3). rewrite E3. simp.
      destruct (negb _) eqn:Hneg.
      * exists p3, m3. split; [exact H3|reflexivity].
      * reflexivity.
    + destruct L as (x & EL & F). rewrite EL. destruct x as [[[i ty] er] s]. cbn in F. subst. reflexivity.
  - (* TNil *) intros; exact Logic.I.
  - (* TCons *) intros e IHe r IHr W fuel D N ts. cbn [wf_terms depth_terms Forall_terms] in *.
    apply andb_true_iff in W. destruct W as [We Wr].
    split; [apply IHe; [exact We|lia]|apply IHr; [exact Wr|lia]].
  - (* ENil *) intros; exact Logic.I.
  - (* ECons *) intros k IHk v IHv r IHr W fuel D N ts. cbn [wf_entries depth_entries Forall_entries] in *.
    apply andb_true_iff in W. destruct W as [Wkv Wr]. apply andb_true_iff in Wkv. destruct Wkv as [Wk Wv].
    split; [apply IHk; [exact Wk|lia]|split; [apply IHv; [exact Wv|lia]|apply IHr; [exact Wr|lia]]].
  - (* FNil *) intros; exact Logic.I.
  - (* FCons *) intros f0 v IHv r IHr W fuel D N ts. cbn [wf_fields depth_fields Forall_fields] in *.
    apply andb_true_iff in W. destruct W as [Wv Wr].
    split; [apply IHv; [exact Wv|lia]|apply IHr; [exact Wr|lia]].
  - (* ANil *) intros; exact Logic.I.
  - (* ATerm *) intros e IHe r IHr W fuel D N ts. cbn [wf_fargs depth_fargs Forall_fargs] in *.
    apply andb_true_iff in W. destruct W as [We Wr].
    split; [apply IHe; [exact We|lia]|apply IHr; [exact Wr|lia]].
  - (* AIdent *) intros c r IHr W fuel D N ts. cbn [wf_fargs depth_fargs Forall_fargs] in *.
    apply IHr; [exact W|exact D].
Qed.

Theorem parse_term_sim t fuel N ts :
  wf_term t = true -> depth t <= fuel -> pt_sim ts N (parse_term fuel N) t.
Proof. intros W D. exact (proj1 term_sim_all t W fuel D N ts). Qed.

Theorem parse_terms_sim es fuel N ts :
  wf_terms es = true -> depth_terms es <= fuel -> Forall_terms (pt_sim ts N (parse_term fuel N)) es.
Proof. intros W D. exact (proj1 (proj2 term_sim_all) es W fuel D N ts). Qed.
