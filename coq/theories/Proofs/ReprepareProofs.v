(** Proofs about Model/Reprepare.v: the repaired code ends every request whatever the hosts answer, unless a host keeps
    answering PREPARED-with-the-same-id and UNPREPARED in turn (and then for exactly as long as it does); the original
    code could be kept going for good by a backend that keeps its word. *)
From Coq Require Import List Arith Bool Lia.
From CqlProxy Require Import Model.Reprepare.
Import ListNotations.

Definition mu (s : st) : nat :=
  match ph s with Done => 0 | Exec => 2 * left s + 2 | Prep => 2 * left s + 1 end.

Lemma done_stays : forall orig l s, ph s = Done -> run orig s l = s.
Proof.
  intros orig l; induction l as [|a l IH]; intros s H; [reflexivity|].
  unfold run in *; cbn [fold_left]. assert (E : step orig s a = s) by (unfold step; rewrite H; reflexivity).
  rewrite E. apply IH; exact H.
Qed.

Lemma mu_zero_done : forall s, mu s = 0 -> ph s = Done.
Proof. intros s; unfold mu; destruct (ph s); intros H; try reflexivity; lia. Qed.

Lemma step_measure : forall s a, ph s <> Done ->
  mu (step false s a) + 1 <= mu s + 2 * (if is_same a then 1 else 0).
Proof.
  intros [l p h] a Hp; destruct p; [| |cbn in Hp; congruence]; destruct a; destruct l; unfold mu, step, next; cbn; lia.
Qed.

Lemma fixed_ends_gen : forall l s, mu s + 2 * sames l <= length l -> ph (run false s l) = Done.
Proof.
  induction l as [|a l IH]; intros s H.
  - apply mu_zero_done. unfold sames in H; simpl filter in H; simpl length in H. unfold run; cbn [fold_left]. lia.
  - destruct (ph s) eqn:Hp.
    + unfold run; cbn [fold_left]. apply IH.
      assert (M := step_measure s a). rewrite Hp in M. specialize (M ltac:(discriminate)).
      unfold sames in *; cbn [filter length] in H. destruct (is_same a); cbn [length] in H; lia.
    + unfold run; cbn [fold_left]. apply IH.
      assert (M := step_measure s a). rewrite Hp in M. specialize (M ltac:(discriminate)).
      unfold sames in *; cbn [filter length] in H. destruct (is_same a); cbn [length] in H; lia.
    + rewrite done_stays; assumption.
Qed.

Theorem fixed_ends : forall n l, 2 * n + 2 + 2 * sames l <= length l -> ph (run false (start n) l) = Done.
Proof. intros n l H. apply fixed_ends_gen. unfold mu, start; cbn. lia. Qed.

Theorem fixed_ends_without_same_id : forall n l, sames l = 0 -> 2 * n + 2 <= length l -> ph (run false (start n) l) = Done.
Proof. intros n l H0 H. apply fixed_ends. lia. Qed.

(** never more hosts than the plan has *)
Lemma hops_left_gen : forall orig l s, hops (run orig s l) + left (run orig s l) = hops s + left s.
Proof.
  intros orig l; induction l as [|a l IH]; intros s; [reflexivity|].
  unfold run in *; cbn [fold_left]. rewrite IH.
  destruct s as [lf p h]; destruct p; destruct a; destruct orig; destruct lf; unfold step, next; cbn; lia.
Qed.

Theorem hops_within_plan : forall orig n l, hops (run orig (start n) l) <= n.
Proof. intros orig n l. assert (H := hops_left_gen orig l (start n)). cbn in H. lia. Qed.

(** the original code: UNPREPARED, PREPARED-with-another-id, again and again *)
Definition loop (k : nat) : list ans := concat (repeat [AUnprep; POther] k).

Theorem orig_loops : forall n k, run true (start n) (loop k) = start n.
Proof.
  intros n k; induction k as [|k IH]; [reflexivity|].
  unfold loop in *; cbn [repeat concat]. unfold run in *. rewrite fold_left_app. cbn [fold_left]. exact IH.
Qed.

Theorem fixed_leaves_the_loop : forall n, run false (start (S n)) [AUnprep; POther] = {| left := n; ph := Exec; hops := 1 |}.
Proof. reflexivity. Qed.

Theorem fixed_last_host_ends : run false (start 0) [AUnprep; POther] = {| left := 0; ph := Done; hops := 0 |}.
Proof. reflexivity. Qed.

(** a healthy re-preparation stays on the host, in both versions *)
Theorem same_id_stays : forall orig n, run orig (start n) [AUnprep; PSame; AFinal] = {| left := n; ph := Done; hops := 0 |}.
Proof. intros [|] n; reflexivity. Qed.

(** ** against a backend that keeps its word *)
Definition nu (i : nat) (s : st) (b : bstate) : nat :=
  match ph s with
  | Done => 0
  | Exec => 3 * left s + (if existsb (Nat.eqb i) (cur b) then 1 else 3)
  | Prep => 3 * left s + 2
  end.

Lemma succ_neqb : forall h, Nat.eqb (S h) h = false.
Proof. intros h. apply Nat.eqb_neq. lia. Qed.

Lemma drive_done : forall orig i j fuel s b, ph s = Done -> drive orig i j fuel s b = s.
Proof. intros orig i j fuel s b H. destruct fuel; cbn; [reflexivity|]. rewrite H. reflexivity. Qed.

Theorem fixed_answers_gen : forall i j fuel s b, nu i s b <= fuel -> ph (drive false i j fuel s b) = Done.
Proof.
  intros i j fuel; induction fuel as [|fuel IH]; intros [lf p h] b H.
  - cbn [drive ph]. destruct p; [exfalso|exfalso|reflexivity]; unfold nu in H; cbn [ph left] in H;
    [destruct (existsb (Nat.eqb i) (cur b)); lia | lia].
  - destruct p.
    + (* Exec *)
      cbn [drive ph answer]. unfold nu in H; cbn [ph left] in H.
      destruct (existsb (Nat.eqb i) (cur b)) eqn:E.
      * cbn. rewrite Nat.eqb_refl. rewrite drive_done; reflexivity.
      * cbn [step ph left hops]. rewrite Nat.eqb_refl. apply IH. unfold nu; cbn [ph left]. lia.
    + (* Prep *)
      cbn [drive ph answer]. unfold nu in H; cbn [ph left] in H.
      destruct (Nat.eqb j i) eqn:E.
      * cbn [step ph left hops]. rewrite Nat.eqb_refl. apply IH. unfold nu; cbn [ph left cur existsb].
        apply Nat.eqb_eq in E. subst j. rewrite Nat.eqb_refl. cbn. lia.
      * cbn [step ph left hops]. destruct lf as [|lf]; unfold next; cbn [left hops ph].
        -- rewrite Nat.eqb_refl. rewrite drive_done; reflexivity.
        -- rewrite succ_neqb. apply IH. unfold nu; cbn [ph left]. destruct (existsb _ _); lia.
    + rewrite drive_done; reflexivity.
Qed.

Theorem fixed_answers : forall i j n b, ph (drive false i j (3 * n + 3) (start n) b) = Done.
Proof. intros i j n b. apply fixed_answers_gen. unfold nu, start; cbn [ph left]. destruct (existsb _ _); lia. Qed.

Theorem orig_never_answers_gen : forall i j fuel s b, i <> j -> ph s <> Done -> existsb (Nat.eqb i) (cur b) = false ->
  ph (drive true i j fuel s b) <> Done.
Proof.
  intros i j fuel; induction fuel as [|fuel IH]; intros [lf p h] b Hij Hp Hc; [exact Hp|].
  destruct p; [| |cbn in Hp; congruence].
  - cbn [drive ph answer]. rewrite Hc. cbn [step ph left hops]. rewrite Nat.eqb_refl. apply IH; [exact Hij|discriminate|exact Hc].
  - cbn [drive ph answer]. assert (E : Nat.eqb j i = false) by (apply Nat.eqb_neq; congruence). rewrite E.
    cbn [step ph left hops]. rewrite Nat.eqb_refl. apply IH; [exact Hij|discriminate|].
    cbn [cur existsb]. rewrite Hc. assert (E2 : Nat.eqb i j = false) by (apply Nat.eqb_neq; exact Hij). rewrite E2. reflexivity.
Qed.

Theorem orig_never_answers : forall i j n b fuel, i <> j -> existsb (Nat.eqb i) (cur b) = false ->
  ph (drive true i j fuel (start n) b) <> Done.
Proof. intros i j n b fuel Hij Hc. apply orig_never_answers_gen; [exact Hij|discriminate|exact Hc]. Qed.

(** a healthy cache (the PREPARE the proxy sends hashes to the id the client holds): the first host answers, in both
    versions, within three round trips *)
Lemma healthy_hops : forall orig i fuel s b, hops (drive orig i i fuel s b) = hops s.
Proof.
  intros orig i fuel; induction fuel as [|fuel IH]; intros [lf p h] b; [reflexivity|].
  destruct p; cbn [drive ph answer]; try reflexivity.
  - destruct (existsb (Nat.eqb i) (cur b)); cbn [step ph left hops]; rewrite Nat.eqb_refl; rewrite IH; reflexivity.
  - rewrite Nat.eqb_refl. cbn [step ph left hops]. rewrite Nat.eqb_refl. rewrite IH. reflexivity.
Qed.

Theorem healthy_first_host_answers : forall orig i n b,
  drive orig i i 3 (start n) b = {| left := n; ph := Done; hops := 0 |}.
Proof.
  intros orig i n b. unfold start. cbn [drive ph answer].
  destruct (existsb (Nat.eqb i) (cur b)) eqn:E;
    repeat (cbn [drive ph answer step left hops cur existsb orb]; rewrite ?Nat.eqb_refl); reflexivity.
Qed.

(** the premises are met *)
Example loop_case : ph (drive true 7 0 1000 (start 2) {| cur := []; rest := [[]; []] |}) = Exec
                    /\ drive false 7 0 1000 (start 2) {| cur := []; rest := [[]; [7]] |} = {| left := 0; ph := Done; hops := 2 |}.
Proof. split; vm_compute; reflexivity. Qed.
