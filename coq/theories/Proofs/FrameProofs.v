(** Proofs about Model/Frame.v: header round trip and byte transparency of forwarding (C03). *)
From Coq Require Import List ZArith NArith Bool Lia ZifyN ZifyNat ZifyBool.
From CqlProxy Require Import Lib.Val Lib.Util Lib.Wire Proofs.WireProofs Model.Frame.
Import ListNotations.
Local Open Scope N_scope.
Ltac Zify.zify_post_hook ::= Z.div_mod_to_equations.

Lemma enc_u32_read x y z w :
  x < 256 -> y < 256 -> z < 256 -> w < 256 ->
  enc_u32 (((x * 256 + y) * 256 + z) * 256 + w) = [x; y; z; w].
Proof.
  intros Hx Hy Hz Hw. unfold enc_u32.
  repeat f_equal; lia.
Qed.

Lemma enc_int_read_int b n r :
  wf_bytes b -> read_int b = Some (n, r) -> exists p, b = p ++ r /\ enc_int n = p /\ length p = 4%nat.
Proof.
  intros Hwf H. unfold read_int, read_u32 in H.
  destruct b as [|x [|y [|z [|w r']]]]; try discriminate.
  inversion H; subst; clear H.
  inversion Hwf as [|? ? Hx H1]; subst. inversion H1 as [|? ? Hy H2]; subst.
  inversion H2 as [|? ? Hz H3]; subst. inversion H3 as [|? ? Hw H4]; subst.
  exists [x; y; z; w]. split; [reflexivity|]. split; [|reflexivity].
  unfold enc_int.
  set (u := ((x * 256 + y) * 256 + z) * 256 + w).
  assert (Hu : u < 4294967296) by (unfold u; lia).
  destruct (u <? 2147483648) eqn:E.
  - replace (Z.to_N (Z.of_N u mod 4294967296)) with u by lia. apply enc_u32_read; assumption.
  - replace (Z.to_N ((Z.of_N u - 4294967296) mod 4294967296)) with u by lia. apply enc_u32_read; assumption.
Qed.

Lemma enc_short_read s1 s2 : s1 < 256 -> s2 < 256 -> enc_short (s1 * 256 + s2) = [s1; s2].
Proof. intros. unfold enc_short. repeat f_equal; lia. Qed.

Lemma get_z_len n b s r : (0 <= n)%Z -> get_z n b = Some (s, r) -> Z.of_nat (length s) = n.
Proof.
  intros Hn H. unfold get_z in H. destruct (Z.of_nat (length b) <? n)%Z eqn:E; [discriminate|].
  apply get_n_split in H. destruct H as (_ & Hl). lia.
Qed.

(** Forwarding a frame that decodes (v3+, exactly one frame) reproduces the bytes that
    arrived with only the two stream-id bytes replaced. *)
Lemma forward_only_stream_differs :
  forall b f s, wf_bytes b -> decode_raw_frame b = Some (f, []) -> 3 <= h_version (rf_header f) ->
    forward f s = replace_stream b s.
Proof.
  intros b f s Hwf H Hv.
  unfold decode_raw_frame in H.
  destruct (decode_header b) as [e|[h r]] eqn:Hd; [discriminate|].
  destruct (h_len h <? 0)%Z eqn:Hneg; [discriminate|].
  destruct (get_z (h_len h) r) as [[body rest]|] eqn:Hg; [|discriminate].
  inversion H; subst; clear H. cbn [rf_header] in Hv.
  unfold decode_header in Hd.
  destruct b as [|vd [|fl r0]]; try discriminate.
  destruct (negb (version_supported (vd mod 128))); [discriminate|].
  destruct (3 <=? vd mod 128) eqn:H3.
  2:{ (* v2 headers are excluded by the hypothesis *)
      destruct r0 as [|s1 r1]; [discriminate|]. destruct r1 as [|op r2]; [discriminate|].
      destruct (read_int r2) as [[len bd]|]; [|discriminate].
      repeat match type of Hd with (if ?c then _ else _) = _ => destruct c; [discriminate|] end.
      inversion Hd; subst. cbn [h_version] in Hv. lia. }
  destruct r0 as [|s1 [|s2 r1]]; try discriminate.
  destruct r1 as [|op r2]; [discriminate|].
  destruct (read_int r2) as [[len bd]|] eqn:Hri; [|discriminate].
  repeat match type of Hd with (if ?c then _ else _) = _ => destruct c; [discriminate|] end.
  inversion Hd; subst; clear Hd. cbn [h_len] in *.
  inversion Hwf as [|? ? Hvd W1]; subst. inversion W1 as [|? ? Hfl W2]; subst.
  inversion W2 as [|? ? Hs1 W3]; subst. inversion W3 as [|? ? Hs2 W4]; subst.
  inversion W4 as [|? ? Hop W5]; subst.
  destruct (enc_int_read_int r2 len r W5 Hri) as (p & Hp & He & Hl).
  assert (Hlen : Z.of_nat (length body) = len) by (eapply get_z_len; [lia|exact Hg]).
  apply get_z_split in Hg. rewrite app_nil_r in Hg. subst r.
  unfold forward, encode_raw_frame, with_stream, encode_header, replace_stream.
  cbn [rf_header rf_body h_version h_resp h_flags h_stream h_opcode h_len firstn skipn app].
  rewrite H3.
  replace (vd mod 128 + (if 128 <=? vd then 128 else 0)) with vd
    by (destruct (N.leb_spec 128 vd); lia).
  rewrite Hlen, He, Hp. rewrite <- app_assoc. reflexivity.
Qed.
