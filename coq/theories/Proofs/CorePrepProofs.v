(** Proofs about Model/CorePrep.v (Core.v extended with the prepared-statement path), part 1:
    association lists, the frame of one step (what a step can and cannot touch), the stream-id
    partition, and the global invariant [InvG] of the repaired model with the theorems that follow
    from it (P1: one reply, registered in exactly one place, none lost; P2: routing).
    Adapted from Proofs/CoreProofs.v; a pending entry is now [EReq r] or [EPrep r nested], both
    counted as registrations of [r]; [last_write] tracks writes of both kinds ([ToBackend] and
    [ToBackendPrepare]) on a (connection, stream) pair; the new invariant field [ig_hostreg] says a
    registered entry sits on a connection of its request's current host. *)
From Coq Require Import List ZArith NArith Bool Lia Permutation Arith FinFun.
From CqlProxy Require Import Lib.Val Lib.Util Gen.Tables Model.Retry Model.CorePrep.
Import ListNotations.
Local Open Scope N_scope.

Local Arguments handle_error : simpl never.

(** ** association lists *)
Lemma lookupN_updateN_same {A} k (v : A) l : lookupN k (updateN k v l) = Some v.
Proof.
  induction l as [|[k' v'] t IH]; cbn [updateN lookupN].
  - rewrite N.eqb_refl. reflexivity.
  - destruct (k =? k') eqn:E; cbn [lookupN].
    + rewrite N.eqb_refl. reflexivity.
    + rewrite E. exact IH.
Qed.

Lemma lookupN_updateN_other {A} k k' (v : A) l : k' <> k -> lookupN k' (updateN k v l) = lookupN k' l.
Proof.
  intro Hne. induction l as [|[k0 v0] t IH]; cbn [updateN lookupN].
  - destruct (N.eqb_spec k' k); [contradiction|reflexivity].
  - destruct (N.eqb_spec k k0) as [->|Hk]; cbn [lookupN].
    + destruct (N.eqb_spec k' k0); [contradiction|reflexivity].
    + rewrite IH. reflexivity.
Qed.

Lemma lookupN_updateN {A} k k' (v : A) l :
  lookupN k' (updateN k v l) = if k' =? k then Some v else lookupN k' l.
Proof.
  destruct (N.eqb_spec k' k) as [->|Hne].
  - apply lookupN_updateN_same.
  - apply lookupN_updateN_other. exact Hne.
Qed.

Lemma updateN_updateN {A} k (a b : A) l : updateN k b (updateN k a l) = updateN k b l.
Proof.
  induction l as [|[k' v'] t IH]; cbn [updateN].
  - rewrite N.eqb_refl. reflexivity.
  - destruct (k =? k') eqn:E; cbn [updateN].
    + rewrite N.eqb_refl. reflexivity.
    + rewrite E, IH. reflexivity.
Qed.

Lemma lookupN_In {A} k (v : A) l : lookupN k l = Some v -> In (k, v) l.
Proof.
  induction l as [|[k' v'] t IH]; cbn [lookupN]; [discriminate|].
  destruct (N.eqb_spec k k') as [->|Hne].
  - intro H. inversion H. left. reflexivity.
  - intro H. right. apply IH. exact H.
Qed.

Lemma lookupN_none_iff {A} k (l : list (N * A)) : lookupN k l = None <-> ~ In k (map fst l).
Proof.
  induction l as [|[k' v'] t IH]; cbn [lookupN map fst In].
  - split; [intros _ []|reflexivity].
  - destruct (N.eqb_spec k k') as [->|Hne].
    + split; [discriminate|]. intro H. exfalso. apply H. left. reflexivity.
    + rewrite IH. split.
      * intros H [E|E]; [apply Hne; symmetry; exact E|exact (H E)].
      * intros H E. apply H. right. exact E.
Qed.

Lemma lookupN_some_in_keys {A} k (v : A) l : lookupN k l = Some v -> In k (map fst l).
Proof. intro H. apply lookupN_In in H. apply (in_map fst) in H. exact H. Qed.

Lemma lookupN_nodup_in {A} k (v : A) l : NoDup (map fst l) -> In (k, v) l -> lookupN k l = Some v.
Proof.
  induction l as [|[k' v'] t IH]; cbn [map fst lookupN]; intros Hnd Hin; [destruct Hin|].
  inversion Hnd as [|? ? Hnot Hnd']; subst.
  destruct Hin as [E|Hin].
  - inversion E; subst. rewrite N.eqb_refl. reflexivity.
  - destruct (N.eqb_spec k k') as [->|Hne].
    + exfalso. apply Hnot. apply (in_map fst) in Hin. exact Hin.
    + apply IH; assumption.
Qed.

Lemma keys_updateN_some {A} k (v v' : A) l : lookupN k l = Some v -> map fst (updateN k v' l) = map fst l.
Proof.
  induction l as [|[k' v0] t IH]; cbn [lookupN updateN map fst]; [discriminate|].
  destruct (N.eqb_spec k k') as [->|Hne]; cbn [map fst].
  - reflexivity.
  - intro H. rewrite IH by exact H. reflexivity.
Qed.

Lemma keys_updateN_none {A} k (v' : A) l : lookupN k l = None -> map fst (updateN k v' l) = map fst l ++ [k].
Proof.
  induction l as [|[k' v0] t IH]; cbn [lookupN updateN map fst app]; [reflexivity|].
  destruct (N.eqb_spec k k') as [->|Hne]; cbn [map fst]; [discriminate|].
  intro H. rewrite IH by exact H. reflexivity.
Qed.

Lemma In_removeN {A} k x (l : list (N * A)) : In x (removeN k l) -> In x l.
Proof.
  induction l as [|[k' v'] t IH]; cbn [removeN]; [auto|].
  destruct (k =? k'); cbn [In]; intuition.
Qed.

Lemma removeN_perm {A} s (r : A) l :
  lookupN s l = Some r -> Permutation (map fst l) (s :: map fst (removeN s l)).
Proof.
  induction l as [|[k' v'] t IH]; cbn [lookupN removeN map fst]; [discriminate|].
  destruct (N.eqb_spec s k') as [->|Hne].
  - intros _. apply Permutation_refl.
  - intro H. cbn [map fst]. eapply perm_trans; [apply perm_skip; apply IH; exact H|]. apply perm_swap.
Qed.

(** splitting a list that ends in a known element *)
Lemma app_snoc_split {A} (a : list A) x pre y post :
  a ++ [x] = pre ++ y :: post ->
  (post = [] /\ a = pre /\ x = y) \/ (exists post', post = post' ++ [x] /\ a = pre ++ y :: post').
Proof.
  intro H. induction post as [|z post' _] using rev_ind.
  - left. apply app_inj_tail in H. destruct H as (Ha & Hx). auto.
  - right. change (pre ++ y :: post' ++ [z]) with (pre ++ (y :: post') ++ [z]) in H.
    rewrite app_assoc in H. apply app_inj_tail in H. destruct H as (Ha & Hx). subst z.
    exists post'. split; [reflexivity|exact Ha].
Qed.

(** ** world projections *)
Lemma reqs_set_req w r q : w_reqs (set_req w r q) = updateN r q (w_reqs w). Proof. reflexivity. Qed.
Lemma conns_set_req w r q : w_conns (set_req w r q) = w_conns w. Proof. reflexivity. Qed.
Lemma out_set_req w r q : w_out (set_req w r q) = w_out w. Proof. reflexivity. Qed.
Lemma reqs_set_conn w k c : w_reqs (set_conn w k c) = w_reqs w. Proof. reflexivity. Qed.
Lemma conns_set_conn w k c : w_conns (set_conn w k c) = updateN k c (w_conns w). Proof. reflexivity. Qed.
Lemma out_set_conn w k c : w_out (set_conn w k c) = w_out w. Proof. reflexivity. Qed.
Lemma reqs_emit w o : w_reqs (emit w o) = w_reqs w. Proof. reflexivity. Qed.
Lemma conns_emit w o : w_conns (emit w o) = w_conns w. Proof. reflexivity. Qed.
Lemma out_emit w o : w_out (emit w o) = w_out w ++ [o]. Proof. reflexivity. Qed.

Lemma set_req_set_req w r a b : set_req (set_req w r a) r b = set_req w r b.
Proof. unfold set_req. cbn [w_reqs w_conns w_out]. rewrite updateN_updateN. reflexivity. Qed.

(** ** the frame of an operation on behalf of request [r] *)
Definition ids (c : bconn) : list N := b_free c ++ map fst (b_pending c).

Definition conn_same (c c' : bconn) : Prop := b_host c' = b_host c /\ Permutation (ids c') (ids c).

Definition conns_evolve (l l' : list (N * bconn)) : Prop :=
  map fst l' = map fst l /\
  forall k c, lookupN k l = Some c -> exists c', lookupN k l' = Some c' /\ conn_same c c'.

Definition req_same (q q' : creq) : Prop :=
  q_client q' = q_client q /\ q_cstream q' = q_cstream q /\ q_idem q' = q_idem q /\ (q_done q = true -> q' = q).

Definition out_req (o : output) : rid :=
  match o with ToBackend _ _ r => r | ToBackendPrepare _ _ r => r | ToClient _ _ r _ => r end.

Record frame (r : rid) (w w' : world) : Prop := {
  fr_conns : conns_evolve (w_conns w) (w_conns w');
  fr_other : forall r', r' <> r -> lookupN r' (w_reqs w') = lookupN r' (w_reqs w);
  fr_self : forall q, lookupN r (w_reqs w) = Some q -> exists q', lookupN r (w_reqs w') = Some q' /\ req_same q q';
  fr_out : exists delta, w_out w' = w_out w ++ delta /\ Forall (fun o => out_req o = r) delta /\
           forall k s r0, In (ToBackend k s r0) delta -> lookupN k (w_conns w') <> None
}.

Lemma conn_same_refl c : conn_same c c.
Proof. split; [reflexivity|apply Permutation_refl]. Qed.
Lemma conn_same_trans a b c : conn_same a b -> conn_same b c -> conn_same a c.
Proof. intros (H1 & P1) (H2 & P2). split; [congruence|]. eapply perm_trans; eassumption. Qed.

Lemma conns_evolve_refl l : conns_evolve l l.
Proof. split; [reflexivity|]. intros k c H. exists c. split; [exact H|apply conn_same_refl]. Qed.
Lemma conns_evolve_trans a b c : conns_evolve a b -> conns_evolve b c -> conns_evolve a c.
Proof.
  intros (K1 & E1) (K2 & E2). split; [congruence|].
  intros k x Hx. destruct (E1 k x Hx) as (y & Hy & S1). destruct (E2 k y Hy) as (z & Hz & S2).
  exists z. split; [exact Hz|]. eapply conn_same_trans; eassumption.
Qed.

Lemma conns_evolve_update l k c c' :
  lookupN k l = Some c -> conn_same c c' -> conns_evolve l (updateN k c' l).
Proof.
  intros Hk Hs. split; [eapply keys_updateN_some; exact Hk|].
  intros k0 c0 H0. rewrite lookupN_updateN. destruct (N.eqb_spec k0 k) as [->|Hne].
  - exists c'. split; [reflexivity|]. rewrite Hk in H0. inversion H0; subst. exact Hs.
  - exists c0. split; [exact H0|apply conn_same_refl].
Qed.

Lemma req_same_refl q : req_same q q.
Proof. repeat split; auto. Qed.
Lemma req_same_trans a b c : req_same a b -> req_same b c -> req_same a c.
Proof.
  intros (A1 & A2 & A3 & A4) (B1 & B2 & B3 & B4). repeat split; try congruence.
  intro Hd. specialize (A4 Hd). subst b. apply B4. exact Hd.
Qed.

Lemma frame_refl r w : frame r w w.
Proof.
  split.
  - apply conns_evolve_refl.
  - reflexivity.
  - intros q H. exists q. split; [exact H|apply req_same_refl].
  - exists []. rewrite app_nil_r. split; [reflexivity|]. split; [constructor|intros k s r0 []].
Qed.

Lemma frame_trans r a b c : frame r a b -> frame r b c -> frame r a c.
Proof.
  intros [C1 O1 S1 (d1 & D1 & F1 & W1)] [C2 O2 S2 (d2 & D2 & F2 & W2)]. split.
  - eapply conns_evolve_trans; eassumption.
  - intros r' Hne. rewrite O2, O1 by exact Hne. reflexivity.
  - intros q Hq. destruct (S1 q Hq) as (q1 & Hq1 & R1). destruct (S2 q1 Hq1) as (q2 & Hq2 & R2).
    exists q2. split; [exact Hq2|]. eapply req_same_trans; eassumption.
  - exists (d1 ++ d2). rewrite D2, D1, app_assoc. split; [reflexivity|]. split; [apply Forall_app; split; assumption|].
    intros k s r0 Hin. apply in_app_or in Hin. destruct Hin as [Hin|Hin]; [|eapply W2; exact Hin].
    pose proof (W1 k s r0 Hin) as Hk. destruct (lookupN k (w_conns b)) as [cb|] eqn:Eb; [|congruence].
    destruct C2 as (_ & E2). destruct (E2 k cb Eb) as (cc & Ec & _). congruence.
Qed.

Lemma frame_set_req r w q q' :
  lookupN r (w_reqs w) = Some q -> req_same q q' -> frame r w (set_req w r q').
Proof.
  intros Hq Hs. split.
  - apply conns_evolve_refl.
  - intros r' Hne. rewrite reqs_set_req. apply lookupN_updateN_other. exact Hne.
  - intros q0 H0. rewrite Hq in H0. inversion H0; subst. exists q'. rewrite reqs_set_req, lookupN_updateN_same. auto.
  - exists []. rewrite out_set_req, app_nil_r. split; [reflexivity|]. split; [constructor|intros k s r0 []].
Qed.

Lemma frame_set_conn r w k c c' :
  lookupN k (w_conns w) = Some c -> conn_same c c' -> frame r w (set_conn w k c').
Proof.
  intros Hk Hs. split.
  - rewrite conns_set_conn. eapply conns_evolve_update; eassumption.
  - reflexivity.
  - intros q H. exists q. split; [exact H|apply req_same_refl].
  - exists []. rewrite out_set_conn, app_nil_r. split; [reflexivity|]. split; [constructor|intros k0 s r0 []].
Qed.

Lemma frame_emit r w o : out_req o = r ->
  (forall k s r0, o = ToBackend k s r0 -> lookupN k (w_conns w) <> None) -> frame r w (emit w o).
Proof.
  intros Ho Hw. split.
  - apply conns_evolve_refl.
  - reflexivity.
  - intros q H. exists q. split; [exact H|apply req_same_refl].
  - exists [o]. split; [reflexivity|]. split; [constructor; [exact Ho|constructor]|].
    intros k s r0 [E|[]]. rewrite conns_emit. eapply Hw. exact E.
Qed.

Lemma frame_reply_once r w what : frame r w (reply_once w r what).
Proof.
  unfold reply_once. destruct (lookupN r (w_reqs w)) as [q|] eqn:Hq; [|apply frame_refl].
  destruct (q_done q) eqn:Hd; [apply frame_refl|].
  eapply frame_trans; [eapply frame_set_req; [exact Hq|]|apply frame_emit; [reflexivity|discriminate]].
  repeat split. intro H. congruence.
Qed.

Lemma send_to_reqs orig w r h ch : w_reqs (fst (send_to orig w r h ch)) = w_reqs w.
Proof.
  unfold send_to. destruct ch as [[k ok]|]; [|reflexivity].
  destruct (lookupN k (w_conns w)) as [c|]; [|reflexivity].
  destruct (negb (b_host c =? h)); [reflexivity|]. destruct (b_closing c); [reflexivity|].
  destruct (b_free c) as [|s fr]; [reflexivity|]. destruct ok; [reflexivity|]. destruct orig; reflexivity.
Qed.

Lemma frame_send_to orig r w h ch : frame r w (fst (send_to orig w r h ch)).
Proof.
  unfold send_to. destruct ch as [[k ok]|]; [|apply frame_refl].
  destruct (lookupN k (w_conns w)) as [c|] eqn:Hk; [|apply frame_refl].
  destruct (negb (b_host c =? h)); [apply frame_refl|]. destruct (b_closing c) eqn:Hcl; [apply frame_refl|].
  destruct (b_free c) as [|s fr] eqn:Hfr; [apply frame_refl|].
  assert (S1 : conn_same c {| b_host := b_host c; b_closing := false; b_free := fr;
                              b_pending := (s, EReq r) :: b_pending c; b_tonotify := b_tonotify c |}).
  { split; [reflexivity|]. unfold ids. cbn [b_free b_pending map fst]. rewrite Hfr. cbn [app].
    apply Permutation_sym. apply Permutation_middle. }
  assert (S2 : conn_same c {| b_host := b_host c; b_closing := false; b_free := fr ++ [s];
                              b_pending := b_pending c; b_tonotify := b_tonotify c |}).
  { split; [reflexivity|]. unfold ids. cbn [b_free b_pending]. rewrite Hfr. cbn [app].
    change (s :: fr ++ map fst (b_pending c)) with ((s :: fr) ++ map fst (b_pending c)).
    apply Permutation_app_tail. apply Permutation_sym. apply Permutation_cons_append. }
  destruct ok; cbn [fst].
  - eapply frame_trans; [eapply frame_set_conn; [exact Hk|exact S1]|apply frame_emit; [reflexivity|]].
    intros k0 s0 r0 E. inversion E; subst. rewrite conns_set_conn, lookupN_updateN_same. discriminate.
  - destruct orig; cbn [fst]; (eapply frame_set_conn; [exact Hk|]); [exact S1|exact S2].
Qed.

Lemma send_prepare_reqs w k r nested ok : w_reqs (fst (send_prepare w k r nested ok)) = w_reqs w.
Proof.
  unfold send_prepare. destruct (lookupN k (w_conns w)) as [c|]; [|reflexivity].
  destruct (b_closing c || negb ok); [reflexivity|]. destruct (b_free c) as [|s fr]; reflexivity.
Qed.

Lemma frame_send_prepare r w k nested ok : frame r w (fst (send_prepare w k r nested ok)).
Proof.
  unfold send_prepare. destruct (lookupN k (w_conns w)) as [c|] eqn:Hk; [|apply frame_refl].
  destruct (b_closing c || negb ok); [apply frame_refl|].
  destruct (b_free c) as [|s fr] eqn:Hfr; [apply frame_refl|]. cbn [fst].
  eapply frame_trans; [eapply frame_set_conn; [exact Hk|]|apply frame_emit; [reflexivity|discriminate]].
  split; [reflexivity|]. unfold ids. cbn [b_free b_pending map fst]. rewrite Hfr. cbn [app].
  apply Permutation_sym. apply Permutation_middle.
Qed.

Lemma with_host_same q h p : q_done q = false -> req_same q (with_host q h p).
Proof. intro Hd. repeat split. intro H. congruence. Qed.

Lemma frame_exec_next orig r : forall p o w q,
  lookupN r (w_reqs w) = Some q -> q_done q = false -> frame r w (exec_next orig w r q p o).
Proof.
  induction p as [|h p' IH]; intros o w q Hq Hd; cbn [exec_next].
  - eapply frame_trans; [eapply frame_set_req; [exact Hq|apply with_host_same; exact Hd]|apply frame_reply_once].
  - set (w0 := set_req w r (with_host q (Some h) p')).
    assert (F0 : frame r w w0) by (eapply frame_set_req; [exact Hq|apply with_host_same; exact Hd]).
    pose proof (frame_send_to orig r w0 h (hd None o)) as F1.
    pose proof (send_to_reqs orig w0 r h (hd None o)) as R1.
    destruct (send_to orig w0 r h (hd None o)) as [w1 res]. cbn [fst] in *.
    destruct res.
    + eapply frame_trans; eassumption.
    + eapply frame_trans; [exact F0|]. eapply frame_trans; [exact F1|].
      apply IH; [|exact Hd]. rewrite R1. unfold w0. rewrite reqs_set_req, lookupN_updateN_same. reflexivity.
Qed.

Lemma frame_exec_internal orig r w next o : frame r w (exec_internal orig w r next o).
Proof.
  unfold exec_internal. destruct (lookupN r (w_reqs w)) as [q|] eqn:Hq; [|apply frame_refl].
  destruct (q_done q) eqn:Hd; [apply frame_refl|].
  destruct next; [apply frame_exec_next; assumption|].
  destruct (q_host q) as [h|]; [|apply frame_reply_once].
  pose proof (frame_send_to orig r w h (hd None o)) as F1.
  pose proof (send_to_reqs orig w r h (hd None o)) as R1.
  destruct (send_to orig w r h (hd None o)) as [w1 res]. cbn [fst] in *.
  destruct res; [exact F1|].
  eapply frame_trans; [exact F1|]. apply frame_exec_next; [rewrite R1; exact Hq|exact Hd].
Qed.

Lemma frame_bump_retry r w :
  (forall q, lookupN r (w_reqs w) = Some q -> q_done q = false) -> frame r w (bump_retry w r).
Proof.
  intro Hnd. unfold bump_retry. destruct (lookupN r (w_reqs w)) as [q|] eqn:Hq; [|apply frame_refl].
  eapply frame_set_req; [exact Hq|]. repeat split. intro H. rewrite (Hnd q eq_refl) in H. discriminate.
Qed.

(** the request on whose behalf an event acts *)
Definition active (w : world) (e : event) : rid :=
  match e with
  | EStart r _ _ _ _ _ => r
  | EFrame k s _ _ =>
      match lookupN k (w_conns w) with
      | Some c => match lookupN s (b_pending c) with Some ent => entry_req ent | None => 0 end
      | None => 0
      end
  | ENotify _ ent _ => entry_req ent
  | _ => 0
  end.

Definition is_connect (e : event) : bool := match e with EConnect _ _ _ => true | _ => false end.

Lemma frame_step orig w e : is_connect e = false -> frame (active w e) w (step_gen orig w e).
Proof.
  destruct e as [r cl cs idem p o|k s f o|k|k ent o|k h n]; cbn [is_connect active step_gen]; intro Hc; try discriminate.
  - (* EStart *)
    destruct (lookupN r (w_reqs w)) as [q|] eqn:Hq; [apply frame_refl|].
    match goal with |- frame _ _ (exec_internal _ ?w0 _ _ _) => set (w1 := w0) end.
    pose proof (frame_exec_internal orig r w1 true o) as [C O S D]. split.
    + exact C.
    + intros r' Hne. rewrite (O r' Hne). unfold w1. rewrite reqs_set_req. apply lookupN_updateN_other. exact Hne.
    + intros q0 H0. congruence.
    + exact D.
  - (* EFrame *)
    destruct (lookupN k (w_conns w)) as [c|] eqn:Hk; [|apply frame_refl].
    destruct (b_closing c) eqn:Hcl; [apply frame_refl|].
    destruct (lookupN s (b_pending c)) as [ent|] eqn:Hs; [|apply frame_refl].
    match goal with |- context [set_conn w k ?cc] => set (c' := cc) end. set (w1 := set_conn w k c').
    assert (F1 : forall r, frame r w w1).
    { intro r. eapply frame_set_conn; [exact Hk|]. split; [reflexivity|]. unfold ids. cbn [c' b_free b_pending].
      rewrite <- app_assoc. apply Permutation_app_head. cbn [app]. apply Permutation_sym.
      eapply removeN_perm. exact Hs. }
    assert (FP : forall r nested ok,
               frame r w (let '(w2, res) := send_prepare w1 k r nested ok in
                          match res with SentOk => w2 | SendErr => exec_internal orig w2 r true o end)).
    { intros r nested ok. pose proof (frame_send_prepare r w1 k nested ok) as F2.
      destruct (send_prepare w1 k r nested ok) as [w2 res]. cbn [fst] in F2.
      destruct res; [eapply frame_trans; [apply F1|exact F2]|].
      eapply frame_trans; [apply F1|]. eapply frame_trans; [exact F2|apply frame_exec_internal]. }
    destruct ent as [r|r nested]; cbn [entry_req].
    + assert (FR : frame r w
               match lookupN r (w_reqs w1) with
               | None => w1
               | Some q =>
                   if q_done q then w1
                   else match f with
                        | FResult => reply_once w1 r (CFrame k s KResult)
                        | FError m =>
                            let d := handle_error (q_idem q) m (q_retry q) in
                            if d =? dec_RetryNext then exec_internal orig (bump_retry w1 r) r true o
                            else if d =? dec_RetrySame then exec_internal orig (bump_retry w1 r) r false o
                            else reply_once w1 r (CFrame k s KError)
                        | FUnprepared _ _ => reply_once w1 r (CFrame k s KUnprepared)
                        end
               end).
      { destruct (lookupN r (w_reqs w1)) as [q|] eqn:Hq; [|apply F1].
        destruct (q_done q) eqn:Hd; [apply F1|].
        assert (Fb : frame r w1 (bump_retry w1 r)).
        { apply frame_bump_retry. intros q0 H0. congruence. }
        destruct f as [|m|cached ok].
        - eapply frame_trans; [apply F1|apply frame_reply_once].
        - cbv zeta. destruct (handle_error (q_idem q) m (q_retry q) =? dec_RetryNext).
          + eapply frame_trans; [apply F1|]. eapply frame_trans; [exact Fb|apply frame_exec_internal].
          + destruct (handle_error (q_idem q) m (q_retry q) =? dec_RetrySame).
            * eapply frame_trans; [apply F1|]. eapply frame_trans; [exact Fb|apply frame_exec_internal].
            * eapply frame_trans; [apply F1|apply frame_reply_once].
        - eapply frame_trans; [apply F1|apply frame_reply_once]. }
      destruct f as [|m|[|] ok]; try exact FR. apply FP.
    + destruct f as [|m|[|] ok].
      * eapply frame_trans; [apply F1|apply frame_exec_internal].
      * eapply frame_trans; [apply F1|apply frame_exec_internal].
      * apply FP.
      * eapply frame_trans; [apply F1|apply frame_exec_internal].
  - (* ECloseBegin *)
    destruct (lookupN k (w_conns w)) as [c|] eqn:Hk; [|apply frame_refl].
    destruct (b_closing c) eqn:Hcl; [apply frame_refl|].
    eapply frame_set_conn; [exact Hk|]. split; reflexivity.
  - (* ENotify *)
    destruct (lookupN k (w_conns w)) as [c|] eqn:Hk; [|apply frame_refl].
    destruct (negb (existsb (entry_eqb ent) (b_tonotify c))); [apply frame_refl|].
    match goal with |- context [set_conn w k ?cc] => set (w1 := set_conn w k cc) end.
    assert (F1 : frame (entry_req ent) w w1) by (eapply frame_set_conn; [exact Hk|split; reflexivity]).
    destruct (lookupN (entry_req ent) (w_reqs w1)) as [q|] eqn:Hq; [|exact F1].
    destruct (q_idem q).
    + eapply frame_trans; [exact F1|apply frame_exec_internal].
    + eapply frame_trans; [exact F1|apply frame_reply_once].
Qed.

(** ** what every step (of either version of the code) preserves *)
Record grows (w w' : world) : Prop := {
  gr_conns : forall k c, lookupN k (w_conns w) = Some c -> exists c', lookupN k (w_conns w') = Some c' /\ conn_same c c';
  gr_reqs : forall r q, lookupN r (w_reqs w) = Some q -> exists q', lookupN r (w_reqs w') = Some q' /\ req_same q q';
  gr_out : exists delta, w_out w' = w_out w ++ delta
}.

Lemma grows_refl w : grows w w.
Proof.
  split.
  - intros k c H. exists c. split; [exact H|apply conn_same_refl].
  - intros r q H. exists q. split; [exact H|apply req_same_refl].
  - exists []. rewrite app_nil_r. reflexivity.
Qed.

Lemma grows_trans a b c : grows a b -> grows b c -> grows a c.
Proof.
  intros [C1 R1 (d1 & D1)] [C2 R2 (d2 & D2)]. split.
  - intros k x Hx. destruct (C1 k x Hx) as (y & Hy & S1). destruct (C2 k y Hy) as (z & Hz & S2).
    exists z. split; [exact Hz|eapply conn_same_trans; eassumption].
  - intros r x Hx. destruct (R1 r x Hx) as (y & Hy & S1). destruct (R2 r y Hy) as (z & Hz & S2).
    exists z. split; [exact Hz|eapply req_same_trans; eassumption].
  - exists (d1 ++ d2). rewrite D2, D1, app_assoc. reflexivity.
Qed.

Lemma frame_grows r w w' : frame r w w' -> grows w w'.
Proof.
  intros [(K & C) O S (d & D & _ & _)]. split.
  - exact C.
  - intros r0 q H. destruct (N.eq_dec r0 r) as [->|Hne].
    + apply S. exact H.
    + exists q. rewrite (O r0 Hne). split; [exact H|apply req_same_refl].
  - exists d. exact D.
Qed.

Definition fresh_conn (h : N) (n : nat) : bconn :=
  {| b_host := h; b_closing := false; b_free := map N.of_nat (seq 0 n); b_pending := []; b_tonotify := [] |}.

Lemma step_connect orig w k h n :
  step_gen orig w (EConnect k h n) =
  match lookupN k (w_conns w) with Some _ => w | None => set_conn w k (fresh_conn h n) end.
Proof. reflexivity. Qed.

Lemma step_grows orig w e : grows w (step_gen orig w e).
Proof.
  destruct (is_connect e) eqn:Hc.
  - destruct e; try discriminate. rewrite step_connect.
    destruct (lookupN k (w_conns w)) eqn:Hk; [apply grows_refl|]. split.
    + intros k0 c0 H0. exists c0. rewrite conns_set_conn, lookupN_updateN_other; [split; [exact H0|apply conn_same_refl]|].
      intro E. subst k0. congruence.
    + intros r q H. exists q. split; [exact H|apply req_same_refl].
    + exists []. rewrite app_nil_r. reflexivity.
  - eapply frame_grows. apply frame_step. exact Hc.
Qed.

Lemma run_grows orig es : forall w, grows w (fold_left (step_gen orig) es w).
Proof.
  induction es as [|e es IH]; intro w; cbn [fold_left]; [apply grows_refl|].
  eapply grows_trans; [apply step_grows|apply IH].
Qed.

Lemma run_events_app es1 es2 : run_events (es1 ++ es2) = fold_left step es2 (run_events es1).
Proof. unfold run_events. apply fold_left_app. Qed.

Lemma run_grows_app es1 es2 : grows (run_events es1) (run_events (es1 ++ es2)).
Proof. rewrite run_events_app. apply (run_grows false). Qed.

(** ** T3: the stream ids of a connection are partitioned between the channel and the pending table *)
Fixpoint first_connect (es : list event) (k : cid) : option (N * nat) :=
  match es with
  | [] => None
  | EConnect k' h n :: t => if k' =? k then Some (h, n) else first_connect t k
  | _ :: t => first_connect t k
  end.

Lemma run_conn_none orig k : forall es w, lookupN k (w_conns w) = None ->
  match first_connect es k with
  | Some (h, n) => exists c', lookupN k (w_conns (fold_left (step_gen orig) es w)) = Some c' /\ conn_same (fresh_conn h n) c'
  | None => lookupN k (w_conns (fold_left (step_gen orig) es w)) = None
  end.
Proof.
  induction es as [|e es IH]; intros w Hk; cbn [fold_left first_connect]; [exact Hk|].
  assert (Hnc : is_connect e = false -> lookupN k (w_conns (step_gen orig w e)) = None).
  { intro Hc. pose proof (frame_step orig w e Hc) as [(K & _) _ _ _].
    apply (proj2 (lookupN_none_iff _ _)). rewrite K. apply (proj1 (lookupN_none_iff _ _)). exact Hk. }
  destruct e as [r cl cs idem p o|k0 s f o|k0|k0 r o|k0 h n]; try (apply IH; apply Hnc; reflexivity).
  rewrite step_connect. destruct (N.eqb_spec k0 k) as [->|Hne].
  - rewrite Hk.
    destruct (gr_conns _ _ (run_grows orig es (set_conn w k (fresh_conn h n))) k (fresh_conn h n)) as (c' & Hc' & S).
    { rewrite conns_set_conn. apply lookupN_updateN_same. }
    exists c'. split; assumption.
  - apply IH. destruct (lookupN k0 (w_conns w)); [exact Hk|].
    rewrite conns_set_conn, lookupN_updateN_other; [exact Hk|]. intro E. apply Hne. symmetry. exact E.
Qed.

Lemma range_NoDup n : NoDup (map N.of_nat (seq 0 n)).
Proof. apply Injective_map_NoDup; [intros a b; apply Nat2N.inj|apply seq_NoDup]. Qed.

Theorem stream_ids_partition_gen : forall orig es k,
  match first_connect es k with
  | Some (h, n) =>
      exists c, lookupN k (w_conns (fold_left (step_gen orig) es init_world)) = Some c /\ b_host c = h /\
                Permutation (b_free c ++ map fst (b_pending c)) (map N.of_nat (seq 0 n)) /\
                NoDup (b_free c ++ map fst (b_pending c))
  | None => lookupN k (w_conns (fold_left (step_gen orig) es init_world)) = None
  end.
Proof.
  intros orig es k. pose proof (run_conn_none orig k es init_world eq_refl) as H.
  destruct (first_connect es k) as [[h n]|]; [|exact H].
  destruct H as (c & Hc & Hh & Hp). exists c. split; [exact Hc|]. split; [exact Hh|].
  unfold ids in Hp. cbn [fresh_conn b_free b_pending map] in Hp. rewrite app_nil_r in Hp.
  split; [exact Hp|]. eapply Permutation_NoDup; [apply Permutation_sym; exact Hp|apply range_NoDup].
Qed.

Theorem prep_stream_ids_partition : forall es k,
  match first_connect es k with
  | Some (h, n) =>
      exists c, lookupN k (w_conns (run_events es)) = Some c /\ b_host c = h /\
                Permutation (b_free c ++ map fst (b_pending c)) (map N.of_nat (seq 0 n)) /\
                NoDup (b_free c ++ map fst (b_pending c))
  | None => lookupN k (w_conns (run_events es)) = None
  end.
Proof. exact (stream_ids_partition_gen false). Qed.

(** every connection of a reachable world was created by some [EConnect] *)
Lemma first_connect_some_in es k h n : first_connect es k = Some (h, n) -> In (EConnect k h n) es.
Proof.
  induction es as [|e es IH]; cbn [first_connect]; [discriminate|].
  destruct e as [| | | |k0 h0 n0]; try (intro H; right; apply IH; exact H).
  destruct (N.eqb_spec k0 k) as [->|Hne]; intro H; [inversion H; left; reflexivity|right; apply IH; exact H].
Qed.

Corollary prep_pending_streams_distinct : forall es k c,
  lookupN k (w_conns (run_events es)) = Some c ->
  NoDup (b_free c ++ map fst (b_pending c)) /\
  exists h n, In (EConnect k h n) es /\ b_host c = h /\
              Permutation (b_free c ++ map fst (b_pending c)) (map N.of_nat (seq 0 n)).
Proof.
  intros es k c Hc. pose proof (prep_stream_ids_partition es k) as H.
  destruct (first_connect es k) as [[h n]|] eqn:Hf; [|congruence].
  destruct H as (c' & Hc' & Hh & Hp & Hnd). rewrite Hc in Hc'. inversion Hc'; subst c'.
  split; [exact Hnd|]. exists h, n. split; [apply first_connect_some_in; exact Hf|]. split; assumption.
Qed.

(** ** counting registrations: an entry [EReq r] or [EPrep r _] is a registration of request [r] *)
Lemma entry_eqb_spec a b : reflect (a = b) (entry_eqb a b).
Proof.
  destruct a as [r|r n], b as [r'|r' n']; cbn [entry_eqb]; try (constructor; discriminate).
  - destruct (N.eqb_spec r r') as [->|Hne]; constructor; congruence.
  - destruct (N.eqb_spec r r') as [->|Hne]; cbn [andb]; [|constructor; congruence].
    destruct n, n'; cbn [Bool.eqb]; constructor; congruence.
Qed.

Lemma entry_eqb_refl a : entry_eqb a a = true.
Proof. destruct (entry_eqb_spec a a); congruence. Qed.

Definition occ (r : rid) (l : list entry) : nat := count_occ N.eq_dec (map entry_req l) r.

Lemma occ_cons r x l : occ r (x :: l) = ((if N.eqb (entry_req x) r then 1 else 0) + occ r l)%nat.
Proof.
  unfold occ. cbn [map count_occ]. destruct (N.eq_dec (entry_req x) r) as [E|E].
  - rewrite E, N.eqb_refl. reflexivity.
  - destruct (N.eqb_spec (entry_req x) r); [contradiction|reflexivity].
Qed.

Lemma occ_nil r : occ r [] = 0%nat. Proof. reflexivity. Qed.

Lemma occ_app r a b : occ r (a ++ b) = (occ r a + occ r b)%nat.
Proof. unfold occ. rewrite map_app. apply count_occ_app. Qed.

Lemma occ_pos_in r l : (0 < occ r l)%nat <-> exists ent, In ent l /\ entry_req ent = r.
Proof.
  unfold occ. pose proof (count_occ_In N.eq_dec (map entry_req l) r) as C. unfold gt in C.
  rewrite <- C, in_map_iff. split; intros (x & H1 & H2); exists x; auto.
Qed.

Lemma occ_in ent l : In ent l -> (0 < occ (entry_req ent) l)%nat.
Proof. intro H. apply occ_pos_in. exists ent. auto. Qed.

Lemma existsb_eqb_in ent l : existsb (entry_eqb ent) l = true <-> In ent l.
Proof.
  rewrite existsb_exists. split.
  - intros (x & Hin & E). destruct (entry_eqb_spec ent x); [subst; exact Hin|discriminate].
  - intro H. exists ent. split; [exact H|apply entry_eqb_refl].
Qed.

Lemma In_remove_first ent x l : In x (remove_first ent l) -> In x l.
Proof.
  induction l as [|y t IH]; cbn [remove_first]; [auto|].
  destruct (entry_eqb y ent); cbn [In]; intuition.
Qed.

Lemma occ_remove_first_same ent l : In ent l ->
  (occ (entry_req ent) (remove_first ent l) + 1 = occ (entry_req ent) l)%nat.
Proof.
  induction l as [|x t IH]; intro Hin; [destruct Hin|]. cbn [remove_first]. rewrite occ_cons.
  destruct (entry_eqb_spec x ent) as [->|Hne]; [rewrite N.eqb_refl; lia|].
  rewrite occ_cons. destruct Hin as [E|Hin]; [contradiction|]. rewrite <- (IH Hin). lia.
Qed.

Lemma occ_remove_first_other ent r' l : r' <> entry_req ent -> occ r' (remove_first ent l) = occ r' l.
Proof.
  intro Hne. induction l as [|x t IH]; [reflexivity|]. cbn [remove_first]. rewrite occ_cons.
  destruct (entry_eqb_spec x ent) as [->|Hx].
  - destruct (N.eqb_spec (entry_req ent) r'); [congruence|reflexivity].
  - rewrite occ_cons, IH. reflexivity.
Qed.

Lemma occ_removeN_same s ent l : lookupN s l = Some ent ->
  (occ (entry_req ent) (map snd (removeN s l)) + 1 = occ (entry_req ent) (map snd l))%nat.
Proof.
  induction l as [|[s' r'] t IH]; cbn [lookupN removeN map snd]; [discriminate|].
  destruct (N.eqb_spec s s') as [->|Hne]; intro H.
  - inversion H; subst. rewrite occ_cons, N.eqb_refl. lia.
  - cbn [map snd]. rewrite !occ_cons. rewrite <- (IH H). lia.
Qed.

Lemma occ_removeN_other s ent r' l : lookupN s l = Some ent -> r' <> entry_req ent ->
  occ r' (map snd (removeN s l)) = occ r' (map snd l).
Proof.
  induction l as [|[s0 r0] t IH]; cbn [lookupN removeN map snd]; [discriminate|].
  destruct (N.eqb_spec s s0) as [->|Hne]; intros H Hr.
  - inversion H; subst. rewrite occ_cons. destruct (N.eqb_spec (entry_req ent) r'); [congruence|reflexivity].
  - cbn [map snd]. rewrite !occ_cons. rewrite (IH H Hr). reflexivity.
Qed.

Definition regs_conn (r : rid) (c : bconn) : nat :=
  (occ r (b_tonotify c) + (if b_closing c then 0 else occ r (map snd (b_pending c))))%nat.

Fixpoint regs_list (r : rid) (l : list (N * bconn)) : nat :=
  match l with [] => 0%nat | (_, c) :: t => (regs_conn r c + regs_list r t)%nat end.

Definition regs (w : world) (r : rid) : nat := regs_list r (w_conns w).

Lemma regs_update r k c c' l : lookupN k l = Some c ->
  (regs_list r (updateN k c' l) + regs_conn r c = regs_list r l + regs_conn r c')%nat.
Proof.
  induction l as [|[k0 c0] t IH]; cbn [lookupN updateN regs_list]; [discriminate|].
  destruct (N.eqb_spec k k0) as [->|Hne]; intro H.
  - inversion H; subst. cbn [regs_list]. lia.
  - cbn [regs_list]. specialize (IH H). lia.
Qed.

Lemma regs_update_none r k c' l : lookupN k l = None ->
  regs_list r (updateN k c' l) = (regs_list r l + regs_conn r c')%nat.
Proof.
  induction l as [|[k0 c0] t IH]; cbn [lookupN updateN regs_list]; [lia|].
  destruct (N.eqb_spec k k0) as [->|Hne]; intro H; [discriminate|].
  cbn [regs_list]. rewrite (IH H). lia.
Qed.

Lemma regs_in r k c l : In (k, c) l -> (regs_conn r c <= regs_list r l)%nat.
Proof.
  induction l as [|[k0 c0] t IH]; intro Hin; [destruct Hin|]. cbn [regs_list].
  destruct Hin as [E|Hin]; [inversion E; subst; lia|]. specialize (IH Hin). lia.
Qed.

Lemma regs_pos r l : (0 < regs_list r l)%nat -> exists k c, In (k, c) l /\ (0 < regs_conn r c)%nat.
Proof.
  induction l as [|[k0 c0] t IH]; cbn [regs_list]; [lia|]. intro H.
  destruct (Nat.eq_dec (regs_conn r c0) 0) as [E|E].
  - destruct IH as (k & c & Hin & Hp); [lia|]. exists k, c. split; [right; exact Hin|exact Hp].
  - exists k0, c0. split; [left; reflexivity|lia].
Qed.

(** ** the last write (of either kind) on a (connection, stream) pair.  A write is tagged
    [(false, r)] for [ToBackend _ _ r] and [(true, r)] for [ToBackendPrepare _ _ r]. *)
Definition wtag := (bool * rid)%type.

Definition tag (e : entry) : wtag := match e with EReq r => (false, r) | EPrep r _ => (true, r) end.

Definition wout (k : cid) (s : N) (t : wtag) : output :=
  if fst t then ToBackendPrepare k s (snd t) else ToBackend k s (snd t).

Definition is_write (k : cid) (s : N) (o : output) : option wtag :=
  match o with
  | ToBackend k' s' r => if (k' =? k) && (s' =? s) then Some (false, r) else None
  | ToBackendPrepare k' s' r => if (k' =? k) && (s' =? s) then Some (true, r) else None
  | ToClient _ _ _ _ => None
  end.

Lemma is_write_wout k s t : is_write k s (wout k s t) = Some t.
Proof. destruct t as [[|] r]; cbn [wout fst snd is_write]; rewrite !N.eqb_refl; reflexivity. Qed.

Lemma is_write_some k s o t : is_write k s o = Some t -> o = wout k s t.
Proof.
  destruct o as [k' s' r|k' s' r|]; cbn [is_write]; try discriminate;
    (destruct ((k' =? k) && (s' =? s)) eqn:E; [|discriminate]); intro H; inversion H; subst t;
    apply andb_true_iff in E; destruct E as (E1 & E2); apply N.eqb_eq in E1; apply N.eqb_eq in E2; subst; reflexivity.
Qed.

Fixpoint last_write (o : list output) (k : cid) (s : N) : option wtag :=
  match o with
  | [] => None
  | x :: t => match last_write t k s with Some r => Some r | None => is_write k s x end
  end.

Lemma last_write_app a b k s :
  last_write (a ++ b) k s = match last_write b k s with Some r => Some r | None => last_write a k s end.
Proof.
  induction a as [|x a IH]; cbn [app last_write].
  - destruct (last_write b k s); reflexivity.
  - rewrite IH. destruct (last_write b k s); reflexivity.
Qed.

Lemma last_write_snoc a x k s :
  last_write (a ++ [x]) k s = match is_write k s x with Some r => Some r | None => last_write a k s end.
Proof. rewrite last_write_app. reflexivity. Qed.

(** [last_write] means what it says *)
Lemma last_write_spec o k s t :
  last_write o k s = Some t <->
  exists pre post, o = pre ++ wout k s t :: post /\ forall t', ~ In (wout k s t') post.
Proof.
  revert t. induction o as [|x l IH]; intro t; cbn [last_write].
  - split; [discriminate|]. intros (pre & post & H & _). destruct pre; discriminate.
  - destruct (last_write l k s) as [t0|] eqn:Hl.
    + split.
      * intro H. destruct (proj1 (IH t) H) as (pre & post & E & Hn).
        exists (x :: pre), post. rewrite E. split; [reflexivity|exact Hn].
      * intros (pre & post & E & Hn). destruct pre as [|y pre].
        -- cbn [app] in E. inversion E; subst. exfalso.
           destruct (proj1 (IH t0) eq_refl) as (pre' & post' & E' & _). apply (Hn t0). rewrite E'.
           apply in_or_app. right. left. reflexivity.
        -- cbn [app] in E. inversion E; subst. apply (proj2 (IH t)).
           exists pre, post. split; [reflexivity|exact Hn].
    + split.
      * intro H. apply is_write_some in H. subst x.
        exists [], l. split; [reflexivity|]. intros t' Hin.
        apply in_split in Hin. destruct Hin as (l1 & l2 & E).
        assert (Hx : exists t2, last_write l k s = Some t2).
        { rewrite E, last_write_app. cbn [last_write].
          destruct (last_write l2 k s); [eauto|]. rewrite is_write_wout. eauto. }
        destruct Hx as (t2 & Hx). congruence.
      * intros (pre & post & E & Hn). destruct pre as [|y pre].
        -- cbn [app] in E. inversion E; subst. apply is_write_wout.
        -- cbn [app] in E. inversion E; subst. exfalso.
           assert (Hr : None = Some t).
           { apply (proj2 (IH t)). exists pre, post. split; [reflexivity|exact Hn]. }
           discriminate.
Qed.

(** the same, for a request write: the last thing written on (k, s) is [ToBackend k s r], with neither
    another request nor a PREPARE of the proxy written on (k, s) after it *)
Lemma last_write_req_spec o k s r :
  last_write o k s = Some (false, r) <->
  exists pre post, o = pre ++ ToBackend k s r :: post /\
                   forall r', ~ In (ToBackend k s r') post /\ ~ In (ToBackendPrepare k s r') post.
Proof.
  rewrite last_write_spec. split; intros (pre & post & E & Hn); exists pre, post; (split; [exact E|]).
  - intro r'. split; [apply (Hn (false, r'))|apply (Hn (true, r'))].
  - intros [[|] r']; cbn [wout fst snd]; apply Hn.
Qed.

Lemma last_write_prep_spec o k s r :
  last_write o k s = Some (true, r) <->
  exists pre post, o = pre ++ ToBackendPrepare k s r :: post /\
                   forall r', ~ In (ToBackend k s r') post /\ ~ In (ToBackendPrepare k s r') post.
Proof.
  rewrite last_write_spec. split; intros (pre & post & E & Hn); exists pre, post; (split; [exact E|]).
  - intro r'. split; [apply (Hn (false, r'))|apply (Hn (true, r'))].
  - intros [[|] r']; cbn [wout fst snd]; apply Hn.
Qed.

Lemma wout_not_client k s t c cs r x : wout k s t <> ToClient c cs r x.
Proof. destruct t as [[|] r1]; discriminate. Qed.

Lemma wout_backend_conn k s t k0 s0 r0 : wout k s t = ToBackend k0 s0 r0 -> k0 = k.
Proof. destruct t as [[|] r1]; cbn [wout fst snd]; intro E; inversion E; reflexivity. Qed.

Lemma is_write_wout_other k s t k0 s0 : k0 <> k \/ s0 <> s -> is_write k0 s0 (wout k s t) = None.
Proof.
  intro H. destruct t as [[|] r1]; cbn [wout fst snd is_write];
    (destruct (N.eqb_spec k k0) as [->|]; [|reflexivity]); (destruct (N.eqb_spec s s0) as [->|]; [|reflexivity]);
    destruct H; congruence.
Qed.

(** ** replies *)
Lemma client_replies_in w c s r x : In (ToClient c s r x) (w_out w) <-> In (ToClient c s r x) (client_replies w r).
Proof.
  unfold client_replies. rewrite filter_In. split; [|tauto]. intro H. split; [exact H|apply N.eqb_refl].
Qed.

Lemma client_replies_snoc_other w o r :
  match o with ToClient _ _ r' _ => r' <> r | _ => True end ->
  client_replies (emit w o) r = client_replies w r.
Proof.
  intro H. unfold client_replies. rewrite out_emit, filter_app. cbn [filter].
  destruct o as [k s r'|k s r'|c s r' x]; try apply app_nil_r.
  destruct (N.eqb_spec r' r); [contradiction|apply app_nil_r].
Qed.

Lemma client_replies_snoc_wout w k s t r : client_replies (emit w (wout k s t)) r = client_replies w r.
Proof. apply client_replies_snoc_other. destruct t as [[|] r1]; exact Logic.I. Qed.

Lemma client_replies_snoc_same w c s r x :
  client_replies (emit w (ToClient c s r x)) r = client_replies w r ++ [ToClient c s r x].
Proof. unfold client_replies. rewrite out_emit, filter_app. cbn [filter]. rewrite N.eqb_refl. reflexivity. Qed.

(** ** where a request is registered: the live entries of a connection and its pending notifications *)
Definition live_of (c : bconn) : list (N * entry) := if b_closing c then [] else b_pending c.

Definition ents (c : bconn) : list entry := map snd (live_of c) ++ b_tonotify c.

Lemma regs_conn_ents r c : regs_conn r c = occ r (ents c).
Proof. unfold regs_conn, ents, live_of. rewrite occ_app. destruct (b_closing c); cbn [map]; rewrite ?occ_nil; lia. Qed.

Lemma regs_zero_no_ents w r : regs w r = 0%nat ->
  forall k c ent, lookupN k (w_conns w) = Some c -> In ent (ents c) -> entry_req ent <> r.
Proof.
  intros Hz k c ent Hk Hin E. apply lookupN_In in Hk. pose proof (regs_in r k c (w_conns w) Hk) as L.
  unfold regs in Hz. rewrite regs_conn_ents in L. subst r. apply occ_in in Hin. lia.
Qed.

Lemma live_lookup w k c : lookupN k (w_conns w) = Some c -> live w k = live_of c.
Proof. intro H. unfold live, live_of. rewrite H. reflexivity. Qed.

Lemma live_set_conn w k c k' :
  live (set_conn w k c) k' = if k' =? k then (if b_closing c then [] else b_pending c) else live w k'.
Proof. unfold live. rewrite conns_set_conn, lookupN_updateN. destruct (k' =? k); reflexivity. Qed.

(** ** the invariant of the repaired model.  [act = Some r]: request [r] is inside its critical
    section, between losing its registration and either registering again or being answered. *)
Definition is_act (act : option rid) (r : rid) : bool := match act with Some a => a =? r | None => false end.

Definition expect (act : option rid) (w : world) (r : rid) : nat :=
  match lookupN r (w_reqs w) with
  | Some q => if q_done q then 0%nat else if is_act act r then 0%nat else 1%nat
  | None => 0%nat
  end.

Record InvG (act : option rid) (w : world) : Prop := {
  ig_keys : NoDup (map fst (w_conns w));
  ig_ids : forall k c, lookupN k (w_conns w) = Some c -> NoDup (ids c);
  ig_open : forall k c, lookupN k (w_conns w) = Some c -> b_closing c = false -> b_tonotify c = [];
  ig_regs : forall r, regs w r = expect act w r;
  ig_replies : forall r, length (client_replies w r) =
                         match lookupN r (w_reqs w) with Some q => if q_done q then 1%nat else 0%nat | None => 0%nat end;
  ig_addr : forall c s r x, In (ToClient c s r x) (w_out w) ->
                            exists q, lookupN r (w_reqs w) = Some q /\ c = q_client q /\ s = q_cstream q;
  ig_last : forall k s ent, In (s, ent) (live w k) -> last_write (w_out w) k s = Some (tag ent);
  ig_route : forall pre c s r k bs kd post, w_out w = pre ++ ToClient c s r (CFrame k bs kd) :: post ->
                                            last_write pre k bs = Some (false, r);
  ig_host : forall r q, lookupN r (w_reqs w) = Some q -> q_host q = None -> q_plan q = [];
  ig_nohosts : forall c s r q, In (ToClient c s r CNoHosts) (w_out w) -> lookupN r (w_reqs w) = Some q -> q_plan q = [];
  ig_wconn : forall k s r, In (ToBackend k s r) (w_out w) -> lookupN k (w_conns w) <> None;
  ig_hostreg : forall k c ent q, lookupN k (w_conns w) = Some c -> In ent (ents c) ->
                                 lookupN (entry_req ent) (w_reqs w) = Some q -> q_host q = Some (b_host c)
}.

Lemma inv_init : InvG None init_world.
Proof.
  split; cbn; try (intros; contradiction); try (intros; discriminate); try constructor; auto.
  intros pre c s r k bs kd post H. destruct pre; discriminate.
Qed.

Lemma no_reply_yet act w r : InvG act w ->
  match lookupN r (w_reqs w) with Some q => q_done q = false | None => True end ->
  forall c s x, ~ In (ToClient c s r x) (w_out w).
Proof.
  intros I H c s x Hin. apply client_replies_in in Hin. pose proof (ig_replies _ _ I r) as L.
  destruct (lookupN r (w_reqs w)) as [q|]; [rewrite H in L|];
    (destruct (client_replies w r); [destruct Hin|discriminate]).
Qed.

Lemma expect_pos w r n : expect None w r = S n ->
  n = 0%nat /\ exists q, lookupN r (w_reqs w) = Some q /\ q_done q = false.
Proof.
  unfold expect. destruct (lookupN r (w_reqs w)) as [q|] eqn:Hq; [|discriminate].
  destruct (q_done q) eqn:Hd; [discriminate|]. cbn [is_act]. intro H. inversion H. split; [reflexivity|]. exists q. auto.
Qed.

Lemma expect_act_other (r : rid) w (r0 : rid) : r0 <> r -> expect (Some r) w r0 = expect None w r0.
Proof.
  intro Hne. unfold expect. cbn [is_act]. destruct (N.eqb_spec r r0); [congruence|reflexivity].
Qed.

Lemma expect_act_self (r : rid) w q : lookupN r (w_reqs w) = Some q -> q_done q = false ->
  expect (Some r) w r = 0%nat /\ expect None w r = 1%nat.
Proof. intros Hq Hd. unfold expect. rewrite Hq, Hd. cbn [is_act]. rewrite N.eqb_refl. auto. Qed.

(** the request inside its critical section is registered nowhere *)
Lemma act_no_ents w (r : rid) : InvG (Some r) w ->
  forall k c ent, lookupN k (w_conns w) = Some c -> In ent (ents c) -> entry_req ent <> r.
Proof.
  intro I. apply regs_zero_no_ents. rewrite (ig_regs _ _ I r). unfold expect. cbn [is_act]. rewrite N.eqb_refl.
  destruct (lookupN r (w_reqs w)) as [q|]; [destruct (q_done q)|]; reflexivity.
Qed.

(** *** primitive operations preserve the invariant *)
Lemma inv_set_req w (r : rid) q q' :
  InvG (Some r) w -> lookupN r (w_reqs w) = Some q -> q_done q = false -> q_done q' = false ->
  q_client q' = q_client q -> q_cstream q' = q_cstream q -> (q_host q' = None -> q_plan q' = []) ->
  InvG (Some r) (set_req w r q').
Proof.
  intros I Hq Hd Hd' Hc Hs Hh.
  assert (Hnr : forall c s x, ~ In (ToClient c s r x) (w_out w)).
  { apply (no_reply_yet (Some r)); [exact I|]. rewrite Hq. exact Hd. }
  pose proof (act_no_ents w r I) as Hne.
  destruct I as [Hkeys Hids Hopen Hregs Hrep Haddr Hlast Hroute Hhost Hnoh Hwc Hhr].
  split.
  - exact Hkeys.
  - exact Hids.
  - exact Hopen.
  - intro r0. specialize (Hregs r0). unfold regs, expect in *. rewrite conns_set_req, reqs_set_req, lookupN_updateN.
    destruct (N.eqb_spec r0 r) as [->|Hne0]; [|exact Hregs]. rewrite Hq, Hd in Hregs. rewrite Hd'. exact Hregs.
  - intro r0. specialize (Hrep r0). change (client_replies (set_req w r q') r0) with (client_replies w r0).
    rewrite reqs_set_req, lookupN_updateN. destruct (N.eqb_spec r0 r) as [->|Hne0]; [|exact Hrep].
    rewrite Hq, Hd in Hrep. rewrite Hd'. exact Hrep.
  - intros c s r0 x Hin. rewrite out_set_req in Hin. rewrite reqs_set_req, lookupN_updateN.
    destruct (N.eqb_spec r0 r) as [->|Hne0]; [exfalso; eapply Hnr; exact Hin|]. eapply Haddr; exact Hin.
  - exact Hlast.
  - exact Hroute.
  - intros r0 q0. rewrite reqs_set_req, lookupN_updateN. destruct (N.eqb_spec r0 r) as [->|Hne0]; [|apply Hhost].
    intro E. inversion E; subst. exact Hh.
  - intros c s r0 q0 Hin. rewrite out_set_req in Hin. rewrite reqs_set_req, lookupN_updateN.
    destruct (N.eqb_spec r0 r) as [->|Hne0]; [exfalso; eapply Hnr; exact Hin|]. eapply Hnoh; exact Hin.
  - exact Hwc.
  - intros k c ent q0 Hk Hin. rewrite reqs_set_req, lookupN_updateN.
    destruct (N.eqb_spec (entry_req ent) r) as [E|Hne0]; [exfalso; exact (Hne k c ent Hk Hin E)|].
    apply (Hhr k c ent q0 Hk Hin).
Qed.

Lemma inv_set_conn act act' w k c c' :
  InvG act w -> lookupN k (w_conns w) = Some c -> NoDup (ids c') ->
  (b_closing c' = false -> b_tonotify c' = []) ->
  (forall x, In x (live_of c') -> In x (live_of c)) ->
  b_host c' = b_host c -> (forall x, In x (ents c') -> In x (ents c)) ->
  (forall r0, regs (set_conn w k c') r0 = expect act' w r0) ->
  InvG act' (set_conn w k c').
Proof.
  intros [Hkeys Hids Hopen Hregs Hrep Haddr Hlast Hroute Hhost Hnoh Hwc Hhr] Hk Hnd Hop Hlive Hbh Hents Hr.
  split.
  - rewrite conns_set_conn, (keys_updateN_some _ _ _ _ Hk). exact Hkeys.
  - intros k0 c0. rewrite conns_set_conn, lookupN_updateN. destruct (N.eqb_spec k0 k) as [->|Hne]; [|apply Hids].
    intro E. inversion E; subst. exact Hnd.
  - intros k0 c0. rewrite conns_set_conn, lookupN_updateN. destruct (N.eqb_spec k0 k) as [->|Hne]; [|apply Hopen].
    intro E. inversion E; subst. exact Hop.
  - exact Hr.
  - exact Hrep.
  - exact Haddr.
  - intros k0 s r0. rewrite live_set_conn, out_set_conn. destruct (N.eqb_spec k0 k) as [->|Hne]; [|apply Hlast].
    intro Hin. apply Hlast. rewrite (live_lookup _ _ _ Hk). apply Hlive. exact Hin.
  - exact Hroute.
  - exact Hhost.
  - exact Hnoh.
  - intros k0 s r0 Hin. rewrite conns_set_conn, lookupN_updateN. destruct (N.eqb_spec k0 k); [discriminate|].
    eapply Hwc. exact Hin.
  - intros k0 c0 ent q0. rewrite conns_set_conn, lookupN_updateN. destruct (N.eqb_spec k0 k) as [->|Hne]; [|apply Hhr].
    intro E. inversion E; subst c0. intros Hin Hq0. rewrite Hbh. apply (Hhr k c ent q0 Hk (Hents _ Hin) Hq0).
Qed.

Lemma inv_act_done w r : InvG (Some r) w ->
  match lookupN r (w_reqs w) with Some q => q_done q = true | None => True end -> InvG None w.
Proof.
  intros [Hkeys Hids Hopen Hregs Hrep Haddr Hlast Hroute Hhost Hnoh Hwc Hhr] H.
  split; try assumption.
  intro r0. rewrite Hregs. destruct (N.eq_dec r0 r) as [->|Hne]; [|apply expect_act_other; exact Hne].
  unfold expect. destruct (lookupN r (w_reqs w)) as [q|]; [|reflexivity]. rewrite H. reflexivity.
Qed.

Definition reply_ok (w : world) (r : rid) (what : creply) : Prop :=
  match what with
  | CNoHosts => forall q, lookupN r (w_reqs w) = Some q -> q_plan q = []
  | CFrame k s _ => last_write (w_out w) k s = Some (false, r)
  | CConnLost => True
  end.

Lemma inv_reply w r what : InvG (Some r) w -> reply_ok w r what -> InvG None (reply_once w r what).
Proof.
  intros I Hok. unfold reply_once. destruct (lookupN r (w_reqs w)) as [q|] eqn:Hq.
  2:{ apply (inv_act_done w r I). rewrite Hq. exact Logic.I. }
  destruct (q_done q) eqn:Hd.
  { apply (inv_act_done w r I). rewrite Hq. exact Hd. }
  set (qd := {| q_client := q_client q; q_cstream := q_cstream q; q_idem := q_idem q; q_plan := q_plan q;
                q_host := q_host q; q_retry := q_retry q; q_done := true |}).
  destruct I as [Hkeys Hids Hopen Hregs Hrep Haddr Hlast Hroute Hhost Hnoh Hwc Hhr].
  split.
  - exact Hkeys.
  - exact Hids.
  - exact Hopen.
  - intro r0. change (regs (emit (set_req w r qd) (ToClient (q_client q) (q_cstream q) r what)) r0) with (regs w r0).
    rewrite Hregs. unfold expect. rewrite reqs_emit, reqs_set_req, lookupN_updateN. cbn [is_act].
    destruct (N.eqb_spec r0 r) as [->|Hne].
    + rewrite Hq, Hd, N.eqb_refl. reflexivity.
    + destruct (N.eqb_spec r r0); [congruence|reflexivity].
  - intro r0. rewrite reqs_emit, reqs_set_req, lookupN_updateN. destruct (N.eqb_spec r0 r) as [->|Hne].
    + rewrite client_replies_snoc_same, app_length. cbn [length q_done qd].
      change (client_replies (set_req w r qd) r) with (client_replies w r).
      specialize (Hrep r). rewrite Hq, Hd in Hrep. rewrite Hrep. reflexivity.
    + rewrite client_replies_snoc_other by congruence. apply Hrep.
  - intros c s r0 x Hin. rewrite out_emit, out_set_req in Hin. rewrite reqs_emit, reqs_set_req, lookupN_updateN.
    apply in_app_or in Hin. destruct Hin as [Hin|[E|[]]].
    + destruct (Haddr _ _ _ _ Hin) as (q0 & H0 & Hc & Hs). destruct (N.eqb_spec r0 r) as [->|Hne].
      * exists qd. rewrite Hq in H0. inversion H0; subst q0. auto.
      * exists q0. auto.
    + inversion E; subst. rewrite N.eqb_refl. exists qd. auto.
  - intros k0 s ent Hin. change (live (emit (set_req w r qd) (ToClient (q_client q) (q_cstream q) r what)) k0) with (live w k0) in Hin.
    rewrite out_emit, out_set_req, last_write_snoc. cbn [is_write]. apply Hlast. exact Hin.
  - intros pre c s r0 k0 bs kd post E. rewrite out_emit, out_set_req in E.
    apply app_snoc_split in E. destruct E as [(Ep & Ea & Ex)|(post' & Ep & Ea)].
    + inversion Ex; subst. exact Hok.
    + eapply Hroute. exact Ea.
  - intros r0 q0. rewrite reqs_emit, reqs_set_req, lookupN_updateN. destruct (N.eqb_spec r0 r) as [->|Hne]; [|apply Hhost].
    intro E. inversion E; subst q0. cbn [qd q_host q_plan]. apply (Hhost r q Hq).
  - intros c s r0 q0 Hin. rewrite out_emit, out_set_req in Hin. rewrite reqs_emit, reqs_set_req, lookupN_updateN.
    apply in_app_or in Hin. destruct Hin as [Hin|[E|[]]].
    + destruct (N.eqb_spec r0 r) as [->|Hne]; [|eapply Hnoh; exact Hin].
      intro E. inversion E; subst q0. cbn [qd q_plan]. eapply Hnoh; [exact Hin|exact Hq].
    + inversion E; subst. rewrite N.eqb_refl. intro E'. inversion E'; subst q0. cbn [qd q_plan]. apply Hok. exact Hq.
  - intros k0 s r0 Hin. rewrite out_emit, out_set_req in Hin. apply in_app_or in Hin.
    destruct Hin as [Hin|[E|[]]]; [|discriminate]. eapply Hwc. exact Hin.
  - intros k0 c0 ent q0 Hk0 Hin. rewrite reqs_emit, reqs_set_req, lookupN_updateN.
    destruct (N.eqb_spec (entry_req ent) r) as [E|Hne].
    + intro E'. inversion E'; subst q0. cbn [qd q_host]. apply (Hhr k0 c0 ent q Hk0 Hin). rewrite E. exact Hq.
    + apply (Hhr k0 c0 ent q0 Hk0 Hin).
Qed.

(** registering an entry of request [r] (the request itself, or the proxy's PREPARE standing in for it)
    on a connection of [r]'s current host ends [r]'s critical section *)
Lemma inv_register w r q k c s fr ent :
  InvG (Some r) w -> lookupN r (w_reqs w) = Some q -> q_done q = false -> entry_req ent = r ->
  q_host q = Some (b_host c) ->
  lookupN k (w_conns w) = Some c -> b_closing c = false -> b_free c = s :: fr ->
  InvG None (emit (set_conn w k {| b_host := b_host c; b_closing := false; b_free := fr;
                                   b_pending := (s, ent) :: b_pending c; b_tonotify := b_tonotify c |})
                  (wout k s (tag ent))).
Proof.
  intros [Hkeys Hids Hopen Hregs Hrep Haddr Hlast Hroute Hhost Hnoh Hwc Hhr] Hq Hd Hent Hqh Hk Hcl Hfr.
  set (c' := {| b_host := b_host c; b_closing := false; b_free := fr;
                b_pending := (s, ent) :: b_pending c; b_tonotify := b_tonotify c |}).
  pose proof (Hids k c Hk) as Hndc. unfold ids in Hndc. rewrite Hfr in Hndc.
  split.
  - rewrite conns_emit, conns_set_conn, (keys_updateN_some _ _ _ _ Hk). exact Hkeys.
  - intros k0 c0. rewrite conns_emit, conns_set_conn, lookupN_updateN. destruct (N.eqb_spec k0 k) as [->|Hne]; [|apply Hids].
    intro E. inversion E; subst c0. unfold ids. cbn [c' b_free b_pending map fst].
    eapply Permutation_NoDup; [|exact Hndc]. cbn [app]. apply Permutation_middle.
  - intros k0 c0. rewrite conns_emit, conns_set_conn, lookupN_updateN. destruct (N.eqb_spec k0 k) as [->|Hne]; [|apply Hopen].
    intro E. inversion E; subst c0. intros _. cbn [c' b_tonotify]. apply (Hopen k c Hk Hcl).
  - intro r0. unfold regs. rewrite conns_emit, conns_set_conn.
    pose proof (regs_update r0 k c c' (w_conns w) Hk) as U. specialize (Hregs r0). unfold regs in Hregs.
    unfold regs_conn in U. cbn [c' b_closing b_tonotify b_pending map snd] in U. rewrite Hcl, occ_cons, Hent in U.
    change (expect None (emit (set_conn w k c') (wout k s (tag ent))) r0) with (expect None w r0).
    destruct (N.eq_dec r0 r) as [E0|Hne].
    + subst r0. rewrite N.eqb_refl in U.
      destruct (expect_act_self r w q Hq Hd) as (E1 & E2). rewrite E1 in Hregs. rewrite E2. lia.
    + destruct (N.eqb_spec r r0) as [E0|_]; [congruence|].
      rewrite expect_act_other in Hregs by exact Hne. lia.
  - intro r0. rewrite client_replies_snoc_wout. apply Hrep.
  - intros c0 s0 r0 x Hin. rewrite out_emit, out_set_conn in Hin. apply in_app_or in Hin.
    destruct Hin as [Hin|[E|[]]]; [|exfalso; exact (wout_not_client _ _ _ _ _ _ _ E)]. eapply Haddr. exact Hin.
  - intros k0 s0 ent0 Hin. change (live (emit (set_conn w k c') (wout k s (tag ent))) k0) with (live (set_conn w k c') k0) in Hin.
    rewrite live_set_conn in Hin. rewrite out_emit, out_set_conn, last_write_snoc.
    destruct (N.eqb_spec k0 k) as [->|Hne].
    + cbn [c' b_closing b_pending] in Hin. destruct Hin as [E|Hin].
      * inversion E; subst. rewrite is_write_wout. reflexivity.
      * destruct (N.eq_dec s0 s) as [->|Hs].
        -- exfalso. inversion Hndc as [|? ? Hnot _]; subst. apply Hnot. apply in_or_app. right.
           apply (in_map fst) in Hin. exact Hin.
        -- rewrite is_write_wout_other by (right; exact Hs).
           apply Hlast. rewrite (live_lookup _ _ _ Hk). unfold live_of. rewrite Hcl. exact Hin.
    + rewrite is_write_wout_other by (left; exact Hne). apply Hlast. exact Hin.
  - intros pre c0 s0 r0 k0 bs kd post E. rewrite out_emit, out_set_conn in E.
    apply app_snoc_split in E. destruct E as [(Ep & Ea & Ex)|(post' & Ep & Ea)];
      [exfalso; exact (wout_not_client _ _ _ _ _ _ _ Ex)|].
    eapply Hroute. exact Ea.
  - exact Hhost.
  - intros c0 s0 r0 q0 Hin. rewrite out_emit, out_set_conn in Hin. apply in_app_or in Hin.
    destruct Hin as [Hin|[E|[]]]; [|exfalso; exact (wout_not_client _ _ _ _ _ _ _ E)]. eapply Hnoh. exact Hin.
  - intros k0 s0 r0 Hin. rewrite out_emit, out_set_conn in Hin. rewrite conns_emit, conns_set_conn, lookupN_updateN.
    destruct (N.eqb_spec k0 k) as [|Hne]; [discriminate|]. apply in_app_or in Hin.
    destruct Hin as [Hin|[E|[]]]; [eapply Hwc; exact Hin|]. apply wout_backend_conn in E. contradiction.
  - intros k0 c0 ent0 q0. rewrite conns_emit, conns_set_conn, lookupN_updateN.
    change (w_reqs (emit (set_conn w k c') (wout k s (tag ent)))) with (w_reqs w).
    destruct (N.eqb_spec k0 k) as [->|Hne]; [|apply Hhr].
    intro E. inversion E; subst c0. unfold ents, live_of. cbn [c' b_closing b_pending b_tonotify b_host map snd app].
    intros [E0|Hin] Hq0.
    + subst ent0. rewrite Hent, Hq in Hq0. inversion Hq0; subst q0. exact Hqh.
    + apply (Hhr k c ent0 q0 Hk); [|exact Hq0]. unfold ents, live_of. rewrite Hcl. exact Hin.
Qed.

Lemma inv_connect w k h n :
  InvG None w -> lookupN k (w_conns w) = None -> InvG None (set_conn w k (fresh_conn h n)).
Proof.
  intros [Hkeys Hids Hopen Hregs Hrep Haddr Hlast Hroute Hhost Hnoh Hwc Hhr] Hk.
  split.
  - rewrite conns_set_conn, (keys_updateN_none _ _ _ Hk).
    eapply Permutation_NoDup; [apply Permutation_cons_append|]. constructor; [|exact Hkeys].
    apply lookupN_none_iff. exact Hk.
  - intros k0 c0. rewrite conns_set_conn, lookupN_updateN. destruct (N.eqb_spec k0 k) as [->|Hne]; [|apply Hids].
    intro E. inversion E; subst c0. unfold ids. cbn [fresh_conn b_free b_pending map]. rewrite app_nil_r. apply range_NoDup.
  - intros k0 c0. rewrite conns_set_conn, lookupN_updateN. destruct (N.eqb_spec k0 k) as [->|Hne]; [|apply Hopen].
    intro E. inversion E; subst c0. reflexivity.
  - intro r0. unfold regs. rewrite conns_set_conn, (regs_update_none _ _ _ _ Hk).
    change (expect None (set_conn w k (fresh_conn h n)) r0) with (expect None w r0). rewrite <- Hregs.
    unfold regs, regs_conn. cbn. lia.
  - exact Hrep.
  - exact Haddr.
  - intros k0 s r0. rewrite live_set_conn, out_set_conn. destruct (N.eqb_spec k0 k) as [->|Hne]; [|apply Hlast].
    cbn. intros [].
  - exact Hroute.
  - exact Hhost.
  - exact Hnoh.
  - intros k0 s r0 Hin. rewrite conns_set_conn, lookupN_updateN. destruct (N.eqb_spec k0 k); [discriminate|].
    eapply Hwc. exact Hin.
  - intros k0 c0 ent q0. rewrite conns_set_conn, lookupN_updateN. destruct (N.eqb_spec k0 k) as [->|Hne]; [|apply Hhr].
    intro E. inversion E; subst c0. cbn. intros [].
Qed.

Lemma inv_start w r q1 :
  InvG None w -> lookupN r (w_reqs w) = None -> q_done q1 = false -> (q_host q1 = None -> q_plan q1 = []) ->
  InvG (Some r) (set_req w r q1).
Proof.
  intros I Hq Hd Hh.
  assert (Hnr : forall c s x, ~ In (ToClient c s r x) (w_out w)).
  { apply (no_reply_yet None); [exact I|]. rewrite Hq. exact Logic.I. }
  assert (Hne : forall k c ent, lookupN k (w_conns w) = Some c -> In ent (ents c) -> entry_req ent <> r).
  { apply regs_zero_no_ents. rewrite (ig_regs _ _ I r). unfold expect. rewrite Hq. reflexivity. }
  destruct I as [Hkeys Hids Hopen Hregs Hrep Haddr Hlast Hroute Hhost Hnoh Hwc Hhr].
  split.
  - exact Hkeys.
  - exact Hids.
  - exact Hopen.
  - intro r0. change (regs (set_req w r q1) r0) with (regs w r0). rewrite Hregs. unfold expect.
    rewrite reqs_set_req, lookupN_updateN. cbn [is_act]. destruct (N.eqb_spec r0 r) as [->|Hne0].
    + rewrite Hq, Hd, N.eqb_refl. reflexivity.
    + destruct (N.eqb_spec r r0); [congruence|reflexivity].
  - intro r0. specialize (Hrep r0). change (client_replies (set_req w r q1) r0) with (client_replies w r0).
    rewrite reqs_set_req, lookupN_updateN. destruct (N.eqb_spec r0 r) as [->|Hne0]; [|exact Hrep].
    rewrite Hq in Hrep. rewrite Hd. exact Hrep.
  - intros c s r0 x Hin. rewrite out_set_req in Hin. rewrite reqs_set_req, lookupN_updateN.
    destruct (N.eqb_spec r0 r) as [->|Hne0]; [exfalso; eapply Hnr; exact Hin|]. eapply Haddr; exact Hin.
  - exact Hlast.
  - exact Hroute.
  - intros r0 q0. rewrite reqs_set_req, lookupN_updateN. destruct (N.eqb_spec r0 r) as [->|Hne0]; [|apply Hhost].
    intro E. inversion E; subst. exact Hh.
  - intros c s r0 q0 Hin. rewrite out_set_req in Hin. rewrite reqs_set_req, lookupN_updateN.
    destruct (N.eqb_spec r0 r) as [->|Hne0]; [exfalso; eapply Hnr; exact Hin|]. eapply Hnoh; exact Hin.
  - exact Hwc.
  - intros k c ent q0 Hk Hin. rewrite reqs_set_req, lookupN_updateN.
    destruct (N.eqb_spec (entry_req ent) r) as [E|Hne0]; [exfalso; exact (Hne k c ent Hk Hin E)|].
    apply (Hhr k c ent q0 Hk Hin).
Qed.

(** *** Session.Send, the Send of the proxy's PREPARE, executeInternal, and every event preserve the invariant *)
Lemma inv_send_to w (r : rid) q h ch :
  InvG (Some r) w -> lookupN r (w_reqs w) = Some q -> q_done q = false -> q_host q = Some h ->
  match send_to false w r h ch with
  | (w1, SentOk) => InvG None w1
  | (w1, SendErr) => InvG (Some r) w1 /\ w_reqs w1 = w_reqs w
  end.
Proof.
  intros I Hq Hd Hqh. unfold send_to. destruct ch as [[k ok]|]; [|auto].
  destruct (lookupN k (w_conns w)) as [c|] eqn:Hk; [|auto].
  destruct (N.eqb_spec (b_host c) h) as [Hbh|]; cbn [negb]; [|auto]. destruct (b_closing c) eqn:Hcl; [auto|].
  destruct (b_free c) as [|s fr] eqn:Hfr; [auto|].
  destruct ok.
  - refine (inv_register w r q k c s fr (EReq r) I Hq Hd eq_refl _ Hk Hcl Hfr). rewrite Hbh. exact Hqh.
  - split; [|reflexivity].
    pose proof (ig_ids _ _ I k c Hk) as Hnd. pose proof (ig_open _ _ I k c Hk Hcl) as Hop.
    eapply inv_set_conn with (c := c); [exact I|exact Hk| | | | | |].
    + unfold ids in *. cbn [b_free b_pending]. rewrite Hfr in Hnd.
      eapply Permutation_NoDup; [|exact Hnd].
      change (s :: fr ++ map fst (b_pending c)) with ((s :: fr) ++ map fst (b_pending c)).
      apply Permutation_app_tail. apply Permutation_cons_append.
    + intros _. exact Hop.
    + unfold live_of. cbn [b_closing b_pending]. rewrite Hcl. auto.
    + reflexivity.
    + unfold ents, live_of. cbn [b_closing b_pending b_tonotify]. rewrite Hcl. auto.
    + intro r0. rewrite <- (ig_regs _ _ I r0). unfold regs. rewrite conns_set_conn.
      match goal with |- regs_list r0 (updateN k ?c1 _) = _ => pose proof (regs_update r0 k c c1 (w_conns w) Hk) as U end.
      unfold regs_conn in U. cbn [b_closing b_tonotify b_pending] in U. rewrite Hcl in U. lia.
Qed.

Lemma inv_send_prepare w (r : rid) q k c nested ok :
  InvG (Some r) w -> lookupN r (w_reqs w) = Some q -> q_done q = false ->
  lookupN k (w_conns w) = Some c -> q_host q = Some (b_host c) ->
  match send_prepare w k r nested ok with
  | (w1, SentOk) => InvG None w1
  | (w1, SendErr) => w1 = w
  end.
Proof.
  intros I Hq Hd Hk Hqh. unfold send_prepare. rewrite Hk.
  destruct (b_closing c) eqn:Hcl; cbn [orb]; [reflexivity|]. destruct ok; cbn [negb]; [|reflexivity].
  destruct (b_free c) as [|s fr] eqn:Hfr; [reflexivity|].
  exact (inv_register w r q k c s fr (EPrep r nested) I Hq Hd eq_refl Hqh Hk Hcl Hfr).
Qed.

Lemma inv_exec_next (r : rid) : forall p o w q,
  InvG (Some r) w -> lookupN r (w_reqs w) = Some q -> q_done q = false -> InvG None (exec_next false w r q p o).
Proof.
  induction p as [|h p' IH]; intros o w q I Hq Hd; cbn [exec_next].
  - apply inv_reply.
    + eapply inv_set_req; [exact I|exact Hq|exact Hd|exact Hd|reflexivity|reflexivity|reflexivity].
    + cbn [reply_ok]. intros q0. rewrite reqs_set_req, lookupN_updateN_same. intro E. inversion E. reflexivity.
  - set (q1 := with_host q (Some h) p'). set (w0 := set_req w r q1).
    assert (I0 : InvG (Some r) w0).
    { eapply inv_set_req; [exact I|exact Hq|exact Hd|exact Hd|reflexivity|reflexivity|discriminate]. }
    assert (Hq1 : lookupN r (w_reqs w0) = Some q1) by (unfold w0; rewrite reqs_set_req; apply lookupN_updateN_same).
    pose proof (inv_send_to w0 r q1 h (hd None o) I0 Hq1 Hd eq_refl) as S.
    destruct (send_to false w0 r h (hd None o)) as [w1 res]. destruct res; [exact S|].
    destruct S as (I1 & R1). apply IH; [exact I1|rewrite R1; exact Hq1|exact Hd].
Qed.

Lemma inv_exec_internal w (r : rid) next o : InvG (Some r) w -> InvG None (exec_internal false w r next o).
Proof.
  intro I. unfold exec_internal. destruct (lookupN r (w_reqs w)) as [q|] eqn:Hq.
  2:{ apply (inv_act_done w r I). rewrite Hq. exact Logic.I. }
  destruct (q_done q) eqn:Hd.
  { apply (inv_act_done w r I). rewrite Hq. exact Hd. }
  destruct next; [apply inv_exec_next; assumption|].
  destruct (q_host q) as [h|] eqn:Hh.
  - pose proof (inv_send_to w r q h (hd None o) I Hq Hd Hh) as S.
    destruct (send_to false w r h (hd None o)) as [w1 res]. destruct res; [exact S|].
    destruct S as (I1 & R1). apply inv_exec_next; [exact I1|rewrite R1; exact Hq|exact Hd].
  - apply inv_reply; [exact I|]. cbn [reply_ok]. intros q0 H0. rewrite Hq in H0. inversion H0; subst q0.
    apply (ig_host _ _ I r q Hq Hh).
Qed.

Lemma inv_unregister w k c c' (r : rid) :
  InvG None w -> lookupN k (w_conns w) = Some c -> NoDup (ids c') ->
  (b_closing c' = false -> b_tonotify c' = []) ->
  (forall x, In x (live_of c') -> In x (live_of c)) ->
  b_host c' = b_host c -> (forall x, In x (ents c') -> In x (ents c)) ->
  (regs_conn r c' + 1 = regs_conn r c)%nat ->
  (forall r0, r0 <> r -> regs_conn r0 c' = regs_conn r0 c) ->
  InvG (Some r) (set_conn w k c') /\ exists q, lookupN r (w_reqs w) = Some q /\ q_done q = false.
Proof.
  intros I Hk Hnd Hop Hlive Hbh Hents Hr Hother.
  assert (Hx : regs (set_conn w k c') r = 0%nat /\ exists q, lookupN r (w_reqs w) = Some q /\ q_done q = false).
  { pose proof (ig_regs _ _ I r) as R. unfold regs in *. rewrite conns_set_conn.
    pose proof (regs_update r k c c' (w_conns w) Hk) as U.
    destruct (expect_pos w r (regs_list r (updateN k c' (w_conns w)))) as (E & Q); [rewrite <- R; lia|]. auto. }
  destruct Hx as (Hz & q & Hq & Hd). split; [|exists q; auto].
  eapply inv_set_conn; [exact I|exact Hk|exact Hnd|exact Hop|exact Hlive|exact Hbh|exact Hents|].
  intro r0. destruct (N.eq_dec r0 r) as [->|Hne].
  - rewrite Hz. symmetry. apply (expect_act_self r w q Hq Hd).
  - rewrite (expect_act_other r w r0 Hne), <- (ig_regs _ _ I r0). unfold regs. rewrite conns_set_conn.
    pose proof (regs_update r0 k c c' (w_conns w) Hk) as U. rewrite (Hother r0 Hne) in U. lia.
Qed.

Lemma inv_bump_retry w (r : rid) q :
  InvG (Some r) w -> lookupN r (w_reqs w) = Some q -> q_done q = false -> InvG (Some r) (bump_retry w r).
Proof.
  intros I Hq Hd. unfold bump_retry. rewrite Hq.
  eapply inv_set_req; [exact I|exact Hq|exact Hd|exact Hd|reflexivity|reflexivity|].
  cbn [q_host q_plan]. apply (ig_host _ _ I r q Hq).
Qed.

(** [ClientConn.Receive] taking the entry under stream [s] out of the pending table of connection [k] *)
Definition popped (c : bconn) (s : N) : bconn :=
  {| b_host := b_host c; b_closing := false; b_free := b_free c ++ [s];
     b_pending := removeN s (b_pending c); b_tonotify := b_tonotify c |}.

Lemma inv_pop w k c s ent :
  InvG None w -> lookupN k (w_conns w) = Some c -> b_closing c = false -> lookupN s (b_pending c) = Some ent ->
  InvG (Some (entry_req ent)) (set_conn w k (popped c s)) /\
  exists q, lookupN (entry_req ent) (w_reqs w) = Some q /\ q_done q = false /\ q_host q = Some (b_host c).
Proof.
  intros I Hk Hcl Hs.
  destruct (inv_unregister w k c (popped c s) (entry_req ent) I Hk) as (I1 & q & Hq & Hd).
  { pose proof (ig_ids _ _ I k c Hk) as Hnd. unfold ids in *. cbn [popped b_free b_pending].
    eapply Permutation_NoDup; [|exact Hnd]. rewrite <- app_assoc. apply Permutation_app_head. cbn [app].
    eapply removeN_perm. exact Hs. }
  { intros _. exact (ig_open _ _ I k c Hk Hcl). }
  { unfold live_of. cbn [popped b_closing b_pending]. rewrite Hcl. intros x Hx. eapply In_removeN. exact Hx. }
  { reflexivity. }
  { unfold ents, live_of. cbn [popped b_closing b_pending b_tonotify]. rewrite Hcl. intros x Hx.
    apply in_app_or in Hx. apply in_or_app. destruct Hx as [Hx|Hx]; [left|right; exact Hx].
    apply in_map_iff in Hx. destruct Hx as (y & <- & Hy). apply in_map. eapply In_removeN. exact Hy. }
  { unfold regs_conn. cbn [popped b_closing b_pending b_tonotify]. rewrite Hcl.
    pose proof (occ_removeN_same s ent (b_pending c) Hs). lia. }
  { intros r0 Hne. unfold regs_conn. cbn [popped b_closing b_pending b_tonotify]. rewrite Hcl.
    rewrite (occ_removeN_other s ent r0 (b_pending c) Hs Hne). reflexivity. }
  split; [exact I1|]. exists q. split; [exact Hq|]. split; [exact Hd|].
  apply (ig_hostreg _ _ I k c ent q Hk); [|exact Hq].
  unfold ents, live_of. rewrite Hcl. apply in_or_app. left.
  apply lookupN_In in Hs. apply (in_map snd) in Hs. exact Hs.
Qed.

Theorem inv_step w e : InvG None w -> InvG None (step w e).
Proof.
  intro I. unfold step.
  destruct e as [r cl cs idem p o|k s f o|k|k ent o|k h n]; cbn [step_gen].
  - (* EStart *)
    destruct (lookupN r (w_reqs w)) as [q|] eqn:Hq; [exact I|].
    set (q0 := {| q_client := cl; q_cstream := cs; q_idem := idem; q_plan := p; q_host := None; q_retry := 0%Z; q_done := false |}).
    unfold exec_internal. rewrite reqs_set_req, lookupN_updateN_same. cbn [q_done q0 q_plan].
    destruct p as [|h p']; cbn [exec_next]; rewrite set_req_set_req.
    + apply inv_reply.
      * apply inv_start; [exact I|exact Hq|reflexivity|reflexivity].
      * cbn [reply_ok]. intro q1. rewrite reqs_set_req, lookupN_updateN_same. intro E. inversion E. reflexivity.
    + set (q1 := with_host q0 (Some h) p'). set (w0 := set_req w r q1).
      assert (I0 : InvG (Some r) w0) by (apply inv_start; [exact I|exact Hq|reflexivity|discriminate]).
      assert (Hq1 : lookupN r (w_reqs w0) = Some q1) by (unfold w0; rewrite reqs_set_req; apply lookupN_updateN_same).
      pose proof (inv_send_to w0 r q1 h (hd None o) I0 Hq1 eq_refl eq_refl) as S.
      destruct (send_to false w0 r h (hd None o)) as [w1 res]. destruct res; [exact S|].
      destruct S as (I1 & R1). apply inv_exec_next; [exact I1|rewrite R1; exact Hq1|reflexivity].
  - (* EFrame *)
    destruct (lookupN k (w_conns w)) as [c|] eqn:Hk; [|exact I].
    destruct (b_closing c) eqn:Hcl; [exact I|].
    destruct (lookupN s (b_pending c)) as [ent|] eqn:Hs; [|exact I].
    fold (popped c s). set (w1 := set_conn w k (popped c s)).
    destruct (inv_pop w k c s ent I Hk Hcl Hs) as (I1 & q & Hq & Hd & Hqh). fold w1 in I1.
    assert (Hk1 : lookupN k (w_conns w1) = Some (popped c s)).
    { unfold w1. rewrite conns_set_conn. apply lookupN_updateN_same. }
    assert (IP : forall nested ok,
               InvG None (let '(w2, res) := send_prepare w1 k (entry_req ent) nested ok in
                          match res with SentOk => w2 | SendErr => exec_internal false w2 (entry_req ent) true o end)).
    { intros nested ok.
      pose proof (inv_send_prepare w1 (entry_req ent) q k (popped c s) nested ok I1 Hq Hd Hk1 Hqh) as S.
      destruct (send_prepare w1 k (entry_req ent) nested ok) as [w2 res]. destruct res; [exact S|].
      subst w2. apply inv_exec_internal. exact I1. }
    destruct ent as [r|r nested]; cbn [entry_req] in *.
    + assert (Hlw : forall kd, reply_ok w1 r (CFrame k s kd)).
      { intro kd. cbn [reply_ok]. change (w_out w1) with (w_out w). apply (ig_last _ _ I k s (EReq r)).
        rewrite (live_lookup _ _ _ Hk). unfold live_of. rewrite Hcl. apply lookupN_In. exact Hs. }
      assert (Ib : InvG (Some r) (bump_retry w1 r)) by (eapply inv_bump_retry; [exact I1|exact Hq|exact Hd]).
      change (w_reqs w1) with (w_reqs w).
      destruct f as [|m|[|] ok]; try apply IP; rewrite Hq, Hd.
      * apply inv_reply; [exact I1|apply Hlw].
      * cbv zeta.
        destruct (handle_error (q_idem q) m (q_retry q) =? dec_RetryNext); [apply inv_exec_internal; exact Ib|].
        destruct (handle_error (q_idem q) m (q_retry q) =? dec_RetrySame); [apply inv_exec_internal; exact Ib|].
        apply inv_reply; [exact I1|apply Hlw].
      * apply inv_reply; [exact I1|apply Hlw].
    + destruct f as [|m|[|] ok]; try apply IP; apply inv_exec_internal; exact I1.
  - (* ECloseBegin *)
    destruct (lookupN k (w_conns w)) as [c|] eqn:Hk; [|exact I].
    destruct (b_closing c) eqn:Hcl; [exact I|].
    eapply inv_set_conn; [exact I|exact Hk| | | | | |].
    + exact (ig_ids _ _ I k c Hk).
    + discriminate.
    + unfold live_of. cbn [b_closing]. intros x [].
    + reflexivity.
    + unfold ents, live_of. cbn [b_closing b_tonotify map app]. rewrite Hcl. intros x Hx. apply in_or_app. left. exact Hx.
    + intro r0. rewrite <- (ig_regs _ _ I r0). unfold regs. rewrite conns_set_conn.
      match goal with |- regs_list r0 (updateN k ?c1 _) = _ => pose proof (regs_update r0 k c c1 (w_conns w) Hk) as U end.
      unfold regs_conn in U. cbn [b_closing b_tonotify b_pending] in U.
      rewrite Hcl, (ig_open _ _ I k c Hk Hcl), occ_nil in U. lia.
  - (* ENotify *)
    destruct (lookupN k (w_conns w)) as [c|] eqn:Hk; [|exact I].
    destruct (existsb (entry_eqb ent) (b_tonotify c)) eqn:Hex; cbn [negb]; [|exact I].
    apply existsb_eqb_in in Hex.
    set (c' := {| b_host := b_host c; b_closing := b_closing c; b_free := b_free c; b_pending := b_pending c;
                  b_tonotify := remove_first ent (b_tonotify c) |}).
    set (w1 := set_conn w k c').
    destruct (inv_unregister w k c c' (entry_req ent) I Hk) as (I1 & q & Hq & Hd).
    { exact (ig_ids _ _ I k c Hk). }
    { cbn [c' b_closing]. intro Hcl. rewrite (ig_open _ _ I k c Hk Hcl) in Hex. destruct Hex. }
    { unfold live_of. cbn [c' b_closing b_pending]. auto. }
    { reflexivity. }
    { unfold ents, live_of. cbn [c' b_closing b_pending b_tonotify]. intros x Hx.
      apply in_app_or in Hx. apply in_or_app. destruct Hx as [Hx|Hx]; [left; exact Hx|right].
      eapply In_remove_first. exact Hx. }
    { unfold regs_conn. cbn [c' b_closing b_pending b_tonotify].
      pose proof (occ_remove_first_same ent (b_tonotify c) Hex). lia. }
    { intros r0 Hne. unfold regs_conn. cbn [c' b_closing b_pending b_tonotify].
      rewrite (occ_remove_first_other ent r0 (b_tonotify c) Hne). reflexivity. }
    fold w1 in I1. change (w_reqs w1) with (w_reqs w). rewrite Hq.
    destruct (q_idem q); [apply inv_exec_internal; exact I1|apply inv_reply; [exact I1|exact Logic.I]].
  - (* EConnect *)
    destruct (lookupN k (w_conns w)) as [c|] eqn:Hk; [exact I|]. apply inv_connect; assumption.
Qed.

Theorem inv_run : forall es, InvG None (run_events es).
Proof.
  intro es. unfold run_events. rewrite <- fold_left_rev_right.
  induction (rev es) as [|e t IH]; cbn [fold_right]; [apply inv_init|apply inv_step; exact IH].
Qed.

(** ** The theorems that follow from the invariant *)

(** P1a: at most one reply per request, and it goes to the request's own client and stream *)
Theorem prep_at_most_one_reply : forall es r,
  (length (client_replies (run_events es) r) <= 1)%nat /\
  forall c s x, In (ToClient c s r x) (w_out (run_events es)) ->
    exists q, lookupN r (w_reqs (run_events es)) = Some q /\ c = q_client q /\ s = q_cstream q.
Proof.
  intros es r. pose proof (inv_run es) as I. split.
  - rewrite (ig_replies _ _ I r). destruct (lookupN r (w_reqs (run_events es))) as [q|]; [destruct (q_done q)|]; lia.
  - intros c s x Hin. exact (ig_addr _ _ I c s r x Hin).
Qed.

(** P1b: done <-> replied (exactly once) *)
Theorem prep_done_iff_replied : forall es r q,
  lookupN r (w_reqs (run_events es)) = Some q ->
  (q_done q = true <-> length (client_replies (run_events es) r) = 1%nat).
Proof.
  intros es r q Hq. rewrite (ig_replies _ _ (inv_run es) r), Hq.
  destruct (q_done q); split; intro H; try reflexivity; discriminate.
Qed.

Corollary prep_not_done_no_reply : forall es r q,
  lookupN r (w_reqs (run_events es)) = Some q -> q_done q = false -> client_replies (run_events es) r = [].
Proof.
  intros es r q Hq Hd. pose proof (ig_replies _ _ (inv_run es) r) as L. rewrite Hq, Hd in L.
  destruct (client_replies (run_events es) r); [reflexivity|discriminate].
Qed.

(** a reply exists only for a started request *)
Corollary prep_unstarted_no_reply : forall es r,
  lookupN r (w_reqs (run_events es)) = None -> client_replies (run_events es) r = [].
Proof.
  intros es r Hq. pose proof (ig_replies _ _ (inv_run es) r) as L. rewrite Hq in L.
  destruct (client_replies (run_events es) r); [reflexivity|discriminate].
Qed.

(** P2b: a live registration (k, s) -> entry exists only where that entry was written (the request itself
    for [EReq r], the proxy's PREPARE for [EPrep r _]), and that write is the last one of either kind on (k, s) *)
Theorem prep_registered_only_where_written : forall es k s ent,
  In (s, ent) (live (run_events es) k) ->
  exists pre post, w_out (run_events es) = pre ++ wout k s (tag ent) :: post /\
                   forall r', ~ In (ToBackend k s r') post /\ ~ In (ToBackendPrepare k s r') post.
Proof.
  intros es k s ent Hin. pose proof (ig_last _ _ (inv_run es) k s ent Hin) as L.
  apply last_write_spec in L. destruct L as (pre & post & E & Hn). exists pre, post. split; [exact E|].
  intro r'. split; [apply (Hn (false, r'))|apply (Hn (true, r'))].
Qed.

(** P2a: the frame forwarded to a client answers that client's own request: the last thing written on
    (k, bs) before it is [ToBackend k bs r] -- neither another request nor a PREPARE of the proxy in between *)
Theorem prep_answer_routes_to_its_request : forall es pre c s r k bs kd post,
  w_out (run_events es) = pre ++ ToClient c s r (CFrame k bs kd) :: post ->
  exists pre1 post1, pre = pre1 ++ ToBackend k bs r :: post1 /\
                     forall r', ~ In (ToBackend k bs r') post1 /\ ~ In (ToBackendPrepare k bs r') post1.
Proof.
  intros es pre c s r k bs kd post E. apply last_write_req_spec.
  exact (ig_route _ _ (inv_run es) _ _ _ _ _ _ _ _ E).
Qed.

(** done requests are registered nowhere (neither live nor awaiting a close notification) *)
Lemma regs_zero_not_live w r : regs w r = 0%nat ->
  forall k c, lookupN k (w_conns w) = Some c ->
    (forall ent, In ent (b_tonotify c) -> entry_req ent <> r) /\ forall s ent, In (s, ent) (live_of c) -> entry_req ent <> r.
Proof.
  intros Hz k c Hk. split.
  - intros ent Hin. apply (regs_zero_no_ents w r Hz k c ent Hk). unfold ents. apply in_or_app. right. exact Hin.
  - intros s ent Hin. apply (regs_zero_no_ents w r Hz k c ent Hk). unfold ents. apply in_or_app. left.
    apply (in_map snd) in Hin. exact Hin.
Qed.

Theorem prep_done_not_registered : forall es r q,
  lookupN r (w_reqs (run_events es)) = Some q -> q_done q = true ->
  (forall k s ent, In (s, ent) (live (run_events es) k) -> entry_req ent <> r) /\
  (forall k c ent, lookupN k (w_conns (run_events es)) = Some c -> In ent (b_tonotify c) -> entry_req ent <> r).
Proof.
  intros es r q Hq Hd. pose proof (inv_run es) as I.
  assert (Hz : regs (run_events es) r = 0%nat).
  { rewrite (ig_regs _ _ I r). unfold expect. rewrite Hq, Hd. reflexivity. }
  split.
  - intros k s ent Hin. unfold live in Hin. destruct (lookupN k (w_conns (run_events es))) as [c|] eqn:Hk; [|destruct Hin].
    destruct (regs_zero_not_live _ _ Hz k c Hk) as (_ & Hl). apply (Hl s). exact Hin.
  - intros k c ent Hk. exact (proj1 (regs_zero_not_live _ _ Hz k c Hk) ent).
Qed.

(** a request that was never started is registered nowhere either *)
Theorem prep_unstarted_not_registered : forall es r,
  lookupN r (w_reqs (run_events es)) = None ->
  (forall k s ent, In (s, ent) (live (run_events es) k) -> entry_req ent <> r) /\
  (forall k c ent, lookupN k (w_conns (run_events es)) = Some c -> In ent (b_tonotify c) -> entry_req ent <> r).
Proof.
  intros es r Hq. pose proof (inv_run es) as I.
  assert (Hz : regs (run_events es) r = 0%nat).
  { rewrite (ig_regs _ _ I r). unfold expect. rewrite Hq. reflexivity. }
  split.
  - intros k s ent Hin. unfold live in Hin. destruct (lookupN k (w_conns (run_events es))) as [c|] eqn:Hk; [|destruct Hin].
    destruct (regs_zero_not_live _ _ Hz k c Hk) as (_ & Hl). apply (Hl s). exact Hin.
  - intros k c ent Hk. exact (proj1 (regs_zero_not_live _ _ Hz k c Hk) ent).
Qed.

(** P4c: "no more hosts" is never sent while an attempt (the request or a re-PREPARE standing in for it) is in
    flight, and only with the plan exhausted.  [es] is any run in which the reply has been emitted -- in
    particular the run ending with the very event that emitted it. *)
Theorem prep_no_hosts_only_when_not_in_flight : forall es c s r,
  In (ToClient c s r CNoHosts) (w_out (run_events es)) ->
  (forall k s' ent, In (s', ent) (live (run_events es) k) -> entry_req ent <> r) /\
  (forall k cn ent, lookupN k (w_conns (run_events es)) = Some cn -> In ent (b_tonotify cn) -> entry_req ent <> r) /\
  exists q, lookupN r (w_reqs (run_events es)) = Some q /\ q_plan q = [] /\ q_done q = true.
Proof.
  intros es c s r Hin. pose proof (inv_run es) as I.
  destruct (ig_addr _ _ I _ _ _ _ Hin) as (q & Hq & _ & _).
  assert (Hd : q_done q = true).
  { apply (prep_done_iff_replied es r q Hq). pose proof (proj1 (prep_at_most_one_reply es r)) as L.
    apply client_replies_in in Hin. destruct (client_replies (run_events es) r) as [|x [|y t]]; [destruct Hin|reflexivity|cbn in L; lia]. }
  destruct (prep_done_not_registered es r q Hq Hd) as (H1 & H2).
  split; [exact H1|]. split; [exact H2|]. exists q. split; [exact Hq|]. split; [|exact Hd].
  exact (ig_nohosts _ _ I c s r q Hin Hq).
Qed.

(** P1d: at quiescence every started request has been answered *)
Theorem prep_none_lost_at_quiescence : forall es,
  quiescent (run_events es) -> forall r q, lookupN r (w_reqs (run_events es)) = Some q -> q_done q = true.
Proof.
  intros es Hqu r q Hq. destruct (q_done q) eqn:Hd; [reflexivity|exfalso].
  pose proof (inv_run es) as I.
  assert (Hone : regs (run_events es) r = 1%nat).
  { rewrite (ig_regs _ _ I r). unfold expect. rewrite Hq, Hd. reflexivity. }
  destruct (regs_pos r (w_conns (run_events es))) as (k & c & Hin & Hp); [unfold regs in Hone; lia|].
  apply (lookupN_nodup_in _ _ _ (ig_keys _ _ I)) in Hin. destruct (Hqu k c Hin) as (Ht & Hpn).
  unfold regs_conn in Hp. rewrite Ht, occ_nil in Hp. destruct (b_closing c); [lia|].
  rewrite (Hpn eq_refl) in Hp. cbn in Hp. lia.
Qed.

Corollary prep_exactly_one_at_quiescence : forall es,
  quiescent (run_events es) -> forall r q, lookupN r (w_reqs (run_events es)) = Some q ->
  length (client_replies (run_events es) r) = 1%nat.
Proof.
  intros es Hqu r q Hq. apply (prep_done_iff_replied es r q Hq). eapply prep_none_lost_at_quiescence; eassumption.
Qed.

(** P1c: a started, unanswered request is registered in exactly one place -- one entry ([EReq r] or
    [EPrep r _]) live on one open connection, or awaiting one close notification; an answered one nowhere *)
Theorem prep_registered_iff_unanswered : forall es r,
  regs (run_events es) r =
  match lookupN r (w_reqs (run_events es)) with Some q => if q_done q then 0%nat else 1%nat | None => 0%nat end.
Proof. intros es r. rewrite (ig_regs _ _ (inv_run es) r). reflexivity. Qed.

Theorem prep_unanswered_is_registered_once : forall es r q,
  lookupN r (w_reqs (run_events es)) = Some q -> q_done q = false -> regs (run_events es) r = 1%nat.
Proof. intros es r q Hq Hd. rewrite prep_registered_iff_unanswered, Hq, Hd. reflexivity. Qed.

(** ... and that place is a connection of the host the request currently points at *)
Theorem prep_unanswered_is_registered_somewhere : forall es r q,
  lookupN r (w_reqs (run_events es)) = Some q -> q_done q = false ->
  exists k c ent, lookupN k (w_conns (run_events es)) = Some c /\ In ent (ents c) /\ entry_req ent = r /\
                  q_host q = Some (b_host c).
Proof.
  intros es r q Hq Hd. pose proof (inv_run es) as I. pose proof (prep_unanswered_is_registered_once es r q Hq Hd) as R.
  destruct (regs_pos r (w_conns (run_events es))) as (k & c & Hin & Hp); [unfold regs in R; lia|].
  apply (lookupN_nodup_in _ _ _ (ig_keys _ _ I)) in Hin. rewrite regs_conn_ents in Hp.
  apply occ_pos_in in Hp. destruct Hp as (ent & He & Hr). exists k, c, ent. repeat split; try assumption.
  apply (ig_hostreg _ _ I k c ent q Hin He). rewrite Hr. exact Hq.
Qed.

(** a live registration belongs to a started, unanswered request whose current host is the connection's *)
Lemma prep_live_is_started : forall es k s ent,
  lookupN s (live (run_events es) k) = Some ent ->
  exists q c, lookupN (entry_req ent) (w_reqs (run_events es)) = Some q /\ q_done q = false /\
              lookupN k (w_conns (run_events es)) = Some c /\ q_host q = Some (b_host c).
Proof.
  intros es k s ent Hl. pose proof (inv_run es) as I. unfold live in Hl.
  destruct (lookupN k (w_conns (run_events es))) as [c|] eqn:Hk; [|discriminate].
  destruct (b_closing c) eqn:Hcl; [discriminate|].
  destruct (inv_pop _ k c s ent I Hk Hcl Hl) as (_ & q & Hq & Hd & Hh). exists q, c. auto.
Qed.

Print Assumptions prep_at_most_one_reply.
Print Assumptions prep_done_iff_replied.
Print Assumptions prep_stream_ids_partition.
Print Assumptions prep_pending_streams_distinct.
Print Assumptions prep_answer_routes_to_its_request.
Print Assumptions prep_registered_only_where_written.
Print Assumptions prep_done_not_registered.
Print Assumptions prep_unstarted_not_registered.
Print Assumptions prep_no_hosts_only_when_not_in_flight.
Print Assumptions prep_none_lost_at_quiescence.
Print Assumptions prep_exactly_one_at_quiescence.
Print Assumptions prep_registered_iff_unanswered.
Print Assumptions prep_unanswered_is_registered_once.
Print Assumptions prep_unanswered_is_registered_somewhere.
Print Assumptions prep_live_is_started.
