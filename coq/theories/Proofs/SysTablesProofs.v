(** Proofs about Model/SysTables.v (C10). *)
From Coq Require Import List Arith ZArith NArith Bool Lia.
From CqlProxy Require Import Lib.Val Lib.Util Lib.Wire Gen.LexRules Gen.Tables Model.Lexer Model.Parser Model.Handled Model.SysTables.
Import ListNotations.
Local Open Scope N_scope.

(** ** projection: every row has exactly the columns of the metadata, in order *)
Lemma selector_width table cols value s out cells :
  selector_columns table cols s = Some out -> selector_values cols value s = Some cells -> length cells = length out.
Proof.
  revert out cells. induction s as [name| |arg| |inner IH alias]; intros out cells Hc Hv; cbn in *.
  - destruct (find_col cols name); [|discriminate]. destruct (value name); [|discriminate].
    inversion Hc; inversion Hv; reflexivity.
  - inversion Hc; subst. clear Hc. revert cells Hv. induction out as [|c out IH]; intros cells Hv; cbn in Hv.
    + inversion Hv; reflexivity.
    + destruct (value (fst c)); [|discriminate].
      destruct (star_values value out) as [l|] eqn:E; [|discriminate].
      inversion Hv; subst. cbn. f_equal. apply IH. reflexivity.
  - match type of Hv with context [value ?x] => destruct (value x); [|discriminate] end.
    inversion Hc; inversion Hv; reflexivity.
  - inversion Hc; inversion Hv; reflexivity.
  - destruct (selector_columns table cols inner) as [o|] eqn:E; [|discriminate]. inversion Hc; subst.
    rewrite map_length. apply IH; [reflexivity|exact Hv].
Qed.

Lemma filter_width table cols value sels : forall out cells,
  filter_columns table cols sels = Some out -> filter_values cols value sels = Some cells -> length cells = length out.
Proof.
  induction sels as [|s sels IH]; intros out cells Hc Hv; cbn in *.
  - inversion Hc; inversion Hv; reflexivity.
  - destruct (selector_columns table cols s) as [a|] eqn:Ea; [|discriminate].
    destruct (filter_columns table cols sels) as [b|] eqn:Eb; [|discriminate].
    destruct (selector_values cols value s) as [a'|] eqn:Ea'; [|discriminate].
    destruct (filter_values cols value sels) as [b'|] eqn:Eb'; [|discriminate].
    inversion Hc; inversion Hv; subst. rewrite !app_length.
    rewrite (selector_width _ _ _ _ _ _ Ea Ea'). rewrite (IH b b' eq_refl eq_refl). reflexivity.
Qed.

Lemma all_some_length {A} (l : list (option A)) r : all_some l = Some r -> length r = length l.
Proof.
  revert r. induction l as [|[x|] l IH]; intros r H; cbn in H; try discriminate.
  - inversion H; reflexivity.
  - destruct (all_some l) as [r'|]; [|discriminate]. inversion H; subst. cbn. f_equal. apply IH. reflexivity.
Qed.

Lemma all_some_forall {A} (P : A -> Prop) (l : list (option A)) r :
  all_some l = Some r -> (forall x, In (Some x) l -> P x) -> Forall P r.
Proof.
  revert r. induction l as [|[x|] l IH]; intros r H HP; cbn in H; try discriminate.
  - inversion H; constructor.
  - destruct (all_some l) as [r'|]; [|discriminate]. inversion H; subst. constructor.
    + apply HP. left; reflexivity.
    + apply IH; [reflexivity|]. intros y Hy. apply HP. right; exact Hy.
Qed.

(** system.local: one row; system.peers: one row per node other than this proxy; every row as
    wide as the metadata *)
Theorem local_one_row c nodes sels out rows :
  answer_select c nodes (str "local") sels = ARows out rows ->
  exists row, rows = [row] /\ length row = length out.
Proof.
  unfold answer_select.
  replace (bytes_eqb (str "local") (str "local")) with true by reflexivity.
  set (cols := if match c_dse c with [] => false | _ => true end then cols_DseSystemLocalColumns else cols_SystemLocalColumns).
  destruct (filter_columns (str "local") cols sels) as [o|] eqn:Ec; [|discriminate].
  destruct (filter_values cols _ sels) as [row|] eqn:Ev; [|discriminate].
  intro H; inversion H; subst. exists row. split; [reflexivity|]. eapply filter_width; eauto.
Qed.

Theorem peers_rows c nodes sels out rows :
  answer_select c nodes (str "peers") sels = ARows out rows ->
  length rows = length (filter (fun n => negb (n_local n)) nodes) /\ Forall (fun row => length row = length out) rows.
Proof.
  unfold answer_select.
  replace (bytes_eqb (str "peers") (str "local")) with false by reflexivity.
  replace (bytes_eqb (str "peers") (str "peers")) with true by reflexivity.
  set (cols := if match c_dse c with [] => false | _ => true end then cols_DseSystemPeersColumns else cols_SystemPeersColumns).
  destruct (filter_columns (str "peers") cols sels) as [o|] eqn:Ec; [|discriminate].
  destruct (all_some _) as [rs|] eqn:Ea; [|discriminate].
  intro H; inversion H; subst. split.
  - rewrite (all_some_length _ _ Ea). rewrite map_length. reflexivity.
  - eapply all_some_forall; [exact Ea|]. intros row Hin. apply in_map_iff in Hin. destruct Hin as (p & Hp & _).
    eapply filter_width; eauto.
Qed.

(** ** host ids are version-3, variant-10 UUIDs and a function of the address digest only *)
Lemma land_lor_nibble b : b < 256 -> N.lor (N.land b 15) 48 / 16 = 3.
Proof.
  intro H. assert (E : forall x, x < 256 -> N.lor (N.land x 15) 48 / 16 = 3).
  { intros x Hx. assert (Hall : forallb (fun y => N.lor (N.land y 15) 48 / 16 =? 3) (map N.of_nat (seq 0 256)) = true) by (vm_compute; reflexivity).
    rewrite forallb_forall in Hall. apply N.eqb_eq. apply Hall. apply in_map_iff. exists (N.to_nat x).
    split; [apply N2Nat.id|]. apply in_seq. lia. }
  apply E. exact H.
Qed.

Lemma land_lor_variant b : b < 256 -> 128 <= N.lor (N.land b 63) 128 < 192.
Proof.
  intro H.
  assert (Hall : forallb (fun y => (128 <=? N.lor (N.land y 63) 128) && (N.lor (N.land y 63) 128 <? 192)) (map N.of_nat (seq 0 256)) = true) by (vm_compute; reflexivity).
  rewrite forallb_forall in Hall.
  assert (Hin : In b (map N.of_nat (seq 0 256))).
  { apply in_map_iff. exists (N.to_nat b). split; [apply N2Nat.id|]. apply in_seq. lia. }
  specialize (Hall b Hin). apply andb_true_iff in Hall. destruct Hall as [A B].
  apply N.leb_le in A. apply N.ltb_lt in B. lia.
Qed.

Theorem uuid_is_version3 d :
  length d = 16%nat -> wf_bytes d ->
  length (uuid_of_md5 d) = 16%nat /\ nth 6 (uuid_of_md5 d) 0 / 16 = 3 /\ 128 <= nth 8 (uuid_of_md5 d) 0 < 192.
Proof.
  intros Hl Hw.
  do 9 (destruct d as [|? d]; [discriminate|]).
  cbn [uuid_of_md5 nth length]. split; [exact Hl|].
  unfold wf_bytes in Hw.
  repeat match goal with H : Forall _ (_ :: _) |- _ => inversion H; clear H; subst end.
  split; [apply land_lor_nibble; assumption|apply land_lor_variant; assumption].
Qed.

(** ** tokens: start at the minimum, strictly increase in address order, stay in range *)
Theorem tokens_start_increase_in_range num_peers i j :
  (0 < num_peers)%nat -> (Z.of_nat num_peers < 4294967296)%Z -> (i < j <= num_peers)%nat ->
  nth_token num_peers 0 = min_token /\
  (nth_token num_peers i < nth_token num_peers j)%Z /\
  (min_token <= nth_token num_peers i)%Z /\ (nth_token num_peers j <= 9223372036854775807)%Z.
Proof.
  intros Hn Hnb Hij. unfold nth_token, token_step, min_token, max_uint64.
  set (n := Z.of_nat num_peers).
  assert (Hn1 : (0 < n < 4294967296)%Z) by (unfold n; lia).
  set (q := (18446744073709551615 / (n + 1))%Z).
  assert (Hq : (q * (n + 1) <= 18446744073709551615)%Z).
  { unfold q. rewrite Z.mul_comm. apply Z.mul_div_le. lia. }
  assert (Hq0 : (0 <= q)%Z) by (unfold q; apply Z.div_pos; lia).
  split; [lia|]. split; [nia|]. split; [nia|].
  assert (Hj : (Z.of_nat j <= n)%Z) by (unfold n; lia).
  assert ((Z.of_nat j * (q + 1) <= n * (q + 1))%Z) by nia.
  assert ((n * (q + 1) <= 18446744073709551615 - q + n)%Z) by nia.
  assert ((n <= q)%Z).
  { unfold q. apply Z.div_le_lower_bound; [lia|]. nia. }
  lia.
Qed.
