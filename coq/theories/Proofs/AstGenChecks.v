(** * AstGenChecks: the sampler of Model/AstGen.v evaluated (by [vm_compute]) on a range of seeds:
    the printed text lexes back to the printed tokens, the classifier agrees with [cls_stmt] on the
    well-formed samples, [cls_stmt] implies [doc_idem_stmt], and every constructor of the syntax is
    reached. *)
From Coq Require Import List NArith Bool.
From CqlProxy Require Import Lib.Val Lib.Util Gen.LexRules Gen.Tables Model.Lexer Model.Parser Model.Ast Model.AstGen.
Import ListNotations.
Local Open Scope N_scope.

Definition tok_eqb (a b : tok) : bool := (t_code a =? t_code b) && bytes_eqb (t_text a) (t_text b).

Fixpoint seeds (n : nat) (s : N) : list N := match n with O => [] | S k => s :: seeds k (s + 1) end.

Definition sample_ok (seed : N) : bool :=
  let st := gen_stmt seed in
  let ts := tokens_of_stmt st in
  let v := is_idempotent_tokens ts in
  list_eqb tok_eqb (tokenize (text_of_tokens ts)) ts &&
  (negb (wf_stmt_b st) || (Bool.eqb (cls_stmt st) (fst v) && (negb (fst v) || (snd v =? 0)))) &&
  (negb (cls_stmt st) || doc_idem_stmt st) &&
  (negb (plain_stmt st) || cls_stmt st) &&
  (negb (fst v) || doc_idem_stmt st).

Example samples_ok : forallb sample_ok (seeds 150 0) = true.
Proof. vm_compute. reflexivity. Qed.

(** ** constructor coverage *)
Definition tg_bind (b : bindm) : list N := match b with BQ => [1] | BN _ => [2] end.
Definition tg_ctype (c : ctype) : list N := match c with CSimple _ => [3] | CParam _ _ => [4] end.
Definition tg_ks (k : option bytes) : list N := match k with None => [5] | Some _ => [6] end.

Fixpoint tg_term (t : term) : list N :=
  match t with
  | TInt => [10] | TPrim _ => [11] | TBind b => 12 :: tg_bind b
  | TList es => 13 :: tg_terms es | TSet es => 14 :: tg_terms es | TMap kvs => 15 :: tg_entries kvs
  | TUdt fs => 16 :: tg_fields fs | TTuple es => 17 :: tg_terms es
  | TCast ty t => 18 :: tg_ctype ty ++ tg_term t
  | TFun ks _ a => 19 :: tg_ks ks ++ tg_fargs a
  end
with tg_terms (es : terms) : list N := match es with TNil => [] | TCons e r => tg_term e ++ tg_terms r end
with tg_entries (es : entries) : list N := match es with ENil => [] | ECons k v r => 20 :: tg_term k ++ tg_term v ++ tg_entries r end
with tg_fields (es : fields) : list N := match es with FNil => [] | FCons _ v r => 21 :: tg_term v ++ tg_fields r end
with tg_fargs (es : fargs) : list N :=
  match es with ANil => [] | ATerm t r => 22 :: tg_term t ++ tg_fargs r | AIdent _ r => 23 :: tg_fargs r end.

Fixpoint tg_relation (r : relation) : list N :=
  match r with
  | RCmp _ _ t => 30 :: tg_term t | RIn _ es => 31 :: tg_terms es | RInBind _ b => 32 :: tg_bind b
  | RContains _ k t => (if k then 33 else 34) :: tg_term t | RLike _ t => 35 :: tg_term t | RIsNotNull _ => [36]
  | RIndex _ i _ t => 37 :: tg_term i ++ tg_term t | RToken _ _ t => 38 :: tg_term t
  | RTuple _ o es => 39 :: (match o with None => 50 | Some _ => 51 end) :: tg_terms es
  | RTupleBind _ _ b => 40 :: tg_bind b | RParen r => 41 :: tg_relation r
  end.

Definition tg_update_op (o : update_op) : list N :=
  match o with
  | USet _ t => 60 :: tg_term t | UAdd _ _ t => 61 :: tg_term t | USub _ _ t => 62 :: tg_term t
  | UPrepend _ t _ => 63 :: tg_term t | UAddEq _ t => 64 :: tg_term t | USubEq _ t => 65 :: tg_term t
  | UIndex _ i t => 66 :: tg_term i ++ tg_term t | UField _ _ t => 67 :: tg_term t
  end.
Definition tg_delete_op (o : delete_op) : list N :=
  match o with DCol _ => [70] | DIndex _ i => 71 :: tg_term i | DField _ _ => [72] end.
Definition tg_uval (v : uval) : list N := match v with UVInt => [73] | UVBind b => 74 :: tg_bind b end.
Definition tg_uitem (i : using_item) : list N := match i with UTtl v => 75 :: tg_uval v | UTimestamp v => 76 :: tg_uval v end.
Definition tg_using (u : usingc) : list N :=
  match u with None => [77] | Some (a, None) => 78 :: tg_uitem a | Some (a, Some b) => 79 :: tg_uitem a ++ tg_uitem b end.
Definition tg_if (i : ifclause) : list N := match i with None => [80] | Some _ => [81] end.
Definition tg_semi (b : bool) : list N := if b then [82] else [83].

Definition tg_dml (d : dml) : list N :=
  match d with
  | DInsert q _ vals ifc u s => 90 :: tg_ks (fst q) ++ tg_terms vals ++ tg_if ifc ++ tg_using u ++ tg_semi s
  | DInsertJson q j ifc u s => 91 :: (match j with JString => [84] | JBind b => 85 :: tg_bind b end) ++ tg_if ifc ++ tg_using u ++ tg_semi s
  | DUpdate q u ops w ifc s => 92 :: tg_using u ++ flat_map tg_update_op ops ++ flat_map tg_relation w ++ tg_if ifc ++ tg_semi s
  | DDelete ops q u w ifc s => 93 :: tg_using u ++ flat_map tg_delete_op ops ++ flat_map tg_relation w ++ tg_if ifc ++ tg_semi s
  end.

Definition tg_stmt (s : stmt) : list N :=
  match s with
  | SDml d => 100 :: tg_dml d
  | SBatch k u ch s => 101 :: (match k with BLogged => 102 | BUnlogged => 103 | BCounter => 104 end) :: tg_using u ++ flat_map tg_dml ch ++ tg_semi s
  | SSelect _ => [105]
  end.

Definition all_tags : list N :=
  [1;2;3;4;5;6; 10;11;12;13;14;15;16;17;18;19;20;21;22;23; 30;31;32;33;34;35;36;37;38;39;40;41;50;51;
   60;61;62;63;64;65;66;67; 70;71;72;73;74;75;76;77;78;79;80;81;82;83;84;85; 90;91;92;93; 100;101;102;103;104;105].

Fixpoint mark_tags (seen : list N) (l : list N) : list N :=
  match l with [] => seen | t :: r => mark_tags (if existsb (N.eqb t) seen then seen else t :: seen) r end.

Definition covered (n : nat) : bool :=
  let seen := fold_left (fun acc s => mark_tags acc (tg_stmt (gen_stmt s))) (seeds n 0) [] in
  forallb (fun t => existsb (N.eqb t) seen) all_tags.

Example every_constructor_is_reached : covered 300 = true.
Proof. vm_compute. reflexivity. Qed.

(** now()/uuid() calls occur at every nesting depth up to 5 below the statement level *)
Fixpoint call_depths (d : N) (t : term) : list N :=
  match t with
  | TInt | TPrim _ | TBind _ => []
  | TList es | TSet es | TTuple es => cd_terms (d + 1) es
  | TMap kvs => cd_entries (d + 1) kvs
  | TUdt fs => cd_fields (d + 1) fs
  | TCast _ t => call_depths (d + 1) t
  | TFun ks n a => (if names_nonidem_function ks n then [d] else []) ++ cd_fargs (d + 1) a
  end
with cd_terms (d : N) (es : terms) : list N := match es with TNil => [] | TCons e r => call_depths d e ++ cd_terms d r end
with cd_entries (d : N) (es : entries) : list N := match es with ENil => [] | ECons k v r => call_depths d k ++ call_depths d v ++ cd_entries d r end
with cd_fields (d : N) (es : fields) : list N := match es with FNil => [] | FCons _ v r => call_depths d v ++ cd_fields d r end
with cd_fargs (d : N) (es : fargs) : list N := match es with ANil => [] | ATerm t r => call_depths d t ++ cd_fargs d r | AIdent _ r => cd_fargs d r end.

Definition dml_call_depths (d : dml) : list N :=
  match d with
  | DInsert _ _ vals _ _ _ => cd_terms 0 vals
  | DUpdate _ _ ops _ _ _ => flat_map (fun o => match o with USet _ t | UAdd _ _ t | UPrepend _ t _ => call_depths 0 t | _ => [] end) ops
  | _ => []
  end.
Definition stmt_call_depths (s : stmt) : list N :=
  match s with SDml d => dml_call_depths d | SBatch _ _ ch _ => flat_map dml_call_depths ch | SSelect _ => [] end.

Example calls_at_every_depth :
  let seen := fold_left (fun acc s => mark_tags acc (stmt_call_depths (gen_stmt s))) (seeds 300 0) [] in
  forallb (fun t => existsb (N.eqb t) seen) [0; 1; 2; 3; 4] = true.
Proof. vm_compute. reflexivity. Qed.
