(** The hand-written [downgrade] of Model/Handshake.v against the table the translator (harness/cmd/vx, `downgradeChain`)
    extracts from proxycore ClientConn.handshake on every run. *)
From Coq Require Import List NArith Bool Lia.
From CqlProxy Require Import Lib.Val Gen.Tables Model.Handshake.
Import ListNotations.
Local Open Scope N_scope.

Definition gen_downgrade (v : N) : option N :=
  match find (fun kv => N.eqb (fst kv) v) handshake_downgrade_table with
  | Some (_, r) => r
  | None => Some ((v + 255) mod 256)
  end.

Definition opt_eqb (a b : option N) : bool :=
  match a, b with Some x, Some y => N.eqb x y | None, None => true | _, _ => false end.

Definition all_bytes_agree : bool := forallb (fun k => opt_eqb (downgrade (N.of_nat k)) (gen_downgrade (N.of_nat k))) (seq 0 256).

Lemma all_bytes_agree_true : all_bytes_agree = true.
Proof. vm_compute. reflexivity. Qed.

Theorem downgrade_is_what_the_source_says : forall v, v < 256 -> downgrade v = gen_downgrade v.
Proof.
  intros v Hv. pose proof all_bytes_agree_true as H. unfold all_bytes_agree in H. rewrite forallb_forall in H.
  specialize (H (N.to_nat v)). rewrite N2Nat.id in H.
  assert (Hin : In (N.to_nat v) (seq 0 256)) by (apply in_seq; lia).
  specialize (H Hin). unfold opt_eqb in H.
  destruct (downgrade v) as [x|], (gen_downgrade v) as [y|]; try discriminate; [|reflexivity].
  apply N.eqb_eq in H. subst. reflexivity.
Qed.
