(** Proofs about Model/SessionsConc.v: the concurrent session lookup / creation protocol (C07). *)
From Coq Require Import List Arith ZArith NArith Bool Lia.
From CqlProxy Require Import Lib.Val Lib.Util Model.Sessions Model.SessionsConc.
Import ListNotations.

(** ** keys and the table *)
Lemma ckey_eqb_eq a b : ckey_eqb a b = true <-> a = b.
Proof.
  destruct a as [v1 k1 c1], b as [v2 k2 c2]. unfold ckey_eqb. cbn [sk_version sk_keyspace sk_compression].
  rewrite !andb_true_iff, N.eqb_eq, !bytes_eqb_eq. split.
  - intros [[-> ->] ->]. reflexivity.
  - intro H. inversion H. auto.
Qed.

Lemma ckey_eqb_refl a : ckey_eqb a a = true.
Proof. apply ckey_eqb_eq. reflexivity. Qed.

Lemma ckey_eqb_neq a b : ckey_eqb a b = false <-> a <> b.
Proof.
  split.
  - intros H E. apply ckey_eqb_eq in E. congruence.
  - intro H. destruct (ckey_eqb a b) eqn:E; [apply ckey_eqb_eq in E; contradiction|reflexivity].
Qed.

Lemma clookup_In k t s : clookup k t = Some s -> In (k, s) t.
Proof.
  induction t as [|[k' s'] r IH]; cbn [clookup]; [discriminate|].
  destruct (ckey_eqb k k') eqn:E.
  - intro H. inversion H; subst. apply ckey_eqb_eq in E. subst. left. reflexivity.
  - intro H. right. auto.
Qed.

Lemma clookup_None k t : clookup k t = None <-> ~ In k (map fst t).
Proof.
  induction t as [|[k' s'] r IH]; cbn [clookup map fst In]; [tauto|].
  destruct (ckey_eqb k k') eqn:E.
  - apply ckey_eqb_eq in E. subst. split; [discriminate|]. intro H. exfalso. apply H. left. reflexivity.
  - apply ckey_eqb_neq in E. rewrite IH. split; [intros H [H1|H1]; [congruence|auto]|tauto].
Qed.

Lemma clookup_In_nodup k s t : NoDup (map fst t) -> In (k, s) t -> clookup k t = Some s.
Proof.
  induction t as [|[k' s'] r IH]; cbn [clookup map fst In]; [tauto|].
  intros Hnd [H|H].
  - inversion H; subst. rewrite ckey_eqb_refl. reflexivity.
  - inversion Hnd as [|? ? Hnotin Hnd']; subst. destruct (ckey_eqb k k') eqn:E.
    + apply ckey_eqb_eq in E. subst. exfalso. apply Hnotin. apply (in_map fst) in H. exact H.
    + auto.
Qed.

(** ** list_set *)
Lemma list_set_nth {A} (l : list A) i x j :
  nth_error (list_set l i x) j =
  if Nat.eqb j i then match nth_error l i with Some _ => Some x | None => None end else nth_error l j.
Proof.
  revert i j. induction l as [|y r IH]; intros i j.
  - cbn [list_set]. destruct j, i; cbn; try reflexivity. destruct (Nat.eqb j i); reflexivity.
  - destruct i as [|i], j as [|j]; cbn [list_set nth_error Nat.eqb]; try reflexivity. apply IH.
Qed.

Lemma list_set_length {A} (l : list A) i x : length (list_set l i x) = length l.
Proof. revert i. induction l as [|y r IH]; intro i; destruct i; cbn [list_set length]; auto. Qed.

Lemma list_set_same {A} (l : list A) i x y : nth_error l i = Some y -> nth_error (list_set l i x) i = Some x.
Proof. intro H. rewrite list_set_nth, Nat.eqb_refl, H. reflexivity. Qed.

Lemma list_set_other {A} (l : list A) i x j : j <> i -> nth_error (list_set l i x) j = nth_error l j.
Proof. intro H. rewrite list_set_nth. destruct (Nat.eqb_spec j i); [contradiction|reflexivity]. Qed.

(** ** finish_clients *)
Lemma finish_clients_length cs o : length (finish_clients cs o) = length cs.
Proof.
  destruct o as [c v|c v ks]; cbn [finish_clients]; [reflexivity|].
  destruct (nth_error cs c); [apply list_set_length|reflexivity].
Qed.

Lemma finish_clients_other cs o j : j <> op_client o -> nth_error (finish_clients cs o) j = nth_error cs j.
Proof.
  destruct o as [c v|c v ks]; cbn [finish_clients op_client]; [reflexivity|]. intro H.
  destruct (nth_error cs c); [apply list_set_other; exact H|reflexivity].
Qed.

Lemma finish_clients_request cs c v : finish_clients cs (OpRequest c v) = cs.
Proof. reflexivity. Qed.

Lemma finish_clients_use cs c v ks cl :
  nth_error cs c = Some cl ->
  nth_error (finish_clients cs (OpUse c v ks)) c = Some {| cl_keyspace := ks; cl_compression := cl_compression cl |}.
Proof. intro H. cbn [finish_clients]. rewrite H. apply (list_set_same _ _ _ cl). exact H. Qed.

Lemma finish_clients_compression cs o j :
  option_map cl_compression (nth_error (finish_clients cs o) j) = option_map cl_compression (nth_error cs j).
Proof.
  destruct o as [c v|c v ks]; cbn [finish_clients]; [reflexivity|].
  destruct (nth_error cs c) as [cl|] eqn:Hc; [|reflexivity].
  rewrite list_set_nth. destruct (Nat.eqb_spec j c) as [->|Hne]; [|reflexivity].
  rewrite Hc. reflexivity.
Qed.

(** ** client_busy *)
Lemma client_busy_true ts c :
  client_busy ts c = true <-> exists j t, nth_error ts j = Some t /\ op_client (t_op t) = c /\ in_flight (t_pc t) = true.
Proof.
  unfold client_busy. rewrite existsb_exists. split.
  - intros (t & Hin & H). apply andb_true_iff in H. destruct H as [H1 H2]. apply Nat.eqb_eq in H1.
    apply In_nth_error in Hin. destruct Hin as [j Hj]. exists j, t. auto.
  - intros (j & t & Hj & H1 & H2). exists t. split; [eapply nth_error_In; eauto|].
    rewrite H2, andb_true_r. apply Nat.eqb_eq. exact H1.
Qed.

Lemma client_busy_false ts c j t :
  client_busy ts c = false -> nth_error ts j = Some t -> op_client (t_op t) = c -> in_flight (t_pc t) = false.
Proof.
  intros Hb Hj Hc. destruct (in_flight (t_pc t)) eqn:E; [|reflexivity].
  assert (client_busy ts c = true) by (apply client_busy_true; eauto). congruence.
Qed.

(** ** the transition relation of the proxy ([ko = false]): what an effective step of thread [i],
    currently [t], does.  [sc_step false] is this relation, or a no-op ([sc_step_cases]). *)
Definition mkst (st : sc_state) (i : nat) (cs : list client) (tb : ctable) (mu : option nat) (t' : cthread)
  (nx : nat) (cn : list csession) : sc_state :=
  {| st_clients := cs; st_table := tb; st_mu := mu; st_threads := list_set (st_threads st) i t';
     st_next := nx; st_connected := cn |}.

Inductive sc_trans (st : sc_state) (i : nat) (t : cthread) : sc_state -> Prop :=
| TStart cl :
    t_pc t = PIdle -> nth_error (st_clients st) (op_client (t_op t)) = Some cl ->
    client_busy (st_threads st) (op_client (t_op t)) = false ->
    sc_trans st i t (mkst st i (st_clients st) (st_table st) (st_mu st)
                       {| t_op := t_op t; t_key := op_key cl (t_op t); t_pc := PLookup1 |} (st_next st) (st_connected st))
| TLookup1Hit s :
    t_pc t = PLookup1 -> clookup (t_key t) (st_table st) = Some s ->
    sc_trans st i t (mkst st i (finish_clients (st_clients st) (t_op t)) (st_table st) (st_mu st)
                       (set_pc t (PDone s)) (st_next st) (st_connected st))
| TLookup1Miss :
    t_pc t = PLookup1 -> clookup (t_key t) (st_table st) = None ->
    sc_trans st i t (mkst st i (st_clients st) (st_table st) (st_mu st) (set_pc t PWaitCreate) (st_next st) (st_connected st))
| TAcquire :
    t_pc t = PWaitCreate -> st_mu st = None ->
    sc_trans st i t (mkst st i (st_clients st) (st_table st) (Some i) (set_pc t PLookup2) (st_next st) (st_connected st))
| TLookup2Hit s :
    t_pc t = PLookup2 -> clookup (t_key t) (st_table st) = Some s ->
    sc_trans st i t (mkst st i (finish_clients (st_clients st) (t_op t)) (st_table st) None
                       (set_pc t (PDone s)) (st_next st) (st_connected st))
| TLookup2Miss :
    t_pc t = PLookup2 -> clookup (t_key t) (st_table st) = None ->
    sc_trans st i t (mkst st i (st_clients st) (st_table st) (st_mu st) (set_pc t PConnecting) (st_next st) (st_connected st))
| TConnectOk :
    t_pc t = PConnecting ->
    sc_trans st i t (mkst st i (st_clients st) (st_table st) (st_mu st)
                       (set_pc t (PStore {| s_key := t_key t; s_serial := st_next st |}))
                       (S (st_next st)) ({| s_key := t_key t; s_serial := st_next st |} :: st_connected st))
| TConnectFail :
    t_pc t = PConnecting ->
    sc_trans st i t (mkst st i (st_clients st) (st_table st) None (set_pc t PFailed) (st_next st) (st_connected st))
| TStore s :
    t_pc t = PStore s ->
    sc_trans st i t (mkst st i (finish_clients (st_clients st) (t_op t)) ((t_key t, s) :: st_table st) None
                       (set_pc t (PDone s)) (st_next st) (st_connected st)).

Lemma sc_step_cases st e :
  sc_step false st e = st \/
  exists t, nth_error (st_threads st) (ev_tid e) = Some t /\ sc_trans st (ev_tid e) t (sc_step false st e).
Proof.
  unfold sc_step; cbv zeta.
  destruct (nth_error (st_threads st) (ev_tid e)) as [t|] eqn:Ht; [|left; reflexivity].
  destruct (t_pc t) eqn:Hpc.
  - destruct (nth_error (st_clients st) (op_client (t_op t))) as [cl|] eqn:Hcl; [|left; reflexivity].
    destruct (client_busy (st_threads st) (op_client (t_op t))) eqn:Hbusy; [left; reflexivity|].
    right. exists t. split; [reflexivity|]. apply (TStart st (ev_tid e) t cl); assumption.
  - right. exists t. split; [reflexivity|].
    destruct (clookup (t_key t) (st_table st)) as [s|] eqn:Hlk.
    + apply (TLookup1Hit st (ev_tid e) t s); assumption.
    + apply (TLookup1Miss st (ev_tid e) t); assumption.
  - destruct (st_mu st) as [h|] eqn:Hmu; [left; reflexivity|].
    right. exists t. split; [reflexivity|]. apply (TAcquire st (ev_tid e) t); assumption.
  - right. exists t. split; [reflexivity|].
    destruct (clookup (t_key t) (st_table st)) as [s|] eqn:Hlk.
    + apply (TLookup2Hit st (ev_tid e) t s); assumption.
    + apply (TLookup2Miss st (ev_tid e) t); assumption.
  - right. exists t. split; [reflexivity|].
    destruct (ev_ok e).
    + apply (TConnectOk st (ev_tid e) t); assumption.
    + apply (TConnectFail st (ev_tid e) t); assumption.
  - right. exists t. split; [reflexivity|]. apply (TStore st (ev_tid e) t s); assumption.
  - left; reflexivity.
  - left; reflexivity.
Qed.

(** conversely every transition is a step of the function (with the right environment choice) *)
Lemma sc_trans_step st i t st' :
  nth_error (st_threads st) i = Some t -> sc_trans st i t st' ->
  exists ok, sc_step false st {| ev_tid := i; ev_ok := ok |} = st'.
Proof.
  intros Ht Htr. destruct Htr as [cl Hpc Hcl Hb|s Hpc Hlk|Hpc Hlk|Hpc Hmu|s Hpc Hlk|Hpc Hlk|Hpc|Hpc|s Hpc].
  all: try (exists true; unfold sc_step; cbv zeta; cbn [ev_tid ev_ok]; rewrite Ht, Hpc;
            try rewrite Hcl; try rewrite Hb; try rewrite Hlk; try rewrite Hmu; reflexivity).
  exists false; unfold sc_step; cbv zeta; cbn [ev_tid ev_ok]; rewrite Ht, Hpc. reflexivity.
Qed.

(** ** the invariant of reachable states *)
Record sc_inv (st : sc_state) : Prop := {
  inv_table_sound : table_sound (st_table st);
  inv_table_nodup : NoDup (map fst (st_table st));
  inv_mu_thread : forall i, st_mu st = Some i -> exists t, nth_error (st_threads st) i = Some t /\ in_cs (t_pc t) = true;
  inv_cs_mu : forall i t, nth_error (st_threads st) i = Some t -> in_cs (t_pc t) = true -> st_mu st = Some i;
  inv_client_valid : forall i t, nth_error (st_threads st) i = Some t -> op_client (t_op t) < length (st_clients st);
  inv_one_op : forall i j ti tj, nth_error (st_threads st) i = Some ti -> nth_error (st_threads st) j = Some tj ->
      in_flight (t_pc ti) = true -> in_flight (t_pc tj) = true -> op_client (t_op ti) = op_client (t_op tj) -> i = j;
  inv_key : forall i t cl, nth_error (st_threads st) i = Some t -> in_flight (t_pc t) = true ->
      nth_error (st_clients st) (op_client (t_op t)) = Some cl -> t_key t = op_key cl (t_op t);
  inv_miss : forall i t, nth_error (st_threads st) i = Some t -> (t_pc t = PConnecting \/ exists s, t_pc t = PStore s) ->
      clookup (t_key t) (st_table st) = None;
  inv_store : forall i t s, nth_error (st_threads st) i = Some t -> t_pc t = PStore s -> s_key s = t_key t;
  inv_done : forall i t s, nth_error (st_threads st) i = Some t -> t_pc t = PDone s -> clookup (t_key t) (st_table st) = Some s;
  inv_connected : forall s, In s (st_connected st) ->
      clookup (s_key s) (st_table st) = Some s \/ exists i t, nth_error (st_threads st) i = Some t /\ t_pc t = PStore s;
  inv_connected_nodup : NoDup (map s_key (st_connected st));
  inv_serial : forall s, In s (st_connected st) -> s_serial s < st_next st
}.

(** what every transition has in common *)
Record trans_sum (st : sc_state) (i : nat) (t : cthread) (st' : sc_state) (t' : cthread) : Prop := {
  ts_threads : st_threads st' = list_set (st_threads st) i t';
  ts_op : t_op t' = t_op t;
  ts_mu : (st_mu st' = st_mu st /\ in_cs (t_pc t') = in_cs (t_pc t))
          \/ (st_mu st = None /\ st_mu st' = Some i /\ in_cs (t_pc t) = false /\ in_cs (t_pc t') = true)
          \/ (st_mu st' = None /\ in_cs (t_pc t) = true /\ in_cs (t_pc t') = false);
  ts_clients : st_clients st' = st_clients st
               \/ (st_clients st' = finish_clients (st_clients st) (t_op t) /\ in_flight (t_pc t) = true /\ in_flight (t_pc t') = false);
  ts_flight : in_flight (t_pc t') = true ->
              (in_flight (t_pc t) = true /\ t_key t' = t_key t)
              \/ (client_busy (st_threads st) (op_client (t_op t)) = false /\ st_clients st' = st_clients st /\
                  exists cl, nth_error (st_clients st) (op_client (t_op t)) = Some cl /\ t_key t' = op_key cl (t_op t))
}.

Lemma sc_trans_sum st i t st' : sc_trans st i t st' -> exists t', trans_sum st i t st' t'.
Proof.
  intro Htr. destruct Htr as [cl Hpc Hcl Hb|s Hpc Hlk|Hpc Hlk|Hpc Hmu|s Hpc Hlk|Hpc Hlk|Hpc|Hpc|s Hpc];
    (eexists; constructor; unfold mkst; cbn [st_clients st_table st_mu st_threads st_next st_connected];
     [reflexivity|reflexivity|..]); cbn [set_pc t_pc t_op t_key]; rewrite Hpc; cbn [in_cs in_flight]; auto.
  - intros _. right. split; [exact Hb|]. split; [reflexivity|]. exists cl. auto.
  - right. left. auto.
Qed.

Ltac sc_thr Ht :=
  repeat match goal with
  | H : nth_error (list_set _ ?i _) ?j = Some _ |- _ =>
      rewrite list_set_nth in H; destruct (Nat.eqb_spec j i) as [?|?];
      [subst j; rewrite Ht in H; inversion H; subst; clear H | ]
  end.

Lemma inv_step_mutex st i t st' t' :
  sc_inv st -> nth_error (st_threads st) i = Some t -> trans_sum st i t st' t' ->
  (forall h, st_mu st' = Some h -> exists th, nth_error (st_threads st') h = Some th /\ in_cs (t_pc th) = true) /\
  (forall j tj, nth_error (st_threads st') j = Some tj -> in_cs (t_pc tj) = true -> st_mu st' = Some j).
Proof.
  intros Hinv Ht Hs. rewrite (ts_threads _ _ _ _ _ Hs).
  destruct (ts_mu _ _ _ _ _ Hs) as [[Hmu Hcs]|[(Hmu & Hmu' & Hcs & Hcs')|(Hmu' & Hcs & Hcs')]]; split.
  - intros h Hh. rewrite Hmu in Hh. destruct (inv_mu_thread _ Hinv h Hh) as (th & Hth & Hin).
    rewrite list_set_nth. destruct (Nat.eqb_spec h i) as [->|Hne].
    + rewrite Ht. exists t'. split; [reflexivity|]. rewrite Hcs. congruence.
    + exists th. auto.
  - intros j tj Hj Hin. rewrite Hmu. sc_thr Ht.
    + apply (inv_cs_mu _ Hinv i t Ht). congruence.
    + apply (inv_cs_mu _ Hinv j tj Hj Hin).
  - intros h Hh. rewrite Hmu' in Hh. inversion Hh; subst h. rewrite (list_set_same _ _ _ t Ht). eauto.
  - intros j tj Hj Hin. rewrite Hmu'. sc_thr Ht; [reflexivity|].
    pose proof (inv_cs_mu _ Hinv j tj Hj Hin). congruence.
  - intros h Hh. congruence.
  - intros j tj Hj Hin. sc_thr Ht; [congruence|].
    pose proof (inv_cs_mu _ Hinv j tj Hj Hin) as H1. pose proof (inv_cs_mu _ Hinv i t Ht Hcs) as H2. congruence.
Qed.

Lemma trans_clients_length st i t st' t' : trans_sum st i t st' t' -> length (st_clients st') = length (st_clients st).
Proof.
  intro Hs. destruct (ts_clients _ _ _ _ _ Hs) as [H|[H _]]; rewrite H; [reflexivity|apply finish_clients_length].
Qed.

Lemma inv_step_clients st i t st' t' :
  sc_inv st -> nth_error (st_threads st) i = Some t -> trans_sum st i t st' t' ->
  (forall j tj, nth_error (st_threads st') j = Some tj -> op_client (t_op tj) < length (st_clients st')) /\
  (forall j k tj tk, nth_error (st_threads st') j = Some tj -> nth_error (st_threads st') k = Some tk ->
      in_flight (t_pc tj) = true -> in_flight (t_pc tk) = true -> op_client (t_op tj) = op_client (t_op tk) -> j = k) /\
  (forall j tj cl, nth_error (st_threads st') j = Some tj -> in_flight (t_pc tj) = true ->
      nth_error (st_clients st') (op_client (t_op tj)) = Some cl -> t_key tj = op_key cl (t_op tj)).
Proof.
  intros Hinv Ht Hs. rewrite (trans_clients_length _ _ _ _ _ Hs), (ts_threads _ _ _ _ _ Hs).
  pose proof (ts_op _ _ _ _ _ Hs) as Hop.
  assert (Hone' : forall k tk, nth_error (st_threads st) k = Some tk -> k <> i -> in_flight (t_pc t') = true ->
                    in_flight (t_pc tk) = true -> op_client (t_op t) = op_client (t_op tk) -> False).
  { intros k tk Hk Hne Hf' Hfk Hc. destruct (ts_flight _ _ _ _ _ Hs Hf') as [[Hf _]|[Hb _]].
    - apply Hne. symmetry. apply (inv_one_op _ Hinv i k t tk Ht Hk Hf Hfk Hc).
    - pose proof (client_busy_false _ _ k tk Hb Hk (eq_sym Hc)). congruence. }
  split; [|split].
  - intros j tj Hj. sc_thr Ht; [rewrite Hop|]; eapply inv_client_valid; eauto.
  - intros j k tj tk Hj Hk Hfj Hfk Hc. sc_thr Ht; try reflexivity.
    + exfalso. rewrite Hop in Hc. eapply (Hone' j tj); eauto.
    + exfalso. rewrite Hop in Hc. eapply (Hone' k tk); eauto.
    + eapply (inv_one_op _ Hinv j k); eauto.
  - intros j tj cl Hj Hfj Hcl. sc_thr Ht.
    + rewrite Hop in *. destruct (ts_flight _ _ _ _ _ Hs Hfj) as [[Hf Hk]|(Hb & Hcs & cl0 & Hcl0 & Hk)].
      * rewrite Hk. destruct (ts_clients _ _ _ _ _ Hs) as [Hc|(_ & _ & Hc)]; [|congruence].
        rewrite Hc in Hcl. apply (inv_key _ Hinv i t cl Ht Hf Hcl).
      * rewrite Hcs in Hcl. congruence.
    + destruct (ts_clients _ _ _ _ _ Hs) as [Hc|(Hc & Hf & _)]; rewrite Hc in Hcl.
      * apply (inv_key _ Hinv j tj cl Hj Hfj Hcl).
      * destruct (Nat.eq_dec (op_client (t_op tj)) (op_client (t_op t))) as [Heq|Hne].
        -- exfalso. match goal with Hn : j <> i |- _ => apply Hn end. apply (inv_one_op _ Hinv j i tj t Hj Ht Hfj Hf Heq).
        -- rewrite finish_clients_other in Hcl by exact Hne. apply (inv_key _ Hinv j tj cl Hj Hfj Hcl).
Qed.

Lemma inv_two_in_cs st i j ti tj :
  sc_inv st -> nth_error (st_threads st) i = Some ti -> nth_error (st_threads st) j = Some tj ->
  in_cs (t_pc ti) = true -> in_cs (t_pc tj) = true -> i = j.
Proof.
  intros Hinv Hi Hj Hci Hcj.
  pose proof (inv_cs_mu _ Hinv i ti Hi Hci) as H1. pose proof (inv_cs_mu _ Hinv j tj Hj Hcj) as H2. congruence.
Qed.

Lemma store_witness_transfer (l : list cthread) i t t' s :
  nth_error l i = Some t -> t_pc t <> PStore s ->
  (exists j tj, nth_error l j = Some tj /\ t_pc tj = PStore s) ->
  exists j tj, nth_error (list_set l i t') j = Some tj /\ t_pc tj = PStore s.
Proof.
  intros Ht Hne (j & tj & Hj & Hpc). exists j, tj. split; [|exact Hpc].
  rewrite list_set_other; [exact Hj|]. intro E. subst j. congruence.
Qed.

Lemma clookup_cons_other k k' s tb r : clookup k' tb = None -> clookup k tb = Some r -> clookup k ((k', s) :: tb) = Some r.
Proof.
  intros Hn Hs. cbn [clookup]. destruct (ckey_eqb k k') eqn:E; [|exact Hs].
  apply ckey_eqb_eq in E. subst. congruence.
Qed.

Definition sessions_inv (st : sc_state) : Prop :=
  table_sound (st_table st) /\ NoDup (map fst (st_table st)) /\
  (forall i t, nth_error (st_threads st) i = Some t -> (t_pc t = PConnecting \/ exists s, t_pc t = PStore s) ->
      clookup (t_key t) (st_table st) = None) /\
  (forall i t s, nth_error (st_threads st) i = Some t -> t_pc t = PStore s -> s_key s = t_key t) /\
  (forall i t s, nth_error (st_threads st) i = Some t -> t_pc t = PDone s -> clookup (t_key t) (st_table st) = Some s) /\
  (forall s, In s (st_connected st) ->
      clookup (s_key s) (st_table st) = Some s \/ exists i t, nth_error (st_threads st) i = Some t /\ t_pc t = PStore s) /\
  NoDup (map s_key (st_connected st)) /\
  (forall s, In s (st_connected st) -> s_serial s < st_next st).

Ltac sc_pcs := cbn [set_pc t_pc t_op t_key] in *;
  repeat match goal with
  | H : _ \/ _ |- _ => destruct H
  | H : exists _, _ |- _ => destruct H
  end; try congruence.

Lemma inv_step_sessions st i t st' :
  sc_inv st -> nth_error (st_threads st) i = Some t -> sc_trans st i t st' -> sessions_inv st'.
Proof.
  intros Hinv Ht Htr. unfold sessions_inv.
  pose proof (inv_table_sound _ Hinv) as Hsound. pose proof (inv_table_nodup _ Hinv) as Hnd.
  pose proof (inv_miss _ Hinv) as Hmiss. pose proof (inv_store _ Hinv) as Hstore.
  pose proof (inv_done _ Hinv) as Hdone. pose proof (inv_connected _ Hinv) as Hconn.
  pose proof (inv_connected_nodup _ Hinv) as Hcnd. pose proof (inv_serial _ Hinv) as Hser.
  destruct Htr as [cl Hpc Hcl Hb|s Hpc Hlk|Hpc Hlk|Hpc Hmu|s Hpc Hlk|Hpc Hlk|Hpc|Hpc|s Hpc];
    unfold mkst; cbn [st_clients st_table st_mu st_threads st_next st_connected].
  (* the eight transitions that leave table, connected and next alone, except TConnectOk and TStore *)
  1-6,8: (repeat split; try assumption;
    [ intros j tj Hj Hp; sc_thr Ht; [sc_pcs|eapply Hmiss; eauto]
    | intros j tj s0 Hj Hp; sc_thr Ht; [sc_pcs|eapply Hstore; eauto]
    | intros j tj s0 Hj Hp; sc_thr Ht; [sc_pcs|eapply Hdone; eauto]
    | intros s0 Hin; destruct (Hconn s0 Hin) as [Hl|Hr]; [left; exact Hl|right; eapply store_witness_transfer; eauto; congruence] ]).
  - (* TConnectOk *)
    assert (Hfresh : ~ In (t_key t) (map s_key (st_connected st))).
    { intro Hin. apply in_map_iff in Hin. destruct Hin as (s0 & Hk & Hin).
      destruct (Hconn s0 Hin) as [Hl|(j & tj & Hj & Hp)].
      - rewrite Hk in Hl. rewrite (Hmiss i t Ht) in Hl; [discriminate|auto].
      - assert (i = j) by (eapply (inv_two_in_cs st i j t tj); eauto; [rewrite Hpc|rewrite Hp]; reflexivity).
        subst j. congruence. }
    repeat split; try assumption.
    + intros j tj Hj Hp. sc_thr Ht; [sc_pcs; eapply Hmiss; eauto|eapply Hmiss; eauto].
    + intros j tj s0 Hj Hp. sc_thr Ht; [sc_pcs; inversion Hp; reflexivity|eapply Hstore; eauto].
    + intros j tj s0 Hj Hp. sc_thr Ht; [sc_pcs|eapply Hdone; eauto].
    + intros s0 [Heq|Hin].
      * subst s0. right. exists i. eexists. split; [apply (list_set_same _ _ _ t Ht)|reflexivity].
      * destruct (Hconn s0 Hin) as [Hl|Hr]; [left; exact Hl|right; eapply store_witness_transfer; eauto; congruence].
    + cbn [map s_key]. constructor; assumption.
    + intros s0 [Heq|Hin]; [subst s0; cbn [s_serial]; lia|]. specialize (Hser s0 Hin). lia.
  - (* TStore *)
    assert (Hk : s_key s = t_key t) by (eapply Hstore; eauto).
    assert (Hnone : clookup (t_key t) (st_table st) = None) by (eapply Hmiss; eauto).
    assert (Hother : forall j tj, nth_error (st_threads st) j = Some tj -> j <> i -> in_cs (t_pc tj) = true -> False).
    { intros j tj Hj Hne Hc. apply Hne. eapply (inv_two_in_cs st j i tj t); eauto. rewrite Hpc. reflexivity. }
    repeat split; try assumption.
    + intros k0 s0 [Heq|Hin]; [inversion Heq; subst; exact Hk|apply Hsound; exact Hin].
    + cbn [map fst]. constructor; [apply clookup_None; exact Hnone|exact Hnd].
    + intros j tj Hj Hp. sc_thr Ht; [sc_pcs|]. exfalso. apply (Hother j tj Hj); [assumption|].
      destruct Hp as [Hp|[s0 Hp]]; rewrite Hp; reflexivity.
    + intros j tj s0 Hj Hp. sc_thr Ht; [sc_pcs|eapply Hstore; eauto].
    + intros j tj s0 Hj Hp. sc_thr Ht.
      * sc_pcs. inversion Hp; subst. cbn [clookup]. rewrite ckey_eqb_refl. reflexivity.
      * apply clookup_cons_other; [exact Hnone|eapply Hdone; eauto].
    + intros s0 Hin. left. destruct (Hconn s0 Hin) as [Hl|(j & tj & Hj & Hp)].
      * apply clookup_cons_other; assumption.
      * destruct (Nat.eq_dec j i) as [->|Hne].
        -- rewrite Ht in Hj. inversion Hj; subst tj. rewrite Hpc in Hp. inversion Hp; subst s0.
           rewrite Hk. cbn [clookup]. rewrite ckey_eqb_refl. reflexivity.
        -- exfalso. apply (Hother j tj Hj Hne). rewrite Hp. reflexivity.
Qed.

Lemma sc_trans_inv st i t st' :
  sc_inv st -> nth_error (st_threads st) i = Some t -> sc_trans st i t st' -> sc_inv st'.
Proof.
  intros Hinv Ht Htr.
  destruct (sc_trans_sum _ _ _ _ Htr) as [t' Hs].
  destruct (inv_step_mutex _ _ _ _ _ Hinv Ht Hs) as [Hm1 Hm2].
  destruct (inv_step_clients _ _ _ _ _ Hinv Ht Hs) as (Hc1 & Hc2 & Hc3).
  destruct (inv_step_sessions _ _ _ _ Hinv Ht Htr) as (H1 & H2 & H3 & H4 & H5 & H6 & H7 & H8).
  constructor; assumption.
Qed.

Theorem sc_step_inv st e : sc_inv st -> sc_inv (sc_step false st e).
Proof.
  intro Hinv. destruct (sc_step_cases st e) as [Heq|(t & Ht & Htr)]; [rewrite Heq; exact Hinv|].
  eapply sc_trans_inv; eauto.
Qed.

Theorem sc_run_inv evs : forall st, sc_inv st -> sc_inv (sc_run false st evs).
Proof. induction evs as [|e r IH]; intros st H; cbn [sc_run]; [exact H|]. apply IH, sc_step_inv, H. Qed.

Lemma sc_init_threads_nth cs tb ops i t :
  nth_error (st_threads (sc_init cs tb ops)) i = Some t ->
  exists o, nth_error ops i = Some o /\ t = {| t_op := o; t_key := no_key; t_pc := PIdle |}.
Proof.
  cbn [sc_init st_threads]. rewrite nth_error_map. destruct (nth_error ops i) as [o|]; cbn [option_map]; [|discriminate].
  intro H. inversion H. eauto.
Qed.

Theorem sc_init_inv cs tb ops : sc_init_ok cs tb ops -> sc_inv (sc_init cs tb ops).
Proof.
  intros (Hsound & Hnd & Hops).
  constructor; try (cbn [sc_init st_table st_mu st_connected In]; first [assumption|discriminate|tauto|constructor]).
  all: intros; repeat match goal with
       | H : nth_error (st_threads (sc_init _ _ _)) _ = Some _ |- _ =>
           apply sc_init_threads_nth in H; destruct H as (? & ? & ?); subst
       end; cbn [t_pc t_op t_key in_cs in_flight sc_init st_clients] in *; try discriminate.
  - rewrite Forall_forall in Hops. apply Hops. eapply nth_error_In; eauto.
  - destruct H0 as [H0|[s H0]]; discriminate.
Qed.

(** reachable states *)
Definition sc_reachable (st : sc_state) : Prop :=
  exists cs tb ops evs, sc_init_ok cs tb ops /\ st = sc_run false (sc_init cs tb ops) evs.

Theorem sc_reachable_inv st : sc_reachable st -> sc_inv st.
Proof. intros (cs & tb & ops & evs & Hok & ->). apply sc_run_inv, sc_init_inv, Hok. Qed.

Lemma sc_reachable_step st e : sc_reachable st -> sc_reachable (sc_step false st e).
Proof.
  intros (cs & tb & ops & evs & Hok & ->). exists cs, tb, ops, (evs ++ [e]). split; [exact Hok|].
  generalize (sc_init cs tb ops). induction evs as [|x r IH]; intro s0; cbn [sc_run app]; [reflexivity|apply IH].
Qed.

Lemma sc_run_app ko evs1 evs2 : forall st, sc_run ko st (evs1 ++ evs2) = sc_run ko (sc_run ko st evs1) evs2.
Proof. induction evs1 as [|x r IH]; intro st; cbn [sc_run app]; [reflexivity|apply IH]. Qed.

Lemma sc_reachable_run st evs : sc_reachable st -> sc_reachable (sc_run false st evs).
Proof. revert st. induction evs as [|e r IH]; intros st H; cbn [sc_run]; [exact H|]. apply IH, sc_reachable_step, H. Qed.

(** ** how a thread evolves *)
Lemma sc_step_thread st e j t :
  nth_error (st_threads st) j = Some t ->
  exists t', nth_error (st_threads (sc_step false st e)) j = Some t' /\ t_op t' = t_op t /\
             (t_pc t <> PIdle -> t_key t' = t_key t /\ t_pc t' <> PIdle) /\
             (finished (t_pc t) = true -> t' = t) /\ (j <> ev_tid e -> t' = t).
Proof.
  intro Hj. destruct (sc_step_cases st e) as [Heq|(t0 & Ht & Htr)].
  - rewrite Heq. exists t. repeat split; auto.
  - destruct (Nat.eq_dec j (ev_tid e)) as [->|Hne].
    + rewrite Ht in Hj. inversion Hj; subst t0. clear Hj.
      destruct Htr as [cl Hpc Hcl Hb|s Hpc Hlk|Hpc Hlk|Hpc Hmu|s Hpc Hlk|Hpc Hlk|Hpc|Hpc|s Hpc];
        unfold mkst; cbn [st_threads]; rewrite (list_set_same _ _ _ t Ht); eexists; (split; [reflexivity|]);
        cbn [set_pc t_op t_key t_pc]; rewrite Hpc; cbn [finished];
        repeat split; try congruence; try discriminate.
    + exists t. assert (Hth : nth_error (st_threads (sc_step false st e)) j = Some t).
      { destruct Htr; unfold mkst; cbn [st_threads]; rewrite list_set_other by exact Hne; exact Hj. }
      repeat split; auto.
Qed.

Lemma sc_run_thread evs : forall st j t,
  nth_error (st_threads st) j = Some t ->
  exists t', nth_error (st_threads (sc_run false st evs)) j = Some t' /\ t_op t' = t_op t /\
             (t_pc t <> PIdle -> t_key t' = t_key t /\ t_pc t' <> PIdle) /\
             (finished (t_pc t) = true -> t' = t).
Proof.
  induction evs as [|e r IH]; intros st j t Hj; cbn [sc_run].
  - exists t. repeat split; auto.
  - destruct (sc_step_thread st e j t Hj) as (t1 & H1 & Hop1 & Hk1 & Hf1 & _).
    destruct (IH _ j t1 H1) as (t2 & H2 & Hop2 & Hk2 & Hf2).
    exists t2. split; [exact H2|]. split; [congruence|]. split.
    + intro Hne. destruct (Hk1 Hne) as [Ha Hb]. destruct (Hk2 Hb) as [Hc Hd]. split; congruence.
    + intro Hfin. rewrite <- (Hf1 Hfin). apply Hf2. rewrite (Hf1 Hfin). exact Hfin.
Qed.

Lemma sc_step_threads_length st e : length (st_threads (sc_step false st e)) = length (st_threads st).
Proof.
  destruct (sc_step_cases st e) as [Heq|(t0 & Ht & Htr)]; [rewrite Heq; reflexivity|].
  destruct Htr; unfold mkst; cbn [st_threads]; apply list_set_length.
Qed.

(** ** S1: an operation that returns a session returns one connected with the operation's key *)
Theorem done_session_has_thread_key st i t s :
  sc_inv st -> nth_error (st_threads st) i = Some t -> t_pc t = PDone s -> s_key s = t_key t.
Proof.
  intros Hinv Ht Hpc. apply (inv_table_sound _ Hinv). apply clookup_In. eapply inv_done; eauto.
Qed.

(** while an operation is in flight its key is the key of its client's CURRENT state: the client's
    keyspace and compression have not changed since the operation started *)
Theorem in_flight_key_is_current st i t cl :
  sc_inv st -> nth_error (st_threads st) i = Some t -> in_flight (t_pc t) = true ->
  nth_error (st_clients st) (op_client (t_op t)) = Some cl -> t_key t = op_key cl (t_op t).
Proof. intros Hinv. apply (inv_key _ Hinv). Qed.

(** starting an operation: the thread's key is computed from the client's state at that moment *)
Lemma start_sets_key st e t cl :
  nth_error (st_threads st) (ev_tid e) = Some t -> t_pc t = PIdle -> sc_enabled st (ev_tid e) = true ->
  nth_error (st_clients st) (op_client (t_op t)) = Some cl ->
  nth_error (st_threads (sc_step false st e)) (ev_tid e) = Some {| t_op := t_op t; t_key := op_key cl (t_op t); t_pc := PLookup1 |}.
Proof.
  intros Ht Hpc Hen Hcl. unfold sc_enabled in Hen. rewrite Ht, Hpc, Hcl in Hen.
  unfold sc_step; cbv zeta. rewrite Ht, Hpc, Hcl. apply negb_true_iff in Hen. rewrite Hen.
  cbn [st_threads]. apply (list_set_same _ _ _ t Ht).
Qed.

(** S1, full form: a REQUEST of client [c] with frame version [v] that starts (event [e]) when the
    client's state is [cl], and at any later time has returned session [s]: [s] was connected with
    exactly (v, keyspace of [cl], compression of [cl]) -- whatever the other threads did in between *)
Theorem request_runs_on_its_own_key st e evs t cl c v t' s :
  sc_inv st ->
  nth_error (st_threads st) (ev_tid e) = Some t -> t_pc t = PIdle -> t_op t = OpRequest c v ->
  sc_enabled st (ev_tid e) = true -> nth_error (st_clients st) c = Some cl ->
  nth_error (st_threads (sc_run false st (e :: evs))) (ev_tid e) = Some t' -> t_pc t' = PDone s ->
  s_key s = session_for cl v.
Proof.
  intros Hinv Ht Hpc Hop Hen Hcl Ht' Hpc'. cbn [sc_run] in Ht'.
  assert (Hcl' : nth_error (st_clients st) (op_client (t_op t)) = Some cl) by (rewrite Hop; exact Hcl).
  pose proof (start_sets_key st e t cl Ht Hpc Hen Hcl') as H1.
  destruct (sc_run_thread evs _ _ _ H1) as (t2 & H2 & _ & Hk & _).
  rewrite H2 in Ht'. inversion Ht'; subst t2.
  destruct Hk as [Hk _]; [cbn [t_pc]; discriminate|]. cbn [t_key] in Hk.
  rewrite (done_session_has_thread_key (sc_run false (sc_step false st e) evs) (ev_tid e) t' s); auto.
  - rewrite Hk, Hop. reflexivity.
  - apply sc_run_inv, sc_step_inv, Hinv.
Qed.

(** the same for USE: the session it validated was connected with (v, NEW keyspace, the client's compression) *)
Theorem use_runs_on_its_own_key st e evs t cl c v ks t' s :
  sc_inv st ->
  nth_error (st_threads st) (ev_tid e) = Some t -> t_pc t = PIdle -> t_op t = OpUse c v ks ->
  sc_enabled st (ev_tid e) = true -> nth_error (st_clients st) c = Some cl ->
  nth_error (st_threads (sc_run false st (e :: evs))) (ev_tid e) = Some t' -> t_pc t' = PDone s ->
  s_key s = {| sk_version := v; sk_keyspace := ks; sk_compression := cl_compression cl |}.
Proof.
  intros Hinv Ht Hpc Hop Hen Hcl Ht' Hpc'. cbn [sc_run] in Ht'.
  assert (Hcl' : nth_error (st_clients st) (op_client (t_op t)) = Some cl) by (rewrite Hop; exact Hcl).
  pose proof (start_sets_key st e t cl Ht Hpc Hen Hcl') as H1.
  destruct (sc_run_thread evs _ _ _ H1) as (t2 & H2 & _ & Hk & _).
  rewrite H2 in Ht'. inversion Ht'; subst t2.
  destruct Hk as [Hk _]; [cbn [t_pc]; discriminate|]. cbn [t_key] in Hk.
  rewrite (done_session_has_thread_key (sc_run false (sc_step false st e) evs) (ev_tid e) t' s); auto.
  - rewrite Hk, Hop. reflexivity.
  - apply sc_run_inv, sc_step_inv, Hinv.
Qed.

(** hence: the backend connections a request is forwarded on *)
Corollary request_backend_view st e evs t cl c v t' s :
  sc_inv st ->
  nth_error (st_threads st) (ev_tid e) = Some t -> t_pc t = PIdle -> t_op t = OpRequest c v ->
  sc_enabled st (ev_tid e) = true -> nth_error (st_clients st) c = Some cl ->
  nth_error (st_threads (sc_run false st (e :: evs))) (ev_tid e) = Some t' -> t_pc t' = PDone s ->
  view_of_session (s_key s) =
  {| bv_keyspace := cl_keyspace cl; bv_version := v; bv_compression := lower (cl_compression cl) |}.
Proof.
  intros. erewrite request_runs_on_its_own_key; eauto. reflexivity.
Qed.

(** ** S2: the table is sound *)
Theorem table_sound_reachable st k s : sc_inv st -> In (k, s) (st_table st) -> s_key s = k.
Proof. intros Hinv. apply (inv_table_sound _ Hinv). Qed.

Theorem lookup_sound st k s : sc_inv st -> clookup k (st_table st) = Some s -> s_key s = k.
Proof. intros Hinv H. apply (inv_table_sound _ Hinv). apply clookup_In. exact H. Qed.

(** ** S3: one session per key *)
(** the table is the log of all stores (plus the initial entries); no key occurs twice in it *)
Theorem step_table_log st e :
  st_table (sc_step false st e) = st_table st \/
  exists t s, nth_error (st_threads st) (ev_tid e) = Some t /\ t_pc t = PStore s /\
              st_table (sc_step false st e) = (t_key t, s) :: st_table st.
Proof.
  destruct (sc_step_cases st e) as [Heq|(t0 & Ht & Htr)]; [rewrite Heq; left; reflexivity|].
  destruct Htr; unfold mkst; cbn [st_table]; try (left; reflexivity). right. eauto.
Qed.

Theorem one_store_per_key st : sc_inv st -> NoDup (map fst (st_table st)).
Proof. apply inv_table_nodup. Qed.

Theorem stored_sessions_agree st k s1 s2 : sc_inv st -> In (k, s1) (st_table st) -> In (k, s2) (st_table st) -> s1 = s2.
Proof.
  intros Hinv H1 H2. pose proof (inv_table_nodup _ Hinv) as Hnd.
  apply (clookup_In_nodup _ _ _ Hnd) in H1. apply (clookup_In_nodup _ _ _ Hnd) in H2. congruence.
Qed.

(** at most one successful ConnectSession per key, ever; and serials identify connects *)
Theorem one_session_per_key st : sc_inv st -> NoDup (map s_key (st_connected st)).
Proof. apply inv_connected_nodup. Qed.

Lemma NoDup_map_inj {A B} (f : A -> B) l a b : NoDup (map f l) -> In a l -> In b l -> f a = f b -> a = b.
Proof.
  induction l as [|x r IH]; cbn [map In]; [tauto|]. intros Hnd Ha Hb Hf. inversion Hnd as [|? ? Hnotin Hnd']; subst.
  destruct Ha as [->|Ha], Hb as [->|Hb]; auto.
  - exfalso. apply Hnotin. rewrite Hf. apply in_map. exact Hb.
  - exfalso. apply Hnotin. rewrite <- Hf. apply in_map. exact Ha.
Qed.

Theorem connected_same_key_same_session st s1 s2 :
  sc_inv st -> In s1 (st_connected st) -> In s2 (st_connected st) -> s_key s1 = s_key s2 -> s1 = s2.
Proof. intros Hinv. apply NoDup_map_inj. apply (inv_connected_nodup _ Hinv). Qed.

(** a connect happens only for a key that is missing from the table, and was never connected before *)
Theorem connect_only_on_miss st e :
  sc_inv st ->
  st_connected (sc_step false st e) = st_connected st \/
  exists s, st_connected (sc_step false st e) = s :: st_connected st /\
            clookup (s_key s) (st_table st) = None /\ ~ In (s_key s) (map s_key (st_connected st)).
Proof.
  intro Hinv. pose proof (inv_connected_nodup _ (sc_step_inv st e Hinv)) as Hnd.
  destruct (sc_step_cases st e) as [Heq|(t0 & Ht & Htr)]; [rewrite Heq; left; reflexivity|].
  revert Hnd. destruct Htr; unfold mkst; cbn [st_connected]; try (left; reflexivity).
  intro Hnd. right. eexists. split; [reflexivity|]. cbn [s_key]. split.
  - apply (inv_miss _ Hinv (ev_tid e) t0 Ht). left. assumption.
  - cbn [map s_key] in Hnd. inversion Hnd. assumption.
Qed.

(** lookups are stable: once a key has a session it has that session for ever *)
Theorem step_table_monotone st e k s :
  sc_inv st -> clookup k (st_table st) = Some s -> clookup k (st_table (sc_step false st e)) = Some s.
Proof.
  intros Hinv Hk. destruct (step_table_log st e) as [Heq|(t & s0 & Ht & Hpc & Heq)]; rewrite Heq; [exact Hk|].
  apply clookup_cons_other; [|exact Hk]. apply (inv_miss _ Hinv _ t Ht). right. eauto.
Qed.

Theorem run_table_monotone evs : forall st k s,
  sc_inv st -> clookup k (st_table st) = Some s -> clookup k (st_table (sc_run false st evs)) = Some s.
Proof.
  induction evs as [|e r IH]; intros st k s Hinv Hk; cbn [sc_run]; [exact Hk|].
  apply IH; [apply sc_step_inv, Hinv|apply step_table_monotone; assumption].
Qed.

(** all operations asking for one key get the same session *)
Theorem same_key_same_session st i j ti tj si sj :
  sc_inv st -> nth_error (st_threads st) i = Some ti -> nth_error (st_threads st) j = Some tj ->
  t_pc ti = PDone si -> t_pc tj = PDone sj -> t_key ti = t_key tj -> si = sj.
Proof.
  intros Hinv Hi Hj Hpi Hpj Hk.
  pose proof (inv_done _ Hinv i ti si Hi Hpi) as H1. pose proof (inv_done _ Hinv j tj sj Hj Hpj) as H2.
  congruence.
Qed.

(** ** S4: mutual exclusion, no deadlock, termination *)
Theorem mutual_exclusion st i j ti tj :
  sc_inv st -> nth_error (st_threads st) i = Some ti -> nth_error (st_threads st) j = Some tj ->
  in_cs (t_pc ti) = true -> in_cs (t_pc tj) = true -> i = j.
Proof. apply inv_two_in_cs. Qed.

(** the mutex is held exactly while its holder is between PLookup2 and its release *)
Theorem mutex_held_iff st i t :
  sc_inv st -> nth_error (st_threads st) i = Some t -> (st_mu st = Some i <-> in_cs (t_pc t) = true).
Proof.
  intros Hinv Ht. split.
  - intro Hmu. destruct (inv_mu_thread _ Hinv i Hmu) as (t0 & Ht0 & Hc). congruence.
  - apply (inv_cs_mu _ Hinv i t Ht).
Qed.

Lemma not_enabled_noop ko st e : sc_enabled st (ev_tid e) = false -> sc_step ko st e = st.
Proof.
  unfold sc_enabled, sc_step; cbv zeta.
  destruct (nth_error (st_threads st) (ev_tid e)) as [t|]; [|reflexivity].
  destruct (t_pc t); try discriminate; try reflexivity.
  - destruct (nth_error (st_clients st) (op_client (t_op t))); [|reflexivity].
    destruct (client_busy (st_threads st) (op_client (t_op t))); [reflexivity|discriminate].
  - destruct (st_mu st); [reflexivity|discriminate].
Qed.

(** progress measure: how many steps a thread still has to take at most *)
Definition pc_rank (p : cpc) : nat :=
  match p with
  | PIdle => 6 | PLookup1 => 5 | PWaitCreate => 4 | PLookup2 => 3 | PConnecting => 2 | PStore _ => 1
  | PDone _ | PFailed => 0
  end.
Definition sc_measure (st : sc_state) : nat := list_sum (map (fun t => pc_rank (t_pc t)) (st_threads st)).

Lemma list_sum_set (f : cthread -> nat) l i t t' :
  nth_error l i = Some t -> list_sum (map f (list_set l i t')) + f t = list_sum (map f l) + f t'.
Proof.
  unfold list_sum. revert i. induction l as [|x r IH]; intros i H; destruct i as [|i]; cbn [nth_error] in H; try discriminate.
  - inversion H; subst. cbn [list_set map list_sum fold_right]. lia.
  - cbn [list_set map list_sum fold_right]. specialize (IH i H). lia.
Qed.

(** an enabled thread really moves: its program counter advances (the measure drops) *)
Theorem enabled_moves st e :
  sc_enabled st (ev_tid e) = true -> sc_measure (sc_step false st e) < sc_measure st.
Proof.
  intro Hen. destruct (sc_step_cases st e) as [Heq|(t & Ht & Htr)].
  - exfalso. revert Heq Hen. unfold sc_enabled, sc_step; cbv zeta.
    destruct (nth_error (st_threads st) (ev_tid e)) as [t|] eqn:Ht; [|discriminate].
    assert (Hdiff : forall cs tb mu t' nx cn, pc_rank (t_pc t') < pc_rank (t_pc t) ->
              {| st_clients := cs; st_table := tb; st_mu := mu; st_threads := list_set (st_threads st) (ev_tid e) t';
                 st_next := nx; st_connected := cn |} = st -> False).
    { intros cs tb mu t' nx cn Hlt Heq. apply (f_equal st_threads) in Heq. cbn [st_threads] in Heq.
      pose proof (list_set_same _ _ t' t Ht) as H1. rewrite Heq, Ht in H1. inversion H1; subst. lia. }
    destruct (t_pc t) eqn:Hpc; try discriminate.
    + destruct (nth_error (st_clients st) (op_client (t_op t))); [|discriminate].
      destruct (client_busy (st_threads st) (op_client (t_op t))); [discriminate|].
      intros Heq _. eapply Hdiff; [|exact Heq]. try rewrite Hpc; cbn; lia.
    + destruct (clookup (t_key t) (st_table st)); intros Heq _; (eapply Hdiff; [|exact Heq]); try rewrite Hpc; cbn; lia.
    + destruct (st_mu st); [discriminate|]. intros Heq _. eapply Hdiff; [|exact Heq]. try rewrite Hpc; cbn; lia.
    + destruct (clookup (t_key t) (st_table st)); intros Heq _; (eapply Hdiff; [|exact Heq]); try rewrite Hpc; cbn; lia.
    + destruct (ev_ok e); intros Heq _; (eapply Hdiff; [|exact Heq]); try rewrite Hpc; cbn; lia.
    + intros Heq _. eapply Hdiff; [|exact Heq]. try rewrite Hpc; cbn; lia.
  - unfold sc_measure.
    assert (Hgen : forall cs tb mu t' nx cn, pc_rank (t_pc t') < pc_rank (t_pc t) ->
              list_sum (map (fun t => pc_rank (t_pc t)) (st_threads (mkst st (ev_tid e) cs tb mu t' nx cn)))
              < list_sum (map (fun t => pc_rank (t_pc t)) (st_threads st))).
    { intros cs tb mu t' nx cn Hlt. unfold mkst; cbn [st_threads].
      pose proof (list_sum_set (fun t => pc_rank (t_pc t)) _ _ _ t' Ht). cbv beta in *. lia. }
    destruct Htr as [cl Hpc Hcl Hb|s Hpc Hlk|Hpc Hlk|Hpc Hmu|s Hpc Hlk|Hpc Hlk|Hpc|Hpc|s Hpc];
      apply Hgen; rewrite Hpc; cbn; lia.
Qed.

Corollary enabled_changes_state st e : sc_enabled st (ev_tid e) = true -> sc_step false st e <> st.
Proof. intros Hen Heq. pose proof (enabled_moves st e Hen) as H. rewrite Heq in H. lia. Qed.

Lemma step_measure_le st e : sc_measure (sc_step false st e) <= sc_measure st.
Proof.
  destruct (sc_enabled st (ev_tid e)) eqn:Hen.
  - pose proof (enabled_moves st e Hen). lia.
  - rewrite not_enabled_noop by exact Hen. lia.
Qed.

(** the number of effective events of ANY schedule is bounded by 6 per operation *)
Fixpoint count_moves (st : sc_state) (evs : list sc_event) : nat :=
  match evs with
  | [] => 0
  | e :: r => (if sc_enabled st (ev_tid e) then 1 else 0) + count_moves (sc_step false st e) r
  end.

Theorem moves_bounded evs : forall st, count_moves st evs + sc_measure (sc_run false st evs) <= sc_measure st.
Proof.
  induction evs as [|e r IH]; intro st; cbn [count_moves sc_run]; [lia|].
  specialize (IH (sc_step false st e)). destruct (sc_enabled st (ev_tid e)) eqn:Hen.
  - pose proof (enabled_moves st e Hen). lia.
  - pose proof (step_measure_le st e). lia.
Qed.

Lemma sc_init_measure cs tb ops : sc_measure (sc_init cs tb ops) = 6 * length ops.
Proof.
  unfold sc_measure. cbn [sc_init st_threads]. rewrite map_map. cbn [t_pc pc_rank].
  unfold list_sum. induction ops as [|o r IH]; cbn [map fold_right length] in *; [reflexivity|]. rewrite IH. lia.
Qed.

(** when the mutex is free every in-flight thread can move *)
Lemma in_flight_enabled st j tj :
  sc_inv st -> st_mu st = None -> nth_error (st_threads st) j = Some tj -> in_flight (t_pc tj) = true ->
  sc_enabled st j = true.
Proof.
  intros Hinv Hmu Hj Hf. unfold sc_enabled. rewrite Hj.
  destruct (t_pc tj) eqn:Hpc; cbn [in_flight] in Hf; try discriminate; try reflexivity.
  rewrite Hmu. reflexivity.
Qed.

(** S4 no_deadlock: while some operation is unfinished, some thread can move *)
Theorem no_deadlock st :
  sc_inv st -> (exists i t, nth_error (st_threads st) i = Some t /\ finished (t_pc t) = false) ->
  exists j, sc_enabled st j = true.
Proof.
  intros Hinv (i & t & Ht & Hfin).
  destruct (st_mu st) as [h|] eqn:Hmu.
  - (* the holder can always move *)
    destruct (inv_mu_thread _ Hinv h Hmu) as (th & Hth & Hc). exists h. unfold sc_enabled. rewrite Hth.
    destruct (t_pc th); cbn [in_cs] in Hc; try discriminate; reflexivity.
  - destruct (in_flight (t_pc t)) eqn:Hf.
    + exists i. eapply in_flight_enabled; eauto.
    + (* not started: either it can start or its client has an operation in flight, which can move *)
      destruct (t_pc t) eqn:Hpc; cbn [in_flight finished] in *; try discriminate.
      destruct (client_busy (st_threads st) (op_client (t_op t))) eqn:Hb.
      * apply client_busy_true in Hb. destruct Hb as (j & tj & Hj & _ & Hfj). exists j. eapply in_flight_enabled; eauto.
      * exists i. unfold sc_enabled. rewrite Ht, Hpc, Hb.
        pose proof (inv_client_valid _ Hinv i t Ht) as Hlt. apply nth_error_Some in Hlt.
        destruct (nth_error (st_clients st) (op_client (t_op t))); [reflexivity|congruence].
Qed.

(** no deadlock and no livelock: from every reachable state some schedule finishes every operation
    (and by [moves_bounded] every schedule does so after at most 6 effective events per operation) *)
Definition all_finished (st : sc_state) : bool := forallb (fun t => finished (t_pc t)) (st_threads st).

Lemma all_finished_false st :
  all_finished st = false -> exists i t, nth_error (st_threads st) i = Some t /\ finished (t_pc t) = false.
Proof.
  unfold all_finished. intro H.
  assert (Hex : existsb (fun t => negb (finished (t_pc t))) (st_threads st) = true).
  { induction (st_threads st) as [|x r IH]; cbn [forallb existsb] in *; [discriminate|].
    destruct (finished (t_pc x)); cbn [negb andb orb] in *; [apply IH; exact H|reflexivity]. }
  apply existsb_exists in Hex. destruct Hex as (t & Hin & Hn). apply In_nth_error in Hin. destruct Hin as [i Hi].
  exists i, t. split; [exact Hi|]. apply negb_true_iff. exact Hn.
Qed.

Theorem can_always_finish st : sc_inv st -> exists evs, all_finished (sc_run false st evs) = true.
Proof.
  remember (sc_measure st) as m eqn:Hm. revert st Hm.
  induction m as [m IH] using lt_wf_ind. intros st Hm Hinv.
  destruct (all_finished st) eqn:Hall; [exists []; exact Hall|].
  destruct (no_deadlock st Hinv (all_finished_false st Hall)) as [j Hj].
  set (e := {| ev_tid := j; ev_ok := true |}).
  pose proof (enabled_moves st e Hj) as Hlt.
  destruct (IH (sc_measure (sc_step false st e)) ltac:(lia) (sc_step false st e) eq_refl (sc_step_inv st e Hinv)) as [evs Hevs].
  exists (e :: evs). exact Hevs.
Qed.

(** ** S5: a client's keyspace / compression changes only by its own successful USE *)
Theorem clients_change_only_by_successful_use st e :
  st_clients (sc_step false st e) = st_clients st \/
  exists t c v ks s,
    nth_error (st_threads st) (ev_tid e) = Some t /\ t_op t = OpUse c v ks /\ in_flight (t_pc t) = true /\
    nth_error (st_threads (sc_step false st e)) (ev_tid e) = Some (set_pc t (PDone s)) /\
    st_clients (sc_step false st e) = finish_clients (st_clients st) (OpUse c v ks).
Proof.
  destruct (sc_step_cases st e) as [Heq|(t & Ht & Htr)]; [rewrite Heq; left; reflexivity|].
  destruct Htr as [cl Hpc Hcl Hb|s Hpc Hlk|Hpc Hlk|Hpc Hmu|s Hpc Hlk|Hpc Hlk|Hpc|Hpc|s Hpc];
    unfold mkst; cbn [st_clients st_threads]; try (left; reflexivity).
  all: destruct (t_op t) as [c v|c v ks] eqn:Hop; [left; reflexivity|right].
  all: exists t, c, v, ks, s; rewrite Hpc; cbn [in_flight]; repeat split; try reflexivity; try assumption; apply (list_set_same _ _ _ t Ht).
Qed.

(** a step in which an operation fails (in particular a USE whose session cannot be connected)
    leaves every client's keyspace as it was *)
Theorem failed_use_keeps_keyspace st e t' :
  nth_error (st_threads (sc_step false st e)) (ev_tid e) = Some t' -> t_pc t' = PFailed ->
  st_clients (sc_step false st e) = st_clients st.
Proof.
  intros Ht' Hpc'. destruct (clients_change_only_by_successful_use st e) as [H|(t & c & v & ks & s & _ & _ & _ & Hth & _)];
    [exact H|]. rewrite Hth in Ht'. inversion Ht'; subst t'. cbn [set_pc t_pc] in Hpc'. discriminate.
Qed.

(** ... and the failing thread really is one that had its connect refused, holding nothing afterwards *)
Theorem failed_only_by_connect_error st e t t' :
  nth_error (st_threads st) (ev_tid e) = Some t -> t_pc t <> PFailed ->
  nth_error (st_threads (sc_step false st e)) (ev_tid e) = Some t' -> t_pc t' = PFailed ->
  t_pc t = PConnecting /\ ev_ok e = false /\ st_mu (sc_step false st e) = None.
Proof.
  unfold sc_step; cbv zeta. intros Ht Hne. rewrite Ht.
  destruct (t_pc t) eqn:Hpc; try congruence;
    repeat match goal with |- context [match ?x with _ => _ end] => destruct x eqn:? end;
    cbn [st_threads st_mu]; try rewrite (list_set_same _ _ _ t Ht); try rewrite Ht;
    intros H1 H2; inversion H1; subst t'; cbn [set_pc t_pc] in H2; try congruence; auto.
Qed.

(** the step in which an in-flight operation returns a session applies the operation's effect *)
Lemma step_finish_clients st e t s :
  nth_error (st_threads st) (ev_tid e) = Some t -> in_flight (t_pc t) = true ->
  nth_error (st_threads (sc_step false st e)) (ev_tid e) = Some (set_pc t (PDone s)) ->
  st_clients (sc_step false st e) = finish_clients (st_clients st) (t_op t).
Proof.
  intros Ht Hf. destruct (sc_step_cases st e) as [Heq|(t1 & Ht1 & Htr)].
  - rewrite Heq, Ht. intro H. inversion H as [H1]. rewrite H1 in Hf. cbn in Hf. discriminate.
  - rewrite Ht in Ht1. inversion Ht1; subst t1. clear Ht1.
    destruct Htr as [cl1 Hpc Hcl1 Hb|s1 Hpc Hlk|Hpc Hlk|Hpc Hmu|s1 Hpc Hlk|Hpc Hlk|Hpc|Hpc|s1 Hpc];
      unfold mkst; cbn [st_threads st_clients]; rewrite (list_set_same _ _ _ t Ht);
      intro H; inversion H; reflexivity.
Qed.

(** a successful USE sets its client's keyspace to the new one (compression unchanged) *)
Theorem successful_use_sets_keyspace st e t c v ks s cl :
  nth_error (st_threads st) (ev_tid e) = Some t -> t_op t = OpUse c v ks -> in_flight (t_pc t) = true ->
  nth_error (st_threads (sc_step false st e)) (ev_tid e) = Some (set_pc t (PDone s)) ->
  nth_error (st_clients st) c = Some cl ->
  nth_error (st_clients (sc_step false st e)) c = Some {| cl_keyspace := ks; cl_compression := cl_compression cl |}.
Proof.
  intros Ht Hop Hf Hth Hcl. rewrite (step_finish_clients st e t s Ht Hf Hth), Hop.
  apply finish_clients_use. exact Hcl.
Qed.

(** the events of a thread touch no client but the thread's own *)
Theorem use_changes_only_its_client st e t j :
  nth_error (st_threads st) (ev_tid e) = Some t -> j <> op_client (t_op t) ->
  nth_error (st_clients (sc_step false st e)) j = nth_error (st_clients st) j.
Proof.
  intros Ht Hne. destruct (clients_change_only_by_successful_use st e) as [H|(t0 & c & v & ks & s & Ht0 & Hop & _ & _ & Hcs)].
  - rewrite H. reflexivity.
  - rewrite Hcs. apply finish_clients_other. rewrite Ht in Ht0. inversion Ht0; subst t0. rewrite Hop in Hne. exact Hne.
Qed.

(** no event ever changes a client's compression, or the number of clients *)
Theorem compression_never_changes evs : forall st j,
  option_map cl_compression (nth_error (st_clients (sc_run false st evs)) j)
  = option_map cl_compression (nth_error (st_clients st) j).
Proof.
  induction evs as [|e r IH]; intros st j; cbn [sc_run]; [reflexivity|]. rewrite IH.
  destruct (clients_change_only_by_successful_use st e) as [H|(t0 & c & v & ks & s & _ & _ & _ & _ & Hcs)];
    [rewrite H; reflexivity|]. rewrite Hcs. apply finish_clients_compression.
Qed.

(** clients are isolated: whatever the threads of OTHER clients do, in any order and with any
    connect outcomes, client [j]'s keyspace and compression stay what they were *)
Definition event_of_other_client (st : sc_state) (j : nat) (e : sc_event) : Prop :=
  forall t, nth_error (st_threads st) (ev_tid e) = Some t -> op_client (t_op t) <> j.

Lemma event_of_other_client_step st j e e0 :
  event_of_other_client st j e -> event_of_other_client (sc_step false st e0) j e.
Proof.
  intros H t' Ht'. destruct (nth_error (st_threads st) (ev_tid e)) as [t|] eqn:Ht.
  - destruct (sc_step_thread st e0 (ev_tid e) t Ht) as (t1 & H1 & Hop & _). rewrite H1 in Ht'. inversion Ht'; subst t1.
    rewrite Hop. apply H. exact Ht.
  - exfalso. apply nth_error_None in Ht. rewrite <- (sc_step_threads_length st e0) in Ht.
    apply nth_error_None in Ht. congruence.
Qed.

Theorem clients_isolated evs : forall st j,
  Forall (event_of_other_client st j) evs ->
  nth_error (st_clients (sc_run false st evs)) j = nth_error (st_clients st) j.
Proof.
  induction evs as [|e r IH]; intros st j Hall; cbn [sc_run]; [reflexivity|].
  inversion Hall as [|? ? He Hr]; subst. rewrite IH.
  - destruct (nth_error (st_threads st) (ev_tid e)) as [t|] eqn:Ht.
    + apply (use_changes_only_its_client st e t j Ht). intro E. apply (He t Ht). congruence.
    + unfold sc_step. rewrite Ht. reflexivity.
  - rewrite Forall_forall in *. intros x Hx. apply event_of_other_client_step. apply Hr. exact Hx.
Qed.

(** while an operation of client [c] is in flight, client [c]'s state cannot change except by that
    very operation returning (one operation at a time per client) *)
Theorem in_flight_client_frozen st e i t :
  sc_inv st -> nth_error (st_threads st) i = Some t -> in_flight (t_pc t) = true -> ev_tid e <> i ->
  nth_error (st_clients (sc_step false st e)) (op_client (t_op t)) = nth_error (st_clients st) (op_client (t_op t)).
Proof.
  intros Hinv Ht Hf Hne.
  destruct (clients_change_only_by_successful_use st e) as [H|(t0 & c & v & ks & s & Ht0 & Hop & Hf0 & _ & Hcs)];
    [rewrite H; reflexivity|].
  rewrite Hcs. apply finish_clients_other. cbn [op_client]. intro E. apply Hne.
  apply (inv_one_op _ Hinv (ev_tid e) i t0 t Ht0 Ht Hf0 Hf). rewrite Hop. cbn [op_client]. congruence.
Qed.

(** ** S6: the variant "in-flight creations shared by keyspace only" breaks S1 *)
Definition demo_ks1 : bytes := str "ks1".
Definition demo_lz4 : bytes := str "lz4".
(** two clients already in keyspace demo_ks1, one without compression, one with demo_lz4; no session for demo_ks1 yet;
    each sends its first request at the same moment *)
Definition bad_clients : list client :=
  [ {| cl_keyspace := demo_ks1; cl_compression := [] |}; {| cl_keyspace := demo_ks1; cl_compression := demo_lz4 |} ].
Definition bad_ops : list cop := [OpRequest 0 4; OpRequest 1 4].
Definition cev (i : nat) : sc_event := {| ev_tid := i; ev_ok := true |}.
Definition bad_init : sc_state := sc_init bad_clients [] bad_ops.
(** 0 starts; 1 starts, misses, waits for createSessionMu; 0 misses, takes the mutex, misses again, connects, stores *)
Definition bad_rest : list sc_event := map cev [0; 1; 0; 0; 0; 0; 0].

Lemma bad_init_ok : sc_init_ok bad_clients [] bad_ops.
Proof.
  split; [intros k s []|]. split; [constructor|]. repeat constructor.
Qed.

Theorem keyspace_only_sharing_refuted :
  exists st e evs t cl c v t' s,
    sc_inv st /\
    nth_error (st_threads st) (ev_tid e) = Some t /\ t_pc t = PIdle /\ t_op t = OpRequest c v /\
    sc_enabled st (ev_tid e) = true /\ nth_error (st_clients st) c = Some cl /\
    nth_error (st_threads (sc_run true st (e :: evs))) (ev_tid e) = Some t' /\ t_pc t' = PDone s /\
    s_key s <> session_for cl v.
Proof.
  exists bad_init, (cev 1), bad_rest.
  exists {| t_op := OpRequest 1 4; t_key := no_key; t_pc := PIdle |}, {| cl_keyspace := demo_ks1; cl_compression := demo_lz4 |}, 1, 4%N.
  exists {| t_op := OpRequest 1 4; t_key := {| sk_version := 4; sk_keyspace := demo_ks1; sk_compression := demo_lz4 |};
            t_pc := PDone {| s_key := {| sk_version := 4; sk_keyspace := demo_ks1; sk_compression := [] |}; s_serial := 1 |} |}.
  exists {| s_key := {| sk_version := 4; sk_keyspace := demo_ks1; sk_compression := [] |}; s_serial := 1 |}.
  split; [apply sc_init_inv, bad_init_ok|].
  repeat split; try (vm_compute; reflexivity).
  vm_compute. discriminate.
Qed.

(** the same schedule in the proxy as it is: the demo_lz4 client waits for the mutex and then connects its OWN session *)
Example keyspace_only_schedule_is_fine_in_the_proxy :
  map (fun t => match t_pc t with PDone s => Some (s_key s) | _ => None end)
      (st_threads (sc_run false bad_init (cev 1 :: bad_rest ++ map cev [1; 1; 1; 1])))
  = [Some {| sk_version := 4; sk_keyspace := demo_ks1; sk_compression := [] |};
     Some {| sk_version := 4; sk_keyspace := demo_ks1; sk_compression := demo_lz4 |}].
Proof. vm_compute. reflexivity. Qed.

(** ... and in the variant a USE is also "validated" against somebody else's session: client 1's
    USE demo_ks1 succeeds although no session (4, demo_ks1, demo_lz4) was ever connected *)
Example keyspace_only_use_adopts_foreign_session :
  let st := sc_run true (sc_init [fresh_client []; fresh_client demo_lz4] [] [OpUse 0 4 demo_ks1; OpUse 1 4 demo_ks1])
                   (map cev [0; 1; 0; 1; 0; 0; 0; 0]) in
  map t_pc (st_threads st)
  = [PDone {| s_key := {| sk_version := 4; sk_keyspace := demo_ks1; sk_compression := [] |}; s_serial := 1 |};
     PDone {| s_key := {| sk_version := 4; sk_keyspace := demo_ks1; sk_compression := [] |}; s_serial := 1 |}]
  /\ map cl_keyspace (st_clients st) = [demo_ks1; demo_ks1] /\ map s_key (st_connected st) = [{| sk_version := 4; sk_keyspace := demo_ks1; sk_compression := [] |}].
Proof. vm_compute. auto. Qed.

(** ** Examples: the hypotheses of the theorems hold on a non-trivial schedule *)
Definition control_key : session_key := {| sk_version := 4; sk_keyspace := []; sk_compression := [] |}.
Definition demo_clients : list client := [fresh_client []; fresh_client demo_lz4].
Definition demo_table : ctable := [(control_key, {| s_key := control_key; s_serial := 0 |})].
Definition demo_ops : list cop :=
  [OpUse 0 4 demo_ks1; OpUse 1 4 demo_ks1; OpRequest 0 4; OpRequest 1 4; OpUse 0 4 (str "nope"); OpRequest 0 4; OpRequest 1 3].
Definition demo_init : sc_state := sc_init demo_clients demo_table demo_ops.
(** both clients USE demo_ks1 at the same instant; every step of the two creations interleaved *)
Definition demo_evs1 : list sc_event := map cev [0; 1; 2; 0; 1; 1; 0; 1; 1; 1; 0; 0; 0; 0].
(** then: requests of both clients, a USE of client 0 that fails to connect, more requests *)
Definition demo_evs2 : list sc_event :=
  map cev [2; 3; 2; 3; 2; 3; 2; 2; 2; 3; 3; 3] ++
  [cev 4; cev 4; cev 4; cev 4; {| ev_tid := 4; ev_ok := false |}] ++ map cev [5; 6; 5; 6; 6; 6; 6; 6].
Definition demo_mid : sc_state := sc_run false demo_init demo_evs1.
Definition demo_end : sc_state := sc_run false demo_mid demo_evs2.

Lemma demo_init_ok : sc_init_ok demo_clients demo_table demo_ops.
Proof.
  split; [intros k s [H|[]]; inversion H; reflexivity|]. split; [repeat constructor; intros []|].
  repeat constructor.
Qed.
Lemma demo_init_inv : sc_inv demo_init. Proof. apply sc_init_inv, demo_init_ok. Qed.
Lemma demo_mid_inv : sc_inv demo_mid. Proof. apply sc_run_inv, demo_init_inv. Qed.
Lemma demo_end_inv : sc_inv demo_end. Proof. apply sc_run_inv, demo_mid_inv. Qed.
Lemma demo_end_reachable : sc_reachable demo_end.
Proof.
  exists demo_clients, demo_table, demo_ops, (demo_evs1 ++ demo_evs2). split; [apply demo_init_ok|].
  unfold demo_end, demo_mid. rewrite sc_run_app. reflexivity.
Qed.

Example demo_mid_state :
  map t_pc (st_threads demo_mid)
  = [PDone {| s_key := {| sk_version := 4; sk_keyspace := demo_ks1; sk_compression := [] |}; s_serial := 2 |};
     PDone {| s_key := {| sk_version := 4; sk_keyspace := demo_ks1; sk_compression := demo_lz4 |}; s_serial := 1 |};
     PIdle; PIdle; PIdle; PIdle; PIdle]
  /\ map cl_keyspace (st_clients demo_mid) = [demo_ks1; demo_ks1] /\ st_mu demo_mid = None.
Proof. vm_compute. auto. Qed.

Example demo_end_state :
  map (fun t => match t_pc t with PDone s => Some (s_key s) | _ => None end) (st_threads demo_end)
  = [Some {| sk_version := 4; sk_keyspace := demo_ks1; sk_compression := [] |};
     Some {| sk_version := 4; sk_keyspace := demo_ks1; sk_compression := demo_lz4 |};
     Some {| sk_version := 4; sk_keyspace := demo_ks1; sk_compression := [] |};
     Some {| sk_version := 4; sk_keyspace := demo_ks1; sk_compression := demo_lz4 |};
     None;
     Some {| sk_version := 4; sk_keyspace := demo_ks1; sk_compression := [] |};
     Some {| sk_version := 3; sk_keyspace := demo_ks1; sk_compression := demo_lz4 |}]
  /\ map cl_keyspace (st_clients demo_end) = [demo_ks1; demo_ks1]
  /\ length (st_table demo_end) = 4 /\ length (st_connected demo_end) = 3 /\ all_finished demo_end = true.
Proof. vm_compute. auto 10. Qed.

(** S1: thread 3 (request of the demo_lz4 client) starts in [demo_mid] *)
Example request_runs_on_its_own_key_ex :
  let e := cev 3 in
  let t := {| t_op := OpRequest 1 4; t_key := no_key; t_pc := PIdle |} in
  let cl := {| cl_keyspace := demo_ks1; cl_compression := demo_lz4 |} in
  let s := {| s_key := {| sk_version := 4; sk_keyspace := demo_ks1; sk_compression := demo_lz4 |}; s_serial := 1 |} in
  let t' := {| t_op := OpRequest 1 4; t_key := s_key s; t_pc := PDone s |} in
  sc_inv demo_mid /\ nth_error (st_threads demo_mid) (ev_tid e) = Some t /\ t_pc t = PIdle /\ t_op t = OpRequest 1 4 /\
  sc_enabled demo_mid (ev_tid e) = true /\ nth_error (st_clients demo_mid) 1 = Some cl /\
  nth_error (st_threads (sc_run false demo_mid (e :: map cev [2; 3; 2]))) (ev_tid e) = Some t' /\ t_pc t' = PDone s /\
  s_key s = session_for cl 4.
Proof. split; [apply demo_mid_inv|]. vm_compute. repeat split; reflexivity. Qed.

(** S1 for USE: thread 1 starts in the state reached after [cev 0] *)
Example use_runs_on_its_own_key_ex :
  let st := sc_run false demo_init [cev 0] in
  let s := {| s_key := {| sk_version := 4; sk_keyspace := demo_ks1; sk_compression := demo_lz4 |}; s_serial := 1 |} in
  sc_enabled st 1 = true /\
  option_map t_pc (nth_error (st_threads (sc_run false st (cev 1 :: skipn 2 demo_evs1))) 1) = Some (PDone s).
Proof. vm_compute. auto. Qed.

(** S2, S3 on the final state: four keys, four sessions, each under its own key; three connects *)
Example table_sound_ex :
  map (fun p => (sk_version (fst p), sk_compression (fst p), ckey_eqb (fst p) (s_key (snd p)))) (st_table demo_end)
  = [(3%N, demo_lz4, true); (4%N, [], true); (4%N, demo_lz4, true); (4%N, [], true)].
Proof. vm_compute. reflexivity. Qed.

Example one_session_per_key_ex :
  map s_key (st_connected demo_end)
  = [ {| sk_version := 3; sk_keyspace := demo_ks1; sk_compression := demo_lz4 |};
      {| sk_version := 4; sk_keyspace := demo_ks1; sk_compression := [] |};
      {| sk_version := 4; sk_keyspace := demo_ks1; sk_compression := demo_lz4 |} ]
  /\ st_next demo_end = 4.
Proof. vm_compute. auto. Qed.

(** S3: the failed connect for (4, "nope", "") left nothing behind, a later USE may try again *)
Example connect_only_on_miss_ex :
  let st := sc_run false demo_mid (firstn 16 demo_evs2) in
  option_map t_pc (nth_error (st_threads st) 4) = Some PConnecting /\ st_mu st = Some 4 /\
  st_connected (sc_step false st (cev 4)) = {| s_key := {| sk_version := 4; sk_keyspace := str "nope"; sk_compression := [] |}; s_serial := 3 |} :: st_connected st /\
  clookup {| sk_version := 4; sk_keyspace := str "nope"; sk_compression := [] |} (st_table st) = None.
Proof. vm_compute. auto. Qed.

(** S4: a state in which a thread waits for the mutex while another connects: the waiter is not
    enabled, the holder is; only one thread is in the critical section *)
Example no_deadlock_ex :
  let st := sc_run false demo_init (firstn 8 demo_evs1) in
  map (fun t => t_pc t) (firstn 2 (st_threads st)) = [PWaitCreate; PConnecting] /\ st_mu st = Some 1 /\
  sc_enabled st 0 = false /\ sc_enabled st 1 = true /\ all_finished st = false /\
  map (fun t => in_cs (t_pc t)) (st_threads st) = [false; true; false; false; false; false; false].
Proof. vm_compute. auto 10. Qed.

Example moves_bounded_ex :
  count_moves demo_init (demo_evs1 ++ demo_evs2) = 29 /\ length (demo_evs1 ++ demo_evs2) = 39 /\ sc_measure demo_init = 42 /\ sc_measure demo_end = 0.
Proof. vm_compute. auto. Qed.

(** S5: the failing USE of client 0 (thread 4, connect refused) *)
Example failed_use_keeps_keyspace_ex :
  let st := sc_run false demo_mid (firstn 16 demo_evs2) in
  let e := {| ev_tid := 4; ev_ok := false |} in
  option_map t_pc (nth_error (st_threads (sc_step false st e)) (ev_tid e)) = Some PFailed /\
  map cl_keyspace (st_clients (sc_step false st e)) = [demo_ks1; demo_ks1] /\ st_mu (sc_step false st e) = None.
Proof. vm_compute. auto. Qed.

Example successful_use_sets_keyspace_ex :
  let st := sc_run false demo_init (firstn 9 demo_evs1) in
  map cl_keyspace (st_clients st) = [[]; []] /\
  map cl_keyspace (st_clients (sc_step false st (cev 1))) = [[]; demo_ks1] /\
  map cl_compression (st_clients (sc_step false st (cev 1))) = [[]; demo_lz4].
Proof. vm_compute. auto. Qed.

Example clients_isolated_ex :
  Forall (event_of_other_client demo_mid 0) (map cev [3; 3; 3; 6; 6; 6; 6; 6; 6]) /\
  nth_error (st_clients (sc_run false demo_mid (map cev [3; 3; 3; 6; 6; 6; 6; 6; 6]))) 0 = nth_error (st_clients demo_mid) 0 /\
  option_map t_pc (nth_error (st_threads (sc_run false demo_mid (map cev [3; 3; 3; 6; 6; 6; 6; 6; 6]))) 6)
  = Some (PDone {| s_key := {| sk_version := 3; sk_keyspace := demo_ks1; sk_compression := demo_lz4 |}; s_serial := 3 |}).
Proof.
  split; [|vm_compute; auto].
  repeat constructor; intros t Ht; vm_compute in Ht; inversion Ht; subst t; cbn; discriminate.
Qed.

(** the correspondence entry on the same schedules *)
Example run_c07conc_ex :
  run_c07conc (L [I 7; L [B []; B demo_lz4];
                  L [L [I 0; I 4; B []; I 0]; L [I 1; I 4; B []; I 0]; L [I 0; I 4; B (str "nope"); I 1]];
                  L (map (fun i => L [I (Z.of_nat i); I 1]) [0; 1; 0; 1; 1; 1; 1; 1]
                     ++ [L [I 2; I 1]; L [I 2; I 1]; L [I 2; I 1]; L [I 2; I 1]; L [I 2; I 0]]);
                  L [L [I 4; B []; B []]]])
  = L [L [I 0; I 4; B []; B []]; L [I 0; I 4; B []; B demo_lz4]; L [I 1]].
Proof. vm_compute. reflexivity. Qed.

Example run_c07conc_ko_ex :
  run_c07conc (L [I 7; L [B []; B demo_lz4];
                  L [L [I 0; I 3; B []; I 0]; L [I 1; I 3; B []; I 0]];
                  L (map (fun i => L [I (Z.of_nat i); I 1]) [0; 1; 0; 1; 0; 0; 0; 0]);
                  L []; I 1])
  = L [L [I 0; I 3; B []; B []]; L [I 0; I 3; B []; B []]].
Proof. vm_compute. reflexivity. Qed.

(** the initial tables built by the correspondence entry [run_c07conc] are well-formed, so the
    replayed schedules are within the scope of the theorems *)
Lemma init_table_keys ks : forall n k, In k (map fst (init_table ks n)) -> In k ks.
Proof.
  induction ks as [|k0 r IH]; intros n k; cbn [init_table]; [tauto|].
  destruct (existsb (ckey_eqb k0) r); cbn [map fst In]; [intro H; right; eapply IH; eauto|].
  intros [H|H]; [left; exact H|right; eapply IH; eauto].
Qed.

Lemma init_table_ok ks : forall n, table_sound (init_table ks n) /\ NoDup (map fst (init_table ks n)).
Proof.
  induction ks as [|k0 r IH]; intro n; cbn [init_table]; [split; [intros k s []|constructor]|].
  destruct (existsb (ckey_eqb k0) r) eqn:E; [apply IH|].
  destruct (IH (S n)) as [Hs Hnd]. split.
  - intros k s [H|H]; [inversion H; reflexivity|apply Hs; exact H].
  - cbn [map fst]. constructor; [|exact Hnd]. intro Hin. apply init_table_keys in Hin.
    assert (existsb (ckey_eqb k0) r = true) by (apply existsb_exists; exists k0; split; [exact Hin|apply ckey_eqb_refl]).
    congruence.
Qed.


Print Assumptions sc_step_inv.
Print Assumptions request_runs_on_its_own_key.
Print Assumptions use_runs_on_its_own_key.
Print Assumptions in_flight_key_is_current.
Print Assumptions table_sound_reachable.
Print Assumptions one_session_per_key.
Print Assumptions one_store_per_key.
Print Assumptions connect_only_on_miss.
Print Assumptions same_key_same_session.
Print Assumptions mutual_exclusion.
Print Assumptions no_deadlock.
Print Assumptions moves_bounded.
Print Assumptions can_always_finish.
Print Assumptions failed_use_keeps_keyspace.
Print Assumptions use_changes_only_its_client.
Print Assumptions clients_isolated.
Print Assumptions in_flight_client_frozen.
Print Assumptions keyspace_only_sharing_refuted.
Print Assumptions init_table_ok.
