(** The wrapper around the block decoder (codecs/lz4.go DecompressWithLength): four bytes of decompressed length, then the block.
    A stated length of zero is followed by one byte that is discarded; a stated length above 255 times the compressed size is
    refused before anything is allocated; otherwise the block is decoded into a destination of the stated length. *)
From Coq Require Import List ZArith NArith Bool Lia.
From CqlProxy Require Import Lib.Val Lib.Util Lib.Wire Proofs.WireProofs Model.Lz4 Proofs.Lz4Proofs.
Import ListNotations.

Definition wrapper (body : bytes) : dres :=
  match read_u32 body with
  | None => DErr
  | Some (n, block) =>
      if N.eqb n 0 then (match block with [] => DErr | _ :: _ => DOk [] end)
      else if N.ltb (255 * N.of_nat (length block)) n then DErr
      else impl false block (N.to_nat n)
  end.

(** what a conforming compressor sends: the length of the content, then a valid block for it *)
Theorem wrapper_accepts_every_valid_body block out :
  Forall is_byte block -> spec block = Some out -> out <> [] -> (N.of_nat (length out) < 4294967296)%N ->
  wrapper (enc_u32 (N.of_nat (length out)) ++ block) = DOk out.
Proof.
  intros HF Hs Hne Hlt. unfold wrapper. rewrite (read_u32_enc _ _ Hlt).
  destruct (N.eqb_spec (N.of_nat (length out)) 0) as [H0|_].
  - destruct out; [contradiction|]. cbn [length] in H0. lia.
  - pose proof (expansion_bound block out HF Hs) as Hb.
    destruct (N.ltb_spec (255 * N.of_nat (length block)) (N.of_nat (length out))) as [Hbad|_]; [lia|].
    rewrite Nat2N.id. apply impl_complete; [exact Hs|lia].
Qed.

(** and never panics, whatever the body *)
Theorem wrapper_never_panics body : wrapper body <> DPanic.
Proof.
  unfold wrapper. destruct (read_u32 body) as [[n block]|]; [|discriminate].
  destruct (N.eqb n 0); [destruct block; discriminate|].
  destruct (N.ltb (255 * N.of_nat (length block)) n); [discriminate|]. apply impl_never_panics.
Qed.

(** what it accepts is what the format says the block is (possibly shorter than stated: the code does not compare) *)
Theorem wrapper_sound body out : wrapper body = DOk out -> out <> [] ->
  exists n block, read_u32 body = Some (n, block) /\ spec block = Some out /\ length out <= N.to_nat n.
Proof.
  unfold wrapper. destruct (read_u32 body) as [[n block]|]; [|discriminate].
  destruct (N.eqb n 0).
  - destruct block; [discriminate|]. intros H; inversion H; subst. contradiction.
  - destruct (N.ltb (255 * N.of_nat (length block)) n); [discriminate|].
    intros H _. apply impl_sound in H. destruct H as [Hs Hl]. exists n, block. auto.
Qed.

Example wrapper_ex :
  wrapper [0; 0; 0; 8; 64; 97; 98; 99; 100; 4; 0]%N = DOk [97; 98; 99; 100; 97; 98; 99; 100]%N /\
  wrapper [0; 0; 0; 6; 64; 97; 98; 99; 100; 4; 0]%N = DErr /\
  wrapper [0; 0; 0; 0; 0]%N = DOk [] /\ wrapper [0; 0; 0; 0]%N = DErr /\ wrapper [127; 255; 255; 255; 16; 97]%N = DErr.
Proof. vm_compute. auto. Qed.
