(** The repaired Closing protocol cannot deadlock; the original one can. *)
From Coq Require Import List Arith Bool Lia.
From CqlProxy Require Import Model.ClosingLocks.
Import ListNotations.

(** a shared lock is only held while notifying *)
Definition wf_new (t : thread) : Prop := t_inner t = true -> t_phase t = Notifying /\ t_targets t <> [].

Lemma forallb_false_witness {A} (f : A -> bool) l x : In x l -> f x = false -> forallb f l = false.
Proof.
  intros Hin Hf. destruct (forallb f l) eqn:E; [|reflexivity].
  rewrite forallb_forall in E. rewrite (E x Hin) in Hf. discriminate.
Qed.

Lemma existsb_false_all {A} (f : A -> bool) l : existsb f l = false -> forall x, In x l -> f x = false.
Proof.
  intros H x Hin. destruct (f x) eqn:E; [|reflexivity].
  assert (existsb f l = true) by (apply existsb_exists; exists x; auto). congruence.
Qed.

Definition blocked (ts : list thread) (t : thread) : bool :=
  match next_step false ts t with None => true | Some _ => false end.

Theorem repaired_protocol_never_deadlocks ts : Forall wf_new ts -> deadlocked false ts = false.
Proof.
  intro Hwf. unfold deadlocked. destruct (existsb unfinished ts) eqn:Hu; [|reflexivity]. cbn [andb].
  fold (blocked ts). change (forallb (fun t => blocked ts t) ts = false).
  destruct (existsb (fun t => phase_eqb (t_phase t) HoldsW) ts) eqn:E1.
  { apply existsb_exists in E1. destruct E1 as (t & Hin & Hp).
    apply (forallb_false_witness _ _ t Hin). unfold blocked, next_step.
    destruct (t_phase t); try discriminate. reflexivity. }
  destruct (existsb t_inner ts) eqn:E2.
  { apply existsb_exists in E2. destruct E2 as (t & Hin & Hi).
    apply (forallb_false_witness _ _ t Hin). unfold blocked, next_step.
    rewrite Forall_forall in Hwf. destruct (Hwf t Hin Hi) as [Hph Hnt]. rewrite Hph.
    destruct (t_targets t); [congruence|]. rewrite Hi. reflexivity. }
  (* nobody holds any lock *)
  assert (Hw : forall k, w_free ts k = true).
  { intro k. unfold w_free. apply negb_true_iff. destruct (existsb (fun t => holds_w t k) ts) eqn:E; [|reflexivity].
    apply existsb_exists in E. destruct E as (t & Hin & Hh). unfold holds_w in Hh. apply andb_true_iff in Hh.
    rewrite (existsb_false_all _ _ E1 t Hin) in Hh. destruct Hh; discriminate. }
  assert (Hr : forall k, r_free ts k = true).
  { intro k. unfold r_free. apply negb_true_iff. destruct (existsb (fun t => holds_r t k) ts) eqn:E; [|reflexivity].
    apply existsb_exists in E. destruct E as (t & Hin & Hh). unfold holds_r in Hh. apply andb_true_iff in Hh.
    rewrite (existsb_false_all _ _ E2 t Hin) in Hh. destruct Hh; discriminate. }
  apply existsb_exists in Hu. destruct Hu as (t & Hin & Hun).
  apply (forallb_false_witness _ _ t Hin). unfold blocked, next_step.
  pose proof (existsb_false_all _ _ E2 t Hin) as Hi. cbn beta in Hi.
  unfold unfinished in Hun. destruct (t_phase t); cbn in Hun; try discriminate.
  - rewrite Hw, Hr. reflexivity.
  - reflexivity.
  - destruct (t_targets t) as [|k' rest]; [reflexivity|]. rewrite Hi, Hw. reflexivity.
Qed.

(** well-formedness is kept by every step, so the theorem covers all reachable states *)
Lemma next_step_wf ts t t' : wf_new t -> next_step false ts t = Some t' -> wf_new t'.
Proof.
  unfold wf_new, next_step. intros Hw H.
  destruct (t_phase t) eqn:Hp.
  - destruct (w_free ts (t_conn t) && r_free ts (t_conn t)); [|discriminate]. inversion H; subst. cbn.
    intro Hi. destruct (Hw Hi) as [Hc _]. congruence.
  - inversion H; subst. cbn. intro Hi. destruct (Hw Hi) as [Hc _]. congruence.
  - destruct (t_targets t) as [|k' rest] eqn:Ht.
    + inversion H; subst. cbn. intro Hi. destruct (Hw Hi) as [_ Hc]. congruence.
    + destruct (t_inner t); [inversion H; subst; cbn; discriminate|].
      destruct (w_free ts k'); [|discriminate]. inversion H; subst. cbn. intros _. split; [reflexivity|discriminate].
  - discriminate.
Qed.

Lemma replace_nth_forall {A} (P : A -> Prop) l : forall i x, Forall P l -> P x -> Forall P (replace_nth l i x).
Proof.
  induction l as [|y l IH]; intros i x Hl Hx; [constructor|]. inversion Hl; subst.
  destruct i; cbn; constructor; auto.
Qed.

Lemma sched_step_wf ts i : Forall wf_new ts -> Forall wf_new (sched_step false ts i).
Proof.
  intro H. unfold sched_step. destruct (nth_error ts i) as [t|] eqn:E; [|exact H].
  destruct (next_step false ts t) as [t'|] eqn:En; [|exact H].
  apply replace_nth_forall; [exact H|]. eapply next_step_wf; [|exact En].
  rewrite Forall_forall in H. apply H. eapply nth_error_In; exact E.
Qed.

Theorem repaired_protocol_no_reachable_deadlock conns sched :
  deadlocked false (run_schedule false (map (fun kt => closing_thread (fst kt) (snd kt)) conns) sched) = false.
Proof.
  apply repaired_protocol_never_deadlocks. unfold run_schedule.
  assert (H0 : Forall wf_new (map (fun kt => closing_thread (fst kt) (snd kt)) conns)).
  { apply Forall_forall. intros t Hin. apply in_map_iff in Hin. destruct Hin as (kt & <- & _). intro Hi. discriminate. }
  revert H0. generalize (map (fun kt => closing_thread (fst kt) (snd kt)) conns). induction sched as [|i sched IH]; intros ts H; [exact H|].
  cbn [fold_left]. apply IH. apply sched_step_wf. exact H.
Qed.

(** before the repair: two connections closing together, each with a request to be retried
    on the other, reach a state in which neither can move *)
Theorem original_protocol_deadlocks :
  exists conns sched, deadlocked true (run_schedule true (map (fun kt => closing_thread (fst kt) (snd kt)) conns) sched) = true.
Proof. exists [(1, [2]); (2, [1])], [0; 1]. vm_compute. reflexivity. Qed.
