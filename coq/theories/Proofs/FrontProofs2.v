(** The model of Model/Front.v satisfies its own property predicate: for every input of the
    correspondence format whose history is functional (one id, one text) and lists forwarded
    PREPAREs only, [holds_front input (run_front input)] is the empty verdict.  This ties the
    executable specification the implementation is judged by (written without [front]) to the
    model, and is the executable form of F1 + F2 + F3 + F5 together. *)
From Coq Require Import List ZArith NArith Bool Lia.
From CqlProxy Require Import Lib.Val Lib.Util Lib.Wire Gen.LexRules Model.Lexer Model.Parser Model.Handled
  Model.SysTables Model.Codec Model.Frame Model.Override Model.Gate Model.Front
  Proofs.ParserProofs Proofs.OverrideProofs2 Proofs.FrontProofs.
Import ListNotations.
Local Open Scope N_scope.

(** the body of [holds_front] with the parsed pieces of input and output as arguments *)
Definition holds_core (c : fcfg) (hist : list hist_entry) (cur frame : bytes) (kind : Z) (reenc retried : bool) : val :=
  match receive (maxv c) init_cstate frame None with
  | GDispatched =>
      match decode_header frame with
      | inr (h, r) =>
          match get_z (h_len h) r with
          | Some (body, _) =>
              match split_envelope (h_flags h) body with
              | None => B []
              | Some (pl, rest) =>
                  if h_opcode h =? 9 then
                    match decode_prepare (h_version h) rest with
                    | None => if Z.eqb kind 3 then B (str "undecodable-request-forwarded") else B []
                    | Some p =>
                        let ks := match p_keyspace p with [] => cur | k => k end in
                        let handled := prepare_is_handled (p_query p) ks in
                        if Z.eqb kind 0 then B (str "well-formed-request-dropped")
                        else if Z.eqb kind 3 then
                          if handled then B (str "system-table-read-forwarded")
                          else if reenc then B (str "select-or-unlisted-consistency-re-encoded")
                          else B []
                        else if Z.eqb kind 1 then
                          if handled then B [] else B (str "user-table-read-answered-locally")
                        else B []
                    end
                  else
                    match decode_msg (h_opcode h) (h_version h) rest with
                    | Ok m =>
                        let handled := match m with MQuery q => prepare_is_handled (q_query q) cur | _ => false end in
                        if Z.eqb kind 0 then B (str "well-formed-request-dropped")
                        else if Z.eqb kind 3 then
                          if handled then B (str "system-table-read-forwarded")
                          else
                            let must := negb (spec_is_select hist m) && is_unsupported (ocfg_of c) (msg_cl m) in
                            if reenc && negb must then B (str "select-or-unlisted-consistency-re-encoded")
                            else if negb reenc && must then B (str "listed-write-consistency-not-overridden")
                            else if retried && negb (spec_may_retry c hist pl m) then
                              (if has_graph_source pl && negb (match m with MBatch _ => true | _ => false end)
                               then B (str "graph-request-retried-without-the-idempotent-graph-option")
                               else B (str "non-idempotent-or-unknown-statement-was-retried"))
                            else B []
                        else if Z.eqb kind 1 then
                          if handled then B []
                          else match m with
                               | MQuery _ => B (str "user-table-read-answered-locally")
                               | _ => B (str "execute-or-batch-answered-locally")
                               end
                        else B []
                    | _ => if Z.eqb kind 3 then B (str "undecodable-request-forwarded") else B []
                    end
              end
          | None => B []
          end
      | inl _ => B []
      end
  | _ => if Z.eqb kind 3 then B (str "frame-that-is-not-a-request-forwarded") else B []
  end.

Lemma holds_front_core input output :
  holds_front input output =
  holds_core (front_cfg_of input) (front_hist_of input) (front_keyspace_of input) (front_frame_of input)
             (vZ (nthv 0 output)) (vbool (nthv 1 output)) (vbool (nthv 2 output)).
Proof. reflexivity. Qed.

Definition out_kind (a : faction) : Z :=
  match a with AClosed => 0 | AForward _ _ _ _ _ => 3 | AUnmodelled => 9 | _ => 1 end.
Definition out_reenc (a : faction) : bool :=
  match a with AForward _ (FwdReenc _ _) _ _ _ => true | _ => false end.
Definition out_retried (prep : prepared) (a : faction) : bool :=
  match a with AForward _ _ st _ msg => check_idempotent prep st msg | _ => false end.

Lemma run_front_out input :
  let prep := prepared_of (front_hist_of input) in
  let a := fst (front run_env (front_cfg_of input) prep (set_keyspace init_fclient (front_keyspace_of input)) (front_frame_of input) None) in
  vZ (nthv 0 (run_front input)) = out_kind a /\
  vbool (nthv 1 (run_front input)) = out_reenc a /\
  vbool (nthv 2 (run_front input)) = out_retried prep a.
Proof.
  cbv zeta. unfold run_front.
  destruct (fst (front run_env (front_cfg_of input) (prepared_of (front_hist_of input))
                       (set_keyspace init_fclient (front_keyspace_of input)) (front_frame_of input) None))
    as [|rs|st err|st err oid|st| |op f state sel msg|]; try (repeat split; reflexivity).
  split; [reflexivity|]. split.
  - destruct f; reflexivity.
  - cbn [out_retried]. destruct (check_idempotent _ state msg); reflexivity.
Qed.

(** *** the specification's reading of the history agrees with the proxy's metadata *)
Lemma last_prepare_find hist id :
  last_prepare hist id = option_map (fun en : hist_entry => let '(_, text, ks) := en in (text, ks)) (find_last (entry_has_key id) hist).
Proof.
  induction hist as [|en hist IH] using rev_ind; [reflexivity|].
  rewrite find_last_app. unfold last_prepare in *. rewrite fold_left_app. cbn [fold_left].
  destruct en as [[i text] ks]. cbn [entry_has_key].
  destruct (bytes_eqb (id_key i) (id_key id)); [reflexivity|exact IH].
Qed.

Definition forwarded_only (hist : list hist_entry) : Prop :=
  forall i t k, In (i, t, k) hist -> prepare_is_handled t k = false.

Lemma spec_id_agrees hist id :
  functional_hist hist -> forwarded_only hist ->
  id_idempotent (prepared_of hist) id = spec_id_idempotent hist id /\
  id_select (prepared_of hist) id = spec_id_select hist id.
Proof.
  intros Hf Hfo. unfold spec_id_idempotent, spec_id_select. rewrite last_prepare_find.
  destruct (find_last (entry_has_key id) hist) as [[[i text] ks]|] eqn:E.
  - apply find_last_some in E. destruct E as (h1 & h2 & Hh & Hk & _).
    cbn [entry_has_key] in Hk. apply bytes_eqb_eq in Hk.
    assert (Hin : In (i, text, ks) hist) by (rewrite Hh; apply in_or_app; right; left; reflexivity).
    pose proof (Hfo _ _ _ Hin) as Hnh.
    destruct (prepared_meta_functional hist i text ks id Hf Hin Hk Hnh) as [H1 H2].
    cbn [option_map]. split; [exact H1|]. rewrite H2, (not_handled_select_iff text ks Hnh).
    destruct (starts_with_select text) eqn:Es; [|reflexivity].
    rewrite (select_is_idempotent text Es). reflexivity.
  - cbn [option_map]. apply find_last_none in E.
    destruct (unprepared_id_absent hist id) as (_ & H1 & H2); [|auto].
    apply Forall_forall. intros en Hin. left. rewrite forallb_forall in E. specialize (E en Hin).
    apply negb_true_iff in E. exact E.
Qed.

Lemma spec_batch_agrees hist cs :
  functional_hist hist -> forwarded_only hist ->
  batch_idempotent (prepared_of hist) cs = forallb (spec_child_idempotent hist) cs.
Proof.
  intros Hf Hfo. induction cs as [|ch cs IH]; [reflexivity|].
  cbn [batch_idempotent forallb]. rewrite IH.
  replace (child_idempotent (prepared_of hist) ch) with (spec_child_idempotent hist ch).
  - destruct (spec_child_idempotent hist ch); reflexivity.
  - unfold child_idempotent, spec_child_idempotent. destruct (ch_id ch) as [q|id]; [reflexivity|].
    symmetry. apply spec_id_agrees; assumption.
Qed.

Lemma process_request_reenc c sel v flags op lbody pl rest m :
  split_envelope flags lbody = Some (pl, rest) -> decode_msg op v rest = Ok m ->
  match process_request c sel v flags op lbody with FwdReenc _ _ => true | _ => false end
  = negb sel && is_unsupported c (msg_cl m).
Proof.
  intros Hs Hm. unfold process_request. rewrite Hs, Hm.
  destruct (negb sel && is_unsupported c (msg_cl m)); reflexivity.
Qed.

(** the three checks of a forwarded QUERY / EXECUTE / BATCH all pass when the output is the model's *)
Lemma forwarded_checks_pass c hist pl m reenc retried :
  reenc = negb (spec_is_select hist m) && is_unsupported (ocfg_of c) (msg_cl m) ->
  retried = spec_may_retry c hist pl m ->
  (let must := negb (spec_is_select hist m) && is_unsupported (ocfg_of c) (msg_cl m) in
   if reenc && negb must then B (str "select-or-unlisted-consistency-re-encoded")
   else if negb reenc && must then B (str "listed-write-consistency-not-overridden")
   else if retried && negb (spec_may_retry c hist pl m) then
     (if has_graph_source pl && negb (match m with MBatch _ => true | _ => false end)
      then B (str "graph-request-retried-without-the-idempotent-graph-option")
      else B (str "non-idempotent-or-unknown-statement-was-retried"))
   else B []) = B [].
Proof.
  intros -> ->. cbv zeta.
  destruct (negb (spec_is_select hist m) && is_unsupported (ocfg_of c) (msg_cl m)); cbn [negb andb];
    destruct (spec_may_retry c hist pl m); reflexivity.
Qed.

Lemma holds_core_front c hist cur frame :
  functional_hist hist -> forwarded_only hist ->
  let prep := prepared_of hist in
  let a := fst (front run_env c prep (set_keyspace init_fclient cur) frame None) in
  holds_core c hist cur frame (out_kind a) (out_reenc a) (out_retried prep a) = B [].
Proof.
  intros Hfun Hfo. cbv zeta.
  set (cl := set_keyspace init_fclient cur). set (prep := prepared_of hist).
  assert (Hgate : fc_gate cl = init_cstate) by reflexivity.
  assert (Hks : fc_keyspace cl = cur) by reflexivity.
  assert (Hsp : fc_sysprep cl = []) by reflexivity.
  unfold holds_core.
  destruct (receive (maxv c) init_cstate frame None) eqn:Hr.
  1,2,4: rewrite front_not_dispatched by (rewrite Hgate, Hr; discriminate); rewrite Hgate, Hr; reflexivity.
  assert (Hr' : receive (maxv c) (fc_gate cl) frame None = GDispatched) by (rewrite Hgate; exact Hr).
  destruct (front_dispatched run_env c prep cl frame None Hr') as (h & r & body & rest0 & pl & rest & Hd & Hg & _ & Ho & Hs & Hf).
  cbn [logical] in Hs, Hf. rewrite Hd, Hg, Hs, Hf. unfold dispatch. rewrite Hs.
  destruct (N.eqb_spec (h_opcode h) 9) as [E9|N9].
  - destruct (decode_prepare (h_version h) rest) as [p|]; [|reflexivity].
    change (match p_keyspace p with [] => cur | k => k end) with (prepare_keyspace cl p).
    destruct (prepare_is_handled (p_query p) (prepare_keyspace cl p)) eqn:Eh.
    + pose proof (handle_prepare_handled run_env c cl h body p Eh) as Hh.
      destruct (fst (handle_prepare run_env c cl h body p)); try discriminate; reflexivity.
    + rewrite handle_prepare_forward by exact Eh. reflexivity.
  - pose proof (decode_msg_inv (h_opcode h) (h_version h) rest) as Hinv.
    destruct (decode_msg (h_opcode h) (h_version h) rest) as [[q|x|b]|er|er|] eqn:Em; try reflexivity.
    + rewrite <- Hks.
      destruct (prepare_is_handled (q_query q) (fc_keyspace cl)) eqn:Eh.
      * pose proof (handle_query_handled run_env c cl h body pl q Eh) as Hh.
        destruct (fst (handle_query run_env c cl h body pl q)); try discriminate; reflexivity.
      * rewrite handle_query_forward by exact Eh. cbn [fst]. rewrite execute_cases. cbn [run_env session_ok].
        cbn [out_kind out_reenc out_retried Z.eqb].
        apply forwarded_checks_pass.
        -- rewrite (process_request_reenc _ _ _ _ _ _ pl rest (MQuery q) Hs Em).
           cbn [spec_is_select]. rewrite (not_handled_select_iff _ _ Eh). reflexivity.
        -- cbn [spec_may_retry]. unfold default_idempotency.
           destruct (has_graph_source pl); [destruct (idem_graph c); reflexivity|reflexivity].
    + unfold handle_execute. rewrite Hsp. cbn [assoc fst]. rewrite execute_cases. cbn [run_env session_ok].
      cbn [out_kind out_reenc out_retried Z.eqb].
      destruct (spec_id_agrees hist (x_id x) Hfun Hfo) as [Hi Hsel].
      apply forwarded_checks_pass.
      * rewrite (process_request_reenc _ _ _ _ _ _ pl rest (MExecute x) Hs Em).
        cbn [spec_is_select]. fold prep in Hsel. rewrite Hsel. reflexivity.
      * cbn [spec_may_retry]. unfold default_idempotency.
        destruct (has_graph_source pl); [destruct (idem_graph c); reflexivity|].
        cbn [check_idempotent]. exact Hi.
    + cbn [fst]. rewrite execute_cases. cbn [run_env session_ok].
      cbn [out_kind out_reenc out_retried Z.eqb].
      apply forwarded_checks_pass.
      * rewrite (process_request_reenc _ _ _ _ _ _ pl rest (MBatch b) Hs Em). reflexivity.
      * cbn [spec_may_retry check_idempotent]. apply spec_batch_agrees; assumption.
Qed.

(** [run_front_holds] *)
Theorem run_front_holds input :
  functional_hist (front_hist_of input) -> forwarded_only (front_hist_of input) ->
  holds_front input (run_front input) = B [].
Proof.
  intros Hf Hfo. rewrite holds_front_core.
  destruct (run_front_out input) as (-> & -> & ->).
  apply holds_core_front; assumption.
Qed.

(** REFUTED without the functional-history hypothesis: the stale-metadata history of
    [prepared_meta_last_refuted] followed by an EXECUTE of the id makes the model (and the
    implementation, if it follows it) retry a request whose id, as the client understands it,
    stands for a text the classifier rejects. *)
Definition stale_input : val :=
  L [I 4; L [I 4; L []; I 1; I 0]; L [B []];
     L [L [B [1; 2; 3]; B (str "INSERT INTO ks.t (a) VALUES (1)"); B []]; L [B [1; 2; 3]; B (str "garbage"); B []]];
     B (mk_frame 4 0 10 (execute_body [1; 2; 3] 1))].
Theorem run_front_holds_refuted :
  forwarded_only (front_hist_of stale_input) /\
  run_front stale_input = L [I 3; I 0; I 1] /\
  holds_front stale_input (run_front stale_input) = B (str "non-idempotent-or-unknown-statement-was-retried").
Proof.
  split.
  - intros i t k Hin. cbn in Hin. destruct Hin as [H|[H|[]]]; injection H as <- <- <-; vm_compute; reflexivity.
  - split; vm_compute; reflexivity.
Qed.

(** non-vacuity: an input with a functional, forwarded-only history and a frame that is
    forwarded, re-encoded and retried *)
Definition ex_input : val :=
  L [I 4; L [I 4; L [I 6; I 10]; I 1; I 0]; L [B []];
     L [L [B id_a; B ins1; B []]; L [B id_b; B sel_user; B []]];
     B (mk_frame 4 0 10 (execute_body id_a 6))].
Example run_front_holds_ex :
  run_front ex_input = L [I 3; I 1; I 1] /\ holds_front ex_input (run_front ex_input) = B [] /\
  (* what the predicate says about wrong outputs for the same input *)
  holds_front ex_input (L [I 3; I 0; I 1]) = B (str "listed-write-consistency-not-overridden") /\
  holds_front ex_input (L [I 0]) = B (str "well-formed-request-dropped") /\
  holds_front ex_input (L [I 1]) = B (str "execute-or-batch-answered-locally").
Proof. vm_compute. auto 6. Qed.

Print Assumptions run_front_holds.
Print Assumptions run_front_holds_refuted.

Example run_front_holds_hyps_ex : functional_hist (front_hist_of ex_input) /\ forwarded_only (front_hist_of ex_input).
Proof.
  split.
  - intros i1 t1 k1 i2 t2 k2 H1 H2 Hk. cbn in H1, H2.
    destruct H1 as [H1|[H1|[]]]; destruct H2 as [H2|[H2|[]]];
      injection H1 as <- <- <-; injection H2 as <- <- <-; try (split; reflexivity); vm_compute in Hk; discriminate.
  - intros i t k Hin. cbn in Hin. destruct Hin as [H|[H|[]]]; injection H as <- <- <-; vm_compute; reflexivity.
Qed.
