(** Proofs about Model/Parser.v: whatever fails to parse is reported not idempotent. *)
From Coq Require Import List NArith Bool Lia.
From CqlProxy Require Import Lib.Val Lib.Util Lib.Regex Gen.LexRules Gen.Tables Model.Lexer Model.Parser.
Import ListNotations.
Local Open Scope N_scope.

Definition tres_ok (r : TRes) : Prop := let '(idem, _, e, _) := r in e <> 0 -> idem = false.
Definition pt_ok (pt : PT) : Prop := forall s t, tres_ok (pt s t).
Definition rres_ok (r : RRes) : Prop := let '(idem, e, _) := r in e <> 0 -> idem = false.
Definition sres_ok (r : SRes) : Prop := let '(idem, _, e, _) := r in e <> 0 -> idem = false.

(** destruct the scrutinee of the outermost match of the goal, remembering what a term
    parser promises about its result *)
Ltac with_pt Hpt :=
  match goal with
  | |- context [match ?pt ?s ?t with _ => _ end] =>
      match type of Hpt with
      | pt_ok pt => let H := fresh "Hr" in pose proof (Hpt s t) as H; unfold tres_ok in H; destruct (pt s t) as [[[? ?] ?] ?]
      end
  end.

Ltac step :=
  match goal with
  | |- context [match ?x with _ => _ end] => destruct x eqn:?
  end.

Ltac finish :=
  cbn; intros; try reflexivity; try congruence;
  try match goal with H : ?e <> 0 -> ?i = false, He : ?e <> 0 |- _ => specialize (H He); congruence end;
  try match goal with He : 0 <> 0 |- _ => exfalso; apply He; reflexivity end.

Lemma loop_terms_ok n pt close : pt_ok pt -> forall s t,
  match loop_terms n pt close s t with inl r => tres_ok r | inr _ => True end.
Proof.
  intro Hpt. induction n as [|n IH]; intros s t; cbn [loop_terms].
  - destruct ((t =? close) || (t =? tkEOF)); [exact Logic.I|]. unfold tres_ok. finish.
  - destruct ((t =? close) || (t =? tkEOF)); [exact Logic.I|].
    with_pt Hpt. destruct (negb b) eqn:Hb.
    + unfold tres_ok. exact Hr.
    + destruct (next l) as [t1 s2]. destruct (skip_token s2 t1 tkComma) as [t2 s3]. apply IH.
Qed.

Lemma parse_list_term_ok n pt s : pt_ok pt -> tres_ok (parse_list_term n pt s).
Proof.
  intro Hpt. unfold parse_list_term. destruct (next s) as [t s1].
  pose proof (loop_terms_ok n pt tkRsquare Hpt s1 t) as H.
  destruct (loop_terms n pt tkRsquare s1 t) as [[[[i ty] e] s2]|[t' s2]].
  - unfold tres_ok in *. exact H.
  - destruct (negb (t' =? tkRsquare)); unfold tres_ok; finish.
Qed.

Lemma parse_tuple_term_ok n pt s t : pt_ok pt -> tres_ok (parse_tuple_term n pt s t).
Proof.
  intro Hpt. unfold parse_tuple_term.
  pose proof (loop_terms_ok n pt tkRparen Hpt s t) as H.
  destruct (loop_terms n pt tkRparen s t) as [[[[i ty] e] s2]|[t' s2]].
  - unfold tres_ok in *. exact H.
  - destruct (negb (t' =? tkRparen)); unfold tres_ok; finish.
Qed.

Lemma parse_udt_term_ok n pt : pt_ok pt -> forall s t, tres_ok (parse_udt_term n pt s t).
Proof.
  intro Hpt. induction n as [|n IH]; intros s t; cbn [parse_udt_term].
  - destruct ((t =? tkRcurly) || (t =? tkEOF)); [destruct (negb (t =? tkRcurly))|]; unfold tres_ok; finish.
  - destruct ((t =? tkRcurly) || (t =? tkEOF)); [destruct (negb (t =? tkRcurly)); unfold tres_ok; finish|].
    destruct (negb (t =? tkIdentifier)); [unfold tres_ok; finish|].
    destruct (parse_qualified s) as [[[[k tg] tq] err] s1].
    destruct err; [unfold tres_ok; finish|].
    destruct (negb (tq =? tkColon)); [unfold tres_ok; finish|].
    destruct (next s1) as [t2 s3]. with_pt Hpt.
    destruct (negb b); [unfold tres_ok; exact Hr|].
    destruct (next l) as [t3 s5]. destruct (skip_token s5 t3 tkComma) as [t4 s6]. apply IH.
Qed.

Lemma parse_set_or_map_term_ok n pt : pt_ok pt -> forall s t, tres_ok (parse_set_or_map_term n pt s t).
Proof.
  intro Hpt. induction n as [|n IH]; intros s t; cbn [parse_set_or_map_term].
  - destruct ((t =? tkRcurly) || (t =? tkEOF)); [destruct (negb (t =? tkRcurly))|]; unfold tres_ok; finish.
  - destruct ((t =? tkRcurly) || (t =? tkEOF)); [destruct (negb (t =? tkRcurly)); unfold tres_ok; finish|].
    with_pt Hpt. destruct (negb b); [unfold tres_ok; exact Hr|].
    destruct (next l) as [t1 s2]. destruct (t1 =? tkColon).
    + destruct (next s2) as [t2 s3]. with_pt Hpt. destruct (negb b0); [unfold tres_ok; exact Hr0|].
      destruct (next l0) as [t3 s5]. destruct (skip_token s5 t3 tkComma) as [t4 s6]. apply IH.
    + destruct (skip_token s2 t1 tkComma) as [t4 s6]. apply IH.
Qed.

Lemma parse_cast_term_ok n pt s : pt_ok pt -> tres_ok (parse_cast_term n pt s).
Proof.
  intro Hpt. unfold parse_cast_term. destruct (parse_type n s) as [[t err] s1].
  destruct err; [unfold tres_ok; finish|].
  destruct (negb (t =? tkRparen)); [unfold tres_ok; finish|].
  destruct (next s1) as [t1 s2]. with_pt Hpt. destruct b; cbn [negb]; unfold tres_ok; finish.
Qed.

Lemma loop_func_args_ok n pt : pt_ok pt -> forall s t,
  match loop_func_args n pt s t with inl r => tres_ok r | inr _ => True end.
Proof.
  intro Hpt. induction n as [|n IH]; intros s t; cbn [loop_func_args].
  - destruct ((t =? tkRparen) || (t =? tkEOF)); [exact Logic.I|]. unfold tres_ok. finish.
  - destruct ((t =? tkRparen) || (t =? tkEOF)); [exact Logic.I|].
    destruct (next (mark s)) as [maybe s1].
    destruct ((t =? tkIdentifier) && ((maybe =? tkComma) || (maybe =? tkRparen))).
    + destruct (next (rewind s1)) as [t1 s2]. destruct (skip_token s2 t1 tkComma) as [t2 s3]. apply IH.
    + with_pt Hpt. destruct (negb b); [unfold tres_ok; exact Hr|].
      destruct (next l) as [t1 s2']. destruct (skip_token s2' t1 tkComma) as [t2 s3]. apply IH.
Qed.

Lemma parse_function_term_ok n pt s : pt_ok pt -> tres_ok (parse_function_term n pt s).
Proof.
  intro Hpt. unfold parse_function_term.
  destruct (parse_qualified s) as [[[[k tg] t] err] s1].
  destruct err; [unfold tres_ok; finish|].
  destruct (negb (t =? tkLparen)); [unfold tres_ok; finish|].
  destruct (next s1) as [t1 s2].
  pose proof (loop_func_args_ok n pt Hpt s2 t1) as H.
  destruct (loop_func_args n pt s2 t1) as [r|[t2 s3]]; [exact H|].
  destruct (negb (t2 =? tkRparen)); unfold tres_ok; finish.
Qed.

Lemma parse_term_ok fuel n : pt_ok (parse_term fuel n).
Proof.
  induction fuel as [|f IH]; intros s t; cbn [parse_term]; [unfold tres_ok; finish|].
  destruct (t =? tkInteger); [unfold tres_ok; finish|].
  match goal with |- context [if ?c then _ else _] => destruct c end; [unfold tres_ok; finish|].
  destruct (t =? tkColon).
  { destruct (next s) as [t1 s1]. destruct (negb (t1 =? tkIdentifier)); unfold tres_ok; finish. }
  destruct (t =? tkQMark); [unfold tres_ok; finish|].
  destruct (t =? tkLsquare); [apply parse_list_term_ok; exact IH|].
  destruct (t =? tkLcurly).
  { destruct (next s) as [t1 s1]. destruct (t1 =? tkIdentifier).
    - destruct (parse_qualified (mark s1)) as [[[[k tg] mc] err] s2].
      destruct err; [unfold tres_ok; finish|].
      destruct (mc =? tkColon); [apply parse_udt_term_ok|apply parse_set_or_map_term_ok]; exact IH.
    - apply parse_set_or_map_term_ok; exact IH. }
  destruct (t =? tkLparen).
  { destruct (next s) as [t1 s1]. destruct (t1 =? tkIdentifier); [apply parse_cast_term_ok|apply parse_tuple_term_ok]; exact IH. }
  destruct (t =? tkIdentifier); [apply parse_function_term_ok; exact IH|].
  unfold tres_ok; finish.
Qed.

(** ** relations, clauses, statements *)
Lemma term_then_ok r k : tres_ok r -> (forall s, rres_ok (k s)) -> rres_ok (term_then r k).
Proof.
  destruct r as [[[i ty] e] s]. unfold term_then, tres_ok. intros H Hk.
  destruct (negb i) eqn:Hi; [|apply Hk]. unfold rres_ok. intro He. specialize (H He). exact H.
Qed.

Ltac rok := unfold rres_ok; finish.

Lemma paren_terms_ok n pt s : pt_ok pt -> rres_ok (paren_terms n pt s).
Proof.
  intro Hpt. unfold paren_terms. destruct (next s) as [t s1].
  pose proof (loop_terms_ok n pt tkRparen Hpt s1 t) as H.
  destruct (loop_terms n pt tkRparen s1 t) as [[[[i ty] e] s2]|[t' s2]].
  - unfold tres_ok in H. unfold rres_ok. exact H.
  - destruct (negb (t' =? tkRparen)); rok.
Qed.

Lemma parse_identifiers_relation_ok n pt s : pt_ok pt -> rres_ok (parse_identifiers_relation n pt s).
Proof.
  intro Hpt. unfold parse_identifiers_relation. destruct (next s) as [t s1].
  match goal with |- context [if ?c then _ else _] => destruct c end; [|rok].
  destruct (next s1) as [t1 s2].
  destruct ((t1 =? tkColon) || (t1 =? tkQMark)).
  - destruct (parse_bind_marker s2 t1) as [err s3]. destruct err; rok.
  - destruct (t1 =? tkLparen); [apply paren_terms_ok; exact Hpt|rok].
Qed.

Lemma parse_relation_ok fuel n : forall s t, rres_ok (parse_relation fuel n s t).
Proof.
  induction fuel as [|f IH]; intros s t; cbn [parse_relation]; [rok|].
  pose proof (parse_term_ok f n) as Hpt. set (pt := parse_term f n) in *. cbv zeta.
  destruct (t =? tkIdentifier).
  { destruct (next s) as [t1 s1]. destruct (t1 =? tkIdentifier).
    - destruct (is_kw s1 t1 (str "contains")).
      + destruct (next s1) as [t2 s2].
        destruct (if is_kw s2 t2 (str "key") then next s2 else (t2, s2)) as [t3 s3].
        apply term_then_ok; [apply Hpt|intro; rok].
      + destruct (is_kw s1 t1 (str "like")); [|rok].
        destruct (next s1) as [t2 s2]. apply term_then_ok; [apply Hpt|intro; rok].
    - destruct (is_operator t1).
      { destruct (next s1) as [t2 s2]. apply term_then_ok; [apply Hpt|intro; rok]. }
      destruct (t1 =? tkIs).
      { destruct (next s1) as [t2 s2]. destruct (negb (t2 =? tkNot)); [rok|].
        destruct (next s2) as [t3 s3]. destruct (negb (t3 =? tkNull)); rok. }
      destruct (t1 =? tkLsquare).
      { destruct (next s1) as [t2 s2]. apply term_then_ok; [apply Hpt|]. intro s3.
        destruct (next s3) as [t3 s4]. destruct (negb (t3 =? tkRsquare)); [rok|].
        destruct (next s4) as [t4 s5]. destruct (negb (is_operator t4)); [rok|].
        destruct (next s5) as [t5 s6]. apply term_then_ok; [apply Hpt|intro; rok]. }
      destruct (t1 =? tkIn); [|rok].
      destruct (next s1) as [t2 s2]. destruct (t2 =? tkLparen); [apply paren_terms_ok; exact Hpt|].
      destruct ((t2 =? tkColon) || (t2 =? tkQMark)); [|rok].
      destruct (parse_bind_marker s2 t2) as [err s3]. destruct err; rok. }
  destruct (t =? tkToken).
  { destruct (next s) as [t1 s1]. destruct (negb (t1 =? tkLparen)); [rok|].
    destruct (next s1) as [t2 s2]. destruct (parse_identifiers n s2 t2) as [err s3]. destruct err; [rok|].
    destruct (next s3) as [t3 s4]. destruct (negb (is_operator t3)); [rok|].
    destruct (next s4) as [t4 s5]. apply term_then_ok; [apply Hpt|intro; rok]. }
  destruct (t =? tkLparen); [|rok].
  destruct (next (mark s)) as [maybeId s1]. destruct (next s1) as [maybeCR s2].
  destruct ((maybeId =? tkIdentifier) && ((maybeCR =? tkComma) || (maybeCR =? tkRparen))).
  - destruct (skip_token s2 maybeCR tkComma) as [t1 s3]. destruct (parse_identifiers n s3 t1) as [err s4].
    destruct err; [rok|]. apply parse_identifiers_relation_ok; exact Hpt.
  - destruct (next (rewind s2)) as [t1 s3].
    pose proof (IH s3 t1) as H. destruct (parse_relation f n s3 t1) as [[i e] s4].
    destruct (negb i) eqn:Hi; [unfold rres_ok in *; exact H|].
    destruct (next s4) as [t2 s5]. destruct (negb (t2 =? tkRparen)); rok.
Qed.

Ltac sok := unfold sres_ok; finish.

Lemma parse_where_loop_ok n fuel pt : pt_ok pt -> forall s t,
  let '(idem, _, e, _) := parse_where_loop n fuel pt s t in e <> 0 -> idem = false.
Proof.
  intro Hpt. induction n as [|n IH]; intros s t; cbn [parse_where_loop].
  - destruct ((t =? tkIf) || is_dml_terminator t); finish.
  - destruct ((t =? tkIf) || is_dml_terminator t); [finish|].
    pose proof (parse_relation_ok fuel (S n) s t) as H.
    destruct (parse_relation fuel (S n) s t) as [[i e] s1].
    destruct (negb i) eqn:Hi; [unfold rres_ok in H; exact H|].
    destruct (next s1) as [t1 s2]. destruct (skip_token s2 t1 tkAnd) as [t2 s3]. apply IH.
Qed.

Lemma scan_for_if_ok n : forall s t, sres_ok (scan_for_if n s t).
Proof.
  induction n as [|n IH]; intros s t; cbn [scan_for_if].
  - destruct (is_dml_terminator t); [sok|]. destruct (t =? tkIf); sok.
  - destruct (is_dml_terminator t); [sok|]. destruct (t =? tkIf); [sok|].
    destruct (next s) as [t1 s1]. apply IH.
Qed.

Lemma insert_stmt_ok n pt s : pt_ok pt -> sres_ok (insert_stmt n pt s).
Proof.
  intro Hpt. unfold insert_stmt.
  destruct (next s) as [t s1]. destruct (negb (t =? tkInto)); [sok|].
  destruct (next s1) as [t1 s2]. destruct (negb (t1 =? tkIdentifier)); [sok|].
  destruct (parse_qualified s2) as [[[[k tg] t2] err] s3]. destruct err; [sok|].
  destruct (is_kw s3 t2 (str "json")).
  { destruct (next s3) as [t' s'']. apply scan_for_if_ok. }
  destruct (negb (t2 =? tkLparen)); [sok|].
  destruct (next s3) as [t3 s4]. destruct (parse_identifiers n s4 t3) as [err2 s5]. destruct err2; [sok|].
  destruct (next s5) as [t4 s6]. destruct (negb (is_kw s6 t4 (str "values"))); [sok|].
  destruct (next s6) as [t5 s7]. destruct (negb (t2 =? t5)); [sok|].
  destruct (next s7) as [t6 s8].
  pose proof (loop_terms_ok n pt tkRparen Hpt s8 t6) as H.
  destruct (loop_terms n pt tkRparen s8 t6) as [[[[i ty] e] s9]|[t7 s9]].
  - unfold tres_ok in H. unfold sres_ok. exact H.
  - destruct (negb (t7 =? tkRparen)); [sok|]. destruct (next s9) as [t' s'']. apply scan_for_if_ok.
Qed.

Lemma parse_update_op_ok pt s t : pt_ok pt -> rres_ok (parse_update_op pt s t).
Proof.
  intro Hpt. unfold parse_update_op.
  destruct (negb (t =? tkIdentifier)); [rok|].
  destruct (next s) as [t1 s1].
  destruct (t1 =? tkEqual).
  { destruct (next (mark s1)) as [maybeId s2]. destruct (next s2) as [maybeOp s3].
    destruct ((maybeId =? tkIdentifier) && ((maybeOp =? tkAdd) || (maybeOp =? tkSub))).
    - destruct (next s3) as [t2 s4]. with_pt Hpt. destruct (negb b); [unfold rres_ok; exact Hr|rok].
    - destruct (next (rewind s3)) as [t2 s4]. with_pt Hpt. destruct b; [|unfold rres_ok; exact Hr].
      destruct (next (mark l)) as [t3 s6]. destruct (t3 =? tkAdd); [|rok].
      destruct (next s6) as [t4 s7]. destruct (negb (t4 =? tkIdentifier)); rok. }
  destruct ((t1 =? tkAddEqual) || (t1 =? tkSubEqual)).
  { destruct (next s1) as [t2 s2]. with_pt Hpt. destruct (negb b); [unfold rres_ok; exact Hr|rok]. }
  destruct (t1 =? tkLsquare).
  { destruct (next s1) as [t2 s2]. with_pt Hpt. destruct (negb b); [unfold rres_ok; exact Hr|].
    destruct (next l) as [t3 s4]. destruct (negb (t3 =? tkRsquare)); [rok|].
    destruct (next s4) as [t4 s5]. destruct (negb (t4 =? tkEqual)); [rok|].
    destruct (next s5) as [t5 s6]. with_pt Hpt. destruct (negb b0); [unfold rres_ok; exact Hr0|rok]. }
  destruct (t1 =? tkDot); [|rok].
  destruct (next s1) as [t2 s2]. destruct (negb (t2 =? tkIdentifier)); [rok|].
  destruct (next s2) as [t3 s3]. destruct (negb (t3 =? tkEqual)); [rok|].
  destruct (next s3) as [t4 s4]. with_pt Hpt. destruct (negb b); [unfold rres_ok; exact Hr|rok].
Qed.

Lemma update_ops_loop_ok n pt : pt_ok pt -> forall s t,
  match update_ops_loop n pt s t with inl r => rres_ok r | inr _ => True end.
Proof.
  intro Hpt. induction n as [|n IH]; intros s t; cbn [update_ops_loop].
  - destruct ((t =? tkIf) || (t =? tkWhere) || is_dml_terminator t); [exact Logic.I|rok].
  - destruct ((t =? tkIf) || (t =? tkWhere) || is_dml_terminator t); [exact Logic.I|].
    pose proof (parse_update_op_ok pt s t Hpt) as H. destruct (parse_update_op pt s t) as [[i e] s1].
    destruct (negb i) eqn:Hi; [exact H|].
    destruct (next s1) as [t1 s2]. destruct (skip_token s2 t1 tkComma) as [t2 s3]. apply IH.
Qed.

Lemma where_and_if_ok n fuel pt s t : pt_ok pt -> sres_ok (where_and_if n fuel pt s t).
Proof.
  intro Hpt. unfold where_and_if. destruct (t =? tkWhere); [|apply scan_for_if_ok].
  unfold parse_where_clause. destruct (next s) as [t0 s0].
  pose proof (parse_where_loop_ok n fuel pt Hpt s0 t0) as H.
  destruct (parse_where_loop n fuel pt s0 t0) as [[[i t1] e] s1].
  destruct (negb i) eqn:Hi; [unfold sres_ok; exact H|apply scan_for_if_ok].
Qed.

Lemma update_stmt_ok n fuel pt s : pt_ok pt -> sres_ok (update_stmt n fuel pt s).
Proof.
  intro Hpt. unfold update_stmt.
  destruct (next s) as [t s1]. destruct (negb (t =? tkIdentifier)); [sok|].
  destruct (parse_qualified s1) as [[[[k tg] t1] err] s2]. destruct err; [sok|].
  destruct (parse_using_clause s2 t1) as [[t2 err2] s3]. destruct err2; [sok|].
  destruct (negb (is_kw s3 t2 (str "set"))); [sok|].
  destruct (next s3) as [t3 s4].
  pose proof (update_ops_loop_ok n pt Hpt s4 t3) as H.
  destruct (update_ops_loop n pt s4 t3) as [[[i e] s5]|[t4 s5]].
  - unfold rres_ok in H. unfold sres_ok. exact H.
  - apply where_and_if_ok. exact Hpt.
Qed.

Lemma delete_ops_loop_ok n pt : pt_ok pt -> forall s t,
  match delete_ops_loop n pt s t with inl r => rres_ok r | inr _ => True end.
Proof.
  intro Hpt. induction n as [|n IH]; intros s t; cbn [delete_ops_loop].
  - destruct ((t =? tkFrom) || (t =? tkEOF)); [exact Logic.I|rok].
  - destruct ((t =? tkFrom) || (t =? tkEOF)); [exact Logic.I|].
    destruct (negb (t =? tkIdentifier)); [rok|].
    destruct (next (mark s)) as [t1 s1].
    destruct (t1 =? tkLsquare).
    { destruct (next s1) as [t2 s2]. with_pt Hpt. destruct (negb b); [unfold rres_ok; exact Hr|].
      destruct (next l) as [t3 s4]. destruct (negb (t3 =? tkRsquare)); [rok|].
      destruct (negb (idem_delete_element_type n0)); [rok|].
      destruct (next s4) as [t4 s5]. destruct (skip_token s5 t4 tkComma) as [t5 s6]. apply IH. }
    destruct (t1 =? tkDot).
    { destruct (next s1) as [t2 s2]. destruct (negb (t2 =? tkIdentifier)); [rok|].
      destruct (next s2) as [t4 s5]. destruct (skip_token s5 t4 tkComma) as [t5 s6]. apply IH. }
    destruct (next (rewind s1)) as [t4 s5]. destruct (skip_token s5 t4 tkComma) as [t5 s6]. apply IH.
Qed.

Lemma delete_stmt_ok n fuel pt s : pt_ok pt -> sres_ok (delete_stmt n fuel pt s).
Proof.
  intro Hpt. unfold delete_stmt. destruct (next s) as [t s1].
  pose proof (delete_ops_loop_ok n pt Hpt s1 t) as H.
  destruct (delete_ops_loop n pt s1 t) as [[[i e] s2]|[t1 s2]].
  - unfold rres_ok in H. unfold sres_ok. exact H.
  - destruct (negb (t1 =? tkFrom)); [sok|].
    destruct (next s2) as [t2 s3]. destruct (negb (t2 =? tkIdentifier)); [sok|].
    destruct (parse_qualified s3) as [[[[k tg] t3] err] s4]. destruct err; [sok|].
    destruct (parse_using_clause s4 t3) as [[t4 err2] s5]. destruct err2; [sok|].
    apply where_and_if_ok. exact Hpt.
Qed.

Definition bres_ok (r : bool * N) : Prop := snd r <> 0 -> fst r = false.

Lemma batch_children_ok n fuel pt : pt_ok pt -> forall s t,
  match batch_children n fuel pt s t with inl r => bres_ok r | inr _ => True end.
Proof.
  intro Hpt. induction n as [|n IH]; intros s t; cbn [batch_children].
  - destruct ((t =? tkApply) || (t =? tkEOF)); [exact Logic.I|]. unfold bres_ok. finish.
  - destruct ((t =? tkApply) || (t =? tkEOF)); [exact Logic.I|].
    assert (Hgen : forall r : SRes, sres_ok r ->
              match (let '(idem, t1, e, s1) := r in
                     let '(t2, s2) := if t1 =? tkEOS then next s1 else (t1, s1) in
                     if negb idem then inl (idem, e) else batch_children n fuel pt s2 t2)
              with inl r => bres_ok r | inr _ => True end).
    { intros [[[i t1] e] s1] Hr. destruct (if t1 =? tkEOS then next s1 else (t1, s1)) as [t2 s2].
      destruct (negb i) eqn:Hi; [unfold bres_ok; cbn; exact Hr|apply IH]. }
    destruct (t =? tkInsert); [apply Hgen, insert_stmt_ok; exact Hpt|].
    destruct (t =? tkUpdate); [apply Hgen, update_stmt_ok; exact Hpt|].
    destruct (t =? tkDelete); [apply Hgen, delete_stmt_ok; exact Hpt|].
    unfold bres_ok. finish.
Qed.

Lemma batch_stmt_ok n fuel pt s : pt_ok pt -> bres_ok (batch_stmt n fuel pt s).
Proof.
  intro Hpt. unfold batch_stmt. destruct (next s) as [t s1].
  destruct (is_kw s1 t (str "counter") && negb (is_kw s1 t (str "unlogged"))); [unfold bres_ok; finish|].
  destruct (if is_kw s1 t (str "unlogged") then next s1 else (t, s1)) as [t1 s2].
  destruct (negb (t1 =? tkBatch)); [unfold bres_ok; finish|].
  destruct (next s2) as [t2 s3]. destruct (parse_using_clause s3 t2) as [[t3 err] s4].
  destruct err; [unfold bres_ok; finish|].
  pose proof (batch_children_ok n fuel pt Hpt s4 t3) as H.
  destruct (batch_children n fuel pt s4 t3) as [r|[t4 s5]]; [exact H|].
  destruct (negb (t4 =? tkApply)); [unfold bres_ok; finish|].
  destruct (next s5) as [t5 s6]. destruct (negb (t5 =? tkBatch)); unfold bres_ok; finish.
Qed.

(** Anything the classifier cannot parse (or would not finish parsing) is reported not idempotent. *)
Theorem unparseable_is_not_idempotent ts : snd (is_idempotent_tokens ts) <> 0 -> fst (is_idempotent_tokens ts) = false.
Proof.
  unfold is_idempotent_tokens.
  set (n := S (length ts)). set (pt := parse_term (N.to_nat max_nesting_depth) n).
  assert (Hpt : pt_ok pt) by apply parse_term_ok.
  destruct (next (init_lstate ts)) as [t s].
  assert (Hfin : forall r : SRes, sres_ok r ->
            snd (let '(idem, t', e, _) := r in (idem && ((t' =? tkEOF) || (t' =? tkEOS)), e)) <> 0 ->
            fst (let '(idem, t', e, _) := r in (idem && ((t' =? tkEOF) || (t' =? tkEOS)), e)) = false).
  { intros [[[i t'] e] s'] Hr. cbn. intro He. rewrite (Hr He). reflexivity. }
  destruct (t =? tkSelect); [cbn; intro H; exfalso; apply H; reflexivity|].
  destruct ((t =? tkUse) || (t =? tkCreate) || (t =? tkAlter) || (t =? tkDrop)); [reflexivity|].
  destruct (t =? tkInsert); [apply Hfin, insert_stmt_ok; exact Hpt|].
  destruct (t =? tkUpdate); [apply Hfin, update_stmt_ok; exact Hpt|].
  destruct (t =? tkDelete); [apply Hfin, delete_stmt_ok; exact Hpt|].
  destruct (t =? tkBegin); [apply batch_stmt_ok; exact Hpt|].
  reflexivity.
Qed.
