(** Proofs about Model/Front.v: what the proxy does with one client frame (C03, C04, C09, C12). *)
From Coq Require Import List ZArith NArith Bool Lia.
From CqlProxy Require Import Lib.Val Lib.Util Lib.Wire Gen.LexRules Model.Lexer Model.Parser Model.Handled
  Model.SysTables Model.Codec Model.Frame Model.Override Model.Gate Model.Front
  Proofs.WireProofs Proofs.CodecProofs Proofs.ParserProofs Proofs.OverrideProofs2 Proofs.GateProofs Proofs.GateProofs2.
Import ListNotations.
Local Open Scope N_scope.

(** ** small facts *)
Lemma ident_from_ok s : ident_of_string s = Ok (ident_from s).
Proof.
  unfold ident_of_string, ident_from. destruct s as [|c [|d s']]; try reflexivity.
  destruct (c =? 34); reflexivity.
Qed.

Lemma id_key_length id : length (id_key id) = 16%nat.
Proof.
  unfold id_key. rewrite firstn_length, app_length, repeat_length. lia.
Qed.

Lemma id_key_16 id : length id = 16%nat -> id_key id = id.
Proof.
  intro H. unfold id_key. rewrite firstn_app, H, Nat.sub_diag.
  change (firstn 0 (repeat 0 16)) with (@nil N). rewrite app_nil_r. rewrite <- H at 1. apply firstn_all.
Qed.

Lemma id_key_idem id : id_key (id_key id) = id_key id.
Proof. apply id_key_16. apply id_key_length. Qed.

Lemma assoc_cons_eq {V} k (v : V) t : assoc k ((k, v) :: t) = Some v.
Proof. cbn [assoc]. rewrite bytes_eqb_refl. reflexivity. Qed.

Lemma assoc_cons_neq {V} k k' (v : V) t : k <> k' -> assoc k ((k', v) :: t) = assoc k t.
Proof.
  intro H. cbn [assoc]. destruct (bytes_eqb k k') eqn:E; [|reflexivity].
  apply bytes_eqb_eq in E. congruence.
Qed.

Lemma bytes_eqb_neq a b : bytes_eqb a b = false <-> a <> b.
Proof.
  split.
  - intros H E. subst. rewrite bytes_eqb_refl in H. discriminate.
  - intro H. destruct (bytes_eqb a b) eqn:E; [|reflexivity]. apply bytes_eqb_eq in E. congruence.
Qed.

Lemma bytes_eqb_sym a b : bytes_eqb a b = bytes_eqb b a.
Proof.
  destruct (bytes_eqb a b) eqn:E.
  - apply bytes_eqb_eq in E. subst. symmetry. apply bytes_eqb_refl.
  - symmetry. apply bytes_eqb_neq. apply bytes_eqb_neq in E. congruence.
Qed.

(** ** F2 (C04): the classification the retry decision uses *)

(** what justifies calling a batch child idempotent *)
Definition child_justified (prep : prepared) (c : pchild) : Prop :=
  match ch_id c with
  | QStr q => fst (is_query_idempotent q) = true
  | QId id => exists m, lookup_meta prep id = Some m /\ pm_idem m = true
  end.

Lemma id_idempotent_iff prep id :
  id_idempotent prep id = true <-> exists m, lookup_meta prep id = Some m /\ pm_idem m = true.
Proof.
  unfold id_idempotent. destruct (lookup_meta prep id) as [m|].
  - split; [eauto|]. intros (m' & E & H). congruence.
  - split; [discriminate|]. intros (m' & E & _). discriminate.
Qed.

Lemma child_idempotent_iff prep c : child_idempotent prep c = true <-> child_justified prep c.
Proof.
  unfold child_idempotent, child_justified. destruct (ch_id c) as [q|id]; [reflexivity|apply id_idempotent_iff].
Qed.

Lemma batch_idempotent_iff prep cs : batch_idempotent prep cs = true <-> Forall (child_justified prep) cs.
Proof.
  induction cs as [|c cs IH]; cbn [batch_idempotent].
  - split; auto.
  - destruct (child_idempotent prep c) eqn:E.
    + rewrite IH. split; intro H.
      * constructor; [apply child_idempotent_iff; exact E|exact H].
      * inversion H; assumption.
    + split; [discriminate|]. intro H. inversion H as [|? ? Hc _]; subst.
      apply child_idempotent_iff in Hc. congruence.
Qed.

(** [class_sound] (and its converse): the request counts as idempotent exactly when its state
    was fixed to idempotent when it was created, or nothing was fixed and
    - QUERY: the classifier accepts the text;
    - EXECUTE: the proxy has metadata for the id, saying idempotent;
    - BATCH: every child is such (string child: classifier; id child: metadata). *)
Definition msg_justified (prep : prepared) (m : fmsg) : Prop :=
  match m with
  | FReq (MQuery q) => fst (is_query_idempotent (q_query q)) = true
  | FReq (MExecute x) => exists pm, lookup_meta prep (x_id x) = Some pm /\ pm_idem pm = true
  | FReq (MBatch b) => Forall (child_justified prep) (b_children b)
  | FPrepare _ => False
  end.

Theorem class_sound prep state m :
  check_idempotent prep state m = true <->
  state = IsIdempotent \/ (state = NotDetermined /\ msg_justified prep m).
Proof.
  unfold check_idempotent, msg_justified. destruct state.
  - destruct m as [p|[q|x|b]].
    + split; [discriminate|]. intros [H|[_ []]]. discriminate.
    + split; [intro H; right; auto|]. intros [H|[_ H]]; [discriminate|exact H].
    + rewrite id_idempotent_iff. split; [intro H; right; auto|]. intros [H|[_ H]]; [discriminate|exact H].
    + rewrite batch_idempotent_iff. split; [intro H; right; auto|]. intros [H|[_ H]]; [discriminate|exact H].
  - split; [discriminate|]. intros [H|[H _]]; discriminate.
  - split; [auto|reflexivity].
Qed.

(** a state fixed at creation is final *)
Lemma check_determined prep m :
  check_idempotent prep IsIdempotent m = true /\ check_idempotent prep NotIdempotent m = false.
Proof. split; reflexivity. Qed.

(** *** the prepared metadata after a history *)
Definition find_last {A} (p : A -> bool) (l : list A) : option A :=
  fold_left (fun acc x => if p x then Some x else acc) l None.

Lemma find_last_app {A} (p : A -> bool) l x :
  find_last p (l ++ [x]) = if p x then Some x else find_last p l.
Proof. unfold find_last. rewrite fold_left_app. reflexivity. Qed.

Lemma find_last_some {A} (p : A -> bool) l x :
  find_last p l = Some x -> exists l1 l2, l = l1 ++ x :: l2 /\ p x = true /\ forallb (fun y => negb (p y)) l2 = true.
Proof.
  induction l as [|y l IH] using rev_ind; [discriminate|].
  rewrite find_last_app. destruct (p y) eqn:E.
  - intro H. injection H as <-. exists l, []. repeat split; auto.
  - intro H. destruct (IH H) as (l1 & l2 & -> & Hp & Hn). exists l1, (l2 ++ [y]).
    rewrite <- app_assoc. split; [reflexivity|]. split; [exact Hp|].
    rewrite forallb_app, Hn. cbn. rewrite E. reflexivity.
Qed.

Lemma find_last_none {A} (p : A -> bool) l :
  find_last p l = None <-> forallb (fun y => negb (p y)) l = true.
Proof.
  induction l as [|y l IH] using rev_ind; [split; reflexivity|].
  rewrite find_last_app, forallb_app. cbn. destruct (p y); cbn.
  - rewrite andb_false_r. split; discriminate.
  - rewrite andb_true_r. exact IH.
Qed.

Lemma find_last_last {A} (p : A -> bool) l1 x l2 :
  p x = true -> forallb (fun y => negb (p y)) l2 = true -> find_last p (l1 ++ x :: l2) = Some x.
Proof.
  revert l1 x. induction l2 as [|y l2 IH] using rev_ind; intros l1 x Hx Hn.
  - rewrite find_last_app, Hx. reflexivity.
  - rewrite forallb_app in Hn. apply andb_true_iff in Hn. destruct Hn as [Hn Hy]. cbn in Hy.
    rewrite andb_true_r in Hy. apply negb_true_iff in Hy.
    replace (l1 ++ x :: l2 ++ [y]) with ((l1 ++ x :: l2) ++ [y]) by (rewrite <- app_assoc; reflexivity).
    rewrite find_last_app, Hy. apply IH; assumption.
Qed.

(** the entry is stored by maybeStorePreparedMetadata: it was forwarded (not handled by the proxy)
    and the classifier reports no parse error *)
Definition entry_stored (en : hist_entry) : bool :=
  let '(_, text, ks) := en in negb (prepare_is_handled text ks) && (snd (is_query_idempotent text) =? 0).
Definition entry_has_key (id : bytes) (en : hist_entry) : bool :=
  let '(i, _, _) := en in bytes_eqb (id_key i) (id_key id).
Definition entry_meta (en : hist_entry) : pmeta :=
  let '(_, text, ks) := en in
  {| pm_idem := fst (is_query_idempotent text); pm_select := prepare_is_select text ks |}.

Lemma prepared_of_app hist en : prepared_of (hist ++ [en]) = apply_hist (prepared_of hist) en.
Proof. unfold prepared_of. rewrite fold_left_app. reflexivity. Qed.

Lemma apply_hist_eq prep en :
  apply_hist prep en = if entry_stored en then (id_key (fst (fst en)), entry_meta en) :: prep else prep.
Proof.
  destruct en as [[i text] ks]. unfold apply_hist, entry_stored, entry_meta, on_prepared_result. cbn [fst snd].
  destruct (prepare_is_handled text ks); [reflexivity|]. cbn [negb andb].
  destruct (is_query_idempotent text) as [idem err]. cbn [fst snd]. destruct (err =? 0); reflexivity.
Qed.

(** the metadata of an id = that of the last STORED entry with the id's key *)
Theorem lookup_prepared_of hist id :
  lookup_meta (prepared_of hist) id =
  option_map entry_meta (find_last (fun en => entry_stored en && entry_has_key id en) hist).
Proof.
  induction hist as [|en hist IH] using rev_ind; [reflexivity|].
  rewrite prepared_of_app, find_last_app, apply_hist_eq.
  destruct (entry_stored en) eqn:Es; cbn [andb].
  - unfold lookup_meta in *. destruct en as [[i text] ks]. cbn [fst entry_has_key].
    cbn [assoc]. rewrite (bytes_eqb_sym (id_key id)).
    destruct (bytes_eqb (id_key i) (id_key id)); [reflexivity|exact IH].
  - exact IH.
Qed.

(** [prepared_meta_sound]: whatever the history, an id has metadata only if some PREPARE of the
    history was answered with (an id with the same key as) it; the metadata are the classifier's
    verdict on the text of the last such PREPARE the proxy stored anything for, and "is a SELECT"
    as handlePrepare saw that text. *)
Theorem prepared_meta_sound hist id m :
  lookup_meta (prepared_of hist) id = Some m ->
  exists h1 i text ks h2,
    hist = h1 ++ (i, text, ks) :: h2 /\ id_key i = id_key id /\
    prepare_is_handled text ks = false /\ snd (is_query_idempotent text) = 0 /\
    pm_idem m = fst (is_query_idempotent text) /\ pm_select m = prepare_is_select text ks /\
    Forall (fun en => entry_has_key id en = true -> entry_stored en = false) h2.
Proof.
  rewrite lookup_prepared_of.
  destruct (find_last _ hist) as [[[i text] ks]|] eqn:E; [|discriminate].
  cbn [option_map]. intro H. injection H as <-.
  apply find_last_some in E. destruct E as (h1 & h2 & -> & Hp & Hn).
  apply andb_true_iff in Hp. destruct Hp as [Hs Hk].
  unfold entry_stored in Hs. apply andb_true_iff in Hs. destruct Hs as [Hh He].
  apply negb_true_iff in Hh. apply N.eqb_eq in He. cbn [entry_has_key] in Hk. apply bytes_eqb_eq in Hk.
  exists h1, i, text, ks, h2. repeat split; try assumption; try reflexivity.
  apply Forall_forall. intros en Hin Hkey. rewrite forallb_forall in Hn. specialize (Hn en Hin).
  apply negb_true_iff in Hn. rewrite Hkey, andb_true_r in Hn. exact Hn.
Qed.

(** ids never (successfully, parseably) prepared through the proxy have no metadata: an EXECUTE
    or BATCH child naming them is neither idempotent nor a SELECT *)
Theorem unprepared_id_absent hist id :
  Forall (fun en => entry_has_key id en = false \/ entry_stored en = false) hist ->
  lookup_meta (prepared_of hist) id = None /\
  id_idempotent (prepared_of hist) id = false /\ id_select (prepared_of hist) id = false.
Proof.
  intro H. assert (E : lookup_meta (prepared_of hist) id = None).
  { rewrite lookup_prepared_of.
    replace (find_last _ hist) with (@None hist_entry); [reflexivity|]. symmetry. apply find_last_none.
    apply forallb_forall. intros en Hin. rewrite Forall_forall in H. destruct (H en Hin) as [Hk|Hs].
    - rewrite Hk, andb_false_r. reflexivity.
    - rewrite Hs. reflexivity. }
  unfold id_idempotent, id_select. rewrite E. auto.
Qed.

Corollary never_prepared_id_absent hist id :
  Forall (fun en => id_key (fst (fst en)) <> id_key id) hist ->
  lookup_meta (prepared_of hist) id = None.
Proof.
  intro H. apply unprepared_id_absent. eapply Forall_impl; [|exact H].
  intros [[i text] ks] Hne. left. cbn [entry_has_key]. apply bytes_eqb_neq. exact Hne.
Qed.

(** When the LAST PREPARE answered with the id was stored, the metadata are that PREPARE's. *)
Theorem prepared_meta_last hist h1 i text ks h2 id :
  hist = h1 ++ (i, text, ks) :: h2 -> id_key i = id_key id ->
  Forall (fun en => entry_has_key id en = false) h2 ->
  prepare_is_handled text ks = false -> snd (is_query_idempotent text) = 0 ->
  lookup_meta (prepared_of hist) id =
  Some {| pm_idem := fst (is_query_idempotent text); pm_select := prepare_is_select text ks |}.
Proof.
  intros -> Hk Hn Hh He. rewrite lookup_prepared_of.
  rewrite (find_last_last _ h1 (i, text, ks) h2); [reflexivity| |].
  - cbn [entry_stored entry_has_key]. rewrite Hh, He, Hk, bytes_eqb_refl. reflexivity.
  - apply forallb_forall. intros en Hin. rewrite Forall_forall in Hn. rewrite (Hn en Hin), andb_false_r. reflexivity.
Qed.

(** OPEN (false as stated): "the metadata of an id are those of the LAST successful PREPARE of that id".
    REFUTED: when the classifier reports a parse error for the last PREPARE nothing is stored and
    the entry of an EARLIER PREPARE answered with the same id survives.  Here the id's last text is
    not idempotent (it does not parse) and yet an EXECUTE of the id counts as idempotent.  (Backends
    derive ids from the text, so this needs a backend that answers two different texts with one
    id; see [prepared_meta_functional] for the statement that holds.) *)
Definition stale_hist : list hist_entry :=
  [([1; 2; 3], str "INSERT INTO ks.t (a) VALUES (1)", []); ([1; 2; 3], str "garbage", [])].
Theorem prepared_meta_last_refuted :
  exists hist h1 i text ks id,
    hist = h1 ++ [(i, text, ks)] /\ id_key i = id_key id /\ prepare_is_handled text ks = false /\
    fst (is_query_idempotent text) = false /\
    id_idempotent (prepared_of hist) id = true.
Proof.
  exists stale_hist, [([1; 2; 3], str "INSERT INTO ks.t (a) VALUES (1)", [])], [1; 2; 3], (str "garbage"), [], [1; 2; 3].
  vm_compute. repeat split; reflexivity.
Qed.

(** A history is functional when answers with the same id (key) belong to the same text and
    keyspace -- what a backend computing ids from (keyspace, text) guarantees. *)
Definition functional_hist (hist : list hist_entry) : Prop :=
  forall i1 t1 k1 i2 t2 k2, In (i1, t1, k1) hist -> In (i2, t2, k2) hist -> id_key i1 = id_key i2 -> t1 = t2 /\ k1 = k2.

(** For a functional history: the metadata of an id are the classifier's verdict on THE text
    prepared under that id (any PREPARE of it, in particular the last), and an id none of whose
    PREPAREs went through has none.  With [unparseable_is_not_idempotent]: idempotent iff the
    classifier says so. *)
Theorem prepared_meta_functional hist i text ks id :
  functional_hist hist -> In (i, text, ks) hist -> id_key i = id_key id -> prepare_is_handled text ks = false ->
  id_idempotent (prepared_of hist) id = fst (is_query_idempotent text) /\
  id_select (prepared_of hist) id = (prepare_is_select text ks && (snd (is_query_idempotent text) =? 0)).
Proof.
  intros Hf Hin Hk Hh. unfold id_idempotent, id_select. rewrite lookup_prepared_of.
  destruct (find_last _ hist) as [[[i' text'] ks']|] eqn:E.
  - apply find_last_some in E. destruct E as (h1 & h2 & Hhist & Hp & _).
    apply andb_true_iff in Hp. destruct Hp as [Hs Hk'].
    cbn [entry_has_key] in Hk'. apply bytes_eqb_eq in Hk'.
    assert (Hin' : In (i', text', ks') hist) by (rewrite Hhist; apply in_or_app; right; left; reflexivity).
    destruct (Hf _ _ _ _ _ _ Hin Hin' (eq_trans Hk (eq_sym Hk'))) as [<- <-].
    cbn [option_map entry_meta pm_idem pm_select]. split; [reflexivity|].
    unfold entry_stored in Hs. apply andb_true_iff in Hs. destruct Hs as [_ He]. rewrite He, andb_true_r. reflexivity.
  - cbn [option_map]. apply find_last_none in E. rewrite forallb_forall in E. specialize (E _ Hin).
    apply negb_true_iff in E. cbn [entry_stored entry_has_key] in E.
    rewrite Hh, Hk, bytes_eqb_refl, andb_true_r in E. cbn [negb andb] in E.
    rewrite E, andb_false_r. split; [|reflexivity].
    symmetry. apply unparseable_is_not_idempotent. unfold is_query_idempotent in E.
    intro H0. rewrite H0 in E. discriminate.
Qed.

(** ** the frame the gate dispatches: header, body, envelope *)
Definition logical (lb : option bytes) (body : bytes) : bytes := match lb with Some l => l | None => body end.

Lemma gate_dispatched_inv maxv st h body :
  gate maxv st h body = GDispatched ->
  3 <= h_version h <= maxv /\
  (h_opcode h = 7 \/ h_opcode h = 9 \/ h_opcode h = 10 \/ h_opcode h = 13) /\
  exists pl msg, split_envelope (h_flags h) body = Some (pl, msg).
Proof.
  intro H. pose proof (gate_classification maxv st h body) as Hc. rewrite H in Hc. destruct Hc as [Hr Ho].
  split; [exact Hr|]. split; [exact Ho|].
  unfold gate in H.
  destruct ((maxv <? h_version h) || (h_version h <? 3)); [discriminate|].
  destruct (flag_compressed (h_flags h) && negb (compression_supported (comp st))); [discriminate|].
  destruct (split_envelope (h_flags h) body) as [[pl msg]|]; [eauto|discriminate].
Qed.

(** after [GDispatched] the two re-decoding steps of [front] cannot fail: its [AClosed] fall-backs
    are unreachable and [front] is [dispatch] on the decoded header and the logical body *)
Lemma front_dispatched e c prep cl frame lb :
  receive (maxv c) (fc_gate cl) frame lb = GDispatched ->
  exists h r body rest0 pl rest,
    decode_header frame = inr (h, r) /\ get_z (h_len h) r = Some (body, rest0) /\
    3 <= h_version h <= maxv c /\
    (h_opcode h = 7 \/ h_opcode h = 9 \/ h_opcode h = 10 \/ h_opcode h = 13) /\
    split_envelope (h_flags h) (logical lb body) = Some (pl, rest) /\
    front e c prep cl frame lb = dispatch e c prep cl h (logical lb body).
Proof.
  intro H. unfold front. rewrite H. unfold receive in H.
  destruct (decode_header frame) as [er|[h r]] eqn:Hd; [discriminate|].
  destruct (h_len h <? 0)%Z; [discriminate|].
  destruct (get_z (h_len h) r) as [[body rest0]|] eqn:Hg; [|discriminate].
  apply gate_dispatched_inv in H. destruct H as (Hr & Ho & pl & rest & Hs).
  exists h, r, body, rest0, pl, rest.
  split; [reflexivity|]. split; [exact Hg|]. split; [exact Hr|]. split; [exact Ho|]. split; [exact Hs|]. reflexivity.
Qed.

Lemma front_not_dispatched e c prep cl frame lb :
  receive (maxv c) (fc_gate cl) frame lb <> GDispatched ->
  front e c prep cl frame lb =
  match receive (maxv c) (fc_gate cl) frame lb with
  | GAnswered rs st' => (ALocal rs, set_gate cl st')
  | GUnmodelled => (AUnmodelled, cl)
  | _ => (AClosed, cl)
  end.
Proof. intro H. unfold front. destruct (receive (maxv c) (fc_gate cl) frame lb); try reflexivity. congruence. Qed.

(** no decoder of the model ever yields [Panic] or [OutOfFuel] *)
Lemma decode_msg_total op v b : match decode_msg op v b with Ok _ | Err _ => True | _ => False end.
Proof.
  unfold decode_msg. destruct (op =? 7).
  - pose proof (decode_query_total b) as H. destruct (decode_query b); auto.
  - destruct (op =? 10).
    + pose proof (decode_execute_total v b) as H. destruct (decode_execute v b); auto.
    + pose proof (decode_batch_total b) as H. destruct (decode_batch b); auto.
Qed.

(** ** F1 (C03/C09): forwarded iff not handled; closed iff the body does not decode *)
Definition is_forward (a : faction) : bool := match a with AForward _ _ _ _ _ => true | _ => false end.
Definition is_handled_action (a : faction) : bool :=
  match a with AHandledQuery _ _ | AHandledPrepare _ _ _ | AHandledExecute _ => true | _ => false end.

(** what the message asks for, read off the message alone: [None] the message does not decode;
    [Some true] a statement the proxy answers itself (QUERY / PREPARE: [is_query_handled] in the
    keyspace in force; EXECUTE: an id this connection got from the proxy itself); [Some false]
    anything else *)
Definition frame_handled (cl : fclient) (h : header) (rest : bytes) : option bool :=
  if h_opcode h =? 9 then
    match decode_prepare (h_version h) rest with
    | Some p => Some (prepare_is_handled (p_query p) (prepare_keyspace cl p))
    | None => None
    end
  else
    match decode_msg (h_opcode h) (h_version h) rest with
    | Ok (MQuery q) => Some (prepare_is_handled (q_query q) (fc_keyspace cl))
    | Ok (MExecute x) => Some (match assoc (id_key (x_id x)) (fc_sysprep cl) with Some _ => true | None => false end)
    | Ok (MBatch _) => Some false
    | _ => None
    end.

Lemma handle_prepare_handled e c cl h lbody p :
  prepare_is_handled (p_query p) (prepare_keyspace cl p) = true ->
  is_handled_action (fst (handle_prepare e c cl h lbody p)) = true.
Proof.
  unfold prepare_is_handled, handle_prepare.
  destruct (is_query_handled (ident_from (prepare_keyspace cl p)) (p_query p)) as [[handled st] err].
  intros ->. destruct err; [reflexivity|].
  destruct st as [tbl sels| |ks|]; try reflexivity.
  destruct (lookup_table tbl) as [cols|]; [|reflexivity].
  destruct (filter_columns tbl cols sels); reflexivity.
Qed.

Lemma handle_prepare_forward e c cl h lbody p :
  prepare_is_handled (p_query p) (prepare_keyspace cl p) = false ->
  handle_prepare e c cl h lbody p =
  (execute e c cl h lbody IsIdempotent (prepare_is_select (p_query p) (prepare_keyspace cl p)) (FPrepare p), cl).
Proof.
  unfold prepare_is_handled, prepare_is_select, handle_prepare.
  destruct (is_query_handled (ident_from (prepare_keyspace cl p)) (p_query p)) as [[handled st] err].
  intros ->. reflexivity.
Qed.

Lemma handle_query_handled e c cl h lbody pl q :
  prepare_is_handled (q_query q) (fc_keyspace cl) = true ->
  is_handled_action (fst (handle_query e c cl h lbody pl q)) = true.
Proof.
  unfold prepare_is_handled, handle_query.
  destruct (is_query_handled (ident_from (fc_keyspace cl)) (q_query q)) as [[handled st] err].
  intros ->. destruct err; reflexivity.
Qed.

Lemma handle_query_forward e c cl h lbody pl q :
  prepare_is_handled (q_query q) (fc_keyspace cl) = false ->
  handle_query e c cl h lbody pl q =
  (execute e c cl h lbody (default_idempotency c pl) (prepare_is_select (q_query q) (fc_keyspace cl)) (FReq (MQuery q)), cl).
Proof.
  unfold prepare_is_handled, prepare_is_select, handle_query.
  destruct (is_query_handled (ident_from (fc_keyspace cl)) (q_query q)) as [[handled st] err].
  intros ->. reflexivity.
Qed.

Lemma execute_cases e c cl h lbody state sel msg :
  execute e c cl h lbody state sel msg =
  if session_ok e (h_version h) (fc_keyspace cl) (comp (fc_gate cl)) then
    AForward (h_opcode h)
      (match msg with FPrepare _ => FwdRaw
                    | FReq _ => process_request (ocfg_of c) sel (h_version h) (h_flags h) (h_opcode h) lbody end)
      state sel msg
  else ANoSession.
Proof. reflexivity. Qed.

(** [front_forwards_iff].  For EVERY frame the gate dispatches (a header the codec accepts, version
    in [3, maxv], opcode QUERY / PREPARE / EXECUTE / BATCH, body complete, not compressed or on a
    connection with a supported compression, custom payload readable):
    - the message does not decode           => the connection is closed;
    - it asks for something the proxy owns  => one of the [AHandled*] actions, nothing is forwarded;
    - anything else                         => forwarded (a request is created and sent), unless no
      backend session for (version, current keyspace, compression) can be had, which is answered
      with a server error. *)
Theorem front_forwards_iff e c prep cl frame lb :
  receive (maxv c) (fc_gate cl) frame lb = GDispatched ->
  exists h r body rest0 pl rest,
    decode_header frame = inr (h, r) /\ get_z (h_len h) r = Some (body, rest0) /\
    split_envelope (h_flags h) (logical lb body) = Some (pl, rest) /\
    match frame_handled cl h rest with
    | None => fst (front e c prep cl frame lb) = AClosed
    | Some true => is_handled_action (fst (front e c prep cl frame lb)) = true
    | Some false =>
        if session_ok e (h_version h) (fc_keyspace cl) (comp (fc_gate cl))
        then is_forward (fst (front e c prep cl frame lb)) = true
        else fst (front e c prep cl frame lb) = ANoSession
    end.
Proof.
  intro H. destruct (front_dispatched e c prep cl frame lb H) as (h & r & body & rest0 & pl & rest & Hd & Hg & _ & _ & Hs & Hf).
  exists h, r, body, rest0, pl, rest. split; [exact Hd|]. split; [exact Hg|]. split; [exact Hs|].
  rewrite Hf. unfold dispatch, frame_handled. rewrite Hs.
  destruct (h_opcode h =? 9).
  - destruct (decode_prepare (h_version h) rest) as [p|]; [|reflexivity].
    destruct (prepare_is_handled (p_query p) (prepare_keyspace cl p)) eqn:Eh.
    + apply handle_prepare_handled. exact Eh.
    + rewrite handle_prepare_forward by exact Eh. cbn [fst]. rewrite execute_cases.
      destruct (session_ok e (h_version h) (fc_keyspace cl) (comp (fc_gate cl))); reflexivity.
  - pose proof (decode_msg_total (h_opcode h) (h_version h) rest) as Ht.
    destruct (decode_msg (h_opcode h) (h_version h) rest) as [[q|x|b]|er|er|]; try reflexivity.
    + destruct (prepare_is_handled (q_query q) (fc_keyspace cl)) eqn:Eh.
      * apply handle_query_handled. exact Eh.
      * rewrite handle_query_forward by exact Eh. cbn [fst]. rewrite execute_cases.
        destruct (session_ok e (h_version h) (fc_keyspace cl) (comp (fc_gate cl))); reflexivity.
    + unfold handle_execute. destruct (assoc (id_key (x_id x)) (fc_sysprep cl)) as [st|]; [reflexivity|].
      cbn [fst]. rewrite execute_cases.
      destruct (session_ok e (h_version h) (fc_keyspace cl) (comp (fc_gate cl))); reflexivity.
    + cbn [fst]. rewrite execute_cases.
      destruct (session_ok e (h_version h) (fc_keyspace cl) (comp (fc_gate cl))); reflexivity.
Qed.

(** as an equivalence, with a backend session available *)
Corollary front_forward_iff_not_handled e c prep cl frame lb h r body rest0 pl rest :
  receive (maxv c) (fc_gate cl) frame lb = GDispatched ->
  decode_header frame = inr (h, r) -> get_z (h_len h) r = Some (body, rest0) ->
  split_envelope (h_flags h) (logical lb body) = Some (pl, rest) ->
  session_ok e (h_version h) (fc_keyspace cl) (comp (fc_gate cl)) = true ->
  (is_forward (fst (front e c prep cl frame lb)) = true <-> frame_handled cl h rest = Some false) /\
  (is_handled_action (fst (front e c prep cl frame lb)) = true <-> frame_handled cl h rest = Some true) /\
  (fst (front e c prep cl frame lb) = AClosed <-> frame_handled cl h rest = None).
Proof.
  intros H Hd Hg Hs Hok.
  destruct (front_forwards_iff e c prep cl frame lb H) as (h' & r' & body' & rest0' & pl' & rest' & Hd' & Hg' & Hs' & Hm).
  rewrite Hd in Hd'. injection Hd' as <- <-. rewrite Hg in Hg'. injection Hg' as <- <-.
  rewrite Hs in Hs'. injection Hs' as <- <-. rewrite Hok in Hm.
  destruct (frame_handled cl h rest) as [[|]|]; destruct (fst (front e c prep cl frame lb));
    cbn in Hm |- *; try discriminate; repeat split; intros; try discriminate; try reflexivity.
Qed.

(** *** no well-formed QUERY / EXECUTE / BATCH / PREPARE is dropped: a body laid out as the
    reference codec writes it (any option tail) decodes, so the frame is forwarded or handled *)
Definition ref_prepare (v : N) (q : bytes) (flags : Z) (ks tail : bytes) : bytes :=
  enc_long_string q ++
  (if supports_prepare_flags v then enc_int flags ++ (if Z.odd flags then enc_short_bytes ks else []) else []) ++ tail.

Lemma decode_ref_prepare v q flags ks tail :
  len31 q -> (-2147483648 <= flags < 2147483648)%Z -> len16 ks ->
  decode_prepare v (ref_prepare v q flags ks tail) =
  Some {| p_query := q; p_keyspace := if supports_prepare_flags v && Z.odd flags then ks else [] |}.
Proof.
  intros Hq Hf Hk. unfold decode_prepare, ref_prepare.
  rewrite read_long_string_enc by exact Hq.
  destruct (supports_prepare_flags v); [|reflexivity]. cbn [andb].
  rewrite <- app_assoc. rewrite read_int_enc by exact Hf.
  destruct (Z.odd flags); [|reflexivity].
  unfold read_string. rewrite read_short_bytes_enc by exact Hk. reflexivity.
Qed.

(** the reference layouts of the four request messages *)
Inductive ref_message (v : N) : N -> bytes -> Prop :=
| RefQuery q cl tail : len31 q -> cl < 65536 -> ref_message v 7 (ref_query q cl tail)
| RefPrepare q flags ks tail : len31 q -> (-2147483648 <= flags < 2147483648)%Z -> len16 ks ->
    ref_message v 9 (ref_prepare v q flags ks tail)
| RefExecute id rmid cl tail : id <> [] -> len16 id -> (supports_rmid v = true -> rmid <> [] /\ len16 rmid) -> cl < 65536 ->
    ref_message v 10 (ref_execute v id rmid cl tail)
| RefBatch t cs cl tail : t <= 2 -> Forall wf_child cs -> N.of_nat (length cs) < 65536 -> cl < 65536 ->
    ref_message v 13 (ref_batch t cs cl tail).

Lemma ref_message_decodes cl h rest :
  ref_message (h_version h) (h_opcode h) rest -> frame_handled cl h rest <> None.
Proof.
  unfold frame_handled. intro H. inversion H as [q c0 tail Hq Hc Eo Er|q fl ks tail Hq Hf Hk Eo Er|id rmid c0 tail H1 H2 H3 H4 Eo Er|t cs c0 tail H1 H2 H3 H4 Eo Er].
  - cbn [N.eqb Pos.eqb]. unfold decode_msg. cbn [N.eqb Pos.eqb]. rewrite decode_ref_query by assumption. discriminate.
  - cbn [N.eqb Pos.eqb]. rewrite decode_ref_prepare by assumption. discriminate.
  - cbn [N.eqb Pos.eqb]. unfold decode_msg. cbn [N.eqb Pos.eqb]. rewrite decode_ref_execute by assumption.
    destruct (assoc _ _); discriminate.
  - cbn [N.eqb Pos.eqb]. unfold decode_msg. cbn [N.eqb Pos.eqb]. rewrite decode_ref_batch by assumption. discriminate.
Qed.

Theorem front_never_drops_wellformed e c prep cl frame lb h r body rest0 pl rest :
  receive (maxv c) (fc_gate cl) frame lb = GDispatched ->
  decode_header frame = inr (h, r) -> get_z (h_len h) r = Some (body, rest0) ->
  split_envelope (h_flags h) (logical lb body) = Some (pl, rest) ->
  ref_message (h_version h) (h_opcode h) rest ->
  fst (front e c prep cl frame lb) <> AClosed /\
  (session_ok e (h_version h) (fc_keyspace cl) (comp (fc_gate cl)) = true ->
   is_forward (fst (front e c prep cl frame lb)) = true \/ is_handled_action (fst (front e c prep cl frame lb)) = true).
Proof.
  intros H Hd Hg Hs Hm. apply (ref_message_decodes cl) in Hm.
  destruct (front_forwards_iff e c prep cl frame lb H) as (h' & r' & body' & rest0' & pl' & rest' & Hd' & Hg' & Hs' & Hc).
  rewrite Hd in Hd'. injection Hd' as <- <-. rewrite Hg in Hg'. injection Hg' as <- <-.
  rewrite Hs in Hs'. injection Hs' as <- <-.
  destruct (frame_handled cl h rest) as [[|]|]; [| |congruence].
  - split; [intro E; rewrite E in Hc; discriminate|]. auto.
  - destruct (session_ok e (h_version h) (fc_keyspace cl) (comp (fc_gate cl))).
    + split; [intro E; rewrite E in Hc; discriminate|]. auto.
    + split; [rewrite Hc; discriminate|]. discriminate.
Qed.

(** ** F3 (C12) and the master inversion: everything about a forwarded request *)
Theorem forward_kind e c prep cl frame lb op f state sel msg :
  fst (front e c prep cl frame lb) = AForward op f state sel msg ->
  exists h r body rest0 pl rest,
    decode_header frame = inr (h, r) /\ get_z (h_len h) r = Some (body, rest0) /\
    3 <= h_version h <= maxv c /\
    split_envelope (h_flags h) (logical lb body) = Some (pl, rest) /\
    op = h_opcode h /\
    session_ok e (h_version h) (fc_keyspace cl) (comp (fc_gate cl)) = true /\
    match msg with
    | FPrepare p =>
        op = 9 /\ decode_prepare (h_version h) rest = Some p /\
        prepare_is_handled (p_query p) (prepare_keyspace cl p) = false /\
        f = FwdRaw /\ state = IsIdempotent /\
        sel = prepare_is_select (p_query p) (prepare_keyspace cl p)
    | FReq m =>
        decode_msg op (h_version h) rest = Ok m /\
        f = process_request (ocfg_of c) sel (h_version h) (h_flags h) op (logical lb body) /\
        match m with
        | MQuery q =>
            op = 7 /\ prepare_is_handled (q_query q) (fc_keyspace cl) = false /\
            sel = prepare_is_select (q_query q) (fc_keyspace cl) /\ state = default_idempotency c pl
        | MExecute x =>
            op = 10 /\ assoc (id_key (x_id x)) (fc_sysprep cl) = None /\
            sel = id_select prep (x_id x) /\ state = default_idempotency c pl
        | MBatch b => op = 13 /\ sel = false /\ state = NotDetermined
        end
    end.
Proof.
  intro Hfw.
  destruct (receive (maxv c) (fc_gate cl) frame lb) eqn:Hr;
    try (rewrite front_not_dispatched in Hfw by (rewrite Hr; discriminate); rewrite Hr in Hfw; discriminate).
  destruct (front_dispatched e c prep cl frame lb Hr) as (h & r & body & rest0 & pl & rest & Hd & Hg & Hv & Ho & Hs & Hf).
  exists h, r, body, rest0, pl, rest. split; [exact Hd|]. split; [exact Hg|]. split; [exact Hv|]. split; [exact Hs|].
  rewrite Hf in Hfw. unfold dispatch in Hfw. rewrite Hs in Hfw.
  destruct (N.eqb_spec (h_opcode h) 9) as [E9|N9].
  - destruct (decode_prepare (h_version h) rest) as [p|] eqn:Ep; [|discriminate].
    destruct (prepare_is_handled (p_query p) (prepare_keyspace cl p)) eqn:Eh.
    + pose proof (handle_prepare_handled e c cl h (logical lb body) p Eh) as Hh. rewrite Hfw in Hh. discriminate.
    + rewrite handle_prepare_forward in Hfw by exact Eh. cbn [fst] in Hfw. rewrite execute_cases in Hfw.
      destruct (session_ok e (h_version h) (fc_keyspace cl) (comp (fc_gate cl))); [|discriminate].
      injection Hfw as <- <- <- <- <-. repeat split; auto.
  - pose proof (decode_msg_inv (h_opcode h) (h_version h) rest) as Hinv.
    destruct (decode_msg (h_opcode h) (h_version h) rest) as [[q|x|b]|er|er|] eqn:Em; try discriminate.
    + destruct (Hinv _ eq_refl) as [(E7 & _)|[(E10 & x & Ex & _)|(_ & _ & b & Eb & _)]]; try discriminate.
      destruct (prepare_is_handled (q_query q) (fc_keyspace cl)) eqn:Eh.
      * pose proof (handle_query_handled e c cl h (logical lb body) pl q Eh) as Hh. rewrite Hfw in Hh. discriminate.
      * rewrite handle_query_forward in Hfw by exact Eh. cbn [fst] in Hfw. rewrite execute_cases in Hfw.
        destruct (session_ok e (h_version h) (fc_keyspace cl) (comp (fc_gate cl))); [|discriminate].
        injection Hfw as <- <- <- <- <-. repeat split; auto.
    + destruct (Hinv _ eq_refl) as [(_ & q & Eq & _)|[(E10 & _)|(_ & _ & b & Eb & _)]]; try discriminate.
      unfold handle_execute in Hfw.
      destruct (assoc (id_key (x_id x)) (fc_sysprep cl)) as [st|] eqn:Ea; [discriminate|].
      cbn [fst] in Hfw. rewrite execute_cases in Hfw.
      destruct (session_ok e (h_version h) (fc_keyspace cl) (comp (fc_gate cl))); [|discriminate].
      injection Hfw as <- <- <- <- <-. repeat split; auto.
    + destruct (Hinv _ eq_refl) as [(_ & q & Eq & _)|[(_ & x & Ex & _)|(N7 & N10 & _)]]; try discriminate.
      cbn [fst] in Hfw. rewrite execute_cases in Hfw.
      destruct (session_ok e (h_version h) (fc_keyspace cl) (comp (fc_gate cl))); [|discriminate].
      injection Hfw as <- <- <- <- <-. repeat split; auto.
      destruct Ho as [E|[E|[E|E]]]; congruence.
Qed.

(** *** consequences for the consistency override (C12) *)

(** a forwarded request is never [FwdReject]; it is re-encoded iff it is not a SELECT and its
    consistency is in the list *)
Corollary forward_reenc_iff e c prep cl frame lb op f state sel m :
  fst (front e c prep cl frame lb) = AForward op f state sel (FReq m) ->
  f <> FwdReject /\
  ((exists b l, f = FwdReenc b l) <-> (sel = false /\ is_unsupported (ocfg_of c) (msg_cl m) = true)) /\
  (f = FwdRaw <-> (sel = true \/ is_unsupported (ocfg_of c) (msg_cl m) = false)).
Proof.
  intro H. apply forward_kind in H.
  destruct H as (h & r & body & rest0 & pl & rest & _ & _ & _ & Hs & -> & _ & Em & -> & _).
  unfold process_request. rewrite Hs, Em.
  destruct sel; destruct (is_unsupported (ocfg_of c) (msg_cl m)); cbn [negb andb].
  all: split; [discriminate|]; split; split.
  all: try (intros (b & l & E); discriminate); try (intros [E1 E2]; discriminate).
  all: try (intros _; eauto; fail); try discriminate; try (intros [E|E]; discriminate); auto.
Qed.

(** a SELECT -- sent as QUERY, or an EXECUTE of an id whose metadata say SELECT -- and every
    PREPARE go out exactly as they came in *)
Corollary select_never_reencoded e c prep cl frame lb op f state msg :
  fst (front e c prep cl frame lb) = AForward op f state true msg -> f = FwdRaw.
Proof.
  intro H. destruct msg as [p|m].
  - apply forward_kind in H. destruct H as (h & r & body & rest0 & pl & rest & _ & _ & _ & _ & _ & _ & _ & _ & _ & E & _). exact E.
  - apply forward_reenc_iff in H. destruct H as (_ & _ & H). apply H. left. reflexivity.
Qed.

Corollary prepare_forwarded_raw e c prep cl frame lb op f state sel p :
  fst (front e c prep cl frame lb) = AForward op f state sel (FPrepare p) -> f = FwdRaw /\ state = IsIdempotent.
Proof.
  intro H. apply forward_kind in H.
  destruct H as (h & r & body & rest0 & pl & rest & _ & _ & _ & _ & _ & _ & _ & _ & _ & E & E' & _). auto.
Qed.

(** reflection of two generated token codes (Gen/LexRules.v): they differ *)
Lemma tkUse_not_tkSelect : (tkUse =? tkSelect) = false.
Proof. vm_compute. reflexivity. Qed.

(** for a statement the proxy does not handle, "is a SELECT" as the proxy computes it is: the first
    token is SELECT *)
Lemma not_handled_select_iff text ks :
  prepare_is_handled text ks = false -> prepare_is_select text ks = starts_with_select text.
Proof.
  unfold prepare_is_handled, prepare_is_select, starts_with_select, is_query_handled, is_handled_tokens.
  destruct (next (init_lstate (tokenize text))) as [t s]. cbn [fst].
  destruct (t =? tkSelect) eqn:Et.
  - destruct (handled_select (S (length (tokenize text))) (ident_from ks) s) as [[hd st] err].
    destruct hd; [discriminate|]. reflexivity.
  - destruct (t =? tkUse) eqn:Eu; [|reflexivity].
    destruct (next s) as [t1 s1]. destruct (negb (t1 =? tkIdentifier)); [reflexivity|discriminate].
Qed.

Lemma select_is_idempotent text : starts_with_select text = true -> is_query_idempotent text = (true, 0).
Proof.
  unfold starts_with_select, is_query_idempotent, is_idempotent_tokens.
  destruct (next (init_lstate (tokenize text))) as [t s]. cbn [fst]. intros ->. reflexivity.
Qed.

(** a SELECT prepared through this proxy (functional history) is known as a SELECT afterwards,
    so its EXECUTE is never re-encoded; a non-SELECT is known as a non-SELECT *)
Theorem prepared_select_known hist i text ks id :
  functional_hist hist -> In (i, text, ks) hist -> id_key i = id_key id -> prepare_is_handled text ks = false ->
  (starts_with_select text = true -> id_select (prepared_of hist) id = true) /\
  (starts_with_select text = false -> id_select (prepared_of hist) id = false).
Proof.
  intros Hf Hin Hk Hh. destruct (prepared_meta_functional hist i text ks id Hf Hin Hk Hh) as [_ Hs].
  rewrite Hs, (not_handled_select_iff text ks Hh). split; intro E; rewrite E; [|reflexivity].
  rewrite (select_is_idempotent text E). reflexivity.
Qed.

(** ** F5: the graph rule *)
Lemma default_idempotency_cases c pl :
  (has_graph_source pl = true /\ default_idempotency c pl = (if idem_graph c then IsIdempotent else NotIdempotent)) \/
  (has_graph_source pl = false /\ default_idempotency c pl = NotDetermined).
Proof. unfold default_idempotency. destruct (has_graph_source pl); auto. Qed.

(** a forwarded QUERY or EXECUTE carrying the custom-payload key "graph-source" is idempotent iff
    the idempotent-graph option is set -- whatever the statement or the prepared metadata say;
    without the key nothing is fixed at creation *)
Theorem graph_rule e c prep cl frame lb op f state sel msg :
  fst (front e c prep cl frame lb) = AForward op f state sel msg -> op = 7 \/ op = 10 ->
  exists h r body rest0 pl rest,
    decode_header frame = inr (h, r) /\ get_z (h_len h) r = Some (body, rest0) /\
    split_envelope (h_flags h) (logical lb body) = Some (pl, rest) /\
    (has_graph_source pl = true ->
       (state = IsIdempotent <-> idem_graph c = true) /\ (state = NotIdempotent <-> idem_graph c = false) /\
       check_idempotent prep state msg = idem_graph c) /\
    (has_graph_source pl = false -> state = NotDetermined).
Proof.
  intros H Hop. apply forward_kind in H.
  destruct H as (h & r & body & rest0 & pl & rest & Hd & Hg & _ & Hs & -> & _ & Hm).
  exists h, r, body, rest0, pl, rest. split; [exact Hd|]. split; [exact Hg|]. split; [exact Hs|].
  assert (Est : state = default_idempotency c pl).
  { destruct msg as [p|[q|x|b]].
    - destruct Hm as (E9 & _). rewrite E9 in Hop. destruct Hop; discriminate.
    - destruct Hm as (_ & _ & _ & _ & _ & E). exact E.
    - destruct Hm as (_ & _ & _ & _ & _ & E). exact E.
    - destruct Hm as (_ & _ & E13 & _). rewrite E13 in Hop. destruct Hop; discriminate. }
  subst state. unfold default_idempotency. split; intro Eg; rewrite Eg; [|reflexivity].
  destruct (idem_graph c); repeat split; intros; try reflexivity; try discriminate.
Qed.

(** REFUTED for BATCH (and vacuous for PREPARE): "with the graph-source key the request is idempotent
    iff idempotent-graph, whatever the statement".  client.Receive creates the request of a BATCH
    with state notDetermined without looking at the payload, so a BATCH carrying "graph-source"
    with the option OFF is classified by its children and retried when they are idempotent.
    (A PREPARE is IsIdempotent whatever the payload.  DSE graph requests are QUERY messages, so
    this is a deviation from the rule as worded rather than an observed misbehaviour.) *)
Definition graph_batch_frame : bytes :=
  let body := enc_bytes_map [(str "graph-source", Some [103])] ++
              [0; 0; 1; 0] ++ enc_long_string (str "INSERT INTO ks.t (a) VALUES (1)") ++ [0; 0] ++ enc_short 1 ++ [0] in
  [4; 4; 0; 1; 13] ++ enc_int (Z.of_nat (length body)) ++ body.
Definition ex_cfg : fcfg := {| maxv := 4; ocfg_of := {| unsupported := [6; 10]; override := 1 |}; idem_graph := false |}.
Theorem graph_rule_batch_refuted :
  exists c frame, idem_graph c = false /\
    match decode_header frame with
    | inr (h, r) => match split_envelope (h_flags h) r with Some (pl, _) => has_graph_source pl = true | None => False end
    | inl _ => False
    end /\
    match fst (front run_env c [] init_fclient frame None) with
    | AForward 13 _ NotDetermined false msg => check_idempotent [] NotDetermined msg = true
    | _ => False
    end.
Proof. exists ex_cfg, graph_batch_frame. vm_compute. repeat split; reflexivity. Qed.

(** ** F4: totality and locality *)

(** [front] is a total function ([Definition]s only, no fuel); its error-valued components never
    take the values reserved for crashes: *)
Theorem front_total e c prep cl frame lb :
  (exists a cl', front e c prep cl frame lb = (a, cl')) /\
  ident_of_string (fc_keyspace cl) = Ok (ident_from (fc_keyspace cl)) /\
  (forall op v b, is_panic (decode_msg op v b) = false /\ decode_msg op v b <> OutOfFuel).
Proof.
  split; [destruct (front e c prep cl frame lb) as [a cl']; eauto|]. split; [apply ident_from_ok|].
  intros op v b. pose proof (decode_msg_total op v b) as H. destruct (decode_msg op v b); try contradiction; split; try reflexivity; discriminate.
Qed.

Lemma intercept_cases e cl h st :
  intercept e cl h st = cl \/
  exists ks, st = StUse ks /\ session_ok e (h_version h) ks (comp (fc_gate cl)) = true /\ intercept e cl h st = set_keyspace cl ks.
Proof.
  unfold intercept. destruct st as [tbl sels| |ks|]; auto.
  destruct (session_ok e (h_version h) ks (comp (fc_gate cl))) eqn:E; [right; eauto|auto].
Qed.

(** what one frame can do to its connection's state:
    - answered in the gate: only the gate's state (compression / registration) may change;
    - a handled QUERY or EXECUTE: only the keyspace, and only for an accepted USE;
    - a handled PREPARE: only one more id in preparedSystemQuery, and only when answered with an id;
    - forwarded, closed, no session, unmodelled: nothing. *)
Theorem front_state_change e c prep cl frame lb a cl' :
  front e c prep cl frame lb = (a, cl') ->
  match a with
  | ALocal _ => exists st', cl' = set_gate cl st'
  | AHandledQuery st _ => cl' = cl \/ exists ks, st = StUse ks /\ cl' = set_keyspace cl ks
  | AHandledExecute st => cl' = cl \/ exists ks, st = StUse ks /\ cl' = set_keyspace cl ks
  | AHandledPrepare st err oid =>
      match oid with Some id => cl' = add_sysprep cl id st | None => cl' = cl end
  | _ => cl' = cl
  end.
Proof.
  intro H.
  destruct (receive (maxv c) (fc_gate cl) frame lb) eqn:Hr;
    try (rewrite front_not_dispatched in H by (rewrite Hr; discriminate); rewrite Hr in H; injection H as <- <-; eauto; fail).
  destruct (front_dispatched e c prep cl frame lb Hr) as (h & r & body & rest0 & pl & rest & _ & _ & _ & _ & Hs & Hf).
  rewrite Hf in H. unfold dispatch in H. rewrite Hs in H.
  destruct (h_opcode h =? 9).
  - destruct (decode_prepare (h_version h) rest) as [p|]; [|injection H as <- <-; reflexivity].
    unfold handle_prepare in H.
    destruct (is_query_handled (ident_from (prepare_keyspace cl p)) (p_query p)) as [[handled st] err].
    destruct handled.
    + destruct err; [injection H as <- <-; reflexivity|].
      destruct st as [tbl sels| |ks|]; try (injection H as <- <-; reflexivity).
      destruct (lookup_table tbl) as [cols|]; [|injection H as <- <-; reflexivity].
      destruct (filter_columns tbl cols sels); injection H as <- <-; reflexivity.
    + injection H as <- <-. rewrite execute_cases. destruct (session_ok _ _ _ _); reflexivity.
  - destruct (decode_msg (h_opcode h) (h_version h) rest) as [[q|x|b]|er|er|]; try (injection H as <- <-; reflexivity).
    + unfold handle_query in H.
      destruct (is_query_handled (ident_from (fc_keyspace cl)) (q_query q)) as [[handled st] err].
      destruct handled.
      * destruct err; injection H as <- <-; [left; reflexivity|].
        destruct (intercept_cases e cl h st) as [E|(ks & E1 & _ & E2)]; [left; exact E|right; eauto].
      * injection H as <- <-. rewrite execute_cases. destruct (session_ok _ _ _ _); reflexivity.
    + unfold handle_execute in H. destruct (assoc (id_key (x_id x)) (fc_sysprep cl)) as [st|].
      * injection H as <- <-.
        destruct (intercept_cases e cl h st) as [E|(ks & E1 & _ & E2)]; [left; exact E|right; eauto].
      * injection H as <- <-. rewrite execute_cases. destruct (session_ok _ _ _ _); reflexivity.
    + injection H as <- <-. rewrite execute_cases. destruct (session_ok _ _ _ _); reflexivity.
Qed.

(** several connections: a frame on connection [i] leaves every other connection alone; the
    proxy-wide prepared metadata are an input of [front], never an output (they change only in
    [on_prepared_result], when a backend answers) *)
Definition sys_front (e : fenv) (c : fcfg) (prep : prepared) (cls : list fclient) (i : nat)
    (frame : bytes) (lb : option bytes) : faction * list fclient :=
  match nth_error cls i with
  | None => (AClosed, cls)
  | Some cl => let '(a, cl') := front e c prep cl frame lb in (a, set_nth cls i cl')
  end.

Theorem other_clients_untouched e c prep cls i j frame lb :
  i <> j -> nth_error (snd (sys_front e c prep cls i frame lb)) j = nth_error cls j.
Proof.
  intro Hij. unfold sys_front. destruct (nth_error cls i) as [cl|]; [|reflexivity].
  destruct (front e c prep cl frame lb) as [a cl']. cbn [snd]. apply set_nth_other. exact Hij.
Qed.

(** ** F2 at the level of a frame: when is a forwarded request retried after an outcome that may
    have applied it?  Only if it is a PREPARE; or a QUERY / EXECUTE carrying "graph-source" with
    the idempotent-graph option; or, with nothing fixed at creation, the classifier / the
    prepared metadata justify it ([msg_justified]). *)
Theorem front_retry_justified e c prep cl frame lb op f state sel msg :
  fst (front e c prep cl frame lb) = AForward op f state sel msg ->
  check_idempotent prep state msg = true ->
  op = 9 \/
  ((op = 7 \/ op = 10) /\ idem_graph c = true /\
     exists h r body rest0 pl rest, decode_header frame = inr (h, r) /\ get_z (h_len h) r = Some (body, rest0) /\
       split_envelope (h_flags h) (logical lb body) = Some (pl, rest) /\ has_graph_source pl = true) \/
  (state = NotDetermined /\ msg_justified prep msg).
Proof.
  intros H Hc. pose proof H as H0. apply forward_kind in H.
  destruct H as (h & r & body & rest0 & pl & rest & Hd & Hg & _ & Hs & -> & _ & Hm).
  apply class_sound in Hc. destruct Hc as [->|Hc]; [|right; right; exact Hc].
  destruct msg as [p|[q|x|b]].
  - left. apply Hm.
  - destruct Hm as (_ & _ & E7 & _ & _ & Est). right. left. split; [left; exact E7|].
    unfold default_idempotency in Est. destruct (has_graph_source pl) eqn:Eg; [|discriminate].
    destruct (idem_graph c); [|discriminate]. split; [reflexivity|]. exists h, r, body, rest0, pl, rest. auto.
  - destruct Hm as (_ & _ & E10 & _ & _ & Est). right. left. split; [right; exact E10|].
    unfold default_idempotency in Est. destruct (has_graph_source pl) eqn:Eg; [|discriminate].
    destruct (idem_graph c); [|discriminate]. split; [reflexivity|]. exists h, r, body, rest0, pl, rest. auto.
  - destruct Hm as (_ & _ & _ & _ & Est). discriminate.
Qed.

(** the body of a re-encoded request: the same envelope and message with the override consistency *)
Theorem forward_reenc_body e c prep cl frame lb op b l state sel m :
  fst (front e c prep cl frame lb) = AForward op (FwdReenc b l) state sel (FReq m) ->
  exists h r body rest0 pl rest,
    decode_header frame = inr (h, r) /\ get_z (h_len h) r = Some (body, rest0) /\
    split_envelope (h_flags h) (logical lb body) = Some (pl, rest) /\ decode_msg op (h_version h) rest = Ok m /\
    b = reenc_body (h_version h) (h_flags h) pl (set_cl m (override (ocfg_of c))) /\ l = Z.of_nat (length b).
Proof.
  intro H. apply forward_kind in H.
  destruct H as (h & r & body & rest0 & pl & rest & Hd & Hg & _ & Hs & -> & _ & Em & Ef & _).
  exists h, r, body, rest0, pl, rest. split; [exact Hd|]. split; [exact Hg|]. split; [exact Hs|]. split; [exact Em|].
  unfold process_request in Ef. rewrite Hs, Em in Ef.
  destruct (negb sel && is_unsupported (ocfg_of c) (msg_cl m)); [|discriminate].
  injection Ef as -> ->. auto.
Qed.

(** the link to the token-level statements of C09 *)
Lemma prepare_is_handled_tokens text ks :
  prepare_is_handled text ks = fst (fst (is_handled_tokens (ident_from ks) (tokenize text))).
Proof.
  unfold prepare_is_handled, is_query_handled.
  destruct (is_handled_tokens (ident_from ks) (tokenize text)) as [[hd st] err]. reflexivity.
Qed.

Lemma frame_handled_query cl h rest q :
  h_opcode h = 7 -> decode_query rest = Ok q ->
  frame_handled cl h rest = Some (prepare_is_handled (q_query q) (fc_keyspace cl)).
Proof.
  intros E7 Eq. unfold frame_handled, decode_msg. rewrite E7. cbn [N.eqb Pos.eqb]. rewrite Eq. reflexivity.
Qed.

Lemma frame_handled_prepare cl h rest p :
  h_opcode h = 9 -> decode_prepare (h_version h) rest = Some p ->
  frame_handled cl h rest = Some (prepare_is_handled (p_query p) (prepare_keyspace cl p)).
Proof.
  intros E9 Ep. unfold frame_handled. rewrite E9. cbn [N.eqb Pos.eqb]. rewrite Ep. reflexivity.
Qed.

(** ** Examples: the hypotheses of the theorems above are satisfiable on non-trivial instances *)
Definition mk_frame (v flags op : N) (body : bytes) : bytes :=
  [v; flags; 0; 1; op] ++ enc_int (Z.of_nat (length body)) ++ body.
Definition query_body (q : bytes) (cl : N) : bytes := ref_query q cl [0].
Definition execute_body (id : bytes) (cl : N) : bytes := ref_execute 4 id [] cl [0].
Definition ins1 : bytes := str "INSERT INTO ks.t (a) VALUES (1)".
Definition ins_now : bytes := str "INSERT INTO ks.t (a) VALUES (now())".
Definition sel_user : bytes := str "SELECT * FROM ks.t".
Definition id_a : bytes := repeat 7 16.
Definition id_b : bytes := repeat 8 16.
Definition id_c : bytes := repeat 9 16.
Definition ex_hist : list hist_entry := [(id_a, ins1, []); (id_b, sel_user, []); (id_c, ins_now, [])].
Definition ex_prep : prepared := prepared_of ex_hist.

(** F2 *)
Example class_sound_ex :
  let m := FReq (MBatch {| b_type := 0;
                           b_children := [ {| ch_id := QStr ins1; ch_values := [0; 0] |};
                                           {| ch_id := QId id_a; ch_values := [0; 0] |} ];
                           b_cl := 1; b_params := [0] |}) in
  check_idempotent ex_prep NotDetermined m = true /\
  check_idempotent ex_prep NotDetermined (FReq (MExecute {| x_id := id_c; x_rmid := []; x_cl := 1; x_params := [] |})) = false /\
  check_idempotent ex_prep NotDetermined (FReq (MExecute {| x_id := repeat 1 16; x_rmid := []; x_cl := 1; x_params := [] |})) = false /\
  check_idempotent ex_prep NotDetermined (FReq (MQuery {| q_query := ins_now; q_cl := 1; q_params := [] |})) = false.
Proof. vm_compute. auto. Qed.

Example prepared_meta_sound_ex :
  lookup_meta ex_prep id_a = Some {| pm_idem := true; pm_select := false |} /\
  lookup_meta ex_prep id_b = Some {| pm_idem := true; pm_select := true |} /\
  lookup_meta ex_prep id_c = Some {| pm_idem := false; pm_select := false |} /\
  lookup_meta ex_prep (repeat 1 16) = None /\
  (* a short id is the same key as its zero-padded form *)
  lookup_meta (prepared_of [([1; 2; 3], ins1, [])]) ([1; 2; 3] ++ repeat 0 13) = Some {| pm_idem := true; pm_select := false |}.
Proof. vm_compute. auto 6. Qed.

Example functional_hist_ex : functional_hist ex_hist.
Proof.
  unfold functional_hist, ex_hist. intros i1 t1 k1 i2 t2 k2 H1 H2 Hk.
  cbn [In] in H1, H2.
  destruct H1 as [H1|[H1|[H1|[]]]]; destruct H2 as [H2|[H2|[H2|[]]]];
    injection H1 as <- <- <-; injection H2 as <- <- <-; try (split; reflexivity); vm_compute in Hk; discriminate.
Qed.

Example prepared_meta_functional_ex :
  id_idempotent ex_prep id_a = fst (is_query_idempotent ins1) /\ id_select ex_prep id_b = true.
Proof. vm_compute. auto. Qed.

(** F1 *)
Example front_forwards_iff_ex :
  let fr_user := mk_frame 4 0 7 (query_body sel_user 1) in
  let fr_sys := mk_frame 4 0 7 (query_body (str "SELECT * FROM system.local") 1) in
  let fr_bad := mk_frame 4 0 7 [0; 0; 0; 9; 1] in
  let fr_prep := mk_frame 5 0 9 (ref_prepare 5 (str "SELECT * FROM peers") 1 (str "system") []) in
  receive 5 init_cstate fr_user None = GDispatched /\
  is_forward (fst (front run_env ex_cfg ex_prep init_fclient fr_user None)) = true /\
  fst (front run_env ex_cfg ex_prep init_fclient fr_sys None) =
    AHandledQuery (StSelect (str "local") [SelStar]) false /\
  fst (front run_env ex_cfg ex_prep init_fclient fr_bad None) = AClosed /\
  (* a v5 PREPARE naming keyspace system: resolved there, answered by the proxy with an id *)
  is_handled_action (fst (front run_env {| maxv := 5; ocfg_of := ocfg_of ex_cfg; idem_graph := false |} ex_prep init_fclient fr_prep None)) = true /\
  (* the same text with no keyspace in force is forwarded *)
  is_forward (fst (front run_env ex_cfg ex_prep init_fclient (mk_frame 4 0 9 (ref_prepare 4 (str "SELECT * FROM peers") 0 [] [])) None)) = true /\
  (* no session: answered with a server error *)
  fst (front {| hash := fun b => b; session_ok := fun _ _ _ => false |} ex_cfg ex_prep init_fclient fr_user None) = ANoSession.
Proof. vm_compute. auto 8. Qed.

Example front_never_drops_wellformed_ex :
  ref_message 4 7 (query_body sel_user 1) /\ ref_message 4 10 (execute_body id_a 6) /\
  ref_message 5 9 (ref_prepare 5 sel_user 1 (str "ks") []).
Proof.
  split; [|split].
  - apply RefQuery; [unfold len31; vm_compute; reflexivity|reflexivity].
  - apply RefExecute; [discriminate|unfold len16; vm_compute; reflexivity|discriminate|reflexivity].
  - apply RefPrepare; [unfold len31; vm_compute; reflexivity|lia|unfold len16; vm_compute; reflexivity].
Qed.

(** F3 *)
Example forward_kind_ex :
  (* INSERT at a listed consistency: re-encoded with the override, classified by the classifier *)
  (match fst (front run_env ex_cfg ex_prep init_fclient (mk_frame 4 0 7 (query_body ins1 6)) None) with
   | AForward 7 (FwdReenc b l) NotDetermined false (FReq (MQuery q)) =>
       b = query_body ins1 1 /\ l = Z.of_nat (length b) /\ q_query q = ins1
   | _ => False
   end) /\
  (* SELECT at a listed consistency: raw *)
  (match fst (front run_env ex_cfg ex_prep init_fclient (mk_frame 4 0 7 (query_body sel_user 6)) None) with
   | AForward 7 FwdRaw NotDetermined true _ => True | _ => False end) /\
  (* EXECUTE of a prepared SELECT: raw; of a prepared INSERT: re-encoded; of an unknown id: re-encoded, not idempotent *)
  (match fst (front run_env ex_cfg ex_prep init_fclient (mk_frame 4 0 10 (execute_body id_b 6)) None) with
   | AForward 10 FwdRaw NotDetermined true _ => True | _ => False end) /\
  (match fst (front run_env ex_cfg ex_prep init_fclient (mk_frame 4 0 10 (execute_body id_a 6)) None) with
   | AForward 10 (FwdReenc _ _) NotDetermined false m => check_idempotent ex_prep NotDetermined m = true | _ => False end) /\
  (match fst (front run_env ex_cfg ex_prep init_fclient (mk_frame 4 0 10 (execute_body (repeat 1 16) 6)) None) with
   | AForward 10 (FwdReenc _ _) NotDetermined false m => check_idempotent ex_prep NotDetermined m = false | _ => False end) /\
  (* PREPARE: raw, idempotent *)
  (match fst (front run_env ex_cfg ex_prep init_fclient (mk_frame 4 0 9 (ref_prepare 4 ins_now 0 [] [])) None) with
   | AForward 9 FwdRaw IsIdempotent false (FPrepare p) => p_query p = ins_now | _ => False end).
Proof. vm_compute. auto 8. Qed.

(** F5 *)
Example graph_rule_ex :
  let fr := mk_frame 4 4 7 (enc_bytes_map [(str "graph-source", None)] ++ query_body sel_user 1) in
  (match fst (front run_env ex_cfg ex_prep init_fclient fr None) with
   | AForward 7 FwdRaw NotIdempotent true m => check_idempotent ex_prep NotIdempotent m = false | _ => False end) /\
  (match fst (front run_env {| maxv := 4; ocfg_of := ocfg_of ex_cfg; idem_graph := true |} ex_prep init_fclient
                 (mk_frame 4 4 7 (enc_bytes_map [(str "graph-source", Some [103])] ++ query_body ins_now 1)) None) with
   | AForward 7 FwdRaw IsIdempotent false m => check_idempotent ex_prep IsIdempotent m = true | _ => False end).
Proof. vm_compute. auto. Qed.

(** F4 *)
Example front_state_change_ex :
  snd (front run_env ex_cfg ex_prep init_fclient (mk_frame 4 0 7 (query_body (str "USE ""Ks""") 1)) None)
    = set_keyspace init_fclient (str """Ks""") /\
  (let '(a, cl') := front run_env ex_cfg ex_prep (set_keyspace init_fclient (str "system")) (mk_frame 4 0 9 (ref_prepare 4 (str "SELECT * FROM peers") 0 [] [])) None in
   match a with
   | AHandledPrepare (StSelect _ _) false (Some id) =>
       id = id_key (str "SELECT * FROM peerssystem") /\
       (* ... and the EXECUTE of that id is then answered by the proxy *)
       is_handled_action (fst (front run_env ex_cfg ex_prep cl' (mk_frame 4 0 10 (execute_body id 1)) None)) = true
   | _ => False
   end) /\
  snd (front run_env ex_cfg ex_prep init_fclient (mk_frame 4 0 1 ([0; 1] ++ enc_short_bytes (str "COMPRESSION") ++ enc_short_bytes (str "LZ4"))) None)
    = set_gate init_fclient {| comp := str "LZ4"; registered := false |}.
Proof. vm_compute. auto. Qed.

Example other_clients_untouched_ex :
  snd (sys_front run_env ex_cfg ex_prep [init_fclient; init_fclient] 1 (mk_frame 4 0 7 (query_body (str "USE ks") 1)) None)
  = [init_fclient; set_keyspace init_fclient (str "ks")].
Proof. vm_compute. reflexivity. Qed.

(** ** axiom audit *)
Print Assumptions class_sound.
Print Assumptions lookup_prepared_of.
Print Assumptions prepared_meta_sound.
Print Assumptions unprepared_id_absent.
Print Assumptions prepared_meta_last.
Print Assumptions prepared_meta_last_refuted.
Print Assumptions prepared_meta_functional.
Print Assumptions front_forwards_iff.
Print Assumptions front_forward_iff_not_handled.
Print Assumptions front_never_drops_wellformed.
Print Assumptions forward_kind.
Print Assumptions forward_reenc_iff.
Print Assumptions select_never_reencoded.
Print Assumptions prepared_select_known.
Print Assumptions graph_rule.
Print Assumptions front_retry_justified.
Print Assumptions forward_reenc_body.
Print Assumptions graph_rule_batch_refuted.
Print Assumptions front_total.
Print Assumptions front_state_change.
Print Assumptions other_clients_untouched.
