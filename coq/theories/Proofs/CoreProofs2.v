(** Proofs about Model/Core.v, part 2: C04 (T6: a non-idempotent request is never written again
    after an outcome that is not safe to resend), C05 (T7: writes follow the query plan, bounded by
    hosts + 1), at most one write per event, and worked examples. *)
From Coq Require Import List ZArith NArith Bool Lia Permutation Arith.
From CqlProxy Require Import Lib.Val Lib.Util Gen.Tables Model.Retry Proofs.RetryProofs Model.Core Proofs.CoreProofs.
Import ListNotations.
Local Open Scope N_scope.

Local Arguments handle_error : simpl never.

(** ** writes for one request *)
Definition writes_of (r : rid) (l : list output) : list (cid * N) :=
  flat_map (fun o => match o with ToBackend k s r' => if r' =? r then [(k, s)] else [] | _ => [] end) l.

Lemma backend_writes_eq w r : backend_writes w r = writes_of r (w_out w).
Proof. reflexivity. Qed.

Lemma writes_of_app r a b : writes_of r (a ++ b) = writes_of r a ++ writes_of r b.
Proof. unfold writes_of. apply flat_map_app. Qed.

Lemma writes_of_other r a l : Forall (fun o => out_req o = a) l -> a <> r -> writes_of r l = [].
Proof.
  intros F Hne. induction F as [|o l Ho _ IH]; [reflexivity|]. cbn [writes_of flat_map].
  fold (writes_of r l). rewrite IH, app_nil_r. destruct o as [k s r'|]; [|reflexivity].
  cbn [out_req] in Ho. subst r'. destruct (N.eqb_spec a r); [contradiction|reflexivity].
Qed.

Lemma writes_of_in r l k s : In (k, s) (writes_of r l) <-> In (ToBackend k s r) l.
Proof.
  unfold writes_of. rewrite in_flat_map. split.
  - intros (o & Hin & Ho). destruct o as [k' s' r'|]; [|destruct Ho].
    destruct (N.eqb_spec r' r) as [->|]; [|destruct Ho]. destruct Ho as [E|[]]. inversion E; subst. exact Hin.
  - intro Hin. exists (ToBackend k s r). split; [exact Hin|]. rewrite N.eqb_refl. left. reflexivity.
Qed.

(** ** an event whose request is unknown (and is not its start) or already answered changes
    neither the requests nor the output *)
Definition is_start (e : event) : bool := match e with EStart _ _ _ _ _ _ => true | _ => false end.

Lemma exec_internal_done orig w r next o q :
  lookupN r (w_reqs w) = Some q -> q_done q = true -> exec_internal orig w r next o = w.
Proof. intros Hq Hd. unfold exec_internal. rewrite Hq, Hd. reflexivity. Qed.

Lemma exec_internal_unknown orig w r next o : lookupN r (w_reqs w) = None -> exec_internal orig w r next o = w.
Proof. intros Hq. unfold exec_internal. rewrite Hq. reflexivity. Qed.

Lemma reply_once_done w r what q : lookupN r (w_reqs w) = Some q -> q_done q = true -> reply_once w r what = w.
Proof. intros Hq Hd. unfold reply_once. rewrite Hq, Hd. reflexivity. Qed.

Lemma reply_once_unknown w r what : lookupN r (w_reqs w) = None -> reply_once w r what = w.
Proof. intros Hq. unfold reply_once. rewrite Hq. reflexivity. Qed.

Lemma step_inert orig w e :
  match lookupN (active w e) (w_reqs w) with Some q => q_done q = true | None => is_start e = false end ->
  w_reqs (step_gen orig w e) = w_reqs w /\ w_out (step_gen orig w e) = w_out w.
Proof.
  destruct e as [r cl cs idem p o|k s f o|k|k r o|k h n]; cbn [active step_gen is_start].
  - destruct (lookupN r (w_reqs w)) as [q|]; [auto|discriminate].
  - destruct (lookupN k (w_conns w)) as [c|]; [|auto]. destruct (b_closing c); [auto|].
    destruct (lookupN s (b_pending c)) as [r|]; [|auto].
    rewrite reqs_set_conn. destruct (lookupN r (w_reqs w)) as [q|]; [|auto]. intro Hd. rewrite Hd. auto.
  - intros _. destruct (lookupN k (w_conns w)) as [c|]; [|auto]. destruct (b_closing c); auto.
  - destruct (lookupN k (w_conns w)) as [c|]; [|auto]. destruct (negb (existsb (N.eqb r) (b_tonotify c))); [auto|].
    rewrite reqs_set_conn. destruct (lookupN r (w_reqs w)) as [q|] eqn:Hq; [|auto]. intro Hd.
    destruct (q_idem q).
    + rewrite (exec_internal_done orig _ r true o q); auto.
    + rewrite (reply_once_done _ r CConnLost q); auto.
  - intros _. destruct (lookupN k (w_conns w)) as [c|]; auto.
Qed.

(** ** once answered, a request is never touched again and nothing is written for it *)
Lemma done_stable_step orig w e r q :
  lookupN r (w_reqs w) = Some q -> q_done q = true -> lookupN r (w_reqs (step_gen orig w e)) = Some q.
Proof.
  intros Hq Hd. destruct (gr_reqs _ _ (step_grows orig w e) r q Hq) as (q' & Hq' & _ & _ & _ & E).
  rewrite Hq', (E Hd). reflexivity.
Qed.

Lemma done_no_write_step orig w e r q :
  lookupN r (w_reqs w) = Some q -> q_done q = true ->
  backend_writes (step_gen orig w e) r = backend_writes w r.
Proof.
  intros Hq Hd. rewrite !backend_writes_eq.
  destruct (is_connect e) eqn:Hc.
  { destruct e; try discriminate. rewrite step_connect. destruct (lookupN k (w_conns w)); reflexivity. }
  destruct (N.eq_dec (active w e) r) as [Ha|Ha].
  - destruct (step_inert orig w e) as (_ & Ho); [rewrite Ha, Hq; exact Hd|]. rewrite Ho. reflexivity.
  - destruct (fr_out _ _ _ (frame_step orig w e Hc)) as (d & Hdelta & F & _).
    rewrite Hdelta, writes_of_app, (writes_of_other r _ d F Ha), app_nil_r. reflexivity.
Qed.

Lemma done_no_write_run orig es : forall w r q,
  lookupN r (w_reqs w) = Some q -> q_done q = true ->
  backend_writes (fold_left (step_gen orig) es w) r = backend_writes w r /\
  lookupN r (w_reqs (fold_left (step_gen orig) es w)) = Some q.
Proof.
  induction es as [|e es IH]; intros w r q Hq Hd; cbn [fold_left]; [auto|].
  destruct (IH (step_gen orig w e) r q (done_stable_step orig w e r q Hq Hd) Hd) as (W & Q).
  rewrite W. split; [eapply done_no_write_step; eassumption|exact Q].
Qed.

(** ** T6 (C04) *)
Lemma dec_distinct : (dec_ReturnError =? dec_RetryNext) = false /\ (dec_ReturnError =? dec_RetrySame) = false.
Proof. vm_compute. auto. Qed.

(** an outcome after which request [r] must not be written again *)
Inductive final_for (w : world) (r : rid) : event -> Prop :=
| FF_error k s m o : lookupN s (live w k) = Some r -> safe_to_resend (OError m) = false ->
                     final_for w r (EFrame k s (FError m) o)
| FF_result k s o : lookupN s (live w k) = Some r -> final_for w r (EFrame k s FResult o)
| FF_notify k c o : lookupN k (w_conns w) = Some c -> In r (b_tonotify c) -> final_for w r (ENotify k r o).

Lemma live_lookup_inv w k s r : lookupN s (live w k) = Some r ->
  exists c, lookupN k (w_conns w) = Some c /\ b_closing c = false /\ lookupN s (b_pending c) = Some r.
Proof.
  unfold live. destruct (lookupN k (w_conns w)) as [c|]; [|discriminate].
  destruct (b_closing c) eqn:Hcl; [discriminate|]. intro H. exists c. auto.
Qed.

Lemma reply_once_effect w r what q : lookupN r (w_reqs w) = Some q ->
  (exists q', lookupN r (w_reqs (reply_once w r what)) = Some q' /\ q_done q' = true) /\
  writes_of r (w_out (reply_once w r what)) = writes_of r (w_out w).
Proof.
  intro Hq. unfold reply_once. rewrite Hq. destruct (q_done q) eqn:Hd.
  - split; [exists q; auto|reflexivity].
  - split.
    + eexists. rewrite reqs_emit, reqs_set_req, lookupN_updateN_same. split; reflexivity.
    + rewrite out_emit, out_set_req, writes_of_app. cbn. apply app_nil_r.
Qed.

Lemma final_step orig w r q e :
  lookupN r (w_reqs w) = Some q -> ((forall k s o, e <> EFrame k s FResult o) -> q_idem q = false) -> final_for w r e ->
  backend_writes (step_gen orig w e) r = backend_writes w r /\
  exists q', lookupN r (w_reqs (step_gen orig w e)) = Some q' /\ q_done q' = true.
Proof.
  intros Hq Hi F. rewrite !backend_writes_eq.
  destruct F as [k s m o Hl Hs|k s o Hl|k c o Hk Hin]; cbn [step_gen].
  - specialize (Hi ltac:(discriminate)).
    destruct (live_lookup_inv _ _ _ _ Hl) as (c & Hk & Hcl & Hp). rewrite Hk, Hcl, Hp, reqs_set_conn, Hq.
    destruct (q_done q) eqn:Hd; [split; [reflexivity|exists q; auto]|].
    assert (Hdec : handle_error (q_idem q) m (q_retry q) = dec_ReturnError).
    { rewrite Hi. destruct (N.eq_dec (handle_error false m (q_retry q)) dec_ReturnError) as [E|E]; [exact E|].
      apply nonidem_retry_is_safe in E. congruence. }
    rewrite Hdec. destruct dec_distinct as (-> & ->).
    match goal with |- context [reply_once ?w1 r ?x] => destruct (reply_once_effect w1 r x q Hq) as (Q & W) end.
    split; [exact W|exact Q].
  - destruct (live_lookup_inv _ _ _ _ Hl) as (c & Hk & Hcl & Hp). rewrite Hk, Hcl, Hp, reqs_set_conn, Hq.
    destruct (q_done q) eqn:Hd; [split; [reflexivity|exists q; auto]|].
    match goal with |- context [reply_once ?w1 r ?x] => destruct (reply_once_effect w1 r x q Hq) as (Q & W) end.
    split; [exact W|exact Q].
  - specialize (Hi ltac:(discriminate)).
    rewrite Hk. apply existsb_eqb_in in Hin. rewrite Hin. cbn [negb]. rewrite reqs_set_conn, Hq, Hi.
    match goal with |- context [reply_once ?w1 r ?x] => destruct (reply_once_effect w1 r x q Hq) as (Q & W) end.
    split; [exact W|exact Q].
Qed.

Theorem nonidem_never_resent_after_unsafe_gen : forall orig es2 w e r q,
  lookupN r (w_reqs w) = Some q -> ((forall k s o, e <> EFrame k s FResult o) -> q_idem q = false) -> final_for w r e ->
  backend_writes (fold_left (step_gen orig) (e :: es2) w) r = backend_writes w r.
Proof.
  intros orig es2 w e r q Hq Hi F. cbn [fold_left].
  destruct (final_step orig w r q e Hq Hi F) as (W & q' & Hq' & Hd').
  rewrite (proj1 (done_no_write_run orig es2 _ r q' Hq' Hd')). exact W.
Qed.

Theorem core_nonidem_never_resent_after_unsafe : forall es1 e es2 r q,
  lookupN r (w_reqs (run_events es1)) = Some q -> q_idem q = false ->
  final_for (run_events es1) r e ->
  backend_writes (run_events (es1 ++ e :: es2)) r = backend_writes (run_events es1) r.
Proof.
  intros es1 e es2 r q Hq Hi F. rewrite run_events_app.
  exact (nonidem_never_resent_after_unsafe_gen false es2 _ e r q Hq (fun _ => Hi) F).
Qed.

(** any request: nothing is written for it after it has been answered *)
Theorem core_no_write_after_reply : forall es1 es2 r q,
  lookupN r (w_reqs (run_events es1)) = Some q -> q_done q = true ->
  backend_writes (run_events (es1 ++ es2)) r = backend_writes (run_events es1) r.
Proof.
  intros es1 es2 r q Hq Hd. rewrite run_events_app. exact (proj1 (done_no_write_run false es2 _ r q Hq Hd)).
Qed.

(** ** what causes a write *)
Lemma send_to_cases orig w r h ch :
  match send_to orig w r h ch with
  | (w1, SentOk) => exists k s c1, w_out w1 = w_out w ++ [ToBackend k s r] /\ lookupN k (w_conns w1) = Some c1 /\
                                   b_host c1 = h /\ w_reqs w1 = w_reqs w
  | (w1, SendErr) => w_out w1 = w_out w /\ w_reqs w1 = w_reqs w
  end.
Proof.
  unfold send_to. destruct ch as [[k ok]|]; [|auto].
  destruct (lookupN k (w_conns w)) as [c|] eqn:Hk; [|auto].
  destruct (b_host c =? h) eqn:Hh; cbn [negb]; [|auto]. apply N.eqb_eq in Hh.
  destruct (b_closing c); [auto|]. destruct (b_free c) as [|s fr]; [auto|].
  destruct ok; [|destruct orig; auto].
  eexists k, s, _. rewrite out_emit, out_set_conn, conns_emit, conns_set_conn, lookupN_updateN_same.
  split; [reflexivity|]. split; [reflexivity|]. split; [exact Hh|reflexivity].
Qed.

(** executeInternal writes the request at most once *)
Definition at_most_one_write (r : rid) (w w' : world) : Prop :=
  exists delta, w_out w' = w_out w ++ delta /\ (length (writes_of r delta) <= 1)%nat.

Lemma amo_refl r w : at_most_one_write r w w.
Proof. exists []. rewrite app_nil_r. split; [reflexivity|cbn; lia]. Qed.

Lemma amo_same_out r w w' : w_out w' = w_out w -> at_most_one_write r w w'.
Proof. intro H. exists []. rewrite app_nil_r. split; [exact H|cbn; lia]. Qed.

Lemma amo_reply_once r w what : at_most_one_write r w (reply_once w r what).
Proof.
  unfold reply_once. destruct (lookupN r (w_reqs w)) as [q|]; [|apply amo_refl].
  destruct (q_done q); [apply amo_refl|]. eexists. rewrite out_emit, out_set_req. split; [reflexivity|cbn; lia].
Qed.

Lemma amo_out_eq r w w' w'' : w_out w' = w_out w -> at_most_one_write r w' w'' -> at_most_one_write r w w''.
Proof. intros E (d & D & L). exists d. rewrite D, E. auto. Qed.

Lemma amo_exec_next orig r : forall p o w q, at_most_one_write r w (exec_next orig w r q p o).
Proof.
  induction p as [|h p' IH]; intros o w q; cbn [exec_next].
  - eapply amo_out_eq; [|apply amo_reply_once]. reflexivity.
  - set (w0 := set_req w r (with_host q (Some h) p')).
    pose proof (send_to_cases orig w0 r h (hd None o)) as C.
    destruct (send_to orig w0 r h (hd None o)) as [w1 res]. destruct res.
    + destruct C as (k & s & c1 & Ho & _). exists [ToBackend k s r]. split; [exact Ho|]. cbn. rewrite N.eqb_refl. cbn. lia.
    + destruct C as (Ho & _). eapply amo_out_eq; [|apply IH]. exact Ho.
Qed.

Lemma amo_exec_internal orig r w next o : at_most_one_write r w (exec_internal orig w r next o).
Proof.
  unfold exec_internal. destruct (lookupN r (w_reqs w)) as [q|]; [|apply amo_refl].
  destruct (q_done q); [apply amo_refl|]. destruct next; [apply amo_exec_next|].
  destruct (q_host q) as [h|]; [|apply amo_reply_once].
  pose proof (send_to_cases orig w r h (hd None o)) as C.
  destruct (send_to orig w r h (hd None o)) as [w1 res]. destruct res.
  - destruct C as (k & s & c1 & Ho & _). exists [ToBackend k s r]. split; [exact Ho|]. cbn. rewrite N.eqb_refl. cbn. lia.
  - destruct C as (Ho & _). eapply amo_out_eq; [|apply amo_exec_next]. exact Ho.
Qed.

Lemma bump_retry_out w r : w_out (bump_retry w r) = w_out w.
Proof. unfold bump_retry. destruct (lookupN r (w_reqs w)); reflexivity. Qed.

(** what can cause a write for [r]: its start, a retried error frame delivered to it, or the close
    notification of its connection if it is idempotent *)
Lemma step_write_cause orig w e r :
  writes_of r (w_out (step_gen orig w e)) <> writes_of r (w_out w) ->
  at_most_one_write r w (step_gen orig w e) /\
  ((exists cl cs idem p o, e = EStart r cl cs idem p o /\ lookupN r (w_reqs w) = None) \/
   (exists k s m o q, e = EFrame k s (FError m) o /\ lookupN s (live w k) = Some r /\
                      lookupN r (w_reqs w) = Some q /\ q_done q = false /\
                      handle_error (q_idem q) m (q_retry q) <> dec_ReturnError) \/
   (exists k c o q, e = ENotify k r o /\ lookupN k (w_conns w) = Some c /\ In r (b_tonotify c) /\
                    lookupN r (w_reqs w) = Some q /\ q_idem q = true /\ q_done q = false)).
Proof.
  intro Hne.
  destruct (is_connect e) eqn:Hc.
  { exfalso. apply Hne. destruct e; try discriminate. rewrite step_connect. destruct (lookupN k (w_conns w)); reflexivity. }
  destruct (N.eq_dec (active w e) r) as [Ha|Ha].
  2:{ exfalso. apply Hne. destruct (fr_out _ _ _ (frame_step orig w e Hc)) as (d & Hdelta & F & _).
      rewrite Hdelta, writes_of_app, (writes_of_other r _ d F Ha), app_nil_r. reflexivity. }
  destruct e as [r' cl cs idem p o|k s f o|k|k r' o|k h n]; cbn [active] in Ha; cbn [step_gen] in *; try discriminate.
  - (* EStart *) subst r'. destruct (lookupN r (w_reqs w)) as [q|] eqn:Hq; [exfalso; apply Hne; reflexivity|].
    split; [|left; eauto 10]. eapply amo_out_eq; [|apply amo_exec_internal]. reflexivity.
  - (* EFrame *)
    destruct (lookupN k (w_conns w)) as [c|] eqn:Hk; [|exfalso; apply Hne; reflexivity].
    destruct (b_closing c) eqn:Hcl; [exfalso; apply Hne; reflexivity|].
    destruct (lookupN s (b_pending c)) as [r'|] eqn:Hs; [|exfalso; apply Hne; reflexivity]. subst r'.
    rewrite reqs_set_conn in *.
    destruct (lookupN r (w_reqs w)) as [q|] eqn:Hq; [|exfalso; apply Hne; reflexivity].
    destruct (q_done q) eqn:Hd; [exfalso; apply Hne; reflexivity|].
    assert (Hlive : lookupN s (live w k) = Some r) by (unfold live; rewrite Hk, Hcl; exact Hs).
    assert (Hrep : forall w1 x, w_out w1 = w_out w -> lookupN r (w_reqs w1) = Some q ->
                                writes_of r (w_out (reply_once w1 r x)) = writes_of r (w_out w)).
    { intros w1 x Ho Hq1. rewrite (proj2 (reply_once_effect w1 r x q Hq1)), Ho. reflexivity. }
    destruct f as [|m]; [exfalso; apply Hne; apply Hrep; [reflexivity|exact Hq]|].
    destruct (handle_error (q_idem q) m (q_retry q) =? dec_RetryNext) eqn:E1.
    { split.
      - eapply amo_out_eq; [|apply amo_exec_internal]. rewrite bump_retry_out. reflexivity.
      - right. left. exists k, s, m, o, q. repeat split; auto. intro E. rewrite E in E1.
        rewrite (proj1 dec_distinct) in E1. discriminate. }
    destruct (handle_error (q_idem q) m (q_retry q) =? dec_RetrySame) eqn:E2.
    { split.
      - eapply amo_out_eq; [|apply amo_exec_internal]. rewrite bump_retry_out. reflexivity.
      - right. left. exists k, s, m, o, q. repeat split; auto. intro E. rewrite E in E2.
        rewrite (proj2 dec_distinct) in E2. discriminate. }
    exfalso. apply Hne. apply Hrep; [reflexivity|exact Hq].
  - (* ECloseBegin *) exfalso. apply Hne. destruct (lookupN k (w_conns w)) as [c|]; [|reflexivity].
    destruct (b_closing c); reflexivity.
  - (* ENotify *) subst r'.
    destruct (lookupN k (w_conns w)) as [c|] eqn:Hk; [|exfalso; apply Hne; reflexivity].
    destruct (existsb (N.eqb r) (b_tonotify c)) eqn:Hex; cbn [negb] in *; [|exfalso; apply Hne; reflexivity].
    apply existsb_eqb_in in Hex. rewrite reqs_set_conn in *.
    destruct (lookupN r (w_reqs w)) as [q|] eqn:Hq; [|exfalso; apply Hne; reflexivity].
    destruct (q_idem q) eqn:Hi.
    + destruct (q_done q) eqn:Hd.
      { exfalso. apply Hne. rewrite (exec_internal_done orig _ r true o q); [reflexivity|exact Hq|exact Hd]. }
      split; [eapply amo_out_eq; [|apply amo_exec_internal]; reflexivity|].
      right. right. exists k, c, o, q. repeat split; auto.
    + exfalso. apply Hne.
      match goal with |- context [reply_once ?w1 r ?x] => rewrite (proj2 (reply_once_effect w1 r x q Hq)) end. reflexivity.
Qed.

(** every event writes a given request at most once *)
Theorem core_one_write_per_event : forall es e r,
  exists l, backend_writes (run_events (es ++ [e])) r = backend_writes (run_events es) r ++ l /\ (length l <= 1)%nat.
Proof.
  intros es e r. rewrite run_events_app. cbn [fold_left]. rewrite !backend_writes_eq.
  assert (Hdec : forall a b : list (cid * N), {a = b} + {a <> b}).
  { apply list_eq_dec. intros [a1 a2] [b1 b2].
    destruct (N.eq_dec a1 b1), (N.eq_dec a2 b2); [left|right|right|right]; congruence. }
  destruct (Hdec (writes_of r (w_out (step (run_events es) e))) (writes_of r (w_out (run_events es)))) as [E|Hne].
  - exists []. rewrite app_nil_r. split; [exact E|cbn; lia].
  - destruct (step_write_cause false _ e r Hne) as ((d & D & L) & _). exists (writes_of r d).
    unfold step. rewrite D, writes_of_app. auto.
Qed.

(** T6, second half: a write for a non-idempotent request is its first (at its start) or follows an
    error frame delivered to it that is safe to resend after *)
Theorem core_nonidem_write_cause : forall es e r q,
  lookupN r (w_reqs (run_events (es ++ [e]))) = Some q -> q_idem q = false ->
  backend_writes (run_events (es ++ [e])) r <> backend_writes (run_events es) r ->
  (exists cl cs p o, e = EStart r cl cs false p o /\ lookupN r (w_reqs (run_events es)) = None) \/
  (exists k s m o, e = EFrame k s (FError m) o /\ lookupN s (live (run_events es) k) = Some r /\
                   safe_to_resend (OError m) = true).
Proof.
  intros es e r q. rewrite run_events_app. cbn [fold_left]. rewrite !backend_writes_eq. intros Hq Hi Hne.
  pose proof (step_grows false (run_events es) e) as G.
  destruct (step_write_cause false _ e r Hne) as (_ & [C|[C|C]]).
  - destruct C as (cl & cs & idem & p & o & -> & Hnone). left. exists cl, cs, p, o. split; [|exact Hnone].
    unfold step in Hq. cbn [step_gen] in Hq. rewrite Hnone in Hq.
    match type of Hq with lookupN r (w_reqs (exec_internal _ ?w1 _ _ _)) = _ =>
      destruct (fr_self _ _ _ (frame_exec_internal false r w1 true o) _ (lookupN_updateN_same r _ _)) as (q' & Hq' & _ & _ & Hi' & _) end.
    rewrite Hq in Hq'. inversion Hq'; subst q'. cbn [q_idem] in Hi'. rewrite Hi in Hi'. subst idem. reflexivity.
  - destruct C as (k & s & m & o & q0 & -> & Hl & Hq0 & Hd0 & Hdec). right. exists k, s, m, o.
    split; [reflexivity|]. split; [exact Hl|].
    destruct (gr_reqs _ _ G r q0 Hq0) as (q' & Hq' & _ & _ & Hi' & _). unfold step in Hq. rewrite Hq in Hq'.
    inversion Hq'; subst q'. rewrite <- Hi', Hi in Hdec. eapply nonidem_retry_is_safe. exact Hdec.
  - exfalso. destruct C as (k & c & o & q0 & -> & _ & _ & Hq0 & Hi0 & _).
    destruct (gr_reqs _ _ G r q0 Hq0) as (q' & Hq' & _ & _ & Hi' & _). unfold step in Hq. rewrite Hq in Hq'.
    inversion Hq'; subst q'. congruence.
Qed.

(** ** which [EStart] created a request, and what its record keeps from it *)
Fixpoint first_start (es : list event) (r : rid) : option (N * Z * bool * list N) :=
  match es with
  | [] => None
  | EStart r' cl cs idem p _ :: t => if r' =? r then Some (cl, cs, idem, p) else first_start t r
  | _ :: t => first_start t r
  end.

Definition starts (e : event) (r : rid) : bool := match e with EStart r' _ _ _ _ _ => r' =? r | _ => false end.

Lemma step_unstarted orig w e r :
  lookupN r (w_reqs w) = None -> starts e r = false ->
  lookupN r (w_reqs (step_gen orig w e)) = None /\ writes_of r (w_out (step_gen orig w e)) = writes_of r (w_out w).
Proof.
  intros Hq Hs. destruct (is_connect e) eqn:Hc.
  { destruct e; try discriminate. rewrite step_connect. destruct (lookupN k (w_conns w)); auto. }
  destruct (N.eq_dec (active w e) r) as [Ha|Ha].
  - destruct (step_inert orig w e) as (R & O).
    + rewrite Ha, Hq. destruct e; try reflexivity. cbn [active] in Ha. cbn [starts] in Hs. subst r0.
      rewrite N.eqb_refl in Hs. discriminate.
    + rewrite R, O. auto.
  - pose proof (frame_step orig w e Hc) as F. split.
    + rewrite (fr_other _ _ _ F r); [exact Hq|]. congruence.
    + destruct (fr_out _ _ _ F) as (d & D & Fa & _). rewrite D, writes_of_app, (writes_of_other r _ d Fa Ha), app_nil_r. reflexivity.
Qed.

Lemma step_start orig w r cl cs idem p o :
  lookupN r (w_reqs w) = None ->
  exists q, lookupN r (w_reqs (step_gen orig w (EStart r cl cs idem p o))) = Some q /\
            q_client q = cl /\ q_cstream q = cs /\ q_idem q = idem.
Proof.
  intro Hq. cbn [step_gen]. rewrite Hq.
  match goal with |- context [exec_internal _ ?w1 _ _ _] =>
    destruct (fr_self _ _ _ (frame_exec_internal orig r w1 true o) _ (lookupN_updateN_same r _ _)) as (q' & Hq' & Hc & Hs & Hi & _) end.
  exists q'. auto.
Qed.

Lemma run_started orig r : forall es w, lookupN r (w_reqs w) = None ->
  match first_start es r with
  | Some (cl, cs, idem, p) =>
      exists q, lookupN r (w_reqs (fold_left (step_gen orig) es w)) = Some q /\
                q_client q = cl /\ q_cstream q = cs /\ q_idem q = idem
  | None => lookupN r (w_reqs (fold_left (step_gen orig) es w)) = None
  end.
Proof.
  induction es as [|e es IH]; intros w Hq; cbn [fold_left first_start]; [exact Hq|].
  destruct (starts e r) eqn:Hs.
  - destruct e as [r' cl cs idem p o| | | |]; try discriminate. cbn [starts] in Hs. rewrite Hs.
    apply N.eqb_eq in Hs. subst r'.
    destruct (step_start orig w r cl cs idem p o Hq) as (q & Hq1 & Hc & Hs' & Hi).
    destruct (gr_reqs _ _ (run_grows orig es _) r q Hq1) as (q' & Hq' & Hc' & Hs'' & Hi' & _).
    exists q'. repeat split; congruence.
  - assert (E : first_start (e :: es) r = first_start es r).
    { destruct e; try reflexivity. cbn [first_start]. cbn [starts] in Hs. rewrite Hs. reflexivity. }
    cbn [first_start] in E. rewrite E. apply IH. apply (step_unstarted orig w e r Hq Hs).
Qed.

(** the record of a started request keeps the client, stream and idempotence of its [EStart] *)
Theorem core_started_record : forall es r,
  match first_start es r with
  | Some (cl, cs, idem, p) =>
      exists q, lookupN r (w_reqs (run_events es)) = Some q /\ q_client q = cl /\ q_cstream q = cs /\ q_idem q = idem
  | None => lookupN r (w_reqs (run_events es)) = None
  end.
Proof. intros es r. exact (run_started false r es init_world eq_refl). Qed.

(** ** T7 (C05): the writes of a request follow its query plan *)
Inductive subseq {A} : list A -> list A -> Prop :=
| ss_nil : subseq [] []
| ss_skip x a b : subseq a b -> subseq a (x :: b)
| ss_take x a b : subseq a b -> subseq (x :: a) (x :: b).

Lemma subseq_nil_l {A} (l : list A) : subseq [] l.
Proof. induction l; constructor; assumption. Qed.

Lemma subseq_refl {A} (l : list A) : subseq l l.
Proof. induction l; constructor; assumption. Qed.

Lemma subseq_app {A} (a b c d : list A) : subseq a b -> subseq c d -> subseq (a ++ c) (b ++ d).
Proof. intros H1 H2. induction H1; cbn [app]; [exact H2| |]; constructor; assumption. Qed.

Lemma subseq_app_r {A} (a b c : list A) : subseq a b -> subseq a (b ++ c).
Proof. intro H. rewrite <- (app_nil_r a). apply subseq_app; [exact H|apply subseq_nil_l]. Qed.

Lemma subseq_length {A} (a b : list A) : subseq a b -> (length a <= length b)%nat.
Proof. intro H. induction H; cbn [length]; lia. Qed.

Lemma subseq_In {A} (a b : list A) x : subseq a b -> In x a -> In x b.
Proof. intro H. induction H; cbn [In]; intuition. Qed.

(** [hs] is [hs'] with at most one element doubled in place, and only once a retry happened *)
Definition dupform (rt : Z) (hs hs' : list N) : Prop :=
  hs = hs' \/ ((1 <= rt)%Z /\ exists a x b, hs' = a ++ x :: b /\ hs = a ++ x :: x :: b).

Lemma dupform_snoc rt hs hs' x : dupform rt hs hs' -> dupform rt (hs ++ [x]) (hs' ++ [x]).
Proof.
  intros [->|(Hr & a & y & b & -> & ->)]; [left; reflexivity|right]. split; [exact Hr|].
  exists a, y, (b ++ [x]). rewrite <- !app_assoc. cbn [app]. auto.
Qed.

Lemma dupform_mono rt rt' hs hs' : (rt <= rt')%Z -> dupform rt hs hs' -> dupform rt' hs hs'.
Proof. intros Hle [->|(Hr & H)]; [left; reflexivity|right; split; [lia|exact H]]. Qed.

Lemma dupform_length rt hs hs' : dupform rt hs hs' -> (length hs <= length hs' + 1)%nat.
Proof. intros [->|(_ & a & x & b & -> & ->)]; [lia|]. rewrite !app_length. cbn [length]. lia. Qed.

Lemma dupform_In rt hs hs' x : dupform rt hs hs' -> In x hs -> In x hs'.
Proof.
  intros [->|(_ & a & y & b & -> & ->)]; [auto|]. rewrite !in_app_iff. cbn [In]. tauto.
Qed.

Definition host_of (w : world) (k : cid) : N := match lookupN k (w_conns w) with Some c => b_host c | None => 0 end.

(** hosts of the connections request [r] was written to, in order *)
Definition whosts (w : world) (r : rid) : list N := map (host_of w) (map fst (backend_writes w r)).

Definition wconn (w : world) : Prop := forall k s r, In (ToBackend k s r) (w_out w) -> lookupN k (w_conns w) <> None.

Lemma wconn_frame a w w' : wconn w -> frame a w w' -> wconn w'.
Proof.
  intros Hw [(K & C) _ _ (d & D & _ & Wd)] k s r Hin. rewrite D in Hin. apply in_app_or in Hin.
  destruct Hin as [Hin|Hin]; [|eapply Wd; exact Hin].
  pose proof (Hw k s r Hin) as Hk. destruct (lookupN k (w_conns w)) as [c|] eqn:E; [|congruence].
  destruct (C k c E) as (c' & E' & _). congruence.
Qed.

Lemma wconn_step orig w e : wconn w -> wconn (step_gen orig w e).
Proof.
  intro Hw. destruct (is_connect e) eqn:Hc.
  - destruct e; try discriminate. rewrite step_connect. destruct (lookupN k (w_conns w)) eqn:Hk; [exact Hw|].
    intros k0 s r Hin. rewrite conns_set_conn, lookupN_updateN. destruct (k0 =? k); [discriminate|].
    eapply Hw. exact Hin.
  - eapply wconn_frame; [exact Hw|apply frame_step; exact Hc].
Qed.

Lemma wconn_run orig es : forall w, wconn w -> wconn (fold_left (step_gen orig) es w).
Proof. induction es as [|e es IH]; intros w Hw; cbn [fold_left]; [exact Hw|]. apply IH. apply wconn_step. exact Hw. Qed.

Lemma whosts_ext w w' r d :
  wconn w ->
  (forall k c, lookupN k (w_conns w) = Some c -> exists c', lookupN k (w_conns w') = Some c' /\ conn_same c c') ->
  w_out w' = w_out w ++ d ->
  whosts w' r = whosts w r ++ map (host_of w') (map fst (writes_of r d)).
Proof.
  intros Hw Hc Ho. unfold whosts. rewrite !backend_writes_eq, Ho, writes_of_app, !map_app. f_equal.
  rewrite !map_map. apply map_ext_in. intros [k s] Hin. cbn [fst]. apply writes_of_in in Hin.
  pose proof (Hw k s r Hin) as Hk. unfold host_of. destruct (lookupN k (w_conns w)) as [c|] eqn:E; [|congruence].
  destruct (Hc k c E) as (c' & E' & Hh & _). rewrite E'. exact Hh.
Qed.

Lemma whosts_same w w' r : w_conns w' = w_conns w -> writes_of r (w_out w') = writes_of r (w_out w) -> whosts w' r = whosts w r.
Proof. intros Hc Ho. unfold whosts, host_of. rewrite !backend_writes_eq, Hc, Ho. reflexivity. Qed.

(** the policy answers RetrySame only at retry count 0 -- derived from [policy_eq_doc] (the generated
    policy is the documented one), not from the generated tables themselves *)
Lemma doc_code_same d : doc_code d = dec_RetrySame -> d = DSame.
Proof. destruct d; [reflexivity| |]; vm_compute; discriminate. Qed.

Lemma same_only_at_retry0 idem m rt :
  (0 <= rt)%Z -> handle_error idem m rt = dec_RetrySame -> rt = 0%Z.
Proof.
  intros Hnn H. rewrite (policy_eq_doc idem m rt Hnn) in H. apply doc_code_same in H.
  unfold doc_policy in H. destruct (Z.eqb_spec rt 0) as [E|E]; [exact E|exfalso].
  rewrite ?andb_false_r in H. cbn [andb] in H.
  repeat match type of H with (if ?b then _ else _) = _ => destruct b end; discriminate.
Qed.

Definition Mid (p : list N) (rt : Z) (rest : list N) (hs : list N) : Prop :=
  (0 <= rt)%Z /\ exists used hs', p = used ++ rest /\ subseq hs' used /\ dupform rt hs hs'.

Definition Rest (p : list N) (q : creq) (hs : list N) : Prop :=
  (0 <= q_retry q)%Z /\ exists used hs', p = used ++ q_plan q /\ subseq hs' used /\ dupform (q_retry q) hs hs' /\
    (q_done q = false -> exists u0 h hs0, used = u0 ++ [h] /\ q_host q = Some h /\ hs' = hs0 ++ [h] /\ subseq hs0 u0).

Definition InvR (r : rid) (p : list N) (w : world) : Prop :=
  match lookupN r (w_reqs w) with Some q => Rest p q (whosts w r) | None => whosts w r = [] end.

Lemma Rest_Mid p q hs : Rest p q hs -> Mid p (q_retry q) (q_plan q) hs.
Proof. intros (Hnn & used & hs' & Hp & Hs & Hd & _). split; [exact Hnn|]. exists used, hs'. auto. Qed.

Lemma invR_exec_next orig (r : rid) p : forall pl o w q,
  wconn w -> lookupN r (w_reqs w) = Some q -> q_done q = false -> Mid p (q_retry q) pl (whosts w r) ->
  InvR r p (exec_next orig w r q pl o).
Proof.
  induction pl as [|h pl' IH]; intros o w q Hw Hq Hd HM; cbn [exec_next].
  - unfold reply_once. rewrite reqs_set_req, lookupN_updateN_same. cbn [with_host q_done]. rewrite Hd.
    unfold InvR. rewrite reqs_emit, reqs_set_req, lookupN_updateN_same.
    match goal with |- Rest p ?qd (whosts ?w' r) => assert (E : whosts w' r = whosts w r) end.
    { apply whosts_same; [reflexivity|]. rewrite out_emit, !out_set_req, writes_of_app. cbn. apply app_nil_r. }
    rewrite E. destruct HM as (Hnn & used & hs' & Hp & Hs & Hdf). split; [exact Hnn|]. exists used, hs'. cbn [q_plan q_retry q_done].
    split; [exact Hp|]. split; [exact Hs|]. split; [exact Hdf|discriminate].
  - set (q1 := with_host q (Some h) pl'). set (w0 := set_req w r q1).
    assert (Hw0 : wconn w0) by exact Hw.
    assert (Hq1 : lookupN r (w_reqs w0) = Some q1) by (unfold w0; rewrite reqs_set_req; apply lookupN_updateN_same).
    assert (E0 : whosts w0 r = whosts w r) by (apply whosts_same; reflexivity).
    pose proof (send_to_cases orig w0 r h (hd None o)) as C.
    pose proof (frame_send_to orig r w0 h (hd None o)) as F.
    destruct (send_to orig w0 r h (hd None o)) as [w1 res]. cbn [fst] in F.
    destruct HM as (Hnn & used & hs' & Hp & Hs & Hdf).
    assert (Hp' : p = (used ++ [h]) ++ pl') by (rewrite <- app_assoc; exact Hp).
    destruct res.
    + destruct C as (k & s & c1 & Ho & Hk1 & Hh1 & Hr1).
      assert (E1 : whosts w1 r = whosts w r ++ [h]).
      { rewrite (whosts_ext w0 w1 r [ToBackend k s r] Hw0 (proj2 (fr_conns _ _ _ F)) Ho), E0. f_equal.
        cbn. rewrite N.eqb_refl. cbn. unfold host_of. rewrite Hk1, Hh1. reflexivity. }
      unfold InvR. rewrite Hr1, Hq1, E1. split; [exact Hnn|]. exists (used ++ [h]), (hs' ++ [h]).
      split; [exact Hp'|]. split; [apply subseq_app; [exact Hs|apply subseq_refl]|].
      split; [apply dupform_snoc; exact Hdf|]. intros _. exists used, h, hs'. auto.
    + destruct C as (Ho & Hr1).
      assert (E1 : whosts w1 r = whosts w r).
      { rewrite (whosts_ext w0 w1 r [] Hw0 (proj2 (fr_conns _ _ _ F))), E0 by (rewrite app_nil_r; exact Ho).
        cbn. apply app_nil_r. }
      apply IH.
      * eapply wconn_frame; [exact Hw0|exact F].
      * rewrite Hr1. exact Hq1.
      * exact Hd.
      * rewrite E1. split; [exact Hnn|]. exists (used ++ [h]), hs'. split; [exact Hp'|]. split; [apply subseq_app_r; exact Hs|exact Hdf].
Qed.

Lemma invR_exec_internal_next orig (r : rid) p w o :
  wconn w -> InvR r p w -> InvR r p (exec_internal orig w r true o).
Proof.
  intros Hw I. unfold exec_internal. unfold InvR in I. destruct (lookupN r (w_reqs w)) as [q|] eqn:Hq.
  2:{ unfold InvR. rewrite Hq. exact I. }
  destruct (q_done q) eqn:Hd.
  { unfold InvR. rewrite Hq. exact I. }
  apply invR_exec_next; [exact Hw|exact Hq|exact Hd|apply Rest_Mid; exact I].
Qed.

Lemma invR_exec_internal_same orig (r : rid) p w o q used hs0 u0 h :
  wconn w -> lookupN r (w_reqs w) = Some q -> q_done q = false ->
  p = used ++ q_plan q -> used = u0 ++ [h] -> q_host q = Some h -> whosts w r = hs0 ++ [h] -> subseq hs0 u0 ->
  (1 <= q_retry q)%Z ->
  InvR r p (exec_internal orig w r false o).
Proof.
  intros Hw Hq Hd Hp Hu Hh Hhs Hs0 Hrt. unfold exec_internal. rewrite Hq, Hd, Hh.
  pose proof (send_to_cases orig w r h (hd None o)) as C.
  pose proof (frame_send_to orig r w h (hd None o)) as F.
  destruct (send_to orig w r h (hd None o)) as [w1 res]. cbn [fst] in F.
  assert (Hsub : subseq (hs0 ++ [h]) used) by (rewrite Hu; apply subseq_app; [exact Hs0|apply subseq_refl]).
  destruct res.
  - destruct C as (k & s & c1 & Ho & Hk1 & Hh1 & Hr1).
    assert (E1 : whosts w1 r = whosts w r ++ [h]).
    { rewrite (whosts_ext w w1 r [ToBackend k s r] Hw (proj2 (fr_conns _ _ _ F)) Ho). f_equal.
      cbn. rewrite N.eqb_refl. cbn. unfold host_of. rewrite Hk1, Hh1. reflexivity. }
    unfold InvR. rewrite Hr1, Hq, E1, Hhs. split; [lia|]. exists used, (hs0 ++ [h]).
    split; [exact Hp|]. split; [exact Hsub|]. split.
    + right. split; [exact Hrt|]. exists hs0, h, []. rewrite <- app_assoc. auto.
    + intros _. exists u0, h, hs0. auto.
  - destruct C as (Ho & Hr1).
    assert (E1 : whosts w1 r = whosts w r).
    { rewrite (whosts_ext w w1 r [] Hw (proj2 (fr_conns _ _ _ F))) by (rewrite app_nil_r; exact Ho).
      cbn. apply app_nil_r. }
    apply invR_exec_next.
    + eapply wconn_frame; [exact Hw|exact F].
    + rewrite Hr1. exact Hq.
    + exact Hd.
    + rewrite E1, Hhs. split; [lia|]. exists used, (hs0 ++ [h]). split; [exact Hp|]. split; [exact Hsub|left; reflexivity].
Qed.

Lemma host_of_set_conn w k c c' : lookupN k (w_conns w) = Some c -> b_host c' = b_host c ->
  forall k0, host_of (set_conn w k c') k0 = host_of w k0.
Proof.
  intros Hk Hh k0. unfold host_of. rewrite conns_set_conn, lookupN_updateN.
  destruct (N.eqb_spec k0 k) as [->|Hne]; [rewrite Hk; exact Hh|reflexivity].
Qed.

Lemma whosts_set_conn w k c c' r : lookupN k (w_conns w) = Some c -> b_host c' = b_host c ->
  whosts (set_conn w k c') r = whosts w r.
Proof.
  intros Hk Hh. unfold whosts. change (backend_writes (set_conn w k c') r) with (backend_writes w r).
  apply map_ext. intro k0. eapply host_of_set_conn; eassumption.
Qed.

Lemma wconn_set_conn w k c c' : lookupN k (w_conns w) = Some c -> wconn w -> wconn (set_conn w k c').
Proof.
  intros Hk Hw k0 s r Hin. rewrite conns_set_conn, lookupN_updateN. destruct (k0 =? k); [discriminate|].
  eapply Hw. exact Hin.
Qed.

Lemma bump_retry_conns w r : w_conns (bump_retry w r) = w_conns w.
Proof. unfold bump_retry. destruct (lookupN r (w_reqs w)); reflexivity. Qed.

Lemma wconn_bump w r : wconn w -> wconn (bump_retry w r).
Proof. intros Hw k s r0. rewrite bump_retry_out, bump_retry_conns. apply Hw. Qed.

Lemma whosts_bump w r r0 : whosts (bump_retry w r0) r = whosts w r.
Proof. apply whosts_same; [apply bump_retry_conns|rewrite bump_retry_out; reflexivity]. Qed.

Lemma invR_transport (r : rid) p w w' :
  lookupN r (w_reqs w') = lookupN r (w_reqs w) -> whosts w' r = whosts w r -> InvR r p w -> InvR r p w'.
Proof. intros Hq Hh I. unfold InvR in *. rewrite Hq, Hh. exact I. Qed.

Lemma invR_reply_once (r : rid) p w what : InvR r p w -> InvR r p (reply_once w r what).
Proof.
  intro I. unfold reply_once. destruct (lookupN r (w_reqs w)) as [q|] eqn:Hq; [|exact I].
  destruct (q_done q) eqn:Hd; [exact I|]. unfold InvR in *. rewrite Hq in I.
  rewrite reqs_emit, reqs_set_req, lookupN_updateN_same.
  match goal with |- Rest p ?qd (whosts ?w' r) => assert (E : whosts w' r = whosts w r) end.
  { apply whosts_same; [reflexivity|]. rewrite out_emit, out_set_req, writes_of_app. cbn. apply app_nil_r. }
  rewrite E. destruct I as (Hnn & used & hs' & Hp & Hs & Hdf & _). split; [exact Hnn|]. exists used, hs'. cbn [q_plan q_retry q_done].
  split; [exact Hp|]. split; [exact Hs|]. split; [exact Hdf|discriminate].
Qed.

Lemma invR_bump (r : rid) p w : InvR r p w -> InvR r p (bump_retry w r).
Proof.
  intro I. unfold InvR. rewrite whosts_bump. unfold InvR in I. unfold bump_retry.
  destruct (lookupN r (w_reqs w)) as [q|] eqn:Hq; [|rewrite Hq; exact I].
  rewrite reqs_set_req, lookupN_updateN_same. destruct I as (Hnn & used & hs' & Hp & Hs & Hdf & Hnd).
  split; [cbn [q_retry]; lia|]. exists used, hs'. cbn [q_plan q_retry q_done q_host]. split; [exact Hp|]. split; [exact Hs|].
  split; [eapply dupform_mono; [|exact Hdf]; lia|exact Hnd].
Qed.

Lemma invR_step orig (r : rid) p w e :
  wconn w -> InvR r p w ->
  (forall cl cs i p' o, e = EStart r cl cs i p' o -> lookupN r (w_reqs w) = None -> p' = p) ->
  InvR r p (step_gen orig w e).
Proof.
  intros Hw I Hplan.
  assert (Hgen : forall d, w_out (step_gen orig w e) = w_out w ++ d -> writes_of r d = [] ->
                           lookupN r (w_reqs (step_gen orig w e)) = lookupN r (w_reqs w) -> InvR r p (step_gen orig w e)).
  { intros d D Wd Hq. apply (invR_transport r p w); [exact Hq| |exact I].
    rewrite (whosts_ext w _ r d Hw (gr_conns _ _ (step_grows orig w e)) D), Wd. cbn. apply app_nil_r. }
  destruct (is_connect e) eqn:Hc.
  { apply (Hgen []); [|reflexivity|]; destruct e; try discriminate; rewrite step_connect;
      destruct (lookupN k (w_conns w)); try reflexivity; rewrite app_nil_r; reflexivity. }
  destruct (N.eq_dec (active w e) r) as [Ha|Ha].
  2:{ pose proof (frame_step orig w e Hc) as F. destruct (fr_out _ _ _ F) as (d & D & Fa & _).
      apply (Hgen d D); [eapply writes_of_other; eassumption|]. apply (fr_other _ _ _ F). congruence. }
  destruct e as [r' cl cs idem p' o|k s f o|k|k r' o|k h n]; cbn [active] in Ha; cbn [step_gen]; try discriminate.
  - (* EStart *) subst r'. destruct (lookupN r (w_reqs w)) as [q|] eqn:Hq; [exact I|].
    rewrite (Hplan cl cs idem p' o eq_refl eq_refl).
    unfold exec_internal. rewrite reqs_set_req, lookupN_updateN_same. cbn [q_done q_plan].
    apply invR_exec_next; [exact Hw|rewrite reqs_set_req; apply lookupN_updateN_same|reflexivity|].
    cbn [q_retry]. unfold InvR in I. rewrite Hq in I.
    assert (E : whosts (set_req w r {| q_client := cl; q_cstream := cs; q_idem := idem; q_plan := p; q_host := None;
                                       q_retry := 0; q_done := false |}) r = whosts w r) by (apply whosts_same; reflexivity).
    rewrite E, I. split; [lia|]. exists [], []. split; [reflexivity|]. split; [constructor|left; reflexivity].
  - (* EFrame *)
    destruct (lookupN k (w_conns w)) as [c|] eqn:Hk; [|exact I].
    destruct (b_closing c) eqn:Hcl; [exact I|].
    destruct (lookupN s (b_pending c)) as [r'|] eqn:Hs; [|exact I]. subst r'.
    match goal with |- context [set_conn w k ?cc] => set (c' := cc) end. set (w1 := set_conn w k c').
    assert (Hw1 : wconn w1) by (eapply wconn_set_conn; eassumption).
    assert (E1 : whosts w1 r = whosts w r) by (eapply whosts_set_conn; [exact Hk|reflexivity]).
    assert (I1 : InvR r p w1) by (apply (invR_transport r p w); [reflexivity|exact E1|exact I]).
    change (w_reqs w1) with (w_reqs w).
    destruct (lookupN r (w_reqs w)) as [q|] eqn:Hq; [|exact I1].
    destruct (q_done q) eqn:Hd; [exact I1|].
    destruct f as [|m]; [apply invR_reply_once; exact I1|].
    destruct (handle_error (q_idem q) m (q_retry q) =? dec_RetryNext) eqn:D1.
    { apply invR_exec_internal_next; [apply wconn_bump; exact Hw1|apply invR_bump; exact I1]. }
    destruct (handle_error (q_idem q) m (q_retry q) =? dec_RetrySame) eqn:D2; [|apply invR_reply_once; exact I1].
    apply N.eqb_eq in D2.
    unfold InvR in I. rewrite Hq in I. destruct I as (Hnn & used & hs' & Hp & Hss & Hdf & Hnd).
    apply (same_only_at_retry0 _ _ _ Hnn) in D2.
    destruct (Hnd Hd) as (u0 & h & hs0 & Hu & Hh & Hhs' & Hs0).
    assert (Ehs : whosts w r = hs') by (destruct Hdf as [E|(Hr & _)]; [exact E|lia]).
    eapply invR_exec_internal_same with (used := used) (u0 := u0) (h := h) (hs0 := hs0);
      [apply wconn_bump; exact Hw1| | | | | | | |].
    + unfold bump_retry. change (w_reqs w1) with (w_reqs w). rewrite Hq, reqs_set_req. apply lookupN_updateN_same.
    + exact Hd.
    + exact Hp.
    + exact Hu.
    + exact Hh.
    + rewrite whosts_bump, E1, Ehs. exact Hhs'.
    + exact Hs0.
    + cbn [q_retry]. lia.
  - (* ECloseBegin *)
    destruct (lookupN k (w_conns w)) as [c|] eqn:Hk; [|exact I]. destruct (b_closing c); [exact I|].
    apply (invR_transport r p w); [reflexivity| |exact I]. eapply whosts_set_conn; [exact Hk|reflexivity].
  - (* ENotify *) subst r'.
    destruct (lookupN k (w_conns w)) as [c|] eqn:Hk; [|exact I].
    destruct (negb (existsb (N.eqb r) (b_tonotify c))); [exact I|].
    match goal with |- context [set_conn w k ?cc] => set (c' := cc) end. set (w1 := set_conn w k c').
    assert (Hw1 : wconn w1) by (eapply wconn_set_conn; eassumption).
    assert (E1 : whosts w1 r = whosts w r) by (eapply whosts_set_conn; [exact Hk|reflexivity]).
    assert (I1 : InvR r p w1) by (apply (invR_transport r p w); [reflexivity|exact E1|exact I]).
    change (w_reqs w1) with (w_reqs w).
    destruct (lookupN r (w_reqs w)) as [q|] eqn:Hq; [|exact I1].
    destruct (q_idem q); [apply invR_exec_internal_next; assumption|apply invR_reply_once; exact I1].
Qed.

Lemma invR_run orig (r : rid) p : forall es w,
  wconn w -> InvR r p w ->
  (lookupN r (w_reqs w) = None -> match first_start es r with Some (_, _, _, p') => p' = p | None => True end) ->
  InvR r p (fold_left (step_gen orig) es w).
Proof.
  induction es as [|e es IH]; intros w Hw I Hfs; cbn [fold_left]; [exact I|].
  apply IH.
  - apply wconn_step. exact Hw.
  - apply invR_step; [exact Hw|exact I|]. intros cl cs i p' o -> Hq. specialize (Hfs Hq).
    cbn [first_start] in Hfs. rewrite N.eqb_refl in Hfs. exact Hfs.
  - intro Hq'. destruct (lookupN r (w_reqs w)) as [q|] eqn:Hq.
    + destruct (gr_reqs _ _ (step_grows orig w e) r q Hq) as (q' & E & _). congruence.
    + specialize (Hfs eq_refl). destruct (starts e r) eqn:Hs.
      * destruct e as [r' cl cs idem p' o| | | |]; try discriminate. cbn [starts] in Hs. apply N.eqb_eq in Hs. subst r'.
        destruct (step_start orig w r cl cs idem p' o Hq) as (q' & E & _). congruence.
      * destruct e; try exact Hfs. cbn [first_start] in Hfs. cbn [starts] in Hs. rewrite Hs in Hfs. exact Hfs.
Qed.

Theorem writes_follow_plan_gen : forall orig es r cl cs idem p,
  first_start es r = Some (cl, cs, idem, p) ->
  let W := fold_left (step_gen orig) es init_world in
  let hs := whosts W r in
  (forall h, In h hs -> In h p) /\
  (exists hs', subseq hs' p /\ (hs = hs' \/ exists a x b, hs' = a ++ x :: b /\ hs = a ++ x :: x :: b)) /\
  (length (backend_writes W r) <= length p + 1)%nat.
Proof.
  intros orig es r cl cs idem p Hfs W hs.
  assert (I : InvR r p W).
  { apply invR_run; [intros k s r0 []|reflexivity|]. intros _. rewrite Hfs. reflexivity. }
  pose proof (run_started orig r es init_world eq_refl) as S. rewrite Hfs in S. destruct S as (q & Hq & _).
  unfold InvR in I. fold W in Hq. rewrite Hq in I. fold hs in I.
  destruct I as (_ & used & hs' & Hp & Hs & Hdf & _).
  assert (Hsp : subseq hs' p) by (rewrite Hp; apply subseq_app_r; exact Hs).
  split; [|split].
  - intros h Hin. eapply subseq_In; [exact Hsp|]. eapply dupform_In; eassumption.
  - exists hs'. split; [exact Hsp|]. destruct Hdf as [E|(_ & H)]; [left; exact E|right; exact H].
  - pose proof (dupform_length _ _ _ Hdf) as L1. pose proof (subseq_length _ _ Hsp) as L2.
    unfold hs, whosts in L1. rewrite !map_length in L1. lia.
Qed.

Theorem core_writes_bounded_and_in_plan_order : forall es r cl cs idem p,
  first_start es r = Some (cl, cs, idem, p) ->
  let hs := whosts (run_events es) r in
  (forall h, In h hs -> In h p) /\
  (exists hs', subseq hs' p /\ (hs = hs' \/ exists a x b, hs' = a ++ x :: b /\ hs = a ++ x :: x :: b)) /\
  (length (backend_writes (run_events es) r) <= length p + 1)%nat.
Proof. exact (writes_follow_plan_gen false). Qed.

(** a request that was never started is never written *)
Theorem core_unstarted_never_written : forall es r, first_start es r = None -> backend_writes (run_events es) r = [].
Proof.
  intros es r Hfs.
  assert (I : InvR r [] (run_events es)).
  { apply invR_run; [intros k s r0 []|reflexivity|]. intros _. rewrite Hfs. exact Logic.I. }
  pose proof (core_started_record es r) as S. rewrite Hfs in S. unfold InvR in I. rewrite S in I.
  unfold whosts in I. apply map_eq_nil in I. apply map_eq_nil in I. exact I.
Qed.

(** a reply goes to the client and stream named in the request's [EStart] *)
Corollary core_reply_to_own_client : forall es r cl cs idem p c s x,
  first_start es r = Some (cl, cs, idem, p) -> In (ToClient c s r x) (w_out (run_events es)) -> c = cl /\ s = cs.
Proof.
  intros es r cl cs idem p c s x Hfs Hin. pose proof (core_started_record es r) as S. rewrite Hfs in S.
  destruct S as (q & Hq & Hc & Hs & _). destruct (proj2 (core_at_most_one_reply es r) c s x Hin) as (q' & Hq' & -> & ->).
  rewrite Hq in Hq'. inversion Hq'; subst q'. auto.
Qed.

(** T6 spelled out, one statement per final outcome *)
Corollary core_nonidem_not_resent_after_unsafe_error : forall es1 k s m o es2 r q,
  lookupN r (w_reqs (run_events es1)) = Some q -> q_idem q = false ->
  lookupN s (live (run_events es1) k) = Some r -> safe_to_resend (OError m) = false ->
  backend_writes (run_events (es1 ++ EFrame k s (FError m) o :: es2)) r = backend_writes (run_events es1) r.
Proof. intros. eapply core_nonidem_never_resent_after_unsafe; eauto using final_for. Qed.

(** a live registration belongs to a started, unanswered request *)
Lemma core_live_is_started : forall es k s r,
  lookupN s (live (run_events es) k) = Some r ->
  exists q, lookupN r (w_reqs (run_events es)) = Some q /\ q_done q = false.
Proof.
  intros es k s r Hl. pose proof (inv_run es) as I.
  destruct (live_lookup_inv _ _ _ _ Hl) as (c & Hk & Hcl & Hp).
  pose proof (regs_in r k c _ (lookupN_In _ _ _ Hk)) as L. fold (regs (run_events es) r) in L.
  assert (Hpos : (0 < regs_conn r c)%nat).
  { unfold regs_conn. rewrite Hcl. apply lookupN_In in Hp. apply (in_map snd) in Hp. cbn [snd] in Hp.
    apply occ_pos_in in Hp. lia. }
  rewrite (ig_regs _ _ I r) in L.
  destruct (expect_pos (run_events es) r (pred (expect None (run_events es) r))) as (_ & q & Hq & Hd); [lia|].
  exists q. auto.
Qed.

(** any request, idempotent or not: once its result frame has been delivered nothing is written for it *)
Corollary core_not_resent_after_result : forall es1 k s o es2 r,
  lookupN s (live (run_events es1) k) = Some r ->
  backend_writes (run_events (es1 ++ EFrame k s FResult o :: es2)) r = backend_writes (run_events es1) r.
Proof.
  intros es1 k s o es2 r Hl. destruct (core_live_is_started es1 k s r Hl) as (q & Hq & _).
  rewrite run_events_app. apply (nonidem_never_resent_after_unsafe_gen false es2 _ _ r q Hq).
  - intro H. exfalso. exact (H k s o eq_refl).
  - apply FF_result. exact Hl.
Qed.

Corollary core_nonidem_not_resent_after_close : forall es1 k c o es2 r q,
  lookupN r (w_reqs (run_events es1)) = Some q -> q_idem q = false ->
  lookupN k (w_conns (run_events es1)) = Some c -> In r (b_tonotify c) ->
  backend_writes (run_events (es1 ++ ENotify k r o :: es2)) r = backend_writes (run_events es1) r.
Proof. intros. eapply core_nonidem_never_resent_after_unsafe; eauto using final_for. Qed.

(** ** worked examples (non-vacuity of the hypotheses of the theorems above) *)
Definition quiescentb (w : world) : bool :=
  forallb (fun kc => match b_tonotify (snd kc) with
                     | [] => b_closing (snd kc) || match b_pending (snd kc) with [] => true | _ => false end
                     | _ => false end) (w_conns w).

Lemma quiescentb_sound w : quiescentb w = true -> quiescent w.
Proof.
  intros H k c Hk. apply lookupN_In in Hk. unfold quiescentb in H. rewrite forallb_forall in H.
  specialize (H _ Hk). cbn [snd] in H. destruct (b_tonotify c); [|discriminate]. split; [reflexivity|].
  intro Hcl. rewrite Hcl in H. cbn [orb] in H. destruct (b_pending c); [reflexivity|discriminate].
Qed.

Definition read_timeout : err_info := mk_err 4608 2 2 false [].
Definition write_timeout : err_info := mk_err 4352 0 0 false [].

(** Two requests, three connections (hosts 10, 20, 30; two stream ids each).  Request 7 (idempotent,
    plan 10 20 30) and request 8 (not idempotent, plan 10 20) are both written to connection 1.
    Request 8 gets Unavailable and moves to connection 2.  Connection 1 closes with request 7
    pending; on the notification its write to connection 2 fails, so it is written to connection 3
    (stream 0), gets a read timeout there and is re-sent to the same host (now on stream 1: id 0 went
    to the back of the channel).  Both are then answered. *)
Definition ex_es : list event :=
  [EConnect 1 10 2; EConnect 2 20 2; EConnect 3 30 2;
   EStart 7 0 5%Z true [10; 20; 30] [Some (1, true)];
   EStart 8 1 6%Z false [10; 20] [Some (1, true)];
   EFrame 1 1 (FError unavailable) [Some (2, true)];
   ECloseBegin 1;
   ENotify 1 7 [Some (2, false); Some (3, true)];
   EFrame 3 0 (FError read_timeout) [Some (3, true)];
   EFrame 2 0 FResult [];
   EFrame 3 1 FResult []].

Example ex_out :
  w_out (run_events ex_es) =
  [ToBackend 1 0 7; ToBackend 1 1 8; ToBackend 2 0 8; ToBackend 3 0 7; ToBackend 3 1 7;
   ToClient 1 6%Z 8 (CFrame 2 0); ToClient 0 5%Z 7 (CFrame 3 1)].
Proof. vm_compute. reflexivity. Qed.

(** T1, T2: one reply each, on the request's own client and stream; done <-> replied *)
Example ex_replies :
  (client_replies (run_events ex_es) 7, client_replies (run_events ex_es) 8,
   option_map q_done (lookupN 7 (w_reqs (run_events ex_es))), first_start ex_es 7) =
  ([ToClient 0 5%Z 7 (CFrame 3 1)], [ToClient 1 6%Z 8 (CFrame 2 0)], Some true, Some (0, 5%Z, true, [10; 20; 30])).
Proof. vm_compute. reflexivity. Qed.

(** T2 in the other direction: before its answer request 7 is not done and has no reply *)
Example ex_not_done :
  let w := run_events (firstn 9 ex_es) in
  (option_map q_done (lookupN 7 (w_reqs w)), client_replies w 7, live w 3) = (Some false, [], [(1, 7)]).
Proof. vm_compute. reflexivity. Qed.

(** T3: ids of connection 3 after reuse: channel [0;1], nothing pending; in the middle of the run
    id 1 carries request 7 while 0 is free *)
Example ex_ids :
  (first_connect ex_es 3,
   option_map (fun c => (b_free c, b_pending c)) (lookupN 3 (w_conns (run_events ex_es))),
   option_map (fun c => (b_free c, b_pending c)) (lookupN 3 (w_conns (run_events (firstn 9 ex_es))))) =
  (Some (30, 2%nat), Some ([0; 1], []), Some ([0], [(1, 7)])).
Proof. vm_compute. reflexivity. Qed.

(** T4: the frame of connection 3 stream 1 forwarded to request 7 is preceded by the write of request 7
    there, with no later write on that stream *)
Example ex_route :
  exists pre post, w_out (run_events ex_es) = pre ++ ToClient 0 5%Z 7 (CFrame 3 1) :: post /\
                   last_write pre 3 1 = Some 7.
Proof. exists (firstn 6 (w_out (run_events ex_es))), []. vm_compute. auto. Qed.

(** T5: a live registration and its write *)
Example ex_live_written :
  let w := run_events (firstn 9 ex_es) in In (1, 7) (live w 3) /\ last_write (w_out w) 3 1 = Some 7.
Proof. vm_compute. auto. Qed.

(** T6: the non-idempotent request 8 is re-sent after Unavailable (safe), and a write timeout delivered
    to it instead is final: nothing more is written for it whatever follows *)
Example ex_nonidem_safe :
  safe_to_resend (OError unavailable) = true /\ backend_writes (run_events ex_es) 8 = [(1, 1); (2, 0)].
Proof. vm_compute. auto. Qed.

Example ex_nonidem_final :
  let es1 := firstn 5 ex_es in
  let e := EFrame 1 1 (FError write_timeout) [Some (2, true)] in
  (lookupN 1 (live (run_events es1) 1), option_map q_idem (lookupN 8 (w_reqs (run_events es1))),
   safe_to_resend (OError write_timeout),
   backend_writes (run_events (es1 ++ e :: skipn 6 ex_es)) 8, backend_writes (run_events es1) 8,
   client_replies (run_events (es1 ++ [e])) 8) =
  (Some 8, Some false, false, [(1, 1)], [(1, 1)], [ToClient 1 6%Z 8 (CFrame 1 1)]).
Proof. vm_compute. reflexivity. Qed.

(** T6 (close): a non-idempotent request pending on a closing connection is answered "connection lost" *)
Example ex_nonidem_close :
  let es := [EConnect 1 10 2; EConnect 2 20 2; EStart 8 1 6%Z false [10; 20] [Some (1, true)]; ECloseBegin 1;
             ENotify 1 8 [Some (2, true)]] in
  (backend_writes (run_events es) 8, client_replies (run_events es) 8) = ([(1, 0)], [ToClient 1 6%Z 8 CConnLost]).
Proof. vm_compute. reflexivity. Qed.

(** T7: hosts written for request 7: 10, then 30 twice (RetrySame), host 20 skipped (its write failed):
    a subsequence of the plan with one element doubled, 3 <= 3 + 1 *)
Example ex_plan_order :
  (whosts (run_events ex_es) 7, whosts (run_events ex_es) 8) = ([10; 30; 30], [10; 20]) /\
  subseq [10; 30] [10; 20; 30].
Proof. split; [vm_compute; reflexivity|]. apply ss_take, ss_skip, ss_take, ss_nil. Qed.

(** T7: the bound hosts + 1 is reached: one host, read timeout, RetrySame *)
Example ex_bound_tight :
  let es := [EConnect 1 10 2; EStart 7 0 5%Z true [10] [Some (1, true)]; EFrame 1 0 (FError read_timeout) [Some (1, true)]] in
  backend_writes (run_events es) 7 = [(1, 0); (1, 1)].
Proof. vm_compute. reflexivity. Qed.

(** T8: a request whose plan is exhausted (no connection to host 40, write to host 10 failing) gets
    "no hosts" while registered nowhere *)
Example ex_no_hosts :
  let es := [EConnect 1 10 2; EStart 9 2 7%Z true [40; 10] [None; Some (1, false)]] in
  (client_replies (run_events es) 9, live (run_events es) 1, option_map q_plan (lookupN 9 (w_reqs (run_events es)))) =
  ([ToClient 2 7%Z 9 CNoHosts], [], Some []).
Proof. vm_compute. reflexivity. Qed.

(** T9: the example run ends quiescent (connection 1 closed and fully notified, nothing pending on 2, 3)
    and both requests are done; before the last frame it is not quiescent *)
Example ex_quiescent :
  quiescent (run_events ex_es) /\ quiescentb (run_events (firstn 10 ex_es)) = false /\
  map (fun rq => (fst rq, q_done (snd rq))) (w_reqs (run_events ex_es)) = [(7, true); (8, true)].
Proof. split; [apply quiescentb_sound; vm_compute; reflexivity|]. vm_compute. auto. Qed.

(** the defect of the original Send on the same kind of run: see [core_orig_spurious_no_hosts] and
    [core_registered_only_where_written_orig_refuted] in CoreProofs.v; here the repaired code on the
    very event list of the former answers the request from connection 3 *)
Example ex_repaired_on_orig_witness :
  let es := [EConnect 1 10 2; EConnect 2 20 2; EConnect 3 30 2;
             EStart 7 0 5%Z true [10; 20; 30] [Some (1, false); Some (2, true)];
             EFrame 2 0 (FError unavailable) [Some (3, true)];
             ECloseBegin 1; ENotify 1 7 [Some (2, true)]; EFrame 3 0 FResult []] in
  (client_replies (run_events es) 7, client_replies (run_events_orig es) 7) =
  ([ToClient 0 5%Z 7 (CFrame 3 0)], [ToClient 0 5%Z 7 CNoHosts]).
Proof. vm_compute. reflexivity. Qed.

Print Assumptions core_nonidem_never_resent_after_unsafe.
Print Assumptions core_no_write_after_reply.
Print Assumptions core_not_resent_after_result.
Print Assumptions core_nonidem_not_resent_after_unsafe_error.
Print Assumptions core_nonidem_not_resent_after_close.
Print Assumptions core_nonidem_write_cause.
Print Assumptions core_one_write_per_event.
Print Assumptions core_started_record.
Print Assumptions core_reply_to_own_client.
Print Assumptions core_writes_bounded_and_in_plan_order.
Print Assumptions core_unstarted_never_written.
Print Assumptions core_live_is_started.
