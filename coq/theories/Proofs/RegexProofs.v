(** Proofs about Lib/Regex.v: the scanner returns the longest accepted prefix and, among the
    rules accepting it, the earliest one (Ragel's scanner semantics). *)
From Coq Require Import List Arith NArith Bool Lia.
From CqlProxy Require Import Lib.Regex.
Import ListNotations.
Local Open Scope N_scope.

(** derivative by a string *)
Definition ders (p : list N) (r : re) : re := fold_left (fun r c => deriv c r) p r.

Lemma ders_app p q r : ders (p ++ q) r = ders q (ders p r).
Proof. unfold ders. apply fold_left_app. Qed.

Lemma matches_ders p s r : matches r (p ++ s) = matches (ders p r) s.
Proof. revert r. induction p as [|c p IH]; intro r; [reflexivity|]. cbn [app matches]. rewrite IH. reflexivity. Qed.

Lemma matches_nullable_ders p r : matches r p = nullable (ders p r).
Proof. rewrite <- (app_nil_r p) at 1. rewrite matches_ders. reflexivity. Qed.

(** [accept_at rules input len]: the first rule that matches the prefix of length [len] *)
Definition accept_at (rules : list re) (input : list N) (len : nat) : option nat :=
  first_nullable (map (ders (firstn len input)) rules) 0.

(** the specification: try the lengths k, k-1, ..., 1 *)
Fixpoint longest (rules : list re) (input : list N) (k : nat) : option (nat * nat) :=
  match k with
  | O => None
  | S k' =>
      match accept_at rules input (S k') with
      | Some i => Some (S k', i)
      | None => longest rules input k'
      end
  end.

Lemma deriv_emp_all c rs : forallb is_emp rs = true -> forallb is_emp (map (deriv c) rs) = true.
Proof.
  induction rs as [|r rs IH]; [reflexivity|]. cbn [forallb map]. intro H.
  apply andb_true_iff in H. destruct H as [Hr Hrs]. destruct r; try discriminate. cbn. apply IH. exact Hrs.
Qed.

Lemma ders_emp_all q rs : forallb is_emp rs = true -> forallb is_emp (map (ders q) rs) = true.
Proof.
  revert rs. induction q as [|c q IH]; intros rs H.
  - unfold ders. cbn. rewrite map_id. exact H.
  - replace (map (ders (c :: q)) rs) with (map (ders q) (map (deriv c) rs)) by (rewrite map_map; reflexivity).
    apply IH. apply deriv_emp_all. exact H.
Qed.

Lemma first_nullable_emp rs i : forallb is_emp rs = true -> first_nullable rs i = None.
Proof.
  revert i. induction rs as [|r rs IH]; intros i H; [reflexivity|]. cbn [forallb] in H.
  apply andb_true_iff in H. destruct H as [Hr Hrs]. destruct r; try discriminate. cbn. apply IH. exact Hrs.
Qed.

Lemma firstn_app_len {A} (p q : list A) k : firstn (length p + k) (p ++ q) = p ++ firstn k q.
Proof. apply firstn_app_2. Qed.

(** once every derivative is dead nothing longer is accepted *)
Lemma longest_dead rules p rest k :
  forallb is_emp (map (ders p) rules) = true ->
  longest rules (p ++ rest) (length p + k) = longest rules (p ++ rest) (length p).
Proof.
  intro H. induction k as [|k IH]; [rewrite Nat.add_0_r; reflexivity|].
  rewrite Nat.add_succ_r. cbn [longest]. unfold accept_at.
  rewrite <- Nat.add_succ_r. rewrite firstn_app_len.
  replace (map (ders (p ++ firstn (S k) rest)) rules) with (map (ders (firstn (S k) rest)) (map (ders p) rules))
    by (rewrite map_map; apply map_ext; intro r; rewrite ders_app; reflexivity).
  rewrite first_nullable_emp by (apply ders_emp_all; exact H). exact IH.
Qed.

Lemma munch_spec rules : forall rest p,
  munch (map (ders p) rules) rest (length p) (longest rules (p ++ rest) (length p - 1)) =
  longest rules (p ++ rest) (length (p ++ rest)).
Proof.
  induction rest as [|c rest IH]; intro p.
  - cbn [munch]. rewrite app_nil_r.
    destruct p as [|x p'] eqn:Ep.
    + cbn. destruct (first_nullable (map (ders []) rules) 0); reflexivity.
    + rewrite <- Ep. assert (Hl : length p = S (length p - 1)) by (subst; simpl; lia).
      replace (Nat.eqb (length p) 0) with false by (symmetry; apply Nat.eqb_neq; lia).
      transitivity (longest rules p (S (length p - 1))); [|rewrite <- Hl; reflexivity].
      cbn [longest]. unfold accept_at. rewrite <- Hl. rewrite firstn_all. reflexivity.
  - cbn [munch].
    set (best' := match first_nullable (map (ders p) rules) 0 with
                  | Some i => if Nat.eqb (length p) 0 then longest rules (p ++ c :: rest) (length p - 1) else Some (length p, i)
                  | None => longest rules (p ++ c :: rest) (length p - 1)
                  end).
    assert (Hbest : best' = longest rules (p ++ c :: rest) (length p)).
    { unfold best'. destruct p as [|x p'] eqn:Ep.
      - cbn. destruct (first_nullable (map (ders []) rules) 0); reflexivity.
      - rewrite <- Ep. assert (Hl : length p = S (length p - 1)) by (subst; simpl; lia).
        replace (Nat.eqb (length p) 0) with false by (symmetry; apply Nat.eqb_neq; lia).
        transitivity (longest rules (p ++ c :: rest) (S (length p - 1))); [|rewrite <- Hl; reflexivity].
        cbn [longest]. unfold accept_at. rewrite <- Hl.
        replace (firstn (length p) (p ++ c :: rest)) with p
          by (rewrite <- (Nat.add_0_r (length p)) at 1; rewrite firstn_app_len; cbn; rewrite app_nil_r; reflexivity).
        destruct (first_nullable (map (ders p) rules) 0); reflexivity. }
    fold best'. rewrite Hbest.
    destruct (forallb is_emp (map (ders p) rules)) eqn:Hd.
    + rewrite app_length. symmetry. apply longest_dead. exact Hd.
    + replace (map (deriv c) (map (ders p) rules)) with (map (ders (p ++ [c])) rules)
        by (rewrite map_map; apply map_ext; intro r; rewrite ders_app; reflexivity).
      specialize (IH (p ++ [c])). rewrite <- app_assoc in IH. cbn [app] in IH.
      rewrite app_length in IH. cbn [length] in IH.
      replace (length p + 1 - 1)%nat with (length p) in IH by lia.
      replace (S (length p)) with (length p + 1)%nat by lia. exact IH.
Qed.

(** The scanner is maximal munch with first-rule priority. *)
Theorem scan_one_spec rules input : scan_one rules input = longest rules input (length input).
Proof.
  unfold scan_one. pose proof (munch_spec rules input []) as H. cbn in H.
  replace (map (ders []) rules) with rules in H by (unfold ders; cbn; rewrite map_id; reflexivity).
  exact H.
Qed.

(** consequences, stated with [matches] *)
Lemma first_nullable_sound rs : forall i k, first_nullable rs i = Some k ->
  (i <= k)%nat /\ nullable (nth (k - i) rs Emp) = true /\ forall j, (j < k - i)%nat -> nullable (nth j rs Emp) = false.
Proof.
  induction rs as [|r rs IH]; intros i k H; [discriminate|]. cbn in H.
  destruct (nullable r) eqn:Hn.
  - inversion H; subst. rewrite Nat.sub_diag. split; [lia|]. split; [exact Hn|]. intros j Hj. lia.
  - apply IH in H. destruct H as (Hle & Hk & Hbefore). split; [lia|].
    replace (k - i)%nat with (S (k - S i)) by lia. split; [exact Hk|].
    intros j Hj. destruct j as [|j]; [exact Hn|]. apply Hbefore. lia.
Qed.

Lemma ders_Emp q : ders q Emp = Emp.
Proof. unfold ders. induction q as [|c q IH]; [reflexivity|]. cbn. exact IH. Qed.

Lemma nth_map_ders q rules j : nth j (map (ders q) rules) Emp = ders q (nth j rules Emp).
Proof. rewrite <- (ders_Emp q) at 1. apply map_nth. Qed.

Lemma first_nullable_none rs : forall i, first_nullable rs i = None ->
  forall j, (j < length rs)%nat -> nullable (nth j rs Emp) = false.
Proof.
  induction rs as [|r rs IH]; intros i H j Hj; [simpl in Hj; lia|]. cbn in H.
  destruct (nullable r) eqn:Hn; [discriminate|]. destruct j; [exact Hn|]. apply (IH (S i) H). simpl in Hj. lia.
Qed.

Lemma longest_sound rules input : forall k len idx, longest rules input k = Some (len, idx) ->
  (0 < len <= k)%nat /\
  matches (nth idx rules Emp) (firstn len input) = true /\
  (forall j, (j < idx)%nat -> matches (nth j rules Emp) (firstn len input) = false) /\
  (forall len' j, (len < len' <= k)%nat -> (j < length rules)%nat -> matches (nth j rules Emp) (firstn len' input) = false).
Proof.
  induction k as [|k IH]; intros len idx H; [discriminate|]. cbn [longest] in H.
  destruct (accept_at rules input (S k)) as [i|] eqn:Ha.
  - inversion H; subst. unfold accept_at in Ha. apply first_nullable_sound in Ha.
    destruct Ha as (_ & Hk & Hbefore). rewrite Nat.sub_0_r in *.
    split; [lia|]. split.
    + rewrite matches_nullable_ders. rewrite <- nth_map_ders. exact Hk.
    + split.
      * intros j Hj. rewrite matches_nullable_ders. rewrite <- nth_map_ders. apply Hbefore. exact Hj.
      * intros len' j Hl. lia.
  - apply IH in H. destruct H as (Hlen & Hm & Hb & Hlonger). split; [lia|]. split; [exact Hm|]. split; [exact Hb|].
    intros len' j Hl Hj. destruct (Nat.eq_dec len' (S k)) as [->|Hne]; [|apply Hlonger; [lia|exact Hj]].
    unfold accept_at in Ha. rewrite matches_nullable_ders. rewrite <- nth_map_ders.
    apply (first_nullable_none _ _ Ha). rewrite map_length. exact Hj.
Qed.

Theorem scan_one_maximal_munch rules input len idx :
  scan_one rules input = Some (len, idx) ->
  (0 < len <= length input)%nat /\
  matches (nth idx rules Emp) (firstn len input) = true /\
  (forall j, (j < idx)%nat -> matches (nth j rules Emp) (firstn len input) = false) /\
  (forall len' j, (len < len' <= length input)%nat -> (j < length rules)%nat ->
     matches (nth j rules Emp) (firstn len' input) = false).
Proof. rewrite scan_one_spec. apply longest_sound. Qed.
