(** * AstBase: positioned lexer states and the tactics used by the simulation proofs
    (AstTermSim, AstClauseSim, AstStmtSim, AstProofs). *)
From Coq Require Import List NArith Bool Lia Arith.
From CqlProxy Require Import Lib.Val Lib.Util Lib.Regex Gen.LexRules Gen.Tables Model.Lexer Model.Parser Model.Ast.
Import ListNotations.

(** ** positioned lexer states
    Every state the classifier reaches on a token list [ts] is [mk ts p m]: at position [p], last
    mark at [m], [lid] the text of the last identifier token before [p]. *)
Fixpoint last_id (acc : bytes) (l : list tok) : bytes :=
  match l with [] => acc | a :: r => last_id (if (t_code a =? tkIdentifier)%N then t_text a else acc) r end.

Definition mk (ts : list tok) (p m : nat) : lstate :=
  {| toks := ts; pos := p; mpos := m; lid := last_id [] (firstn p ts); mlid := last_id [] (firstn m ts) |}.

Definition hd_code (l : list tok) : N := match l with [] => tkEOF | a :: _ => t_code a end.

Lemma last_id_snoc l : forall acc a,
  last_id acc (l ++ [a]) = if (t_code a =? tkIdentifier)%N then t_text a else last_id acc l.
Proof. induction l as [|b l IH]; intros acc a; simpl; [reflexivity|apply IH]. Qed.

Lemma skipn_cons_inv (ts : list tok) : forall p a l, skipn p ts = a :: l ->
  nth_error ts p = Some a /\ skipn (S p) ts = l /\ firstn (S p) ts = firstn p ts ++ [a].
Proof.
  induction ts as [|b ts IH]; intros p a l H; destruct p as [|p]; cbn in H; try discriminate.
  - inversion H; subst. cbn. auto.
  - destruct (IH p a l H) as (A & B & C). repeat split; [exact A|exact B|].
    change (firstn (S (S p)) (b :: ts)) with (b :: firstn (S p) ts). rewrite C. reflexivity.
Qed.

Lemma skipn_nil_inv (ts : list tok) : forall p, skipn p ts = [] -> nth_error ts p = None.
Proof.
  induction ts as [|b ts IH]; intros p H; destruct p as [|p]; cbn in *; try reflexivity; try discriminate.
  apply IH, H.
Qed.

Lemma skipn_S (ts : list tok) p a l : skipn p ts = a :: l -> skipn (S p) ts = l.
Proof. intro H. apply skipn_cons_inv in H. tauto. Qed.

Lemma skipn_length_app (x rest : list tok) : skipn (length x) (x ++ rest) = rest.
Proof. induction x as [|a x IH]; [reflexivity|exact IH]. Qed.

Lemma skipn_plus (ts : list tok) : forall p x rest, skipn p ts = x ++ rest -> skipn (p + length x) ts = rest.
Proof.
  induction ts as [|b ts IH]; intros p x rest H.
  - rewrite skipn_nil in H. destruct x; [|discriminate]. cbn in H. subst rest. apply skipn_nil.
  - destruct p as [|p].
    + cbn in H. rewrite H. apply skipn_length_app.
    + cbn in H. exact (IH p x rest H).
Qed.

Lemma next_cons ts p m a l : skipn p ts = a :: l -> next (mk ts p m) = (t_code a, mk ts (S p) m).
Proof.
  intro H. destruct (skipn_cons_inv ts p a l H) as (A & _ & C).
  unfold next, mk. cbn [toks pos mpos lid mlid]. rewrite A. rewrite C, last_id_snoc. reflexivity.
Qed.

Lemma next_nil ts p m : skipn p ts = [] -> next (mk ts p m) = (tkEOF, mk ts p m).
Proof. intro H. unfold next. cbn [toks pos mk]. rewrite (skipn_nil_inv ts p H). reflexivity. Qed.

Lemma next_ne ts p m l : skipn p ts = l -> l <> [] -> next (mk ts p m) = (hd_code l, mk ts (S p) m).
Proof. intros H Hne. destruct l as [|a l]; [congruence|]. exact (next_cons ts p m a l H). Qed.

Lemma next_gen ts p m l : skipn p ts = l ->
  exists p', next (mk ts p m) = (hd_code l, mk ts p' m) /\ skipn p' ts = tl l.
Proof.
  intro H. destruct l as [|a l].
  - exists p. split; [apply next_nil, H|exact H].
  - exists (S p). split; [apply next_cons with l, H|apply skipn_S with a, H].
Qed.

Lemma lid_S ts p m a l : skipn p ts = a :: l ->
  lid (mk ts (S p) m) = if (t_code a =? tkIdentifier)%N then t_text a else lid (mk ts p m).
Proof.
  intro H. destruct (skipn_cons_inv ts p a l H) as (_ & _ & C).
  cbn [lid mk]. rewrite C, last_id_snoc. reflexivity.
Qed.

Lemma is_kw_S ts p m a l c kw : skipn p ts = a :: l ->
  is_kw (mk ts (S p) m) c kw =
  ((c =? tkIdentifier)%N &&
   ident_equal (ident_of_lexed (if (t_code a =? tkIdentifier)%N then t_text a else lid (mk ts p m))) kw).
Proof. intro H. unfold is_kw. rewrite (lid_S ts p m a l H). reflexivity. Qed.

(** the position after reading the look-ahead token at the head of [l] (none at end of input) *)
Definition adv (l : list tok) (p : nat) : nat := match l with [] => p | _ :: _ => S p end.

Lemma next_adv ts p m l : skipn p ts = l -> next (mk ts p m) = (hd_code l, mk ts (adv l p) m).
Proof. intro H. destruct l as [|a l]; [apply next_nil, H|apply next_cons with l, H]. Qed.

Lemma skipn_adv (ts : list tok) p l : skipn p ts = l -> skipn (adv l p) ts = tl l.
Proof. intro H. destruct l as [|a l]; [exact H|apply skipn_S with a, H]. Qed.

Lemma mark_mk ts p m : mark (mk ts p m) = mk ts p p.
Proof. reflexivity. Qed.
Lemma rewind_mk ts p m : rewind (mk ts p m) = mk ts m m.
Proof. reflexivity. Qed.
Lemma init_mk ts : init_lstate ts = mk ts 0 0.
Proof. reflexivity. Qed.

Global Opaque mk.

(** ** tactics *)
(** decide comparisons of concrete token codes by computation *)
Ltac ceval_one t :=
  let v := eval vm_compute in t in
  match v with
  | true => change t with true
  | false => change t with false
  end.

Ltac ceval :=
  repeat match goal with
  | |- context [N.eqb ?a ?b] => ceval_one (N.eqb a b)
  | |- context [is_operator ?a] => ceval_one (is_operator a)
  | |- context [is_dml_terminator ?a] => ceval_one (is_dml_terminator a)
  | |- context [ident_equal (ident_of_lexed ?a) ?b] => ceval_one (ident_equal (ident_of_lexed a) b)
  end.

Ltac simp :=
  repeat (ceval; cbn beta iota zeta delta [t_code t_text tk tki negb andb orb fst snd hd_code tl app eN]).

(** advance over one known token *)
Ltac note_skip ts p a l H :=
  lazymatch goal with
  | _ : skipn (S p) ts = _ |- _ => idtac
  | _ => let Hsk := fresh "Hsk" in pose proof (skipn_S ts p a l H) as Hsk
  end.

Ltac step1 :=
  match goal with
  | |- context [next (mk ?ts ?p ?m)] =>
      match goal with
      | H : skipn p ts = ?a :: ?l |- _ => rewrite (next_cons ts p m a l H); note_skip ts p a l H
      | H : skipn p ts = [] |- _ => rewrite (next_nil ts p m H)
      end
  | |- context [lid (mk ?ts (S ?p) ?m)] =>
      match goal with
      | H : skipn p ts = ?a :: ?l |- _ => rewrite (lid_S ts p m a l H)
      end
  | |- context [is_kw (mk ?ts (S ?p) ?m) ?c ?kw] =>
      match goal with
      | H : skipn p ts = ?a :: ?l |- _ => rewrite (is_kw_S ts p m a l c kw H)
      end
  | |- context [mark (mk ?ts ?p ?m)] => rewrite (mark_mk ts p m)
  | |- context [rewind (mk ?ts ?p ?m)] => rewrite (rewind_mk ts p m)
  end.
Ltac step := step1; simp.
Ltac step_kw :=
  match goal with
  | |- context [is_kw (mk ?ts (S ?p) ?m) ?c ?kw] =>
      match goal with
      | H : skipn p ts = ?a :: ?l |- _ => rewrite (is_kw_S ts p m a l c kw H)
      end
  end; simp.
Ltac steps := repeat step.

(** normalise token lists to right-nested form *)
Ltac norm := repeat first [progress cbn [app] in * | rewrite <- app_assoc in *].

Ltac len := repeat first [rewrite app_length in * | progress cbn [length] in *]; lia.

(** ** results *)
Definition idem_of (r : TRes) : bool := fst (fst (fst r)).

Definition tsim (ts : list tok) (r : TRes) (c : bool) (ty : N) (rest : list tok) : Prop :=
  if c then exists p' m', skipn p' ts = rest /\ r = (true, ty, 0%N, mk ts p' m') else idem_of r = false.

Definition head_code (t : term) : N :=
  match t with
  | TInt => tkInteger | TPrim c => c | TBind BQ => tkQMark | TBind (BN _) => tkColon
  | TList _ => tkLsquare | TSet _ | TMap _ | TUdt _ => tkLcurly | TTuple _ | TCast _ _ => tkLparen
  | TFun _ _ _ => tkIdentifier
  end.

Definition pt_sim (ts : list tok) (N : nat) (pt : PT) (e : term) : Prop :=
  forall p m rest, skipn p ts = tokens_of_term e ++ rest -> length (tokens_of_term e ++ rest) <= N ->
    tsim ts (pt (mk ts (S p) m) (head_code e)) (cls_term e) (type_of e) rest.

Lemma head_tok e : exists a l, tokens_of_term e = a :: l /\ t_code a = head_code e.
Proof.
  destruct e as [|c|[|n]|es|es|kvs|fs|es|ty t|[k|] name args]; cbn; eauto.
Qed.

Lemma hd_code_term e x : hd_code (tokens_of_term e ++ x) = head_code e.
Proof. destruct (head_tok e) as (a & l & E & C). rewrite E. exact C. Qed.

Lemma term_tokens_ne e x : tokens_of_term e ++ x <> [].
Proof. destruct (head_tok e) as (a & l & E & C). rewrite E. discriminate. Qed.

Lemma next_term ts p m e x : skipn p ts = tokens_of_term e ++ x ->
  next (mk ts p m) = (head_code e, mk ts (S p) m).
Proof. intro H. rewrite (next_ne ts p m _ H (term_tokens_ne e x)), hd_code_term. reflexivity. Qed.

Lemma term_len_pos e : 1 <= length (tokens_of_term e).
Proof. destruct (head_tok e) as (a & l & E & _). rewrite E. cbn. lia. Qed.

(** codes a well-formed term can start with *)
Definition term_start (c : N) : bool :=
  existsb (N.eqb c) ([tkInteger; tkColon; tkQMark; tkLsquare; tkLcurly; tkLparen; tkIdentifier] ++ prim_codes).

Lemma existsb_eqb_In c l : existsb (N.eqb c) l = true -> In c l.
Proof.
  induction l as [|x l IH]; cbn; [discriminate|]. intro H. apply orb_true_iff in H.
  destruct H as [H|H]; [left; symmetry; apply N.eqb_eq, H|right; apply IH, H].
Qed.

Lemma head_code_start e : wf_term e = true -> term_start (head_code e) = true.
Proof.
  destruct e as [|c|[|n]|es|es|kvs|fs|es|ty t|k name args]; cbn [wf_term head_code]; intro H; try reflexivity.
  unfold is_prim_code in H. unfold term_start. rewrite existsb_app, H. apply orb_true_r.
Qed.

(** a code that starts a term is none of the given (non-starting) codes *)
Lemma start_neq c d : term_start c = true -> term_start d = false -> (c =? d)%N = false.
Proof. intros Hc Hd. destruct (N.eqb_spec c d) as [E|]; [subst; congruence|reflexivity]. Qed.

Ltac start_neq e Hwf := apply start_neq; [apply head_code_start; exact Hwf|reflexivity].
