(** Proofs about Model/Override.v (C12). *)
From Coq Require Import List ZArith NArith Bool Lia.
From CqlProxy Require Import Lib.Val Lib.Util Lib.Wire Proofs.WireProofs Model.Codec Proofs.CodecProofs Model.Override.
Import ListNotations.
Local Open Scope N_scope.

Definition wf_entry (e : pentry) : Prop :=
  len16 (fst e) /\ match snd e with Some c => len31 c | None => True end.

Lemma read_bytes_val_enc v r :
  match v with Some c => len31 c | None => True end ->
  read_bytes_val (match v with Some c => enc_int (Z.of_nat (length c)) ++ c | None => enc_int (-1) end ++ r) = Some (v, r).
Proof.
  intro H. unfold read_bytes_val. destruct v as [c|].
  - rewrite <- app_assoc. unfold len31 in H. rewrite read_int_enc by lia.
    destruct (Z.of_nat (length c) <? 0)%Z eqn:E; [lia|]. rewrite get_z_app. reflexivity.
  - rewrite read_int_enc by lia. reflexivity.
Qed.

Lemma read_entries_enc m : forall r, Forall wf_entry m ->
  read_entries (length m) (concat (map enc_entry m) ++ r) = Some (m, r).
Proof.
  induction m as [|[k v] m IH]; intros r H; [reflexivity|].
  inversion H as [|? ? [Hk Hv] Hm]; subst. cbn [fst snd] in *.
  cbn [length read_entries map concat]. unfold enc_entry at 1. cbn [fst snd].
  rewrite <- !app_assoc. unfold read_string. rewrite read_short_bytes_enc by exact Hk.
  rewrite read_bytes_val_enc by exact Hv. rewrite IH by exact Hm. reflexivity.
Qed.

Lemma read_bytes_map_enc m r : Forall wf_entry m -> N.of_nat (length m) < 65536 ->
  read_bytes_map (enc_bytes_map m ++ r) = Some (m, r).
Proof.
  intros H Hn. unfold read_bytes_map, enc_bytes_map. rewrite <- app_assoc.
  rewrite read_short_enc by exact Hn. rewrite Nat2N.id. apply read_entries_enc. exact H.
Qed.

(** the request envelope ahead of the message, as the reference encoder lays it out *)
Definition env_prefix (flags : N) (pl : list pentry) : bytes :=
  if flag_payload flags then enc_bytes_map pl else [].

Lemma split_envelope_prefix flags pl rest :
  Forall wf_entry pl -> N.of_nat (length pl) < 65536 ->
  split_envelope flags (env_prefix flags pl ++ rest) =
  Some (if flag_payload flags then Some pl else None, rest).
Proof.
  intros H Hn. unfold split_envelope, env_prefix. destruct (flag_payload flags).
  - rewrite read_bytes_map_enc by assumption. reflexivity.
  - reflexivity.
Qed.

Lemma reenc_body_prefix v flags pl m :
  flag_warning flags = false ->
  reenc_body v flags (if flag_payload flags then Some pl else None) m = env_prefix flags pl ++ encode_msg v m.
Proof.
  intro Hw. unfold reenc_body, env_prefix. rewrite Hw. destruct (flag_payload flags); reflexivity.
Qed.

(** nothing is ever modified without a list *)
Lemma no_list_no_change c sel v flags op body :
  unsupported c = [] -> forall b l, process_request c sel v flags op body <> FwdReenc b l.
Proof.
  intros Hc b l. unfold process_request, is_unsupported. rewrite Hc. cbn [existsb].
  destruct (split_envelope flags body) as [[pl rest]|]; [|discriminate].
  destruct (decode_msg op v rest); try discriminate. rewrite andb_false_r. discriminate.
Qed.

(** SELECTs and requests with any other consistency go out unmodified *)
Lemma unchanged_when_select_or_other_cl c sel v flags op body pl rest m :
  split_envelope flags body = Some (pl, rest) -> decode_msg op v rest = Ok m ->
  sel = true \/ is_unsupported c (msg_cl m) = false ->
  process_request c sel v flags op body = FwdRaw.
Proof.
  intros Hs Hd H. unfold process_request. rewrite Hs, Hd.
  destruct H as [Hsel|Hun]; [rewrite Hsel; reflexivity|]. rewrite Hun, andb_false_r. reflexivity.
Qed.

Lemma process_when_override c v flags op body pl rest m :
  split_envelope flags body = Some (pl, rest) -> decode_msg op v rest = Ok m ->
  is_unsupported c (msg_cl m) = true ->
  process_request c false v flags op body =
  FwdReenc (reenc_body v flags pl (set_cl m (override c))) (Z.of_nat (length (reenc_body v flags pl (set_cl m (override c))))).
Proof. intros Hs Hd H. unfold process_request. rewrite Hs, Hd, H. reflexivity. Qed.

(** the override rewrites exactly the consistency, for every reference-layout request *)
Lemma override_exact_query c v flags pl q cl tail :
  flag_warning flags = false -> Forall wf_entry pl -> N.of_nat (length pl) < 65536 ->
  len31 q -> cl < 65536 -> is_unsupported c cl = true ->
  let out := env_prefix flags pl ++ ref_query q (override c) tail in
  process_request c false v flags 7 (env_prefix flags pl ++ ref_query q cl tail) = FwdReenc out (Z.of_nat (length out)).
Proof.
  intros Hw Hpl Hn Hq Hcl Hu out.
  pose proof (split_envelope_prefix flags pl (ref_query q cl tail) Hpl Hn) as Hs.
  assert (Hd : decode_msg 7 v (ref_query q cl tail) = Ok (MQuery {| q_query := q; q_cl := cl; q_params := tail |})).
  { unfold decode_msg. cbn [N.eqb Pos.eqb]. rewrite decode_ref_query by assumption. reflexivity. }
  rewrite (process_when_override _ _ _ _ _ _ _ _ Hs Hd Hu).
  rewrite reenc_body_prefix by exact Hw. reflexivity.
Qed.

Lemma override_exact_execute c v flags pl id rmid cl tail :
  flag_warning flags = false -> Forall wf_entry pl -> N.of_nat (length pl) < 65536 ->
  id <> [] -> len16 id -> (supports_rmid v = true -> rmid <> [] /\ len16 rmid) -> cl < 65536 ->
  is_unsupported c cl = true ->
  let out := env_prefix flags pl ++ ref_execute v id rmid (override c) tail in
  process_request c false v flags 10 (env_prefix flags pl ++ ref_execute v id rmid cl tail) = FwdReenc out (Z.of_nat (length out)).
Proof.
  intros Hw Hpl Hn H1 H2 H3 Hcl Hu out.
  pose proof (split_envelope_prefix flags pl (ref_execute v id rmid cl tail) Hpl Hn) as Hs.
  assert (Hd : decode_msg 10 v (ref_execute v id rmid cl tail) =
               Ok (MExecute {| x_id := id; x_rmid := (if supports_rmid v then rmid else []); x_cl := cl; x_params := tail |})).
  { unfold decode_msg. cbn [N.eqb Pos.eqb]. rewrite decode_ref_execute by assumption. reflexivity. }
  rewrite (process_when_override _ _ _ _ _ _ _ _ Hs Hd Hu).
  rewrite reenc_body_prefix by exact Hw. cbn [set_cl encode_msg x_id x_rmid x_params].
  unfold out. rewrite encode_execute_ref. reflexivity.
Qed.

Lemma override_exact_batch c v flags pl t cs cl tail :
  flag_warning flags = false -> Forall wf_entry pl -> N.of_nat (length pl) < 65536 ->
  t <= 2 -> Forall wf_child cs -> N.of_nat (length cs) < 65536 -> cl < 65536 ->
  is_unsupported c cl = true ->
  let out := env_prefix flags pl ++ ref_batch t cs (override c) tail in
  process_request c false v flags 13 (env_prefix flags pl ++ ref_batch t cs cl tail) = FwdReenc out (Z.of_nat (length out)).
Proof.
  intros Hw Hpl Hn H1 H2 H3 Hcl Hu out.
  pose proof (split_envelope_prefix flags pl (ref_batch t cs cl tail) Hpl Hn) as Hs.
  assert (Hd : decode_msg 13 v (ref_batch t cs cl tail) =
               Ok (MBatch {| b_type := t; b_children := map partial_of cs; b_cl := cl; b_params := tail |})).
  { unfold decode_msg. cbn [N.eqb Pos.eqb]. rewrite decode_ref_batch by assumption. reflexivity. }
  rewrite (process_when_override _ _ _ _ _ _ _ _ Hs Hd Hu).
  rewrite reenc_body_prefix by exact Hw. cbn [set_cl encode_msg b_type b_children b_params].
  unfold out. rewrite encode_batch_ref. reflexivity.
Qed.
