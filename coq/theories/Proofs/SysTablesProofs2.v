(** * SysTablesProofs2: the ring presented by system.local / system.peers (property C10), part 2.

    A. the address order is a strict total order; insertion sort yields the unique sorted
       permutation of a list without duplicate addresses
    B. build_nodes of a member of a shared peer list; views agree (computed and configured tokens)
    C. tokens in the ring
    D. projection exactness (columns and cells)
    E. decoders and the facts the cells decode to
    F. local_is_self *)
From Coq Require Import List Arith ZArith NArith Bool Lia Permutation Sorting.Sorted.
From CqlProxy Require Import Lib.Val Lib.Util Lib.Wire Gen.LexRules Gen.Tables Model.Lexer Model.Parser Model.Handled
  Model.SysTables Model.SysTablesSpec Proofs.WireProofs Proofs.SysTablesProofs.
Import ListNotations.
Local Open Scope N_scope.

(** ** A. the address order *)

Lemma bytes_cmp_eq a : forall b, bytes_cmp a b = Eq <-> a = b.
Proof.
  induction a as [|x a IH]; intros [|y b]; cbn [bytes_cmp]; split; intro H; try discriminate; try reflexivity.
  - destruct (N.compare_spec x y) as [E|E|E]; try discriminate. subst. f_equal. apply IH. exact H.
  - inversion H; subst. rewrite N.compare_refl. apply IH. reflexivity.
Qed.

Lemma bytes_cmp_refl a : bytes_cmp a a = Eq.
Proof. apply bytes_cmp_eq. reflexivity. Qed.

Lemma bytes_cmp_antisym a : forall b, bytes_cmp b a = CompOpp (bytes_cmp a b).
Proof.
  induction a as [|x a IH]; intros [|y b]; cbn [bytes_cmp]; try reflexivity.
  rewrite (N.compare_antisym x y). destruct (N.compare x y); cbn [CompOpp]; try reflexivity. apply IH.
Qed.

Lemma bytes_cmp_lt_trans a : forall b c, bytes_cmp a b = Lt -> bytes_cmp b c = Lt -> bytes_cmp a c = Lt.
Proof.
  induction a as [|x a IH]; intros [|y b] [|z c]; cbn [bytes_cmp]; intros H1 H2; try discriminate; try reflexivity.
  destruct (N.compare_spec x y) as [E1|E1|E1]; try discriminate;
  destruct (N.compare_spec y z) as [E2|E2|E2]; try discriminate; subst.
  - rewrite N.compare_refl. eapply IH; eauto.
  - apply N.compare_lt_iff in E2. rewrite E2. reflexivity.
  - apply N.compare_lt_iff in E1. rewrite E1. reflexivity.
  - assert (E : x < z) by lia. apply N.compare_lt_iff in E. rewrite E. reflexivity.
Qed.

Lemma addr_cmp_eq a b : addr_cmp a b = Eq <-> n_ip a = n_ip b /\ n_zone a = n_zone b.
Proof.
  unfold addr_cmp. destruct (bytes_cmp (n_ip a) (n_ip b)) eqn:E.
  - apply bytes_cmp_eq in E. rewrite bytes_cmp_eq. tauto.
  - split; [discriminate|]. intros [H _]. apply bytes_cmp_eq in H. congruence.
  - split; [discriminate|]. intros [H _]. apply bytes_cmp_eq in H. congruence.
Qed.

Lemma addr_cmp_refl a : addr_cmp a a = Eq.
Proof. apply addr_cmp_eq. split; reflexivity. Qed.

Lemma addr_cmp_antisym a b : addr_cmp b a = CompOpp (addr_cmp a b).
Proof.
  unfold addr_cmp. rewrite (bytes_cmp_antisym (n_ip a) (n_ip b)).
  destruct (bytes_cmp (n_ip a) (n_ip b)); cbn [CompOpp]; try reflexivity. apply bytes_cmp_antisym.
Qed.

Lemma addr_cmp_lt_trans a b c : addr_cmp a b = Lt -> addr_cmp b c = Lt -> addr_cmp a c = Lt.
Proof.
  unfold addr_cmp.
  destruct (bytes_cmp (n_ip a) (n_ip b)) eqn:E1; try discriminate;
  destruct (bytes_cmp (n_ip b) (n_ip c)) eqn:E2; try discriminate; intros H1 H2.
  - apply bytes_cmp_eq in E1. apply bytes_cmp_eq in E2. rewrite E1, E2, bytes_cmp_refl.
    eapply bytes_cmp_lt_trans; eauto.
  - apply bytes_cmp_eq in E1. rewrite E1, E2. reflexivity.
  - apply bytes_cmp_eq in E2. rewrite <- E2, E1. reflexivity.
  - rewrite (bytes_cmp_lt_trans _ _ _ E1 E2). reflexivity.
Qed.

(** [addr_cmp] only looks at the address *)
Lemma addr_cmp_ext a a' b b' :
  n_ip a = n_ip a' -> n_zone a = n_zone a' -> n_ip b = n_ip b' -> n_zone b = n_zone b' -> addr_cmp a b = addr_cmp a' b'.
Proof. unfold addr_cmp. intros -> -> -> ->. reflexivity. Qed.

Definition addr_lt (a b : node) : Prop := addr_cmp a b = Lt.

Lemma addr_ltb_lt a b : addr_ltb a b = true <-> addr_lt a b.
Proof. unfold addr_ltb, addr_lt. destruct (addr_cmp a b); split; congruence. Qed.

Lemma addr_lt_asym a b : addr_lt a b -> ~ addr_lt b a.
Proof. unfold addr_lt. intros H H'. rewrite addr_cmp_antisym, H in H'. discriminate. Qed.

Lemma addr_lt_total a b : addr_cmp a b <> Eq -> ~ addr_lt b a -> addr_lt a b.
Proof.
  unfold addr_lt. intros Hne Hn. rewrite (addr_cmp_antisym a b) in Hn.
  destruct (addr_cmp a b); cbn [CompOpp] in Hn; congruence.
Qed.

(** *** insertion sort: a permutation, strictly sorted when addresses are distinct *)
Lemma insert_sorted_perm x l : Permutation (x :: l) (insert_sorted x l).
Proof.
  induction l as [|y r IH]; cbn [insert_sorted]; [apply Permutation_refl|].
  destruct (addr_ltb y x); [|apply Permutation_refl].
  eapply perm_trans; [apply perm_swap|]. apply perm_skip. exact IH.
Qed.

Lemma sort_nodes_perm l : Permutation l (sort_nodes l).
Proof.
  induction l as [|x l IH]; cbn [sort_nodes fold_right]; [constructor|].
  eapply perm_trans; [apply perm_skip; exact IH|]. apply insert_sorted_perm.
Qed.

Lemma sort_nodes_length l : length (sort_nodes l) = length l.
Proof. symmetry. apply Permutation_length. apply sort_nodes_perm. Qed.

Lemma addr_nodupb_spec l : addr_nodupb l = true <-> addr_nodup l.
Proof.
  induction l as [|x r IH]; cbn [addr_nodupb addr_nodup]; [tauto|].
  rewrite andb_true_iff, forallb_forall, IH. split; intros [H1 H2]; split; try exact H2.
  - intros y Hy. specialize (H1 y Hy). destruct (addr_cmp x y); congruence.
  - intros y Hy. specialize (H1 y Hy). destruct (addr_cmp x y); congruence.
Qed.

Lemma addr_nodup_perm l l' : Permutation l l' -> addr_nodup l -> addr_nodup l'.
Proof.
  induction 1 as [|x l l' Hp IH|x y l|l l' l'' H1 IH1 H2 IH2]; cbn [addr_nodup]; try tauto.
  - intros [H1 H2]. split; [|apply IH; exact H2]. intros y Hy. apply H1. eapply Permutation_in; [apply Permutation_sym; exact Hp|exact Hy].
  - intros [H1 [H2 H3]]. split; [|split; [|exact H3]].
    + intros z [Hz|Hz].
      * subst z. intro E. apply (H1 x (or_introl eq_refl)). rewrite addr_cmp_antisym, E. reflexivity.
      * apply H2. exact Hz.
    + intros z Hz. apply H1. right. exact Hz.
Qed.

Lemma insert_sorted_sorted x l :
  StronglySorted addr_lt l -> (forall y, In y l -> addr_cmp x y <> Eq) -> StronglySorted addr_lt (insert_sorted x l).
Proof.
  induction l as [|y r IH]; intros Hs Hd; cbn [insert_sorted].
  - constructor; constructor.
  - inversion Hs as [|? ? Hs' Hall]; subst.
    destruct (addr_ltb y x) eqn:E.
    + apply addr_ltb_lt in E. constructor.
      * apply IH; [exact Hs'|]. intros z Hz. apply Hd. right. exact Hz.
      * apply Forall_forall. intros z Hz.
        apply (Permutation_in _ (Permutation_sym (insert_sorted_perm x r))) in Hz. destruct Hz as [Hz|Hz].
        -- subst z. exact E.
        -- rewrite Forall_forall in Hall. apply Hall. exact Hz.
    + assert (Hxy : addr_lt x y).
      { apply addr_lt_total; [apply Hd; left; reflexivity|]. intro H. apply addr_ltb_lt in H. congruence. }
      constructor; [exact Hs|]. constructor; [exact Hxy|].
      apply Forall_forall. intros z Hz. rewrite Forall_forall in Hall.
      eapply addr_cmp_lt_trans; [exact Hxy|apply Hall; exact Hz].
Qed.

Lemma sort_nodes_sorted l : addr_nodup l -> StronglySorted addr_lt (sort_nodes l).
Proof.
  induction l as [|x l IH]; cbn [sort_nodes fold_right addr_nodup]; [constructor|].
  intros [H1 H2]. apply insert_sorted_sorted; [apply IH; exact H2|].
  intros y Hy. apply H1. eapply Permutation_in; [apply Permutation_sym; apply sort_nodes_perm|exact Hy].
Qed.

(** two strictly sorted permutations of each other are the same list *)
Lemma sorted_perm_unique l : forall l',
  StronglySorted addr_lt l -> StronglySorted addr_lt l' -> Permutation l l' -> l = l'.
Proof.
  induction l as [|x l IH]; intros l' Hs Hs' Hp.
  - apply Permutation_nil in Hp. congruence.
  - destruct l' as [|y l']; [apply Permutation_sym, Permutation_nil in Hp; discriminate|].
    inversion Hs as [|? ? Hs1 Ha1]; subst. inversion Hs' as [|? ? Hs2 Ha2]; subst.
    rewrite Forall_forall in Ha1, Ha2.
    assert (Hxy : x = y).
    { assert (Hx : In x (y :: l')) by (eapply Permutation_in; [exact Hp|left; reflexivity]).
      assert (Hy : In y (x :: l)) by (eapply Permutation_in; [apply Permutation_sym; exact Hp|left; reflexivity]).
      destruct Hx as [Hx|Hx]; [congruence|]. destruct Hy as [Hy|Hy]; [congruence|].
      exfalso. apply (addr_lt_asym x y); [apply Ha1; exact Hy|apply Ha2; exact Hx]. }
    subst y. f_equal. apply IH; [exact Hs1|exact Hs2|]. eapply Permutation_cons_inv. exact Hp.
Qed.

Theorem sort_nodes_perm_invariant l l' : addr_nodup l -> Permutation l l' -> sort_nodes l = sort_nodes l'.
Proof.
  intros Hd Hp. apply sorted_perm_unique.
  - apply sort_nodes_sorted. exact Hd.
  - apply sort_nodes_sorted. eapply addr_nodup_perm; eauto.
  - eapply perm_trans; [apply Permutation_sym, sort_nodes_perm|]. eapply perm_trans; [exact Hp|apply sort_nodes_perm].
Qed.

(** sorting a (weakly) sorted list changes nothing *)
Definition addr_le (a b : node) : Prop := addr_cmp b a <> Lt.

Lemma sort_nodes_sorted_id l : StronglySorted addr_le l -> sort_nodes l = l.
Proof.
  induction 1 as [|x l Hs IH Hall]; cbn [sort_nodes fold_right]; [reflexivity|].
  fold (sort_nodes l). rewrite IH. destruct l as [|y r]; cbn [insert_sorted]; [reflexivity|].
  inversion Hall as [|? ? Hxy _]; subst. unfold addr_le in Hxy. unfold addr_ltb.
  destruct (addr_cmp y x); congruence.
Qed.

Lemma addr_lt_le a b : addr_lt a b -> addr_le a b.
Proof. unfold addr_le. intros H H'. exact (addr_lt_asym _ _ H H'). Qed.

Lemma sorted_lt_le l : StronglySorted addr_lt l -> StronglySorted addr_le l.
Proof.
  induction 1 as [|x l Hs IH Hall]; constructor; [exact IH|].
  eapply Forall_impl; [|exact Hall]. intros b Hb. apply addr_lt_le. exact Hb.
Qed.

(** sorting commutes with any map that keeps the addresses *)
Definition keeps_addr (f : node -> node) : Prop := forall n, n_ip (f n) = n_ip n /\ n_zone (f n) = n_zone n.

Lemma insert_sorted_map f x l : keeps_addr f -> insert_sorted (f x) (map f l) = map f (insert_sorted x l).
Proof.
  intro Hf. induction l as [|y r IH]; cbn [insert_sorted map]; [reflexivity|].
  assert (E : addr_ltb (f y) (f x) = addr_ltb y x).
  { unfold addr_ltb. rewrite (addr_cmp_ext (f y) y (f x) x); try apply Hf. reflexivity. }
  rewrite E. destruct (addr_ltb y x); cbn [map]; [rewrite IH|]; reflexivity.
Qed.

Lemma sort_nodes_map f l : keeps_addr f -> sort_nodes (map f l) = map f (sort_nodes l).
Proof.
  intro Hf. induction l as [|x l IH]; cbn [sort_nodes fold_right map]; [reflexivity|].
  fold (sort_nodes (map f l)). fold (sort_nodes l). rewrite IH. apply insert_sorted_map. exact Hf.
Qed.

Lemma addr_nodup_map f l : keeps_addr f -> addr_nodup l -> addr_nodup (map f l).
Proof.
  intro Hf. induction l as [|x l IH]; cbn [addr_nodup map]; [tauto|].
  intros [H1 H2]. split; [|apply IH; exact H2].
  intros y Hy. apply in_map_iff in Hy. destruct Hy as (z & <- & Hz).
  rewrite (addr_cmp_ext (f x) x (f z) z); try apply Hf. apply H1. exact Hz.
Qed.

(** sortedness only depends on the addresses *)
Lemma sorted_same_addr l l' :
  map n_ip l = map n_ip l' -> map n_zone l = map n_zone l' ->
  StronglySorted addr_le l -> StronglySorted addr_le l'.
Proof.
  revert l'. induction l as [|x l IH]; intros [|y l'] Hi Hz Hs; try discriminate; [constructor|].
  cbn [map] in Hi, Hz. inversion Hi. inversion Hz. inversion Hs as [|? ? Hs' Hall]; subst.
  constructor; [apply IH; assumption|].
  clear IH Hs Hs' Hi Hz. revert l' H1 H3. induction l as [|a l IH]; intros [|b l'] E1 E2; try discriminate; constructor.
  - cbn [map] in E1, E2. inversion E1. inversion E2. inversion Hall; subst. unfold addr_le in *.
    rewrite (addr_cmp_ext b a y x); auto.
  - cbn [map] in E1, E2. inversion E1. inversion E2. inversion Hall; subst. apply IH; assumption.
Qed.

(** the weak order: insertion sort always yields a weakly sorted list *)
Lemma addr_le_trans a b c : addr_le a b -> addr_le b c -> addr_le a c.
Proof.
  unfold addr_le. intros H1 H2 H3.
  destruct (addr_cmp c b) eqn:E; [| congruence |].
  - apply addr_cmp_eq in E. destruct E as [E1 E2].
    rewrite (addr_cmp_ext c b a a) in H3; auto.
  - assert (Hbc : addr_cmp b c = Lt) by (rewrite addr_cmp_antisym, E; reflexivity).
    apply H1. eapply addr_cmp_lt_trans; eauto.
Qed.

Lemma insert_sorted_wsorted x l : StronglySorted addr_le l -> StronglySorted addr_le (insert_sorted x l).
Proof.
  induction l as [|y r IH]; intros Hs; cbn [insert_sorted].
  - constructor; constructor.
  - inversion Hs as [|? ? Hs' Hall]; subst.
    destruct (addr_ltb y x) eqn:E.
    + apply addr_ltb_lt in E. constructor; [apply IH; exact Hs'|].
      apply Forall_forall. intros z Hz.
      apply (Permutation_in _ (Permutation_sym (insert_sorted_perm x r))) in Hz. destruct Hz as [Hz|Hz].
      * subst z. apply addr_lt_le. exact E.
      * rewrite Forall_forall in Hall. apply Hall. exact Hz.
    + assert (Hxy : addr_le x y).
      { unfold addr_le. intro H. unfold addr_ltb in E. rewrite H in E. discriminate. }
      constructor; [exact Hs|]. constructor; [exact Hxy|].
      apply Forall_forall. intros z Hz. rewrite Forall_forall in Hall.
      eapply addr_le_trans; [exact Hxy|apply Hall; exact Hz].
Qed.

Lemma sort_nodes_wsorted l : StronglySorted addr_le (sort_nodes l).
Proof.
  induction l as [|x l IH]; cbn [sort_nodes fold_right]; [constructor|]. apply insert_sorted_wsorted. exact IH.
Qed.

(** ** B. build_nodes *)

Definition is_self (c : config) (p : node) : bool := match addr_cmp (c_local c) p with Eq => true | _ => false end.

Definition mk_peer (ldc : bytes) (p : node) : node :=
  with_dc_tokens p (match n_dc p with [] => ldc | d => d end) (n_tokens p) false.

Definition local_dc_of (c : config) : bytes := match n_dc (c_local c) with [] => c_cluster_dc c | d => d end.
Definition calc_of (c : config) : bool := match n_tokens (c_local c) with [] => true | _ => false end.

(** whenever build_peers succeeds, it returns the peers other than this proxy, in order *)
Lemma build_peers_ok c ldc calc ps peers :
  build_peers c ldc calc ps = Ok peers -> peers = map (mk_peer ldc) (filter (fun p => negb (is_self c p)) ps).
Proof.
  revert peers. induction ps as [|p r IH]; intros peers H; cbn [build_peers] in H.
  - inversion H. reflexivity.
  - destruct (n_ip p) eqn:Eip; [discriminate|]. cbn [filter]. fold (is_self c p) in H.
    destruct (is_self c p) eqn:Es; cbn [negb]; [apply IH; exact H|].
    destruct (negb calc && _); [discriminate|].
    destruct (build_peers c ldc calc r) as [rest| | |] eqn:Er; try discriminate.
    inversion H; subst. cbn [map]. f_equal. apply IH. reflexivity.
Qed.

(** and it does succeed when every peer has an address and, with configured tokens, tokens *)
Lemma build_peers_succeeds c ldc calc ps :
  ips_nonempty ps -> (calc = true \/ all_tokens ps) ->
  build_peers c ldc calc ps = Ok (map (mk_peer ldc) (filter (fun p => negb (is_self c p)) ps)).
Proof.
  induction ps as [|p r IH]; intros Hip Ht; cbn [build_peers]; [reflexivity|].
  assert (Hip' : ips_nonempty r) by (intros n Hn; apply Hip; right; exact Hn).
  assert (Ht' : calc = true \/ all_tokens r).
  { destruct Ht as [Ht|Ht]; [left; exact Ht|right]. intros n Hn; apply Ht; right; exact Hn. }
  destruct (n_ip p) eqn:Eip; [exfalso; apply (Hip p); [left; reflexivity|exact Eip]|].
  cbn [filter]. fold (is_self c p). destruct (is_self c p) eqn:Es; cbn [negb]; [apply IH; assumption|].
  assert (E : negb calc && match n_tokens p with [] => true | _ => false end = false).
  { destruct Ht as [Ht|Ht]; [rewrite Ht; reflexivity|].
    destruct (n_tokens p) eqn:Et; [exfalso; apply (Ht p); [left; reflexivity|exact Et]|]. apply andb_false_r. }
  rewrite E, (IH Hip' Ht'). reflexivity.
Qed.

Lemma nth_token_0 k : nth_token k 0 = min_token.
Proof. unfold nth_token. change (Z.of_nat 0) with 0%Z. rewrite Z.mul_0_l, Z.add_0_r. reflexivity. Qed.

Definition local_node (c : config) : node :=
  with_dc_tokens (c_local c) (local_dc_of c) (if calc_of c then [print_Z min_token] else n_tokens (c_local c)) true.

(** computed-token mode: in every case the nodes are the sorted nodes with positional tokens *)
Lemma build_nodes_computed c nodes :
  n_tokens (c_local c) = [] -> build_nodes c = Ok nodes ->
  exists peers, build_peers c (local_dc_of c) true (c_peers c) = Ok peers /\
    nodes = assign_tokens (length (c_peers c)) 0 (sort_nodes (local_node c :: peers)).
Proof.
  intros Ht H. unfold build_nodes in H. destruct (negb (c_has_rpc c) && _); [discriminate|].
  fold (local_dc_of c) in H. unfold local_node, calc_of. rewrite Ht in *. cbn [andb] in H.
  destruct (build_peers c (local_dc_of c) true (c_peers c)) as [peers| | |] eqn:Ep; try discriminate.
  exists peers. split; [reflexivity|].
  destruct (Nat.ltb 1 _) eqn:El.
  - inversion H. reflexivity.
  - destruct peers as [|p ps]; [|cbn [length] in El; apply Nat.ltb_ge in El; lia].
    inversion H. cbn [sort_nodes fold_right insert_sorted assign_tokens with_dc_tokens n_ip n_zone n_dc n_md5 n_local].
    rewrite nth_token_0. reflexivity.
Qed.

(** configured-token mode: no sorting, no assignment *)
Lemma build_nodes_configured c nodes :
  n_tokens (c_local c) <> [] -> build_nodes c = Ok nodes ->
  exists peers, build_peers c (local_dc_of c) false (c_peers c) = Ok peers /\ nodes = local_node c :: peers.
Proof.
  intros Ht H. unfold build_nodes in H. destruct (negb (c_has_rpc c) && _); [discriminate|].
  fold (local_dc_of c) in H. unfold local_node, calc_of.
  destruct (n_tokens (c_local c)) as [|t ts] eqn:E; [congruence|]. cbn [andb] in H.
  destruct (build_peers c (local_dc_of c) false (c_peers c)) as [peers| | |] eqn:Ep; try discriminate.
  exists peers. split; [reflexivity|]. inversion H. reflexivity.
Qed.

(** *** assign_tokens *)
Lemma assign_tokens_length k i l : length (assign_tokens k i l) = length l.
Proof. revert i. induction l as [|x l IH]; intro i; cbn [assign_tokens length]; [reflexivity|]. rewrite IH. reflexivity. Qed.

Lemma assign_tokens_ip k i l : map n_ip (assign_tokens k i l) = map n_ip l.
Proof. revert i. induction l as [|x l IH]; intro i; cbn [assign_tokens map n_ip]; [reflexivity|]. rewrite IH. reflexivity. Qed.

Lemma assign_tokens_zone k i l : map n_zone (assign_tokens k i l) = map n_zone l.
Proof. revert i. induction l as [|x l IH]; intro i; cbn [assign_tokens map n_zone]; [reflexivity|]. rewrite IH. reflexivity. Qed.

Lemma assign_tokens_proj k i l : map proj (assign_tokens k i l) = ring_from k i l.
Proof.
  revert i. induction l as [|x l IH]; intro i; cbn [assign_tokens map ring_from]; [reflexivity|]. rewrite IH. reflexivity.
Qed.

Lemma assign_tokens_wsorted k i l : StronglySorted addr_le l -> StronglySorted addr_le (assign_tokens k i l).
Proof.
  intro H. eapply sorted_same_addr; [| |exact H]; symmetry; [apply assign_tokens_ip|apply assign_tokens_zone].
Qed.

(** the presented ring only depends on address, dc and digest of the sorted nodes *)
Definition ncore (n : node) : node :=
  {| n_ip := n_ip n; n_zone := n_zone n; n_dc := n_dc n; n_tokens := []; n_md5 := n_md5 n; n_local := false |}.
Definition tcore (n : node) : node :=
  {| n_ip := n_ip n; n_zone := n_zone n; n_dc := n_dc n; n_tokens := n_tokens n; n_md5 := n_md5 n; n_local := false |}.

Lemma ncore_keeps : keeps_addr ncore. Proof. intro n. split; reflexivity. Qed.
Lemma tcore_keeps : keeps_addr tcore. Proof. intro n. split; reflexivity. Qed.
Lemma norm_keeps info : keeps_addr (norm info). Proof. intro n. split; reflexivity. Qed.

Lemma ring_from_ncore k i l : ring_from k i (map ncore l) = ring_from k i l.
Proof. revert i. induction l as [|x l IH]; intro i; cbn [map ring_from]; [reflexivity|]. rewrite IH. reflexivity. Qed.

Lemma proj_tcore l : map proj (map tcore l) = map proj l.
Proof. rewrite map_map. reflexivity. Qed.

(** computed mode, any configuration: what is presented *)
Lemma presented_computed c nodes :
  n_tokens (c_local c) = [] -> build_nodes c = Ok nodes ->
  exists peers, build_peers c (local_dc_of c) true (c_peers c) = Ok peers /\
    presented nodes = ring_from (length (c_peers c)) 0 (sort_nodes (local_node c :: peers)).
Proof.
  intros Ht H. destruct (build_nodes_computed c nodes Ht H) as (peers & Hp & ->).
  exists peers. split; [exact Hp|]. unfold presented. fold proj.
  rewrite sort_nodes_sorted_id by (apply assign_tokens_wsorted, sort_nodes_wsorted).
  apply assign_tokens_proj.
Qed.

(** *** a member of a shared peer list *)
Lemma is_self_antisym_ne a b : addr_cmp a b <> Eq -> addr_cmp b a <> Eq.
Proof. intros H E. apply H. rewrite addr_cmp_antisym, E. reflexivity. Qed.

(** the peers a member keeps, together with itself, are the shared list up to order *)
Lemma member_filter_perm self l :
  addr_nodup l -> In self l ->
  Permutation (self :: filter (fun p => negb (match addr_cmp self p with Eq => true | _ => false end)) l) l.
Proof.
  induction l as [|x r IH]; intros Hd Hin; [destruct Hin|].
  cbn [addr_nodup] in Hd. destruct Hd as [Hx Hr]. cbn [filter]. destruct Hin as [Hin|Hin].
  - subst x. rewrite addr_cmp_refl. cbn [negb]. apply perm_skip.
    assert (E : filter (fun p => negb match addr_cmp self p with Eq => true | _ => false end) r = r).
    { clear IH Hr. induction r as [|y r IH]; [reflexivity|]. cbn [filter].
      assert (Hy := Hx y (or_introl eq_refl)). destruct (addr_cmp self y); [congruence| |]; cbn [negb];
      (f_equal; apply IH; intros z Hz; apply Hx; right; exact Hz). }
    rewrite E. apply Permutation_refl.
  - assert (Hne : addr_cmp self x <> Eq) by (apply is_self_antisym_ne, Hx, Hin).
    destruct (addr_cmp self x) eqn:E; [congruence| |]; cbn [negb];
    (eapply perm_trans; [apply perm_swap|apply perm_skip; apply IH; assumption]).
Qed.

Lemma eff_dc_idem info n d :
  n_dc d = eff_dc info n -> eff_dc info d = eff_dc info n.
Proof.
  unfold eff_dc. intros ->. destruct (n_dc n) eqn:E; [|reflexivity]. destruct (c_cluster_dc info); reflexivity.
Qed.

Section Member.
  Variables (shared : list node) (info : config) (self : node).
  Hypothesis Hnodup : addr_nodup shared.
  Hypothesis Hips : ips_nonempty shared.
  Hypothesis Hdc : dc_coherent info shared.
  Hypothesis Hself : In self shared.

  Let c := member_config shared info self.
  Let kept := filter (fun p => negb (is_self c p)) shared.

  Lemma member_local_dc : local_dc_of c = eff_dc info self.
  Proof. reflexivity. Qed.

  Lemma member_kept_perm : Permutation (self :: kept) shared.
  Proof. apply member_filter_perm; assumption. Qed.

  Lemma kept_in p : In p kept -> In p shared.
  Proof. unfold kept. intro H. apply filter_In in H. tauto. Qed.

  (** under dc coherence every member fills in a peer's missing dc with the dc that peer itself reports *)
  Lemma member_peer_dc p : In p shared -> n_dc (mk_peer (eff_dc info self) p) = eff_dc info p.
  Proof.
    intro Hp. unfold mk_peer, with_dc_tokens, eff_dc. cbn [n_dc].
    destruct (n_dc p) eqn:E; [|reflexivity]. apply (Hdc self p Hself Hp E).
  Qed.

  Lemma member_ncore_nodes toks :
    map ncore (with_dc_tokens self (eff_dc info self) toks true :: map (mk_peer (eff_dc info self)) kept)
    = map ncore (map (norm info) (self :: kept)).
  Proof.
    cbn [map]. f_equal.
    rewrite !map_map. apply map_ext_in. intros p Hp. apply kept_in in Hp.
    unfold ncore. cbn [n_ip n_zone n_md5 norm mk_peer with_dc_tokens]. f_equal.
    apply (member_peer_dc p Hp).
  Qed.

  Lemma member_tcore_nodes :
    map tcore (with_dc_tokens self (eff_dc info self) (n_tokens self) true :: map (mk_peer (eff_dc info self)) kept)
    = map (norm info) (self :: kept).
  Proof.
    cbn [map]. f_equal.
    rewrite !map_map. apply map_ext_in. intros p Hp. apply kept_in in Hp.
    unfold tcore, norm. cbn [n_ip n_zone n_md5 n_tokens mk_peer with_dc_tokens]. f_equal.
    apply (member_peer_dc p Hp).
  Qed.

  Lemma member_sorted_norm : sort_nodes (map (norm info) (self :: kept)) = sort_nodes (map (norm info) shared).
  Proof.
    apply sort_nodes_perm_invariant.
    - apply addr_nodup_map; [apply norm_keeps|]. eapply addr_nodup_perm; [apply Permutation_sym, member_kept_perm|exact Hnodup].
    - apply Permutation_map. apply member_kept_perm.
  Qed.

  (** computed-token mode *)
  Theorem member_view_computed :
    no_tokens shared -> view_of shared info self = Some (canon_ring info shared).
  Proof.
    intro Hnt. unfold view_of. fold (member_config shared info self). fold c.
    assert (Ht : n_tokens (c_local c) = []) by (apply Hnt; exact Hself).
    assert (Hbp : build_peers c (local_dc_of c) true (c_peers c) = Ok (map (mk_peer (local_dc_of c)) kept)).
    { apply build_peers_succeeds; [exact Hips|left; reflexivity]. }
    destruct (build_nodes c) as [nodes| | |] eqn:Hb.
    - destruct (presented_computed c nodes Ht Hb) as (peers & Hp & Hpres).
      rewrite Hbp in Hp. inversion Hp; subst peers. clear Hp. rewrite Hpres. f_equal.
      unfold canon_ring. change (length (c_peers c)) with (length shared).
      rewrite <- ring_from_ncore. rewrite <- sort_nodes_map by apply ncore_keeps.
      unfold local_node, calc_of. rewrite Ht. rewrite member_local_dc.
      change (c_local c) with self. rewrite member_ncore_nodes.
      rewrite sort_nodes_map by apply ncore_keeps. rewrite ring_from_ncore. rewrite member_sorted_norm. reflexivity.
    - exfalso. unfold build_nodes in Hb. change (c_has_rpc c) with true in Hb. cbn [negb andb] in Hb.
      fold (local_dc_of c) in Hb. rewrite Ht in Hb. rewrite Hbp in Hb. destruct (_ && _); discriminate.
    - exfalso. unfold build_nodes in Hb. change (c_has_rpc c) with true in Hb. cbn [negb andb] in Hb.
      fold (local_dc_of c) in Hb. rewrite Ht in Hb. rewrite Hbp in Hb. destruct (_ && _); discriminate.
    - exfalso. unfold build_nodes in Hb. change (c_has_rpc c) with true in Hb. cbn [negb andb] in Hb.
      fold (local_dc_of c) in Hb. rewrite Ht in Hb. rewrite Hbp in Hb. destruct (_ && _); discriminate.
  Qed.

  (** configured-token mode *)
  Theorem member_view_configured :
    all_tokens shared -> view_of shared info self = Some (canon_ring_cfg info shared).
  Proof.
    intro Hat. unfold view_of. fold (member_config shared info self). fold c.
    assert (Ht : n_tokens (c_local c) <> []) by (apply Hat; exact Hself).
    assert (Hbp : build_peers c (local_dc_of c) false (c_peers c) = Ok (map (mk_peer (local_dc_of c)) kept)).
    { apply build_peers_succeeds; [exact Hips|right; exact Hat]. }
    assert (Hb : build_nodes c = Ok (local_node c :: map (mk_peer (local_dc_of c)) kept)).
    { unfold build_nodes. change (c_has_rpc c) with true. cbn [negb andb].
      fold (local_dc_of c). unfold local_node, calc_of.
      destruct (n_tokens (c_local c)) eqn:E; [congruence|]. rewrite Hbp. reflexivity. }
    rewrite Hb. f_equal. unfold presented, canon_ring_cfg. fold proj.
    rewrite <- proj_tcore. rewrite <- sort_nodes_map by apply tcore_keeps.
    unfold local_node, calc_of. change (c_local c) with self in *.
    destruct (n_tokens self) eqn:E; [congruence|]. rewrite <- E. rewrite member_local_dc.
    rewrite member_tcore_nodes. rewrite member_sorted_norm. reflexivity.
  Qed.
End Member.

(** *** views agree *)
Lemma dcs_nonempty_coherent info l : dcs_nonempty l -> dc_coherent info l.
Proof. intros H s p _ Hp E. exfalso. exact (H p Hp E). Qed.

Lemma dcs_empty_coherent info l : dcs_empty l -> dc_coherent info l.
Proof. intros H s p Hs _ _. unfold eff_dc. rewrite (H s Hs). reflexivity. Qed.

Lemma list_bytes_eqb_refl (l : list bytes) : list_eqb bytes_eqb l l = true.
Proof. induction l as [|x l IH]; cbn [list_eqb]; [reflexivity|]. rewrite bytes_eqb_refl, IH. reflexivity. Qed.

Lemma view_eqb_refl v : view_eqb v v = true.
Proof.
  induction v as [|[[[[i z] d] t] h] v IH]; cbn [view_eqb]; [reflexivity|].
  rewrite !bytes_eqb_refl, list_bytes_eqb_refl, IH. reflexivity.
Qed.

Lemma list_bytes_eqb_eq (a : list bytes) : forall b, list_eqb bytes_eqb a b = true -> a = b.
Proof.
  induction a as [|x a IH]; intros [|y b] H; cbn [list_eqb] in H; try discriminate; [reflexivity|].
  apply andb_true_iff in H. destruct H as [H1 H2]. apply bytes_eqb_eq in H1. subst. f_equal. apply IH. exact H2.
Qed.

Lemma view_eqb_eq v : forall w, view_eqb v w = true -> v = w.
Proof.
  induction v as [|[[[[i z] d] t] h] v IH]; intros [|[[[[i' z'] d'] t'] h'] w] H; cbn [view_eqb] in H; try discriminate; [reflexivity|].
  repeat (apply andb_true_iff in H; destruct H as [H ?]).
  repeat match goal with H : bytes_eqb _ _ = true |- _ => apply bytes_eqb_eq in H end.
  match goal with H : list_eqb _ _ _ = true |- _ => apply list_bytes_eqb_eq in H end.
  subst. f_equal. apply IH. assumption.
Qed.

Lemma views_agree_of_common_ring shared info ring :
  shared <> [] -> (forall a, In a shared -> view_of shared info a = Some ring) -> views_agree shared info = true.
Proof.
  intros Hne Hall. unfold views_agree.
  assert (E : map (view_of shared info) shared = map (fun _ => Some ring) shared).
  { apply map_ext_in. exact Hall. }
  rewrite E. destruct shared as [|x r]; [congruence|]. cbn [map].
  apply forallb_forall. intros o Ho. apply in_map_iff in Ho. destruct Ho as (y & <- & _). apply view_eqb_refl.
Qed.

(** the converse direction of the boolean: it really says all views are the same ring *)
Lemma views_agree_sound shared info :
  views_agree shared info = true ->
  exists ring, forall a, In a shared -> view_of shared info a = Some ring.
Proof.
  unfold views_agree. destruct shared as [|x r]; cbn [map]; [discriminate|].
  destruct (view_of (x :: r) info x) as [v|] eqn:Ev; [|discriminate].
  intro H. exists v. intros a [Ha|Ha]; [subst; exact Ev|].
  rewrite forallb_forall in H. specialize (H (view_of (x :: r) info a) (in_map _ _ _ Ha)).
  destruct (view_of (x :: r) info a) as [w|]; [|discriminate]. apply view_eqb_eq in H. congruence.
Qed.

(** HEADLINE 1a (computed tokens).  Every member of a shared list -- of any length -- with
    pairwise distinct non-empty addresses, no configured tokens and coherent data centers
    presents the SAME ring, namely [canon_ring]. *)
Theorem views_agree_computed shared info :
  addr_nodup shared -> ips_nonempty shared -> no_tokens shared -> dc_coherent info shared ->
  (forall a, In a shared -> view_of shared info a = Some (canon_ring info shared)) /\
  (shared <> [] -> views_agree shared info = true).
Proof.
  intros Hd Hi Ht Hc.
  assert (H : forall a, In a shared -> view_of shared info a = Some (canon_ring info shared)).
  { intros a Ha. apply member_view_computed; assumption. }
  split; [exact H|]. intro Hne. eapply views_agree_of_common_ring; eauto.
Qed.

(** the form asked for: all data centers non-empty *)
Corollary views_agree_computed_dcs shared info a b :
  addr_nodup shared -> ips_nonempty shared -> no_tokens shared -> dcs_nonempty shared ->
  In a shared -> In b shared ->
  exists ring, view_of shared info a = Some ring /\ view_of shared info b = Some ring /\ views_agree shared info = true.
Proof.
  intros Hd Hi Ht Hc Ha Hb.
  destruct (views_agree_computed shared info Hd Hi Ht (dcs_nonempty_coherent info shared Hc)) as [H1 H2].
  exists (canon_ring info shared). split; [apply H1; exact Ha|]. split; [apply H1; exact Hb|].
  apply H2. intro E. subst. destruct Ha.
Qed.

(** HEADLINE 1b (configured tokens). *)
Theorem views_agree_configured shared info :
  addr_nodup shared -> ips_nonempty shared -> all_tokens shared -> dc_coherent info shared ->
  (forall a, In a shared -> view_of shared info a = Some (canon_ring_cfg info shared)) /\
  (shared <> [] -> views_agree shared info = true).
Proof.
  intros Hd Hi Ht Hc.
  assert (H : forall a, In a shared -> view_of shared info a = Some (canon_ring_cfg info shared)).
  { intros a Ha. apply member_view_configured; assumption. }
  split; [exact H|]. intro Hne. eapply views_agree_of_common_ring; eauto.
Qed.

(** *** examples and refutations *)
Definition nd4 (a b c d : N) (dc : String.string) (toks : list bytes) : node :=
  {| n_ip := [0;0;0;0;0;0;0;0;0;0;255;255;a;b;c;d]; n_zone := []; n_dc := str dc; n_tokens := toks; n_md5 := repeat (a + d) 16; n_local := false |}.
Definition info0 (cluster_dc : String.string) : config :=
  {| c_has_rpc := true; c_local := nd4 0 0 0 0 "" []; c_peers := []; c_cluster_dc := str cluster_dc; c_release := []; c_partitioner := [];
     c_cql := []; c_dse := []; c_version := 4 |}.

Definition ex_shared : list node := [nd4 10 0 0 3 "dc1" []; nd4 10 0 0 1 "dc2" []; nd4 9 255 0 1 "dc1" []].

(** hypotheses of [views_agree_computed] are satisfiable on a three-node list ... *)
Example views_agree_computed_hyps :
  addr_nodup ex_shared /\ ips_nonempty ex_shared /\ no_tokens ex_shared /\ dcs_nonempty ex_shared.
Proof.
  split; [apply addr_nodupb_spec; vm_compute; reflexivity|].
  split; [|split]; intros n Hn; cbn in Hn; repeat (destruct Hn as [Hn|Hn]; [subst n; try reflexivity; discriminate|]); destruct Hn.
Qed.
(** ... and the ring is the three nodes in address order with tokens at 0, 1/4 and 2/4 of the range *)
Example views_agree_computed_value :
  map (fun e => match e with (ip, _, dc, toks, _) => (skipn 12 ip, dc, toks) end) (canon_ring (info0 "dcX") ex_shared)
  = [([9;255;0;1], str "dc1", [str "-9223372036854775808"]);
     ([10;0;0;1], str "dc2", [str "-4611686018427387904"]);
     ([10;0;0;3], str "dc1", [str "0"])].
Proof. vm_compute. reflexivity. Qed.

(** WITHOUT dc coherence the views DISAGREE: a peer entry with no dc is given the dc of whichever
    proxy is answering.  Three proxies sharing one list; "10.0.0.3" has no dc configured. *)
Definition ex_shared_nodc : list node := [nd4 10 0 0 1 "dc1" []; nd4 10 0 0 2 "dc2" []; nd4 10 0 0 3 "" []].

Theorem views_agree_without_dcs_refuted :
  exists shared info,
    addr_nodup shared /\ ips_nonempty shared /\ no_tokens shared /\ shared <> [] /\
    views_agree shared info = false /\
    (exists a b ra rb, In a shared /\ In b shared /\ view_of shared info a = Some ra /\ view_of shared info b = Some rb /\ ra <> rb).
Proof.
  exists ex_shared_nodc, (info0 "dc1").
  split; [apply addr_nodupb_spec; vm_compute; reflexivity|].
  split; [intros n Hn; cbn in Hn; repeat (destruct Hn as [Hn|Hn]; [subst n; discriminate|]); destruct Hn|].
  split; [intros n Hn; cbn in Hn; repeat (destruct Hn as [Hn|Hn]; [subst n; reflexivity|]); destruct Hn|].
  split; [discriminate|]. split; [vm_compute; reflexivity|].
  exists (nd4 10 0 0 1 "dc1" []), (nd4 10 0 0 2 "dc2" []).
  eexists. eexists. split; [left; reflexivity|]. split; [right; left; reflexivity|].
  split; [vm_compute; reflexivity|]. split; [vm_compute; reflexivity|]. intro H. discriminate H.
Qed.

(** the same happens with configured tokens *)
Theorem views_agree_configured_without_dcs_refuted :
  exists shared info,
    addr_nodup shared /\ ips_nonempty shared /\ all_tokens shared /\ views_agree shared info = false.
Proof.
  exists [nd4 10 0 0 1 "dc1" [str "1"]; nd4 10 0 0 2 "dc2" [str "2"]; nd4 10 0 0 3 "" [str "3"]], (info0 "dc1").
  split; [apply addr_nodupb_spec; vm_compute; reflexivity|].
  split; [intros n Hn; cbn in Hn; repeat (destruct Hn as [Hn|Hn]; [subst n; discriminate|]); destruct Hn|].
  split; [intros n Hn; cbn in Hn; repeat (destruct Hn as [Hn|Hn]; [subst n; discriminate|]); destruct Hn|].
  vm_compute; reflexivity.
Qed.

Example views_agree_configured_hyps :
  let l := [nd4 10 0 0 1 "dc1" [str "100"]; nd4 10 0 0 2 "" [str "-5"; str "7"]] in
  addr_nodup l /\ ips_nonempty l /\ all_tokens l /\ ~ dcs_nonempty l /\ dc_coherent (info0 "dc1") l /\ views_agree l (info0 "dc1") = true.
Proof.
  cbv zeta. split; [apply addr_nodupb_spec; vm_compute; reflexivity|].
  split; [intros n Hn; cbn in Hn; repeat (destruct Hn as [Hn|Hn]; [subst n; discriminate|]); destruct Hn|].
  split; [intros n Hn; cbn in Hn; repeat (destruct Hn as [Hn|Hn]; [subst n; discriminate|]); destruct Hn|].
  split; [intro H; apply (H (nd4 10 0 0 2 "" [str "-5"; str "7"])); [right; left; reflexivity|reflexivity]|].
  split; [|vm_compute; reflexivity].
  intros s p Hs Hp E. cbn in Hs, Hp.
  repeat (destruct Hs as [Hs|Hs]; [subst s|]); try destruct Hs; reflexivity.
Qed.

(** the other hypotheses are needed too: with a duplicated address the two entries claiming it
    present themselves differently; with a missing address start-up is refused *)
Theorem views_agree_with_duplicate_address_refuted :
  exists shared info, ips_nonempty shared /\ no_tokens shared /\ dcs_nonempty shared /\ ~ addr_nodup shared /\ views_agree shared info = false.
Proof.
  exists [nd4 10 0 0 1 "dc1" []; nd4 10 0 0 1 "dc2" []; nd4 10 0 0 2 "dc1" []], (info0 "dc1").
  split; [intros n Hn; cbn in Hn; repeat (destruct Hn as [Hn|Hn]; [subst n; discriminate|]); destruct Hn|].
  split; [intros n Hn; cbn in Hn; repeat (destruct Hn as [Hn|Hn]; [subst n; reflexivity|]); destruct Hn|].
  split; [intros n Hn; cbn in Hn; repeat (destruct Hn as [Hn|Hn]; [subst n; discriminate|]); destruct Hn|].
  split; [|vm_compute; reflexivity].
  intro H. apply addr_nodupb_spec in H. vm_compute in H. discriminate.
Qed.

Theorem views_agree_with_missing_address_refuted :
  exists shared info, addr_nodup shared /\ no_tokens shared /\ dcs_nonempty shared /\ ~ ips_nonempty shared /\ views_agree shared info = false.
Proof.
  exists [nd4 10 0 0 1 "dc1" []; {| n_ip := []; n_zone := []; n_dc := str "dc1"; n_tokens := []; n_md5 := repeat 0 16; n_local := false |}], (info0 "dc1").
  split; [apply addr_nodupb_spec; vm_compute; reflexivity|].
  split; [intros n Hn; cbn in Hn; repeat (destruct Hn as [Hn|Hn]; [subst n; reflexivity|]); destruct Hn|].
  split; [intros n Hn; cbn in Hn; repeat (destruct Hn as [Hn|Hn]; [subst n; discriminate|]); destruct Hn|].
  split; [|vm_compute; reflexivity].
  intro H. apply (H _ (or_intror (or_introl eq_refl))). reflexivity.
Qed.

(** ** D. projection exactness *)
Definition col_of (e : out_col) : col := (oc_name e, oc_type e).

Lemma find_col_lookup cols name : find_col cols name = option_map (pair name) (lookup_col cols name).
Proof.
  induction cols as [|[n t] r IH]; cbn [find_col lookup_col fst]; [reflexivity|].
  destruct (bytes_eqb n name) eqn:E; [|exact IH]. apply bytes_eqb_eq in E. subst. reflexivity.
Qed.

Lemma col_of_rename_alias a x e : (a, snd (col_of (rename x e))) = col_of (rename (Some a) e).
Proof. destruct x; reflexivity. Qed.

Lemma selector_columns_plan table cols s :
  selector_columns table cols s = option_map (map col_of) (selector_plan cols s).
Proof.
  induction s as [name| |arg| |inner IH alias]; unfold selector_plan; cbn [selector_columns sel_base sel_alias base_plan].
  - rewrite find_col_lookup. destruct (lookup_col cols name); reflexivity.
  - cbn [option_map]. f_equal. rewrite !map_map. cbn [rename col_of oc_name oc_type].
    rewrite <- (map_id cols) at 1. apply map_ext. intros [n t]. reflexivity.
  - reflexivity.
  - reflexivity.
  - rewrite IH. unfold selector_plan. destruct (base_plan cols (sel_base inner)) as [bp|]; [|reflexivity].
    cbn [option_map]. f_equal. rewrite !map_map. apply map_ext. intro e. apply col_of_rename_alias.
Qed.

(** HEADLINE 3a: the column metadata of a handled SELECT is exactly the plan written from the
    property text -- requested columns in requested order with their table types, aliases
    renamed (outermost alias wins), `*` expanded in table order, count and now() as one
    int / timeuuid column; and it is an error exactly when a named column is unknown. *)
Theorem filter_columns_exact table cols sels : filter_columns table cols sels = expected_columns table cols sels.
Proof.
  unfold expected_columns. induction sels as [|s r IH]; cbn [filter_columns expected_plan]; [reflexivity|].
  rewrite selector_columns_plan, IH.
  destruct (selector_plan cols s) as [a|]; cbn [option_map]; [|reflexivity].
  destruct (expected_plan cols r) as [b|]; cbn [option_map]; [|reflexivity].
  rewrite map_app. reflexivity.
Qed.

Lemma star_values_ok value cols cells :
  star_values value cols = Some cells ->
  Forall2 (cell_ok value) (map (fun c => {| oc_name := fst c; oc_type := snd c; oc_src := SrcCol (fst c) |}) cols) cells.
Proof.
  revert cells. induction cols as [|c r IH]; intros cells H; cbn [star_values] in H.
  - inversion H. constructor.
  - destruct (value (fst c)) as [v|] eqn:Ev; [|discriminate].
    destruct (star_values value r) as [l|] eqn:El; [|discriminate]. inversion H; subst.
    cbn [map]. constructor; [|apply IH; reflexivity]. unfold cell_ok. cbn [oc_src]. exists v. split; [exact Ev|reflexivity].
Qed.

Lemma cell_ok_rename value a e c : cell_ok value (rename a e) c <-> cell_ok value e c.
Proof. destruct a; reflexivity. Qed.

Lemma selector_values_base cols value s cells bp :
  selector_values cols value s = Some cells -> base_plan cols (sel_base s) = Some bp -> Forall2 (cell_ok value) bp cells.
Proof.
  revert cells bp. induction s as [name| |arg| |inner IH alias]; intros cells bp Hv Hp; cbn [selector_values sel_base base_plan] in *.
  - destruct (lookup_col cols name); [|discriminate]. destruct (value name) as [v|] eqn:Ev; [|discriminate].
    inversion Hv; inversion Hp; subst. constructor; [|constructor]. exists v. split; [exact Ev|reflexivity].
  - inversion Hp; subst. apply star_values_ok. exact Hv.
  - destruct (value (str "count(*)")) as [v|] eqn:Ev; [|discriminate].
    inversion Hv; inversion Hp; subst. constructor; [|constructor]. exists v. split; [exact Ev|reflexivity].
  - inversion Hv; inversion Hp; subst. constructor; [reflexivity|constructor].
  - eapply IH; eauto.
Qed.

Lemma selector_values_plan cols value s cells plan :
  selector_values cols value s = Some cells -> selector_plan cols s = Some plan -> Forall2 (cell_ok value) plan cells.
Proof.
  unfold selector_plan. intros Hv Hp. destruct (base_plan cols (sel_base s)) as [bp|] eqn:Eb; [|discriminate].
  inversion Hp; subst. assert (H := selector_values_base _ _ _ _ _ Hv Eb).
  clear -H. induction H; cbn [map]; constructor; [apply cell_ok_rename; assumption|assumption].
Qed.

(** HEADLINE 3b: position by position, the cell under an output column is the value of the
    table column that output column stands for (the count cell under a count column, the
    clock under now()). *)
Theorem filter_values_exact cols value sels : forall cells plan,
  filter_values cols value sels = Some cells -> expected_plan cols sels = Some plan -> Forall2 (cell_ok value) plan cells.
Proof.
  induction sels as [|s r IH]; intros cells plan Hv Hp; cbn [filter_values expected_plan] in *.
  - inversion Hv; inversion Hp. constructor.
  - destruct (selector_values cols value s) as [a|] eqn:Ea; [|discriminate].
    destruct (filter_values cols value r) as [b|] eqn:Eb; [|discriminate].
    destruct (selector_plan cols s) as [pa|] eqn:Epa; [|discriminate].
    destruct (expected_plan cols r) as [pb|] eqn:Epb; [|discriminate].
    inversion Hv; inversion Hp; subst. apply Forall2_app; [eapply selector_values_plan; eauto|apply IH; reflexivity].
Qed.

Lemma Forall2_nth_error {A B} (R : A -> B -> Prop) l l' :
  Forall2 R l l' -> forall i a, nth_error l i = Some a -> exists b, nth_error l' i = Some b /\ R a b.
Proof.
  induction 1 as [|x y l l' Hxy H IH]; intros [|i] a Hi; cbn [nth_error] in *; try discriminate.
  - inversion Hi; subst. exists y. split; [reflexivity|exact Hxy].
  - apply IH. exact Hi.
Qed.

(** the nth form: output position [i] *)
Corollary filter_values_nth cols table value sels out cells i name ty :
  filter_columns table cols sels = Some out -> filter_values cols value sels = Some cells ->
  nth_error out i = Some (name, ty) ->
  exists e cell, oc_name e = name /\ oc_type e = ty /\ nth_error cells i = Some cell /\ cell_ok value e cell.
Proof.
  rewrite filter_columns_exact. unfold expected_columns.
  destruct (expected_plan cols sels) as [plan|] eqn:Ep; [|discriminate]. cbn [option_map].
  intros Ho Hv Hi. inversion Ho; subst out. rewrite nth_error_map in Hi.
  destruct (nth_error plan i) as [e|] eqn:Ee; [|discriminate]. cbn [option_map] in Hi. inversion Hi; subst.
  destruct (Forall2_nth_error _ _ _ (filter_values_exact _ _ _ _ _ Hv Ep) i e Ee) as (cell & Hc & Hok).
  exists e, cell. repeat split; assumption.
Qed.

(** in the plan: a named, un-aliased column keeps its name; every table-column source is a
    column of the table with that column's type *)
Lemma lookup_col_in cols name t : lookup_col cols name = Some t -> In (name, t) cols.
Proof.
  induction cols as [|[n t'] r IH]; cbn [lookup_col]; [discriminate|].
  destruct (bytes_eqb n name) eqn:E; [|intro H; right; apply IH; exact H].
  apply bytes_eqb_eq in E. intro H. inversion H; subst. left. reflexivity.
Qed.

Lemma base_plan_sources cols s bp :
  base_plan cols s = Some bp ->
  Forall (fun e => match oc_src e with
                   | SrcCol n => In (n, oc_type e) cols /\ oc_name e = n
                   | SrcCount => oc_type e = CT (str "int")
                   | SrcNow => oc_type e = CT (str "timeuuid")
                   end) bp.
Proof.
  destruct s as [name| |arg| |inner alias]; cbn [base_plan]; intro H.
  - destruct (lookup_col cols name) as [t|] eqn:E; [|discriminate]. inversion H; subst.
    constructor; [|constructor]. cbn [oc_src oc_type oc_name]. split; [apply lookup_col_in; exact E|reflexivity].
  - inversion H; subst. apply Forall_forall. intros e He. apply in_map_iff in He. destruct He as ([n t] & <- & Hin).
    cbn [oc_src oc_type oc_name fst snd]. split; [exact Hin|reflexivity].
  - inversion H; subst. constructor; [reflexivity|constructor].
  - inversion H; subst. constructor; [reflexivity|constructor].
  - discriminate.
Qed.

Lemma expected_plan_sources cols sels : forall plan,
  expected_plan cols sels = Some plan ->
  Forall (fun e => match oc_src e with
                   | SrcCol n => In (n, oc_type e) cols
                   | SrcCount => oc_type e = CT (str "int")
                   | SrcNow => oc_type e = CT (str "timeuuid")
                   end) plan.
Proof.
  induction sels as [|s r IH]; intros plan H; cbn [expected_plan] in H.
  - inversion H. constructor.
  - unfold selector_plan in H. destruct (base_plan cols (sel_base s)) as [bp|] eqn:Eb; [|discriminate].
    cbn [option_map] in H. destruct (expected_plan cols r) as [pb|] eqn:Epb; [|discriminate].
    cbn [option_map] in H. inversion H; subst. apply Forall_app. split; [|apply IH; reflexivity].
    apply base_plan_sources in Eb. clear -Eb. induction Eb as [|e l He Hl IH]; cbn [map]; constructor; [|exact IH].
    destruct (sel_alias s); cbn [rename oc_src oc_type]; destruct (oc_src e); tauto.
Qed.

(** examples: a projection with alias, star, count and now() on a two-column table *)
Example expected_columns_example :
  let cols := [(str "a", CT (str "int")); (str "b", CT (str "varchar"))] in
  expected_columns (str "t") cols [SelAlias (SelAlias (SelId (str "b")) (str "x")) (str "y"); SelStar; SelCount (str "*"); SelNow]
  = Some [(str "y", CT (str "varchar")); (str "a", CT (str "int")); (str "b", CT (str "varchar"));
          (str "count", CT (str "int")); (str "system.now()", CT (str "timeuuid"))] /\
  expected_columns (str "t") cols [SelId (str "a"); SelId (str "zz")] = None /\
  filter_values cols (fun n => Some (n ++ str "!")) [SelAlias (SelId (str "b")) (str "x"); SelStar; SelNow]
  = Some [Some (str "b!"); Some (str "a!"); Some (str "b!"); None].
Proof. vm_compute. repeat split; reflexivity. Qed.

(** ** E. the cells decode, under their advertised types, to the configured facts *)

(** *** round trips of the wire encodings *)
Theorem dec_int_enc z : (-2147483648 <= z < 2147483648)%Z -> dec_int (enc_int z) = Some z.
Proof.
  intro H. unfold dec_int. rewrite <- (app_nil_r (enc_int z)). rewrite read_int_enc by exact H. reflexivity.
Qed.

Ltac zero_byte H ip := destruct ip as [|[|?] ip]; [discriminate H| |discriminate H].
Ltac ff_byte H ip :=
  destruct ip as [|[|?p] ip]; [discriminate H|discriminate H|];
  do 7 (destruct p as [p|p|]; [|discriminate H|discriminate H]);
  destruct p as [p|p|]; [discriminate H|discriminate H|].

Lemma is_v4_mapped_spec ip : is_v4_mapped ip = true -> exists a b c d, ip = v4_prefix ++ [a; b; c; d].
Proof.
  intro H. do 10 zero_byte H ip. do 2 ff_byte H ip.
  do 4 (destruct ip as [|? ip]; [discriminate H|]). destruct ip; [|discriminate H].
  do 4 eexists. reflexivity.
Qed.

(** an IPv4 address (held in the 16-byte mapped form) goes on the wire as its 4 bytes *)
Lemma enc_inet_v4 a b c d : enc_inet (v4_prefix ++ [a; b; c; d]) = [a; b; c; d].
Proof. reflexivity. Qed.

Theorem dec_inet_enc ip : length ip = 16%nat -> dec_inet (enc_inet ip) = Some ip.
Proof.
  intro Hl. unfold enc_inet. destruct (is_v4_mapped ip) eqn:E.
  - destruct (is_v4_mapped_spec ip E) as (a & b & c & d & ->). reflexivity.
  - unfold dec_inet. rewrite Hl. reflexivity.
Qed.

Lemma read_elem_enc s r :
  (Z.of_nat (length s) < 2147483648)%Z -> read_elem (enc_int (Z.of_nat (length s)) ++ s ++ r) = Some (s, r).
Proof.
  intro H. unfold read_elem. rewrite read_int_enc by lia.
  destruct (Z.ltb_spec (Z.of_nat (length s)) 0) as [Hlt|_]; [lia|]. apply get_z_app.
Qed.

Lemma dec_elems_enc (l : list bytes) :
  Forall (fun s => (Z.of_nat (length s) < 2147483648)%Z) l ->
  dec_elems (length l) (concat (map (fun s => enc_int (Z.of_nat (length s)) ++ s) l)) = Some l.
Proof.
  induction 1 as [|s l Hs Hl IH]; cbn [length map concat dec_elems]; [reflexivity|].
  rewrite <- app_assoc. rewrite read_elem_enc by exact Hs. rewrite IH. reflexivity.
Qed.

Theorem dec_varchar_list_enc (l : list bytes) :
  (Z.of_nat (length l) < 2147483648)%Z -> Forall (fun s => (Z.of_nat (length s) < 2147483648)%Z) l ->
  dec_varchar_list (enc_varchar_list l) = Some l.
Proof.
  intros Hn Hl. unfold dec_varchar_list, enc_varchar_list. rewrite read_int_enc by lia.
  destruct (Z.ltb_spec (Z.of_nat (length l)) 0) as [Hlt|_]; [lia|]. rewrite Nat2Z.id. apply dec_elems_enc. exact Hl.
Qed.

Example decoders_example :
  dec_inet (enc_inet [0;0;0;0;0;0;0;0;0;0;255;255;10;0;0;7]) = Some [0;0;0;0;0;0;0;0;0;0;255;255;10;0;0;7] /\
  enc_inet [0;0;0;0;0;0;0;0;0;0;255;255;10;0;0;7] = [10;0;0;7] /\
  dec_inet (enc_inet [32;1;13;184;0;0;0;0;0;0;0;0;0;0;0;1]) = Some [32;1;13;184;0;0;0;0;0;0;0;0;0;0;0;1] /\
  dec_varchar_list (enc_varchar_list [str "-9223372036854775808"; []; str "0"]) = Some [str "-9223372036854775808"; []; str "0"] /\
  dec_varchar_list [0;0;0;1;0;0;0;1;48;99] = None /\
  dec_int (enc_int (-3)) = Some (-3)%Z /\ dec_int [0;0;0;1;0] = None.
Proof. vm_compute. repeat split; reflexivity. Qed.

(** *** decoding under the advertised type *)
Lemma decode_varchar b : decode (CT (str "varchar")) b = Some (FText b).
Proof. reflexivity. Qed.
Lemma decode_inet b : decode (CT (str "inet")) b = option_map FInet (dec_inet b).
Proof. reflexivity. Qed.
Lemma decode_uuid b : decode (CT (str "uuid")) b = if Nat.eqb (length b) 16 then Some (FUuid b) else None.
Proof. reflexivity. Qed.
Lemma decode_int b : decode (CT (str "int")) b = option_map FInt (dec_int b).
Proof. reflexivity. Qed.
Lemma decode_varchar_set b : decode (CSet (CT (str "varchar"))) b = option_map FTextSet (dec_varchar_list b).
Proof. reflexivity. Qed.

Lemma uuid_of_md5_length d : length (uuid_of_md5 d) = length d.
Proof. do 9 (destruct d as [|? d]; [reflexivity|]). reflexivity. Qed.

Lemma decode_node_inet n : node_wf n -> decode (CT (str "inet")) (enc_inet (n_ip n)) = Some (FInet (n_ip n)).
Proof. intros (H & _). rewrite decode_inet, dec_inet_enc by exact H. reflexivity. Qed.

Lemma decode_node_tokens n :
  node_wf n -> decode (CSet (CT (str "varchar"))) (enc_varchar_list (n_tokens n)) = Some (FTextSet (n_tokens n)).
Proof. intros (_ & _ & H1 & H2). rewrite decode_varchar_set, dec_varchar_list_enc by assumption. reflexivity. Qed.

Lemma decode_node_host_id n :
  node_wf n -> decode (CT (str "uuid")) (uuid_of_md5 (n_md5 n)) = Some (FUuid (uuid_of_md5 (n_md5 n))).
Proof. intros (_ & H & _). rewrite decode_uuid, uuid_of_md5_length, H. reflexivity. Qed.

Ltac name_case name s :=
  let E := fresh "E" in
  destruct (bytes_eqb name s) eqn:E; [apply bytes_eqb_eq in E; subst name|].

Ltac solve_fact Hf :=
  inversion Hf; subst; clear Hf; eexists; split; [reflexivity|];
  cbn [fact_type]; first [reflexivity | apply decode_node_inet; assumption | apply decode_node_tokens; assumption
                         | apply decode_node_host_id; assumption].

(** every fact of the local row is what the model puts in the cell, and decodes back *)
Theorem local_value_decodes c local name f :
  node_wf local -> local_fact c local name = Some f ->
  exists b, local_value c local name = Some b /\ decode (fact_type f) b = Some f.
Proof.
  intros Hwf Hf. unfold local_fact, common_fact in Hf.
  name_case name (str "key"); [solve_fact Hf|].
  name_case name (str "rpc_address"); [solve_fact Hf|].
  name_case name (str "data_center"); [solve_fact Hf|].
  name_case name (str "tokens"); [solve_fact Hf|].
  name_case name (str "host_id"); [solve_fact Hf|].
  name_case name (str "partitioner"); [solve_fact Hf|].
  name_case name (str "cluster_name"); [solve_fact Hf|].
  name_case name (str "cql_version"); [solve_fact Hf|].
  name_case name (str "native_protocol_version"); [solve_fact Hf|].
  name_case name (str "rack"); [solve_fact Hf|].
  name_case name (str "release_version"); [solve_fact Hf|].
  name_case name (str "schema_version"); [solve_fact Hf|].
  name_case name (str "dse_version"); [solve_fact Hf|].
  discriminate.
Qed.

Theorem peer_value_decodes c local peer count name f :
  node_wf peer -> peer_fact c peer name = Some f ->
  exists b, peer_value c local peer count name = Some b /\ decode (fact_type f) b = Some f.
Proof.
  intros Hwf Hf. unfold peer_fact, common_fact in Hf.
  name_case name (str "peer"); [solve_fact Hf|].
  name_case name (str "rpc_address"); [solve_fact Hf|].
  name_case name (str "data_center"); [solve_fact Hf|].
  name_case name (str "tokens"); [solve_fact Hf|].
  name_case name (str "host_id"); [solve_fact Hf|].
  name_case name (str "rack"); [solve_fact Hf|].
  name_case name (str "release_version"); [solve_fact Hf|].
  name_case name (str "schema_version"); [solve_fact Hf|].
  name_case name (str "dse_version"); [solve_fact Hf|].
  discriminate.
Qed.

Lemma local_count_decodes c local :
  exists b, local_value c local (str "count(*)") = Some b /\ decode (CT (str "int")) b = Some (FInt 1).
Proof. eexists. split; reflexivity. Qed.

Lemma peer_count_decodes c local peer count :
  (Z.of_nat count < 2147483648)%Z ->
  exists b, peer_value c local peer count (str "count(*)") = Some b /\ decode (CT (str "int")) b = Some (FInt (Z.of_nat count)).
Proof.
  intro H. eexists. split; [reflexivity|]. rewrite decode_int, dec_int_enc by lia. reflexivity.
Qed.

(** *** REFLECTION on Gen/Tables.v: every column of the four table definitions has a fact, and
    the fact has the type the table advertises.  (Evaluates the generated column lists.) *)
Definition local_cols (c : config) : list col :=
  if match c_dse c with [] => false | _ => true end then cols_DseSystemLocalColumns else cols_SystemLocalColumns.
Definition peers_cols (c : config) : list col :=
  if match c_dse c with [] => false | _ => true end then cols_DseSystemPeersColumns else cols_SystemPeersColumns.

Ltac reflect_cols :=
  repeat (apply Forall_cons; [eexists; split; reflexivity|]); apply Forall_nil.

Lemma reflect_local_cols_typed c local :
  Forall (fun nt => exists f, local_fact c local (fst nt) = Some f /\ fact_type f = snd nt) (local_cols c).
Proof. unfold local_cols. destruct (c_dse c); reflect_cols. Qed.

Lemma reflect_peers_cols_typed c peer :
  Forall (fun nt => exists f, peer_fact c peer (fst nt) = Some f /\ fact_type f = snd nt) (peers_cols c).
Proof. unfold peers_cols. destruct (c_dse c); reflect_cols. Qed.

(** *** from named values to positions *)
Lemma cells_decode (value : bytes -> option bytes) (facts : bytes -> option fact) (count : Z) (cols : list col) plan row :
  Forall (fun nt => exists f, facts (fst nt) = Some f /\ fact_type f = snd nt) cols ->
  (forall name f, facts name = Some f -> exists b, value name = Some b /\ decode (fact_type f) b = Some f) ->
  (exists b, value (str "count(*)") = Some b /\ decode (CT (str "int")) b = Some (FInt count)) ->
  Forall (fun e => match oc_src e with
                   | SrcCol n => In (n, oc_type e) cols
                   | SrcCount => oc_type e = CT (str "int")
                   | SrcNow => oc_type e = CT (str "timeuuid")
                   end) plan ->
  Forall2 (cell_ok value) plan row -> Forall2 (cell_decodes facts count) plan row.
Proof.
  intros Hcols Hval Hcount Hsrc H. induction H as [|e cell plan row Hok H IH]; [constructor|].
  inversion Hsrc as [|? ? He Hsrc']; subst. constructor; [|apply IH; exact Hsrc'].
  unfold cell_ok in Hok. unfold cell_decodes. destruct (oc_src e) as [n| |].
  - destruct Hok as (v & Hv & ->). rewrite Forall_forall in Hcols.
    destruct (Hcols _ He) as (f & Hf & Hty). cbn [fst snd] in Hf, Hty.
    destruct (Hval n f Hf) as (b & Hb & Hdec). exists v, f. rewrite Hb in Hv. inversion Hv; subst.
    split; [reflexivity|]. split; [exact Hf|]. rewrite <- Hty. exact Hdec.
  - destruct Hok as (v & Hv & ->). destruct Hcount as (b & Hb & Hdec). rewrite Hb in Hv. inversion Hv; subst.
    exists v. split; [reflexivity|]. rewrite He. exact Hdec.
  - split; [exact Hok|exact He].
Qed.

Lemma all_some_Forall2 {A B} (f : A -> option B) l r :
  all_some (map f l) = Some r -> Forall2 (fun x y => f x = Some y) l r.
Proof.
  revert r. induction l as [|x l IH]; intros r H; cbn [map all_some] in H.
  - inversion H. constructor.
  - destruct (f x) as [y|] eqn:E; [|discriminate]. destruct (all_some (map f l)) as [r'|]; [|discriminate].
    inversion H; subst. constructor; [exact E|apply IH; reflexivity].
Qed.

(** HEADLINE 4a: system.local.  The answer has exactly one row; its column metadata is the
    expected plan; and at every output position the cell decodes, under the type advertised at
    that position, to the fact about THIS proxy named by the requested column: rpc_address is the
    proxy's address, data_center its (effective) dc, tokens its token list, host_id the
    version-3 UUID of its address digest, ...; the count cell decodes to 1; now() is the clock. *)
Theorem local_row_decodes c nodes sels out rows :
  let local := hd (c_local c) (filter n_local nodes) in
  node_wf local ->
  answer_select c nodes (str "local") sels = ARows out rows ->
  exists plan row,
    expected_plan (local_cols c) sels = Some plan /\ out = map col_of plan /\ rows = [row] /\
    Forall2 (cell_decodes (local_fact c local) 1) plan row.
Proof.
  intros local Hwf. unfold answer_select. cbv zeta. fold local.
  replace (bytes_eqb (str "local") (str "local")) with true by reflexivity.
  change (if match c_dse c with [] => false | _ => true end then cols_DseSystemLocalColumns else cols_SystemLocalColumns) with (local_cols c).
  destruct (filter_columns (str "local") (local_cols c) sels) as [o|] eqn:Ec; [|discriminate].
  destruct (filter_values (local_cols c) (local_value c local) sels) as [row|] eqn:Ev; [|discriminate].
  intro H. inversion H; subst out rows. clear H.
  rewrite filter_columns_exact in Ec. unfold expected_columns in Ec.
  destruct (expected_plan (local_cols c) sels) as [plan|] eqn:Ep; [|discriminate]. cbn [option_map] in Ec.
  inversion Ec; subst o. exists plan, row. split; [reflexivity|]. split; [reflexivity|]. split; [reflexivity|].
  apply (cells_decode (local_value c local) (local_fact c local) 1%Z (local_cols c)).
  - apply reflect_local_cols_typed.
  - intros name f Hf. apply local_value_decodes; assumption.
  - apply local_count_decodes.
  - apply (expected_plan_sources _ sels). exact Ep.
  - eapply filter_values_exact; eauto.
Qed.

(** HEADLINE 4b: system.peers.  One row per non-local node, in order, and in the row of peer [p]
    every cell decodes under its advertised type to the fact about [p]; the count cell decodes to
    [length nodes - 1]. *)
Theorem peers_rows_decode c nodes sels out rows :
  let local := hd (c_local c) (filter n_local nodes) in
  let peers := filter (fun n => negb (n_local n)) nodes in
  Forall node_wf peers -> (Z.of_nat (length nodes - 1) < 2147483648)%Z ->
  answer_select c nodes (str "peers") sels = ARows out rows ->
  exists plan,
    expected_plan (peers_cols c) sels = Some plan /\ out = map col_of plan /\
    Forall2 (fun p row => Forall2 (cell_decodes (peer_fact c p) (Z.of_nat (length nodes - 1))) plan row) peers rows.
Proof.
  intros local peers Hwf Hcount. unfold answer_select. cbv zeta. fold local.
  replace (bytes_eqb (str "peers") (str "local")) with false by reflexivity.
  replace (bytes_eqb (str "peers") (str "peers")) with true by reflexivity.
  change (if match c_dse c with [] => false | _ => true end then cols_DseSystemPeersColumns else cols_SystemPeersColumns) with (peers_cols c).
  fold peers.
  destruct (filter_columns (str "peers") (peers_cols c) sels) as [o|] eqn:Ec; [|discriminate].
  destruct (all_some _) as [rs|] eqn:Ea; [|discriminate].
  intro H. inversion H; subst out rows. clear H.
  rewrite filter_columns_exact in Ec. unfold expected_columns in Ec.
  destruct (expected_plan (peers_cols c) sels) as [plan|] eqn:Ep; [|discriminate]. cbn [option_map] in Ec.
  inversion Ec; subst o. exists plan. split; [reflexivity|]. split; [reflexivity|].
  apply all_some_Forall2 in Ea. revert Hwf Ea. generalize peers. intros ps0 Hwf Ea.
  induction Ea as [|p row ps rs Hrow Hrest IH]; [constructor|].
  inversion Hwf as [|? ? Hp Hps]; subst. constructor; [|apply IH; exact Hps].
  apply (cells_decode (peer_value c local p (length nodes - 1)) (peer_fact c p) (Z.of_nat (length nodes - 1)) (peers_cols c)).
  - apply reflect_peers_cols_typed.
  - intros name f Hf. apply peer_value_decodes; assumption.
  - apply peer_count_decodes. exact Hcount.
  - apply (expected_plan_sources _ sels). exact Ep.
  - eapply filter_values_exact; eauto.
Qed.

(** example: hypotheses satisfiable; a concrete answer (evaluates the generated column tables) *)
Definition ex_config : config :=
  {| c_has_rpc := true; c_local := nd4 10 0 0 2 "" []; c_peers := [nd4 10 0 0 1 "dc9" []; nd4 10 0 0 2 "" []; nd4 10 0 0 3 "" []];
     c_cluster_dc := str "dc1"; c_release := str "4.0.0.6816"; c_partitioner := str "org.apache.cassandra.dht.Murmur3Partitioner";
     c_cql := str "3.4.5"; c_dse := []; c_version := 4 |}.

Example local_row_decodes_example :
  match build_nodes ex_config with
  | Ok nodes =>
      answer_select ex_config nodes (str "local") [SelAlias (SelId (str "rpc_address")) (str "a"); SelId (str "data_center"); SelCount (str "*")]
      = ARows [(str "a", CT (str "inet")); (str "data_center", CT (str "varchar")); (str "count", CT (str "int"))]
              [[Some [10;0;0;2]; Some (str "dc1"); Some [0;0;0;1]]] /\
      answer_select ex_config nodes (str "peers") [SelId (str "peer"); SelId (str "data_center"); SelId (str "tokens"); SelCount (str "*")]
      = ARows [(str "peer", CT (str "inet")); (str "data_center", CT (str "varchar")); (str "tokens", CSet (CT (str "varchar"))); (str "count", CT (str "int"))]
              [[Some [10;0;0;1]; Some (str "dc9"); Some (enc_varchar_list [str "-9223372036854775808"]); Some [0;0;0;2]];
               [Some [10;0;0;3]; Some (str "dc1"); Some (enc_varchar_list [str "0"]); Some [0;0;0;2]]]
  | _ => False
  end.
Proof. vm_compute. split; reflexivity. Qed.

(** ** F. local_is_self: the one local node, and who the peers are *)

(** same node up to its tokens *)
Definition same_but_tokens (a b : node) : Prop :=
  n_ip a = n_ip b /\ n_zone a = n_zone b /\ n_dc a = n_dc b /\ n_md5 a = n_md5 b /\ n_local a = n_local b.

Lemma assign_tokens_same k i l : Forall2 same_but_tokens l (assign_tokens k i l).
Proof.
  revert i. induction l as [|x l IH]; intro i; cbn [assign_tokens]; constructor; [|apply IH].
  repeat split.
Qed.

Lemma Forall2_refl {A} (R : A -> A -> Prop) l : (forall x, R x x) -> Forall2 R l l.
Proof. intro H. induction l; constructor; auto. Qed.

Lemma Forall2_length' {A B} (R : A -> B -> Prop) l l' : Forall2 R l l' -> length l = length l'.
Proof. induction 1; cbn [length]; [reflexivity|]. f_equal. assumption. Qed.

Lemma Forall2_filter {A B} (R : A -> B -> Prop) f g l l' :
  (forall a b, R a b -> f a = g b) -> Forall2 R l l' -> Forall2 R (filter f l) (filter g l').
Proof.
  intros Hfg H. induction H as [|a b l l' Hab H IH]; cbn [filter]; [constructor|].
  rewrite <- (Hfg a b Hab). destruct (f a); [constructor; assumption|exact IH].
Qed.

Lemma Permutation_filter' {A} (f : A -> bool) l l' : Permutation l l' -> Permutation (filter f l) (filter f l').
Proof.
  induction 1 as [|x l l' H IH|x y l|l l' l'' H1 IH1 H2 IH2]; cbn [filter].
  - constructor.
  - destruct (f x); [apply perm_skip|]; exact IH.
  - destruct (f x), (f y); try apply Permutation_refl. apply perm_swap.
  - eapply perm_trans; eauto.
Qed.

Lemma filter_all {A} (f : A -> bool) l : (forall x, In x l -> f x = true) -> filter f l = l.
Proof.
  induction l as [|x l IH]; intro H; cbn [filter]; [reflexivity|].
  rewrite (H x (or_introl eq_refl)). f_equal. apply IH. intros y Hy. apply H. right. exact Hy.
Qed.

Lemma filter_none {A} (f : A -> bool) l : (forall x, In x l -> f x = false) -> filter f l = [].
Proof.
  induction l as [|x l IH]; intro H; cbn [filter]; [reflexivity|].
  rewrite (H x (or_introl eq_refl)). apply IH. intros y Hy. apply H. right. exact Hy.
Qed.

Lemma filter_length_le' {A} (f : A -> bool) l : (length (filter f l) <= length l)%nat.
Proof. induction l as [|x l IH]; cbn [filter length]; [lia|]. destruct (f x); cbn [length]; lia. Qed.

Lemma filter_partition_length {A} (f : A -> bool) l :
  (length (filter f l) + length (filter (fun x => negb (f x)) l) = length l)%nat.
Proof. induction l as [|x l IH]; cbn [filter length]; [reflexivity|]. destruct (f x); cbn [negb length]; lia. Qed.

Definition kept_peers (c : config) : list node := filter (fun p => negb (is_self c p)) (c_peers c).
Definition raw_nodes (c : config) : list node := local_node c :: map (mk_peer (local_dc_of c)) (kept_peers c).

(** whatever the mode, the nodes are the local node and the kept peers, reordered and re-tokened *)
Lemma build_nodes_shape c nodes :
  build_nodes c = Ok nodes ->
  exists mid, Permutation (raw_nodes c) mid /\ Forall2 same_but_tokens mid nodes.
Proof.
  intro H. destruct (n_tokens (c_local c)) as [|t ts] eqn:Et.
  - destruct (build_nodes_computed c nodes Et H) as (peers & Hp & ->).
    apply build_peers_ok in Hp. subst peers. fold (kept_peers c). fold (raw_nodes c).
    exists (sort_nodes (raw_nodes c)). split; [apply sort_nodes_perm|apply assign_tokens_same].
  - assert (Hne : n_tokens (c_local c) <> []) by congruence.
    destruct (build_nodes_configured c nodes Hne H) as (peers & Hp & ->).
    apply build_peers_ok in Hp. subst peers. fold (kept_peers c). fold (raw_nodes c).
    exists (raw_nodes c). split; [apply Permutation_refl|]. apply Forall2_refl. intro x. repeat split.
Qed.

Lemma raw_nodes_local c : filter n_local (raw_nodes c) = [local_node c].
Proof.
  unfold raw_nodes. cbn [filter local_node with_dc_tokens n_local]. f_equal.
  apply filter_none. intros x Hx. apply in_map_iff in Hx. destruct Hx as (p & <- & _). reflexivity.
Qed.

Lemma raw_nodes_peers c :
  filter (fun n => negb (n_local n)) (raw_nodes c) = map (mk_peer (local_dc_of c)) (kept_peers c).
Proof.
  unfold raw_nodes. cbn [filter local_node with_dc_tokens n_local negb].
  apply filter_all. intros x Hx. apply in_map_iff in Hx. destruct Hx as (p & <- & _). reflexivity.
Qed.

(** HEADLINE 5: exactly one node is local, it is the one system.local describes, and it is this
    proxy (address, digest, effective dc); no peers row is local, none has this proxy's address
    (a configured peer whose address is the proxy's own is dropped), every peers row is a
    configured peer (same address and digest, its own dc or else the proxy's), the peers rows
    are the non-local nodes in order, and count of system.peers = number of peers rows. *)
Theorem local_is_self c nodes :
  build_nodes c = Ok nodes ->
  let peers := filter (fun n => negb (n_local n)) nodes in
  exists loc,
    filter n_local nodes = [loc] /\ hd (c_local c) (filter n_local nodes) = loc /\
    n_ip loc = n_ip (c_local c) /\ n_zone loc = n_zone (c_local c) /\ n_md5 loc = n_md5 (c_local c) /\
    n_dc loc = local_dc_of c /\
    Forall (fun p => n_local p = false /\ addr_cmp (c_local c) p <> Eq /\
                     exists q, In q (c_peers c) /\ n_ip p = n_ip q /\ n_zone p = n_zone q /\ n_md5 p = n_md5 q /\
                               n_dc p = match n_dc q with [] => local_dc_of c | d => d end) peers /\
    (length nodes - 1 = length peers)%nat /\ (length peers <= length (c_peers c))%nat /\
    (forall q, In q (c_peers c) -> addr_cmp (c_local c) q <> Eq ->
               exists p, In p peers /\ n_ip p = n_ip q /\ n_zone p = n_zone q).
Proof.
  intros Hb peers. destruct (build_nodes_shape c nodes Hb) as (mid & Hperm & Hsame).
  assert (Hloc : Forall2 same_but_tokens (filter n_local mid) (filter n_local nodes)).
  { apply Forall2_filter; [|exact Hsame]. intros a b (_ & _ & _ & _ & H). exact H. }
  assert (Hmidloc : filter n_local mid = [local_node c]).
  { apply Permutation_length_1_inv. rewrite <- raw_nodes_local. apply Permutation_filter'. exact Hperm. }
  rewrite Hmidloc in Hloc. remember (filter n_local nodes) as fl eqn:Efl.
  inversion Hloc as [|x loc l rest Hl Hrest Ex Efl2]. inversion Ex; subst x l. inversion Hrest as [Er|]. subst rest.
  rewrite Efl in Efl2. clear Efl Hloc Hrest. rename Efl2 into Efl. symmetry in Efl.
  assert (Hpe : Forall2 same_but_tokens (filter (fun n => negb (n_local n)) mid) peers).
  { apply Forall2_filter; [|exact Hsame]. intros a b (_ & _ & _ & _ & H). rewrite H. reflexivity. }
  assert (Hmidpe : Permutation (map (mk_peer (local_dc_of c)) (kept_peers c)) (filter (fun n => negb (n_local n)) mid)).
  { rewrite <- raw_nodes_peers. apply Permutation_filter'. exact Hperm. }
  destruct Hl as (Hip & Hzone & Hdc & Hmd5 & Hlocal).
  exists loc. split; [reflexivity|]. split; [reflexivity|].
  split; [symmetry; exact Hip|]. split; [symmetry; exact Hzone|]. split; [symmetry; exact Hmd5|].
  split; [symmetry; exact Hdc|].
  assert (Hlen : length peers = length (kept_peers c)).
  { rewrite <- (Forall2_length' _ _ _ Hpe). rewrite <- (Permutation_length Hmidpe). apply map_length. }
  split; [|split; [|split]].
  - apply Forall_forall. intros p Hp.
    assert (Hex : exists y, In y (filter (fun n => negb (n_local n)) mid) /\ same_but_tokens y p).
    { clear -Hpe Hp. induction Hpe as [|a b l l' Hab H IH]; [destruct Hp|].
      destruct Hp as [Hp|Hp]; [subst; exists a; split; [left; reflexivity|exact Hab]|].
      destruct (IH Hp) as (y & Hy & Hs). exists y. split; [right; exact Hy|exact Hs]. }
    destruct Hex as (y & Hy & (Hyi & Hyz & Hyd & Hym & Hyl)).
    apply (Permutation_in _ (Permutation_sym Hmidpe)) in Hy. apply in_map_iff in Hy. destruct Hy as (q & <- & Hq).
    unfold kept_peers in Hq. apply filter_In in Hq. destruct Hq as [Hq Hns].
    cbn [mk_peer with_dc_tokens n_ip n_zone n_dc n_md5 n_local] in *.
    split; [symmetry; exact Hyl|]. split.
    + rewrite (addr_cmp_ext (c_local c) (c_local c) p q); auto. unfold is_self in Hns.
      destruct (addr_cmp (c_local c) q); [discriminate|discriminate|discriminate].
    + exists q. repeat split; auto.
  - assert (Hpart := filter_partition_length n_local nodes). rewrite Efl in Hpart. cbn [length] in Hpart.
    fold peers in Hpart. lia.
  - rewrite Hlen. apply filter_length_le'.
  - intros q Hq Hne.
    assert (Hk : In (mk_peer (local_dc_of c) q) (filter (fun n => negb (n_local n)) mid)).
    { apply (Permutation_in _ Hmidpe). apply in_map. unfold kept_peers. apply filter_In. split; [exact Hq|].
      unfold is_self. destruct (addr_cmp (c_local c) q); [congruence|reflexivity|reflexivity]. }
    clear -Hpe Hk. induction Hpe as [|a b l l' Hab H IH]; [destruct Hk|].
    destruct Hk as [Hk|Hk].
    + subst a. exists b. split; [left; reflexivity|]. destruct Hab as (Hi & Hz & _). split; symmetry; assumption.
    + destruct (IH Hk) as (p & Hp & Hrest). exists p. split; [right; exact Hp|exact Hrest].
Qed.

(** ** C. tokens in the ring *)

(** *** the decimal printer is injective (so distinct tokens are distinct strings) *)
Fixpoint pow10 (f : nat) : N := match f with O => 1 | S f => 10 * pow10 f end.
Fixpoint pow2 (f : nat) : N := match f with O => 1 | S f => 2 * pow2 f end.

Lemma pow2_le_pow10 f : pow2 f <= pow10 f.
Proof. induction f as [|f IH]; cbn [pow2 pow10]; lia. Qed.

Lemma pos_lt_pow2_size p : Npos p < pow2 (Pos.size_nat p).
Proof. induction p as [p IH|p IH|]; cbn [Pos.size_nat pow2]; lia. Qed.

Lemma N_lt_pow10_size n : n < pow10 (S (N.size_nat n)).
Proof.
  destruct n as [|p]; cbn [N.size_nat]; [cbn; lia|].
  assert (H1 := pos_lt_pow2_size p). assert (H2 := pow2_le_pow10 (Pos.size_nat p)).
  change (pow10 (S (Pos.size_nat p))) with (10 * pow10 (Pos.size_nat p)). lia.
Qed.

Lemma dec_digits_parse fuel : forall n acc,
  n < pow10 fuel ->
  exists ds, dec_digits fuel n acc = ds ++ acc /\ (length ds <= fuel)%nat /\
             forall rest a, parse_dec (ds ++ rest) a = parse_dec rest (a * pow10 (length ds) + n).
Proof.
  induction fuel as [|f IH]; intros n acc Hn; cbn [dec_digits pow10] in *.
  - exists []. split; [reflexivity|]. split; [cbn; lia|]. intros rest a. cbn [app length pow10]. f_equal. lia.
  - destruct (N.ltb_spec n 10) as [Hlt|Hge].
    + exists [48 + n]. split; [reflexivity|]. split; [cbn; lia|]. intros rest a. cbn [app parse_dec length pow10].
      assert (Hd : is_digit (48 + n) = true).
      { unfold is_digit. apply andb_true_iff. split; apply N.leb_le; lia. }
      rewrite Hd. f_equal. lia.
    + assert (Hq : n / 10 < pow10 f).
      { apply N.div_lt_upper_bound; lia. }
      destruct (IH (n / 10) ((48 + n mod 10) :: acc) Hq) as (ds & Hds & Hlen & Hparse).
      exists (ds ++ [48 + n mod 10]). split; [rewrite Hds, <- app_assoc; reflexivity|].
      split; [rewrite app_length; cbn [length]; lia|]. intros rest a.
      rewrite <- app_assoc. cbn [app]. rewrite Hparse. cbn [parse_dec].
      assert (Hm : n mod 10 < 10) by (apply N.mod_lt; lia).
      assert (Hd : is_digit (48 + n mod 10) = true).
      { unfold is_digit. apply andb_true_iff. split; apply N.leb_le; lia. }
      rewrite Hd. f_equal. rewrite app_length. cbn [length]. rewrite Nat.add_1_r. cbn [pow10].
      assert (Hdm := N.div_mod n 10). lia.
Qed.

Lemma parse_print_N n : parse_dec (print_N n) 0 = Some n.
Proof.
  unfold print_N. destruct (dec_digits_parse (S (N.size_nat n)) n [] (N_lt_pow10_size n)) as (ds & Hds & _ & Hp).
  rewrite Hds. rewrite (Hp [] 0). cbn [parse_dec]. f_equal; lia.
Qed.

Lemma print_N_length n : (length (print_N n) <= S (N.size_nat n))%nat.
Proof.
  unfold print_N. destruct (dec_digits_parse (S (N.size_nat n)) n [] (N_lt_pow10_size n)) as (ds & Hds & Hl & _).
  rewrite Hds, app_nil_r. exact Hl.
Qed.

Lemma print_N_inj n m : print_N n = print_N m -> n = m.
Proof. intro H. assert (E := parse_print_N n). rewrite H, parse_print_N in E. congruence. Qed.

Theorem print_Z_inj a b : print_Z a = print_Z b -> a = b.
Proof.
  assert (Hneg : forall p q, print_N (Npos p) <> 45 :: print_N q).
  { intros p q H. assert (E := parse_print_N (Npos p)). rewrite H in E. cbn in E. discriminate. }
  destruct a as [|p|p], b as [|q|q]; cbn [print_Z]; intro H; try reflexivity.
  - change [48] with (print_N 0) in H. apply print_N_inj in H. discriminate.
  - discriminate H.
  - change [48] with (print_N 0) in H. apply print_N_inj in H. discriminate.
  - apply print_N_inj in H. congruence.
  - exfalso. exact (Hneg _ _ H).
  - discriminate H.
  - exfalso. symmetry in H. exact (Hneg _ _ H).
  - inversion H as [H']. apply print_N_inj in H'. congruence.
Qed.

(** *** the tokens of build_nodes in computed mode *)
Lemma assign_tokens_nth k l : forall i j n,
  nth_error (assign_tokens k i l) j = Some n -> n_tokens n = [print_Z (nth_token k (i + j))].
Proof.
  induction l as [|x l IH]; intros i [|j] n H; cbn [assign_tokens nth_error] in H; try discriminate.
  - inversion H; subst. cbn [n_tokens]. rewrite Nat.add_0_r. reflexivity.
  - rewrite <- Nat.add_succ_comm. apply IH. exact H.
Qed.

Lemma kept_local_nodup c :
  addr_nodup (c_peers c) -> addr_nodup (raw_nodes c).
Proof.
  intro Hd. unfold raw_nodes. cbn [addr_nodup]. split.
  - intros y Hy. apply in_map_iff in Hy. destruct Hy as (q & <- & Hq). unfold kept_peers in Hq. apply filter_In in Hq.
    destruct Hq as [_ Hns]. unfold is_self in Hns.
    rewrite (addr_cmp_ext _ (c_local c) _ q); try reflexivity. destruct (addr_cmp (c_local c) q); [discriminate|discriminate|discriminate].
  - apply addr_nodup_map; [intro n; split; reflexivity|]. unfold kept_peers.
    clear -Hd. induction (c_peers c) as [|x l IH]; cbn [filter]; [exact Logic.I|]. cbn [addr_nodup] in Hd. destruct Hd as [H1 H2].
    destruct (negb (is_self c x)); [|apply IH; exact H2]. cbn [addr_nodup]. split; [|apply IH; exact H2].
    intros y Hy. apply filter_In in Hy. apply H1. tauto.
Qed.

Lemma sorted_same_addr_lt l l' :
  map n_ip l = map n_ip l' -> map n_zone l = map n_zone l' -> StronglySorted addr_lt l -> StronglySorted addr_lt l'.
Proof.
  revert l'. induction l as [|x l IH]; intros [|y l'] Hi Hz Hs; try discriminate; [constructor|].
  cbn [map] in Hi, Hz. inversion Hi. inversion Hz. inversion Hs as [|? ? Hs' Hall]; subst.
  constructor; [apply IH; assumption|].
  clear IH Hs Hs' Hi Hz. revert l' H1 H3. induction l as [|a l IH]; intros [|b l'] E1 E2; try discriminate; constructor.
  - cbn [map] in E1, E2. inversion E1. inversion E2. inversion Hall; subst. unfold addr_lt in *.
    rewrite (addr_cmp_ext y x b a); auto.
  - cbn [map] in E1, E2. inversion E1. inversion E2. inversion Hall; subst. apply IH; assumption.
Qed.

(** HEADLINE 2.  Computed-token mode, any configuration: the nodes come out in address order,
    the i-th carries exactly the token [nth_token (length peers) i], there are at most
    [length peers + 1] of them; hence (below 2^32 peers) the first token is the minimum token,
    tokens strictly increase along the ring, stay in the signed 64-bit range, and are pairwise
    distinct as numbers and as the strings put on the wire.  If moreover the configured peers have
    distinct addresses the address order is strict. *)
Theorem ring_tokens_computed c nodes :
  n_tokens (c_local c) = [] -> build_nodes c = Ok nodes ->
  let k := length (c_peers c) in
  StronglySorted addr_le nodes /\
  (addr_nodup (c_peers c) -> StronglySorted addr_lt nodes) /\
  (1 <= length nodes <= k + 1)%nat /\
  (forall i n, nth_error nodes i = Some n -> n_tokens n = [print_Z (nth_token k i)]) /\
  ((Z.of_nat k < 4294967296)%Z ->
   forall i j a b, (i < j)%nat -> nth_error nodes i = Some a -> nth_error nodes j = Some b ->
     (min_token <= nth_token k i < nth_token k j)%Z /\ (nth_token k j <= 9223372036854775807)%Z /\
     (i = 0%nat -> nth_token k i = min_token) /\ n_tokens a <> n_tokens b).
Proof.
  intros Ht Hb k. destruct (build_nodes_computed c nodes Ht Hb) as (peers & Hp & ->).
  apply build_peers_ok in Hp. subst peers. fold (kept_peers c). fold (raw_nodes c). fold k.
  assert (Hlen : (1 <= length (assign_tokens k 0 (sort_nodes (raw_nodes c))) <= k + 1)%nat).
  { rewrite assign_tokens_length, sort_nodes_length. unfold raw_nodes. cbn [length]. rewrite map_length.
    assert (H := filter_length_le' (fun p => negb (is_self c p)) (c_peers c)). fold (kept_peers c) in H. unfold k. lia. }
  assert (Hnth : forall i n, nth_error (assign_tokens k 0 (sort_nodes (raw_nodes c))) i = Some n -> n_tokens n = [print_Z (nth_token k i)]).
  { intros i n H. apply (assign_tokens_nth k _ 0 i n H). }
  split; [apply assign_tokens_wsorted, sort_nodes_wsorted|].
  split; [|split; [exact Hlen|split; [exact Hnth|]]].
  - intro Hd. eapply sorted_same_addr_lt; [symmetry; apply assign_tokens_ip|symmetry; apply assign_tokens_zone|].
    apply sort_nodes_sorted. apply kept_local_nodup. exact Hd.
  - intros Hk i j a b Hij Ha Hb'.
    assert (Hj : (j < length (assign_tokens k 0 (sort_nodes (raw_nodes c))))%nat) by (apply nth_error_Some; congruence).
    assert (Hk0 : (0 < k)%nat) by lia.
    destruct (tokens_start_increase_in_range k i j Hk0 Hk) as (H0 & Hlt & Hlo & Hhi); [lia|].
    split; [lia|]. split; [exact Hhi|]. split; [intros ->; apply nth_token_0|].
    rewrite (Hnth i a Ha), (Hnth j b Hb'). intro E. inversion E as [E']. apply print_Z_inj in E'. lia.
Qed.

Example ring_tokens_computed_example :
  match build_nodes ex_config with
  | Ok nodes => map n_tokens nodes = [[str "-9223372036854775808"]; [str "-4611686018427387904"]; [str "0"]]
                /\ map (fun n => skipn 12 (n_ip n)) nodes = [[10;0;0;1]; [10;0;0;2]; [10;0;0;3]]
                /\ map n_local nodes = [false; true; false]
  | _ => False
  end.
Proof. vm_compute. repeat split; reflexivity. Qed.

(** ** G. the nodes of a well-formed configuration are well-formed; unconditional corollaries *)
Lemma token_in_range k i :
  (Z.of_nat k < 4294967296)%Z -> (i <= k)%nat -> (min_token <= nth_token k i <= 9223372036854775807)%Z.
Proof.
  intros Hk Hi. destruct k as [|k'].
  - assert (i = 0%nat) by lia. subst i. rewrite nth_token_0. unfold min_token. lia.
  - set (k := S k') in *. destruct (Nat.eq_dec i k) as [->|Hne].
    + destruct (tokens_start_increase_in_range k 0 k) as (H0 & Hlt & Hlo & Hhi); [lia|exact Hk|lia|]. lia.
    + destruct (tokens_start_increase_in_range k i k) as (H0 & Hlt & Hlo & Hhi); [lia|exact Hk|lia|]. lia.
Qed.

Lemma size_nat_le p : forall m, Npos p < pow2 m -> (Pos.size_nat p <= m)%nat.
Proof.
  induction p as [p IH|p IH|]; intros [|m] H; cbn [Pos.size_nat pow2] in *; try lia.
  - apply le_n_S. apply IH. lia.
  - apply le_n_S. apply IH. lia.
Qed.

Lemma print_Z_length z :
  (-9223372036854775808 <= z <= 9223372036854775807)%Z -> (Z.of_nat (length (print_Z z)) < 2147483648)%Z.
Proof.
  intro H. assert (P64 : pow2 64 = 18446744073709551616) by (vm_compute; reflexivity).
  destruct z as [|p|p]; cbn [print_Z length].
  - lia.
  - assert (Hl := print_N_length (Npos p)). cbn [N.size_nat] in Hl.
    assert (Hs : (Pos.size_nat p <= 64)%nat) by (apply size_nat_le; rewrite P64; lia). lia.
  - assert (Hl := print_N_length (Npos p)). cbn [N.size_nat] in Hl.
    assert (Hs : (Pos.size_nat p <= 64)%nat) by (apply size_nat_le; rewrite P64; lia). lia.
Qed.

Lemma Forall2_nth_error_r {A B} (R : A -> B -> Prop) l l' :
  Forall2 R l l' -> forall i b, nth_error l' i = Some b -> exists a, nth_error l i = Some a /\ R a b.
Proof.
  induction 1 as [|x y l l' Hxy H IH]; intros [|i] b Hi; cbn [nth_error] in *; try discriminate.
  - inversion Hi; subst. exists x. split; [reflexivity|exact Hxy].
  - apply IH. exact Hi.
Qed.

Theorem build_nodes_wf c nodes : config_wf c -> build_nodes c = Ok nodes -> Forall node_wf nodes.
Proof.
  intros (Hl & Hps & Hk) Hb. destruct (build_nodes_shape c nodes Hb) as (mid & Hperm & Hsame).
  assert (Hraw : forall x, In x (raw_nodes c) -> length (n_ip x) = 16%nat /\ length (n_md5 x) = 16%nat).
  { intros x [Hx|Hx].
    - subst x. cbn [local_node with_dc_tokens n_ip n_md5]. destruct Hl as (H1 & H2 & _). tauto.
    - apply in_map_iff in Hx. destruct Hx as (q & <- & Hq). unfold kept_peers in Hq. apply filter_In in Hq.
      rewrite Forall_forall in Hps. destruct (Hps q (proj1 Hq)) as (H1 & H2 & _). cbn [mk_peer with_dc_tokens n_ip n_md5]. tauto. }
  apply Forall_forall. intros n Hn. apply In_nth_error in Hn. destruct Hn as (i & Hi).
  destruct (Forall2_nth_error_r _ _ _ Hsame i n Hi) as (m & Hm & (Hip & _ & _ & Hmd5 & _)).
  apply nth_error_In in Hm. apply (Permutation_in _ (Permutation_sym Hperm)) in Hm.
  destruct (Hraw m Hm) as [H1 H2]. unfold node_wf. rewrite <- Hip, <- Hmd5. split; [exact H1|]. split; [exact H2|].
  destruct (n_tokens (c_local c)) as [|t ts] eqn:Et.
  - destruct (ring_tokens_computed c nodes Et Hb) as (_ & _ & Hlen & Hnth & _).
    rewrite (Hnth i n Hi). cbn [length]. split; [lia|]. constructor; [|constructor].
    apply print_Z_length. apply token_in_range; [lia|].
    assert (i < length nodes)%nat by (apply nth_error_Some; congruence). lia.
  - assert (Hne : n_tokens (c_local c) <> []) by congruence.
    destruct (build_nodes_configured c nodes Hne Hb) as (peers & Hp & Hnodes).
    apply build_peers_ok in Hp. subst peers nodes. apply nth_error_In in Hi. destruct Hi as [Hi|Hi].
    + subst n. unfold local_node, calc_of. rewrite Et. cbn [with_dc_tokens n_tokens]. rewrite <- Et.
      destruct Hl as (_ & _ & H3 & H4). tauto.
    + apply in_map_iff in Hi. destruct Hi as (q & <- & Hq). apply filter_In in Hq.
      rewrite Forall_forall in Hps. destruct (Hps q (proj1 Hq)) as (_ & _ & H3 & H4). cbn [mk_peer with_dc_tokens n_tokens]. tauto.
Qed.

(** HEADLINE 4 (unconditional form): for every well-formed configuration whose start-up
    succeeds, every handled SELECT on system.local / system.peers answers with the expected
    metadata and with cells that decode to the facts about this proxy / each peer; the local
    node has this proxy's address and digest, the peers rows are exactly the non-local nodes and
    their number is what the count cell says. *)
Theorem system_tables_decode c nodes :
  config_wf c -> build_nodes c = Ok nodes ->
  exists loc,
    filter n_local nodes = [loc] /\
    n_ip loc = n_ip (c_local c) /\ n_zone loc = n_zone (c_local c) /\ n_md5 loc = n_md5 (c_local c) /\
    n_dc loc = local_dc_of c /\
    let peers := filter (fun n => negb (n_local n)) nodes in
    (forall sels out rows, answer_select c nodes (str "local") sels = ARows out rows ->
       exists plan row, expected_plan (local_cols c) sels = Some plan /\ out = map col_of plan /\ rows = [row] /\
                        Forall2 (cell_decodes (local_fact c loc) 1) plan row) /\
    (forall sels out rows, answer_select c nodes (str "peers") sels = ARows out rows ->
       exists plan, expected_plan (peers_cols c) sels = Some plan /\ out = map col_of plan /\
                    length rows = length peers /\
                    Forall2 (fun p row => Forall2 (cell_decodes (peer_fact c p) (Z.of_nat (length peers))) plan row) peers rows).
Proof.
  intros Hwf Hb. assert (Hnw := build_nodes_wf c nodes Hwf Hb).
  destruct (local_is_self c nodes Hb) as (loc & Hf & Hhd & Hip & Hz & Hm & Hdc & _ & Hcount & Hle & _).
  exists loc. split; [exact Hf|]. split; [exact Hip|]. split; [exact Hz|]. split; [exact Hm|]. split; [exact Hdc|].
  intro peers. split.
  - intros sels out rows Ha. rewrite <- Hhd. apply (local_row_decodes c nodes sels out rows); [|exact Ha].
    rewrite Hhd. rewrite Forall_forall in Hnw. apply Hnw.
    assert (Hin : In loc (filter n_local nodes)) by (rewrite Hf; left; reflexivity). apply filter_In in Hin. tauto.
  - intros sels out rows Ha. fold peers in Hcount. rewrite <- Hcount.
    destruct (peers_rows_decode c nodes sels out rows) as (plan & Hp & Ho & Hrows); [| |exact Ha|].
    + apply Forall_forall. intros p Hp. apply filter_In in Hp. rewrite Forall_forall in Hnw. apply Hnw. tauto.
    + destruct Hwf as (_ & _ & Hk). fold peers in Hle. lia.
    + exists plan. split; [exact Hp|]. split; [exact Ho|]. split; [|exact Hrows].
      rewrite Hcount. symmetry. eapply Forall2_length'. exact Hrows.
Qed.

(** ** H. a handled SELECT is INVALID exactly when it names an unknown column *)
Lemma local_value_exists c local name f : local_fact c local name = Some f -> exists b, local_value c local name = Some b.
Proof.
  intro Hf. unfold local_fact, common_fact in Hf.
  name_case name (str "key"); [eexists; reflexivity|].
  name_case name (str "rpc_address"); [eexists; reflexivity|].
  name_case name (str "data_center"); [eexists; reflexivity|].
  name_case name (str "tokens"); [eexists; reflexivity|].
  name_case name (str "host_id"); [eexists; reflexivity|].
  name_case name (str "partitioner"); [eexists; reflexivity|].
  name_case name (str "cluster_name"); [eexists; reflexivity|].
  name_case name (str "cql_version"); [eexists; reflexivity|].
  name_case name (str "native_protocol_version"); [eexists; reflexivity|].
  name_case name (str "rack"); [eexists; reflexivity|].
  name_case name (str "release_version"); [eexists; reflexivity|].
  name_case name (str "schema_version"); [eexists; reflexivity|].
  name_case name (str "dse_version"); [eexists; reflexivity|].
  discriminate.
Qed.

Lemma peer_value_exists c local peer count name f :
  peer_fact c peer name = Some f -> exists b, peer_value c local peer count name = Some b.
Proof.
  intro Hf. unfold peer_fact, common_fact in Hf.
  name_case name (str "peer"); [eexists; reflexivity|].
  name_case name (str "rpc_address"); [eexists; reflexivity|].
  name_case name (str "data_center"); [eexists; reflexivity|].
  name_case name (str "tokens"); [eexists; reflexivity|].
  name_case name (str "host_id"); [eexists; reflexivity|].
  name_case name (str "rack"); [eexists; reflexivity|].
  name_case name (str "release_version"); [eexists; reflexivity|].
  name_case name (str "schema_version"); [eexists; reflexivity|].
  name_case name (str "dse_version"); [eexists; reflexivity|].
  discriminate.
Qed.

Lemma star_values_total value cols :
  (forall n t, In (n, t) cols -> exists b, value n = Some b) -> exists cells, star_values value cols = Some cells.
Proof.
  induction cols as [|[n t] r IH]; intro H; cbn [star_values fst]; [eexists; reflexivity|].
  destruct (H n t (or_introl eq_refl)) as (b & Hb). rewrite Hb.
  destruct IH as (cells & Hc); [intros n' t' Hin; apply (H n' t'); right; exact Hin|]. rewrite Hc. eexists; reflexivity.
Qed.

Lemma selector_values_total cols value s bp :
  (forall n t, In (n, t) cols -> exists b, value n = Some b) -> (exists b, value (str "count(*)") = Some b) ->
  base_plan cols (sel_base s) = Some bp -> exists cells, selector_values cols value s = Some cells.
Proof.
  intros Hcols Hcount. revert bp. induction s as [name| |arg| |inner IH alias]; intros bp Hp; cbn [selector_values sel_base base_plan] in *.
  - destruct (lookup_col cols name) as [t|] eqn:E; [|discriminate]. apply lookup_col_in in E.
    destruct (Hcols name t E) as (b & Hb). rewrite Hb. eexists; reflexivity.
  - apply star_values_total. exact Hcols.
  - destruct Hcount as (b & Hb). rewrite Hb. eexists; reflexivity.
  - eexists; reflexivity.
  - eapply IH. exact Hp.
Qed.

Lemma filter_values_total cols value sels :
  (forall n t, In (n, t) cols -> exists b, value n = Some b) -> (exists b, value (str "count(*)") = Some b) ->
  forall plan, expected_plan cols sels = Some plan -> exists cells, filter_values cols value sels = Some cells.
Proof.
  intros Hcols Hcount. induction sels as [|s r IH]; intros plan Hp; cbn [filter_values expected_plan] in *; [eexists; reflexivity|].
  unfold selector_plan in Hp. destruct (base_plan cols (sel_base s)) as [bp|] eqn:Eb; [|discriminate]. cbn [option_map] in Hp.
  destruct (expected_plan cols r) as [pb|] eqn:Epb; [|discriminate].
  destruct (selector_values_total cols value s bp Hcols Hcount Eb) as (a & Ha). rewrite Ha.
  destruct (IH pb eq_refl) as (b & Hb). rewrite Hb. eexists; reflexivity.
Qed.

Lemma all_some_total {A B} (f : A -> option B) l : (forall x, In x l -> exists y, f x = Some y) -> exists r, all_some (map f l) = Some r.
Proof.
  induction l as [|x l IH]; intro H; cbn [map all_some]; [eexists; reflexivity|].
  destruct (H x (or_introl eq_refl)) as (y & Hy). rewrite Hy.
  destruct IH as (r & Hr); [intros z Hz; apply H; right; exact Hz|]. rewrite Hr. eexists; reflexivity.
Qed.

Theorem local_invalid_iff c nodes sels :
  (answer_select c nodes (str "local") sels = AInvalid <-> expected_plan (local_cols c) sels = None) /\
  answer_select c nodes (str "local") sels <> ANotHandled.
Proof.
  unfold answer_select. cbv zeta.
  replace (bytes_eqb (str "local") (str "local")) with true by reflexivity.
  change (if match c_dse c with [] => false | _ => true end then cols_DseSystemLocalColumns else cols_SystemLocalColumns) with (local_cols c).
  set (local := hd (c_local c) (filter n_local nodes)).
  rewrite filter_columns_exact. unfold expected_columns.
  destruct (expected_plan (local_cols c) sels) as [plan|] eqn:Ep; cbn [option_map]; [|split; [tauto|discriminate]].
  destruct (filter_values_total (local_cols c) (local_value c local) sels) with (plan := plan) as (cells & Hc).
  - intros n t Hin. assert (H := reflect_local_cols_typed c local). rewrite Forall_forall in H.
    destruct (H _ Hin) as (f & Hf & _). eapply local_value_exists. exact Hf.
  - eexists; reflexivity.
  - exact Ep.
  - rewrite Hc. split; [split; discriminate|discriminate].
Qed.

Theorem peers_invalid_iff c nodes sels :
  (answer_select c nodes (str "peers") sels = AInvalid <-> expected_plan (peers_cols c) sels = None) /\
  answer_select c nodes (str "peers") sels <> ANotHandled.
Proof.
  unfold answer_select. cbv zeta.
  replace (bytes_eqb (str "peers") (str "local")) with false by reflexivity.
  replace (bytes_eqb (str "peers") (str "peers")) with true by reflexivity.
  change (if match c_dse c with [] => false | _ => true end then cols_DseSystemPeersColumns else cols_SystemPeersColumns) with (peers_cols c).
  set (local := hd (c_local c) (filter n_local nodes)).
  rewrite filter_columns_exact. unfold expected_columns.
  destruct (expected_plan (peers_cols c) sels) as [plan|] eqn:Ep; cbn [option_map]; [|split; [tauto|discriminate]].
  destruct (all_some_total (fun p => filter_values (peers_cols c) (peer_value c local p (length nodes - 1)) sels)
              (filter (fun n => negb (n_local n)) nodes)) as (rows & Hr).
  - intros p _. apply (filter_values_total (peers_cols c) _ sels) with (plan := plan); [| |exact Ep].
    + intros n t Hin. assert (H := reflect_peers_cols_typed c p). rewrite Forall_forall in H.
      destruct (H _ Hin) as (f & Hf & _). eapply peer_value_exists. exact Hf.
    + eexists; reflexivity.
  - rewrite Hr. split; [split; discriminate|discriminate].
Qed.

Example invalid_iff_example :
  expected_plan (local_cols ex_config) [SelId (str "rpc_address"); SelId (str "peer")] = None /\
  expected_plan (peers_cols ex_config) [SelId (str "rpc_address"); SelId (str "peer")] <> None.
Proof. split; [vm_compute; reflexivity|vm_compute; discriminate]. Qed.

(** ** I. the named cells, spelled out (the sentence of the property text) *)
Corollary local_named_cells c nodes :
  config_wf c -> build_nodes c = Ok nodes ->
  let loc := hd (c_local c) (filter n_local nodes) in
  (exists b, local_value c loc (str "rpc_address") = Some b /\ dec_inet b = Some (n_ip (c_local c))) /\
  local_value c loc (str "data_center") = Some (local_dc_of c) /\
  (exists b, local_value c loc (str "tokens") = Some b /\ dec_varchar_list b = Some (n_tokens loc)) /\
  local_value c loc (str "host_id") = Some (uuid_of_md5 (n_md5 (c_local c))) /\
  (exists b, local_value c loc (str "count(*)") = Some b /\ dec_int b = Some 1%Z).
Proof.
  intros Hwf Hb loc. assert (Hnw := build_nodes_wf c nodes Hwf Hb).
  destruct (local_is_self c nodes Hb) as (l & Hf & Hhd & Hip & Hz & Hm & Hdc & _).
  fold loc in Hhd. subst l.
  assert (Hlw : node_wf loc).
  { rewrite Forall_forall in Hnw. apply Hnw.
    assert (Hin : In loc (filter n_local nodes)) by (rewrite Hf; left; reflexivity). apply filter_In in Hin. tauto. }
  destruct Hlw as (H1 & H2 & H3 & H4).
  split; [eexists; split; [reflexivity|]; rewrite dec_inet_enc by exact H1; rewrite Hip; reflexivity|].
  split; [change (local_value c loc (str "data_center")) with (Some (n_dc loc)); rewrite Hdc; reflexivity|].
  split; [eexists; split; [reflexivity|]; apply dec_varchar_list_enc; assumption|].
  split; [change (local_value c loc (str "host_id")) with (Some (uuid_of_md5 (n_md5 loc))); rewrite Hm; reflexivity|].
  eexists; split; reflexivity.
Qed.

Corollary peer_named_cells c nodes p :
  config_wf c -> build_nodes c = Ok nodes ->
  let loc := hd (c_local c) (filter n_local nodes) in
  let peers := filter (fun n => negb (n_local n)) nodes in
  In p peers ->
  (exists b, peer_value c loc p (length nodes - 1) (str "peer") = Some b /\ dec_inet b = Some (n_ip p)) /\
  (exists b, peer_value c loc p (length nodes - 1) (str "rpc_address") = Some b /\ dec_inet b = Some (n_ip p)) /\
  peer_value c loc p (length nodes - 1) (str "data_center") = Some (n_dc p) /\
  (exists b, peer_value c loc p (length nodes - 1) (str "tokens") = Some b /\ dec_varchar_list b = Some (n_tokens p)) /\
  peer_value c loc p (length nodes - 1) (str "host_id") = Some (uuid_of_md5 (n_md5 p)) /\
  (exists b, peer_value c loc p (length nodes - 1) (str "count(*)") = Some b /\ dec_int b = Some (Z.of_nat (length peers))).
Proof.
  intros Hwf Hb loc peers Hp. assert (Hnw := build_nodes_wf c nodes Hwf Hb).
  destruct (local_is_self c nodes Hb) as (l & _ & _ & _ & _ & _ & _ & _ & Hcount & Hle & _).
  fold peers in Hcount, Hle.
  assert (Hpw : node_wf p).
  { rewrite Forall_forall in Hnw. apply Hnw. apply filter_In in Hp. tauto. }
  destruct Hpw as (H1 & H2 & H3 & H4).
  split; [eexists; split; [reflexivity|]; apply dec_inet_enc; exact H1|].
  split; [eexists; split; [reflexivity|]; apply dec_inet_enc; exact H1|].
  split; [reflexivity|].
  split; [eexists; split; [reflexivity|]; apply dec_varchar_list_enc; assumption|].
  split; [reflexivity|].
  eexists; split; [reflexivity|]. rewrite Hcount. apply dec_int_enc. destruct Hwf as (_ & _ & Hk). lia.
Qed.

Example config_wf_example : config_wf ex_config /\ is_ok (build_nodes ex_config) = true.
Proof.
  split; [|vm_compute; reflexivity].
  unfold config_wf, cfg_node_wf. cbn [ex_config c_local c_peers nd4 n_ip n_md5 n_tokens length repeat].
  repeat split; try lia; repeat constructor; cbn [length]; lia.
Qed.

(** ** Assumptions *)
Print Assumptions sort_nodes_perm_invariant.
Print Assumptions views_agree_computed.
Print Assumptions views_agree_computed_dcs.
Print Assumptions views_agree_configured.
Print Assumptions views_agree_sound.
Print Assumptions views_agree_without_dcs_refuted.
Print Assumptions views_agree_configured_without_dcs_refuted.
Print Assumptions views_agree_with_duplicate_address_refuted.
Print Assumptions views_agree_with_missing_address_refuted.
Print Assumptions ring_tokens_computed.
Print Assumptions print_Z_inj.
Print Assumptions filter_columns_exact.
Print Assumptions filter_values_exact.
Print Assumptions filter_values_nth.
Print Assumptions dec_int_enc.
Print Assumptions dec_inet_enc.
Print Assumptions dec_varchar_list_enc.
Print Assumptions local_value_decodes.
Print Assumptions peer_value_decodes.
Print Assumptions local_row_decodes.
Print Assumptions peers_rows_decode.
Print Assumptions local_is_self.
Print Assumptions build_nodes_wf.
Print Assumptions system_tables_decode.
Print Assumptions local_invalid_iff.
Print Assumptions peers_invalid_iff.
Print Assumptions local_named_cells.
Print Assumptions peer_named_cells.
