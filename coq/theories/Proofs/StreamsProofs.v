(** Proofs about Model/Streams.v (C02). *)
From Coq Require Import List ZArith NArith Bool Lia Permutation.
From CqlProxy Require Import Lib.Val Lib.Util Model.Streams.
Import ListNotations.
Local Open Scope N_scope.

Lemma lookup_remove_perm_snd (t : N) (h : list (N * N)) s :
  lookup t h = Some s -> Permutation (map snd h) (s :: map snd (remove_key t h)).
Proof.
  induction h as [|[k v] h IH]; simpl; [discriminate|].
  destruct (t =? k) eqn:E.
  - intro H; inversion H; subst. reflexivity.
  - intro H. simpl. rewrite (IH H). apply perm_swap.
Qed.

Lemma lookup_remove_perm_fst {V} (s : N) (p : list (N * V)) r :
  lookup s p = Some r -> Permutation (map fst p) (s :: map fst (remove_key s p)).
Proof.
  induction p as [|[k v] p IH]; simpl; [discriminate|].
  destruct (s =? k) eqn:E.
  - intros _. apply N.eqb_eq in E. subst. reflexivity.
  - intro H. simpl. rewrite (IH H). apply perm_swap.
Qed.

(** every atomic step moves ids between the three places without creating or losing one *)
Lemma step_preserves_ids st e : Permutation (ids (fst (step st e))) (ids st).
Proof.
  unfold ids. destruct e as [t|t r|t s|t]; cbn [step].
  - destruct (lookup t (held st)); [reflexivity|].
    destruct (free st) as [|s f] eqn:Ef; [cbn [fst]; rewrite Ef; reflexivity|].
    cbn [fst free pending held map snd app].
    symmetry. rewrite (app_assoc f (map fst (pending st)) (s :: map snd (held st))).
    apply Permutation_cons_app. rewrite <- app_assoc. reflexivity.
  - destruct (lookup t (held st)) as [s|] eqn:El; [|reflexivity].
    cbn [fst free pending held map]. apply Permutation_app_head. cbn [fst app].
    rewrite (lookup_remove_perm_snd t (held st) s El).
    apply Permutation_cons_app. reflexivity.
  - destruct (lookup t (held st)); [reflexivity|].
    destruct (lookup s (pending st)) as [r|] eqn:El; [|reflexivity].
    cbn [fst free pending held map snd]. apply Permutation_app_head.
    rewrite (lookup_remove_perm_fst s (pending st) r El). cbn [app].
    symmetry. apply Permutation_cons_app. reflexivity.
  - destruct (lookup t (held st)) as [s|] eqn:El; [|reflexivity].
    cbn [fst free pending held]. rewrite <- app_assoc. apply Permutation_app_head. cbn [app].
    rewrite (lookup_remove_perm_snd t (held st) s El).
    apply Permutation_cons_app. reflexivity.
Qed.

Lemma run_events_preserves_ids es : forall st, Permutation (ids (fst (run_events st es))) (ids st).
Proof.
  induction es as [|e es IH]; intro st; [reflexivity|].
  cbn [run_events]. pose proof (step_preserves_ids st e) as Hs.
  destruct (step st e) as [st' o]. cbn [fst] in Hs.
  specialize (IH st'). destruct (run_events st' es) as [stf os]. cbn [fst] in *.
  rewrite IH. exact Hs.
Qed.

Lemma init_ids max : ids (init_pstate max) = map N.of_nat (seq 0 max).
Proof. unfold ids, init_pstate. simpl. rewrite app_nil_r. reflexivity. Qed.

Lemma NoDup_init max : NoDup (map N.of_nat (seq 0 max)).
Proof.
  apply FinFun.Injective_map_NoDup; [|apply seq_NoDup].
  intros a b H. apply Nat2N.inj. exact H.
Qed.

(** at every point of every interleaving, the ids in the free channel, in the pending table
    and in the hands of pre-empted threads are together exactly 0..max-1, each once *)
Theorem ids_partition max es :
  let st := fst (run_events (init_pstate max) es) in
  Permutation (ids st) (map N.of_nat (seq 0 max)) /\ NoDup (ids st).
Proof.
  cbn zeta. pose proof (run_events_preserves_ids es (init_pstate max)) as H.
  rewrite init_ids in H. split; [exact H|].
  apply (Permutation_NoDup (l := map N.of_nat (seq 0 max))); [symmetry; exact H|apply NoDup_init].
Qed.

Lemma NoDup_app_l {A} (a b : list A) : NoDup (a ++ b) -> NoDup a.
Proof. induction a; simpl; intro H; [constructor|]. inversion H; subst. constructor; [rewrite in_app_iff in *; tauto|auto]. Qed.
Lemma NoDup_app_r {A} (a b : list A) : NoDup (a ++ b) -> NoDup b.
Proof. induction a; simpl; intro H; [exact H|]. inversion H; subst. auto. Qed.

(** no stream id is registered twice, and the channel never holds more than max ids
    (so returning an id never blocks) *)
Theorem pending_ids_distinct max es :
  let st := fst (run_events (init_pstate max) es) in
  NoDup (map fst (pending st)) /\ (length (free st) <= max)%nat.
Proof.
  cbn zeta. destruct (ids_partition max es) as [Hp Hn]. cbn zeta in *.
  set (st := fst (run_events (init_pstate max) es)) in *. split.
  - unfold ids in Hn. apply NoDup_app_r in Hn. apply NoDup_app_l in Hn. exact Hn.
  - apply Permutation_length in Hp. unfold ids in Hp. rewrite !app_length, !map_length, seq_length in Hp. lia.
Qed.

(** ** the sequential operations are the two-step protocols run without pre-emption *)
Lemma store_is_take_then_put st t r :
  lookup t (held st) = None ->
  match free st with
  | [] => fst (step st (TakeId t)) = st /\ snd (step st (TakeId t)) = OExhausted /\ snd (store st r) = (-1)%Z
  | s :: _ =>
      let st1 := fst (step st (TakeId t)) in
      fst (step st1 (MapStore t r)) = fst (store st r) /\ snd (store st r) = Z.of_N s
  end.
Proof.
  intro Hl. unfold store. cbn [step]. rewrite Hl. destruct (free st) as [|s f] eqn:Ef.
  - cbn. auto.
  - cbn [fst snd step held lookup]. rewrite N.eqb_refl. cbn [fst remove_key free pending held]. rewrite N.eqb_refl. auto.
Qed.

Lemma load_delete_is_take_then_return st t s :
  lookup t (held st) = None ->
  match lookup s (pending st) with
  | None => step st (MapTake t s) = (st, OAbsent) /\ load_and_delete st s = (st, None)
  | Some r =>
      let st1 := fst (step st (MapTake t s)) in
      fst (step st1 (ReturnId t)) = fst (load_and_delete st s) /\ snd (load_and_delete st s) = Some r
  end.
Proof.
  intro Hl. unfold load_and_delete. cbn [step]. rewrite Hl. destruct (lookup s (pending st)) as [r|] eqn:Ep.
  - cbn [fst snd step held lookup]. rewrite N.eqb_refl. cbn [fst remove_key free pending held]. rewrite N.eqb_refl. auto.
  - auto.
Qed.

(** store fails exactly when no id is free, and then registers nothing *)
Theorem store_exhausted_iff st r : snd (store st r) = (-1)%Z <-> free st = [].
Proof.
  unfold store. destruct (free st) as [|s f]; cbn [snd]; split; intro H; try reflexivity; try discriminate.
  lia.
Qed.

Theorem store_exhausted_registers_nothing st r : free st = [] -> fst (store st r) = st.
Proof. intro H. unfold store. rewrite H. reflexivity. Qed.

(** ** routing *)
Lemma lookup_remove_other {V} (a b : N) (p : list (N * V)) : a <> b -> lookup a (remove_key b p) = lookup a p.
Proof.
  intro Hab. induction p as [|[k v] p IH]; simpl; [reflexivity|].
  destruct (b =? k) eqn:Eb.
  - apply N.eqb_eq in Eb. subst. destruct (a =? k) eqn:Ea; [apply N.eqb_eq in Ea; congruence|reflexivity].
  - simpl. destruct (a =? k); [reflexivity|exact IH].
Qed.

(** sequential operations on *other* ids: any stores (they use ids from the free list) and
    any loadAndDeletes of ids different from [s] *)
Inductive sop := SStore (r : req) | SLoad (b : N).
Definition apply_sop (st : pstate) (o : sop) : pstate :=
  match o with SStore r => fst (store st r) | SLoad b => fst (load_and_delete st b) end.

Definition wf (st : pstate) : Prop := NoDup (ids st).

Lemma wf_store st r : wf st -> wf (fst (store st r)).
Proof.
  unfold wf, store, ids. destruct (free st) as [|s0 f] eqn:Ef; cbn [fst]; [rewrite Ef; auto|]. cbn [fst free pending held map].
  intro H. apply (Permutation_NoDup (l := (s0 :: f) ++ map fst (pending st) ++ map snd (held st))); [|exact H].
  cbn [app fst]. apply Permutation_cons_app. reflexivity.
Qed.

Lemma wf_load st b : wf st -> wf (fst (load_and_delete st b)).
Proof.
  unfold wf, load_and_delete, ids. destruct (lookup b (pending st)) as [r|] eqn:E; [|auto].
  cbn [fst free pending held]. intro H.
  apply (Permutation_NoDup (l := free st ++ map fst (pending st) ++ map snd (held st))); [|exact H].
  rewrite <- app_assoc. apply Permutation_app_head.
  rewrite (lookup_remove_perm_fst b (pending st) r E). cbn [app]. reflexivity.
Qed.

Lemma lookup_in_keys {V} (s : N) (p : list (N * V)) r : lookup s p = Some r -> In s (map fst p).
Proof.
  induction p as [|[k v] p IH]; simpl; [discriminate|]. destruct (s =? k) eqn:E.
  - apply N.eqb_eq in E. auto.
  - intro H. right. auto.
Qed.

Lemma registered_survives st s r o :
  wf st -> lookup s (pending st) = Some r ->
  (match o with SLoad b => b <> s | SStore _ => True end) ->
  lookup s (pending (apply_sop st o)) = Some r.
Proof.
  intros Hw Hl Ho. destruct o as [r'|b]; cbn [apply_sop].
  - unfold store. destruct (free st) as [|s' f] eqn:Ef; [exact Hl|].
    cbn [fst pending lookup].
    destruct (s =? s') eqn:E; [|exact Hl].
    apply N.eqb_eq in E. subst s'. exfalso.
    unfold wf, ids in Hw. rewrite Ef in Hw. cbn [app] in Hw. inversion Hw as [|? ? Hnin _]; subst.
    apply Hnin. rewrite in_app_iff. right. rewrite in_app_iff. left. eapply lookup_in_keys; eauto.
  - unfold load_and_delete. destruct (lookup b (pending st)) as [rb|]; [|exact Hl].
    cbn [fst pending]. rewrite lookup_remove_other by congruence. exact Hl.
Qed.

Lemma wf_apply st o : wf st -> wf (apply_sop st o).
Proof. destruct o; cbn [apply_sop]; [apply wf_store|apply wf_load]. Qed.

(** A request registered under backend stream [s] keeps that registration across any number
    of other registrations and of answers on other streams (id reuse included), and the
    frame answering [s] is delivered to that request's client on that request's stream. *)
Theorem answer_reaches_its_request :
  forall ops st r s token,
    wf st -> lookup s (pending st) = Some r ->
    Forall (fun o => match o with SLoad b => b <> s | SStore _ => True end) ops ->
    snd (deliver (fold_left apply_sop ops st) s token) =
    Some {| d_client := r_client r; d_stream := r_stream r; d_token := token |}.
Proof.
  induction ops as [|o ops IH]; intros st r s token Hw Hl Hf.
  - cbn [fold_left]. unfold deliver, load_and_delete. rewrite Hl. reflexivity.
  - inversion Hf as [|? ? Ho Hf']; subst. cbn [fold_left].
    apply IH; [apply wf_apply; exact Hw| |exact Hf'].
    apply registered_survives; assumption.
Qed.

(** a successful store registers the request under the id it returns *)
Theorem store_registers st r s :
  snd (store st r) = Z.of_N s -> free st <> [] -> lookup s (pending (fst (store st r))) = Some r.
Proof.
  unfold store. destruct (free st) as [|s' f]; [congruence|]. cbn [fst snd pending lookup].
  intros H _. apply N2Z.inj in H. subst. rewrite N.eqb_refl. reflexivity.
Qed.
