(** * Lz4Proofs: the proxy's own LZ4 block decoder (Model/Lz4.v, codecs/lz4.go uncompressLz4Block) against the format.

    - the decoder never panics (no slice expression goes out of range), whatever the body and the stated length;
    - it accepts exactly the valid blocks whose output fits the stated length, and decodes them to what the format says;
    - the copy of a match in pieces of at most [offset] bytes is the byte-by-byte copy, overlaps included;
    - the seeded weak guard (C17-m13) never accepts anything else: it panics in some cases where the right guard rejects;
    - neither decoder depends on the fuel; blocks of literals round-trip; a block of real bytes expands at most 255 times
      (and no smaller constant will do); the output only grows along the decoding.

    The bytes of the model are [N]: the only statement that needs them to be below 256 is the expansion bound. *)
From Coq Require Import List ZArith NArith Bool Lia Arith.
From CqlProxy Require Import Lib.Val Lib.Util Model.Lz4.
Import ListNotations.

(** ** lists *)
Lemma skipn_cons_nth : forall (k : nat) (l : bytes) d, k < length l -> skipn k l = nth k l d :: skipn (S k) l.
Proof.
  induction k as [|k IH]; intros l d Hk; destruct l as [|x l]; cbn [length] in Hk; try lia.
  - reflexivity.
  - cbn [skipn nth]. rewrite (IH l d) by lia. reflexivity.
Qed.

(** ** the byte-by-byte copy *)
Lemma copy_bytes_length : forall n out off, length (copy_bytes n out off) = length out + n.
Proof.
  induction n as [|n IH]; intros out off; cbn [copy_bytes]; [lia|].
  rewrite IH, app_length. cbn [length]. lia.
Qed.

Lemma copy_bytes_extends : forall n out off, exists tail, copy_bytes n out off = out ++ tail /\ length tail = n.
Proof.
  induction n as [|n IH]; intros out off; cbn [copy_bytes].
  - exists []. rewrite app_nil_r. split; reflexivity.
  - destruct (IH (out ++ [nth (length out - off) out 0%N]) off) as [t [Ht Hl]].
    exists (nth (length out - off) out 0%N :: t). rewrite Ht, <- app_assoc. split; [reflexivity|cbn [length]; lia].
Qed.

Lemma copy_bytes_add : forall a b out off, copy_bytes (a + b) out off = copy_bytes b (copy_bytes a out off) off.
Proof.
  induction a as [|a IH]; intros b out off; cbn [copy_bytes Nat.add]; [reflexivity|apply IH].
Qed.

(** a piece of at most [offset] bytes does not overlap what it produces: it is a plain copy of a slice *)
Lemma copy_bytes_chunk : forall c out off, c <= off -> off <= length out ->
  copy_bytes c out off = out ++ firstn c (skipn (length out - off) out).
Proof.
  induction c as [|c IH]; intros out off Hc Ho; cbn [copy_bytes].
  - cbn [firstn]. rewrite app_nil_r. reflexivity.
  - rewrite IH by (rewrite ?app_length; cbn [length]; lia).
    rewrite (skipn_cons_nth (length out - off) out 0%N) by lia.
    cbn [firstn]. rewrite <- app_assoc. cbn [app]. f_equal. f_equal.
    rewrite app_length. cbn [length].
    replace (length out + 1 - off) with (S (length out - off)) by lia.
    rewrite skipn_app, firstn_app.
    replace (c - length (skipn (S (length out - off)) out)) with 0 by (rewrite skipn_length; lia).
    cbn [firstn]. rewrite app_nil_r. reflexivity.
Qed.

(** ** L5: the chunked copy of the Go code is the byte-by-byte copy of the format *)
Theorem copy_chunks_is_copy_bytes_fuel : forall fuel n out offset cap,
  n < fuel -> 0 < offset -> offset <= length out -> length out + n <= cap ->
  copy_chunks fuel n out offset cap = Some (copy_bytes n out offset).
Proof.
  induction fuel as [|f IH]; intros n out off cap Hf Ho Hl Hc; [lia|].
  cbn [copy_chunks]. destruct (Nat.eqb n 0) eqn:En.
  - apply Nat.eqb_eq in En. subst n. reflexivity.
  - apply Nat.eqb_neq in En. destruct (Nat.ltb cap (length out + n)) eqn:El.
    + apply Nat.ltb_lt in El. lia.
    + remember (Nat.min n off) as c eqn:Ec.
      assert (Hc3 : c <= n /\ c <= off /\ 1 <= c) by lia. destruct Hc3 as [Hc1 [Hc2 Hc3]].
      rewrite <- (copy_bytes_chunk c out off) by lia.
      rewrite IH by (rewrite ?copy_bytes_length; lia).
      f_equal. replace n with (c + (n - c)) at 2 by lia. rewrite copy_bytes_add. reflexivity.
Qed.

Theorem copy_chunks_is_copy_bytes : forall n out offset cap,
  0 < offset -> offset <= length out -> length out + n <= cap ->
  copy_chunks (S n) n out offset cap = Some (copy_bytes n out offset).
Proof. intros n out off cap. apply copy_chunks_is_copy_bytes_fuel. lia. Qed.

Example copy_chunks_overlapping :
  copy_chunks 8 7 [97; 98]%N 2 9 = Some [97; 98; 97; 98; 97; 98; 97; 98; 97]%N
  /\ copy_bytes 7 [97; 98]%N 2 = [97; 98; 97; 98; 97; 98; 97; 98; 97]%N.
Proof. vm_compute. split; reflexivity. Qed.

(** without room the slice expression dst[di:di+n] panics *)
Lemma copy_chunks_no_room : forall fuel n out off cap, n <> 0 -> cap < length out + n -> copy_chunks (S fuel) n out off cap = None.
Proof.
  intros fuel n out off cap Hn Hc. cbn [copy_chunks].
  destruct (Nat.eqb n 0) eqn:En; [apply Nat.eqb_eq in En; lia|].
  destruct (Nat.ltb cap (length out + n)) eqn:El; [reflexivity|apply Nat.ltb_ge in El; lia].
Qed.

(** ** lengths *)
Definition is_byte (b : N) : Prop := (b < 256)%N.

Lemma read_ext_shorter : forall fuel n src m r, read_ext fuel n src = Some (m, r) -> length r < length src.
Proof.
  induction fuel as [|f IH]; intros n src m r H; cbn [read_ext] in H; [discriminate|].
  destruct src as [|b s]; [discriminate|].
  destruct (N.eqb b 255).
  - apply IH in H. cbn [length]. lia.
  - injection H as _ Hr. subst r. cbn [length]. lia.
Qed.

Lemma read_ext_Forall : forall (P : N -> Prop) fuel n src m r, read_ext fuel n src = Some (m, r) -> Forall P src -> Forall P r.
Proof.
  induction fuel as [|f IH]; intros n src m r H HF; cbn [read_ext] in H; [discriminate|].
  destruct src as [|b s]; [discriminate|]. inversion HF as [|b' s' Hb Hs]; subst.
  destruct (N.eqb b 255).
  - eapply IH; eassumption.
  - injection H as _ Hr. subst r. exact Hs.
Qed.

(** every extension byte adds at most 255, the last one at most 254 *)
Lemma read_ext_bound : forall fuel n src m r, read_ext fuel n src = Some (m, r) -> Forall is_byte src ->
  m + 1 <= n + 255 * (length src - length r).
Proof.
  induction fuel as [|f IH]; intros n src m r H HF; cbn [read_ext] in H; [discriminate|].
  destruct src as [|b s]; [discriminate|]. inversion HF as [|b' s' Hb Hs]; subst.
  destruct (N.eqb b 255) eqn:Eb.
  - pose proof (read_ext_shorter _ _ _ _ _ H) as Hsh. apply IH in H; [|exact Hs]. cbn [length]. lia.
  - injection H as Hm Hr. subst r m. apply N.eqb_neq in Eb. unfold is_byte in Hb. cbn [length]. lia.
Qed.

Lemma read_len_shorter : forall nib src m r, read_len nib src = Some (m, r) -> length r <= length src.
Proof.
  intros nib src m r H. unfold read_len in H. destruct (Nat.eqb nib 15).
  - apply read_ext_shorter in H. lia.
  - injection H as _ Hr. subst r. lia.
Qed.

Lemma read_len_Forall : forall (P : N -> Prop) nib src m r, read_len nib src = Some (m, r) -> Forall P src -> Forall P r.
Proof.
  intros P nib src m r H HF. unfold read_len in H. destruct (Nat.eqb nib 15).
  - eapply read_ext_Forall; eassumption.
  - injection H as _ Hr. subst r. exact HF.
Qed.

Lemma read_len_bound : forall nib src m r, nib <= 15 -> read_len nib src = Some (m, r) -> Forall is_byte src ->
  m <= 14 + 255 * (length src - length r).
Proof.
  intros nib src m r Hn H HF. unfold read_len in H. destruct (Nat.eqb nib 15) eqn:En.
  - pose proof (read_ext_shorter _ _ _ _ _ H) as Hsh. apply read_ext_bound in H; [|exact HF]. lia.
  - injection H as Hm Hr. subst r m. apply Nat.eqb_neq in En. lia.
Qed.

Lemma lo_le_15 : forall tok, lo tok <= 15.
Proof.
  intro tok. unfold lo. pose proof (N.mod_upper_bound tok 16) as H. lia.
Qed.

(** ** one sequence, read once for both decoders *)
Inductive seq :=
| SeqBad
| SeqLast (lits : bytes)
| SeqMatch (lits : bytes) (offset ml : nat) (rest : bytes).

Definition parse (tok : N) (r : bytes) : seq :=
  match read_len (hi tok) r with
  | None => SeqBad
  | Some (lit, r1) =>
      if Nat.ltb (length r1) lit then SeqBad
      else
        match skipn lit r1 with
        | [] => SeqLast (firstn lit r1)
        | [_] => SeqBad
        | o1 :: o2 :: r3 =>
            match read_len (lo tok) r3 with
            | None => SeqBad
            | Some (ml, r4) => SeqMatch (firstn lit r1) (N.to_nat o1 + 256 * N.to_nat o2) ml r4
            end
        end
  end.

Lemma spec_decode_unfold : forall f tok r out,
  spec_decode (S f) (tok :: r) out =
  match parse tok r with
  | SeqBad => None
  | SeqLast l => Some (out ++ l)
  | SeqMatch l off ml r4 =>
      if Nat.eqb off 0 || Nat.ltb (length (out ++ l)) off then None
      else spec_decode f r4 (copy_bytes (ml + 4) (out ++ l) off)
  end.
Proof.
  intros f tok r out. cbn [spec_decode]. unfold parse.
  destruct (read_len (hi tok) r) as [[lit r1]|]; [|reflexivity].
  destruct (Nat.ltb (length r1) lit); [reflexivity|]. cbv zeta.
  destruct (skipn lit r1) as [|o1 [|o2 r3]]; try reflexivity.
  destruct (read_len (lo tok) r3) as [[ml r4]|]; [reflexivity|].
  destruct (Nat.eqb _ 0 || Nat.ltb _ _); reflexivity.
Qed.

Lemma impl_decode_unfold : forall weak f tok r out cap,
  impl_decode weak (S f) (tok :: r) out cap =
  match parse tok r with
  | SeqBad => DErr
  | SeqLast l => if Nat.ltb (cap - length out) (length l) then DErr else DOk (out ++ l)
  | SeqMatch l off ml r4 =>
      if Nat.ltb (cap - length out) (length l) then DErr
      else if Nat.eqb off 0 || Nat.ltb (length (out ++ l)) off then DErr
      else if Nat.ltb (cap - length (out ++ l)) (if weak then ml else ml + 4) then DErr
      else match copy_chunks (ml + 5) (ml + 4) (out ++ l) off cap with
           | None => DPanic
           | Some out2 => impl_decode weak f r4 out2 cap
           end
  end.
Proof.
  intros weak f tok r out cap. cbn [impl_decode]. unfold parse.
  destruct (read_len (hi tok) r) as [[lit r1]|]; [|reflexivity].
  destruct (Nat.ltb (length r1) lit) eqn:E1; [reflexivity|].
  apply Nat.ltb_ge in E1. cbn [orb]. cbv zeta.
  assert (Hl : length (firstn lit r1) = lit) by (apply firstn_length_le; exact E1).
  destruct (skipn lit r1) as [|o1 [|o2 r3]]; rewrite ?Hl.
  - reflexivity.
  - destruct (Nat.ltb (cap - length out) lit); reflexivity.
  - destruct (read_len (lo tok) r3) as [[ml r4]|]; rewrite ?Hl;
      destruct (Nat.ltb (cap - length out) lit); try reflexivity;
      destruct (Nat.eqb _ 0 || Nat.ltb _ _); reflexivity.
Qed.

Lemma parse_last_shorter : forall tok r l, parse tok r = SeqLast l -> length l <= length r.
Proof.
  intros tok r l H. unfold parse in H.
  destruct (read_len (hi tok) r) as [[lit r1]|] eqn:E1; [|discriminate].
  destruct (Nat.ltb (length r1) lit) eqn:E2; [discriminate|]. apply Nat.ltb_ge in E2.
  apply read_len_shorter in E1.
  destruct (skipn lit r1) as [|o1 [|o2 r3]]; try discriminate.
  - injection H as Hl. subst l. rewrite firstn_length. lia.
  - destruct (read_len (lo tok) r3) as [[ml r4]|]; discriminate.
Qed.

Lemma parse_match_shorter : forall tok r l off ml r4, parse tok r = SeqMatch l off ml r4 -> length l + 2 + length r4 <= length r.
Proof.
  intros tok r l off ml r4 H. unfold parse in H.
  destruct (read_len (hi tok) r) as [[lit r1]|] eqn:E1; [|discriminate].
  destruct (Nat.ltb (length r1) lit) eqn:E2; [discriminate|]. apply Nat.ltb_ge in E2.
  apply read_len_shorter in E1.
  pose proof (skipn_length lit r1) as Hs.
  destruct (skipn lit r1) as [|o1 [|o2 r3]]; try discriminate.
  destruct (read_len (lo tok) r3) as [[ml' r4']|] eqn:E4; [|discriminate].
  apply read_len_shorter in E4.
  injection H as Hl _ _ Hr. subst l r4'. rewrite firstn_length. cbn [length] in Hs. lia.
Qed.

(** the bytes a sequence with a match consumes pay for what it produces, 255 times over *)
Lemma parse_match_bytes : forall tok r l off ml r4, Forall is_byte r -> parse tok r = SeqMatch l off ml r4 ->
  Forall is_byte r4 /\ length r4 <= length r /\ length l + ml + 4 <= 255 * (S (length r) - length r4).
Proof.
  intros tok r l off ml r4 HF H. unfold parse in H.
  destruct (read_len (hi tok) r) as [[lit r1]|] eqn:E1; [|discriminate].
  destruct (Nat.ltb (length r1) lit) eqn:E2; [discriminate|]. apply Nat.ltb_ge in E2.
  pose proof (read_len_Forall _ _ _ _ _ E1 HF) as HF1.
  apply read_len_shorter in E1.
  pose proof (skipn_length lit r1) as Hs.
  rewrite <- (firstn_skipn lit r1) in HF1. apply Forall_app in HF1. destruct HF1 as [_ HF2].
  destruct (skipn lit r1) as [|o1 [|o2 r3]]; try discriminate.
  destruct (read_len (lo tok) r3) as [[ml' r4']|] eqn:E4; [|discriminate].
  inversion HF2 as [|x1 t1 _ HF3]; subst. inversion HF3 as [|x2 t2 _ HF4]; subst.
  pose proof (read_len_Forall _ _ _ _ _ E4 HF4) as HF5.
  pose proof (read_len_shorter _ _ _ _ E4) as Hsh.
  pose proof (read_len_bound _ _ _ _ (lo_le_15 tok) E4 HF4) as Hb.
  injection H as Hl _ Hm Hr. subst l r4' ml'. rewrite firstn_length. cbn [length] in Hs.
  split; [exact HF5|]. split; lia.
Qed.

(** ** L10: the output only grows along the decoding *)
Theorem output_monotone : forall f src out out', spec_decode f src out = Some out' -> exists tail, out' = out ++ tail.
Proof.
  induction f as [|f IH]; intros src out out' H; [discriminate|].
  destruct src as [|tok r].
  - cbn [spec_decode] in H. injection H as H. subst out'. exists []. rewrite app_nil_r. reflexivity.
  - rewrite spec_decode_unfold in H. destruct (parse tok r) as [|l|l off ml r4].
    + discriminate.
    + injection H as H. subst out'. exists l. reflexivity.
    + destruct (Nat.eqb off 0 || Nat.ltb (length (out ++ l)) off); [discriminate|].
      apply IH in H. destruct H as [t Ht].
      destruct (copy_bytes_extends (ml + 4) (out ++ l) off) as [t2 [Ht2 _]].
      exists (l ++ t2 ++ t). rewrite Ht, Ht2. rewrite <- !app_assoc. reflexivity.
Qed.

Lemma output_length_monotone : forall f src out out', spec_decode f src out = Some out' -> length out <= length out'.
Proof.
  intros f src out out' H. apply output_monotone in H. destruct H as [t Ht]. subst out'. rewrite app_length. lia.
Qed.

Example output_monotone_ex :
  spec_decode 8 [64; 97; 98; 99; 100; 4; 0]%N [120]%N = Some ([120]%N ++ [97; 98; 99; 100; 97; 98; 99; 100]%N).
Proof. vm_compute. reflexivity. Qed.

(** ** L1: the decoder never panics *)
Theorem impl_decode_never_panics : forall fuel src out cap, impl_decode false fuel src out cap <> DPanic.
Proof.
  induction fuel as [|f IH]; intros src out cap; [cbn [impl_decode]; discriminate|].
  destruct src as [|tok r]; [cbn [impl_decode]; discriminate|].
  rewrite impl_decode_unfold. destruct (parse tok r) as [|l|l off ml r4].
  - discriminate.
  - destruct (Nat.ltb (cap - length out) (length l)); discriminate.
  - destruct (Nat.ltb (cap - length out) (length l)); [discriminate|].
    destruct (Nat.eqb off 0) eqn:E0; [cbn [orb]; discriminate|].
    destruct (Nat.ltb (length (out ++ l)) off) eqn:E1; [cbn [orb]; discriminate|].
    cbn [orb].
    destruct (Nat.ltb (cap - length (out ++ l)) (ml + 4)) eqn:E2; [discriminate|].
    apply Nat.eqb_neq in E0. apply Nat.ltb_ge in E1. apply Nat.ltb_ge in E2.
    rewrite copy_chunks_is_copy_bytes_fuel by lia. apply IH.
Qed.

Theorem impl_never_panics : forall src cap, impl false src cap <> DPanic.
Proof. intros src cap. apply impl_decode_never_panics. Qed.

Example impl_never_panics_ex : impl false [64; 97; 98; 99; 100; 4; 0]%N 6 = DErr /\ impl false [64; 97; 98; 99; 100; 4; 0]%N 7 = DErr
  /\ impl false [64; 97; 98; 99; 100; 4; 0]%N 8 = DOk [97; 98; 99; 100; 97; 98; 99; 100]%N.
Proof. vm_compute. repeat split; reflexivity. Qed.

(** ** L2: what is accepted is a valid block decoded to what the format says, within the stated length *)
Theorem impl_decode_sound : forall fuel src out cap o, length out <= cap ->
  impl_decode false fuel src out cap = DOk o -> spec_decode fuel src out = Some o /\ length o <= cap.
Proof.
  induction fuel as [|f IH]; intros src out cap o Hc H; [discriminate|].
  destruct src as [|tok r].
  - cbn [impl_decode] in H. injection H as H. subst o. cbn [spec_decode]. split; [reflexivity|exact Hc].
  - rewrite impl_decode_unfold in H. rewrite spec_decode_unfold. destruct (parse tok r) as [|l|l off ml r4].
    + discriminate.
    + destruct (Nat.ltb (cap - length out) (length l)) eqn:E; [discriminate|]. apply Nat.ltb_ge in E.
      injection H as H. subst o. split; [reflexivity|]. rewrite app_length. lia.
    + destruct (Nat.ltb (cap - length out) (length l)) eqn:E; [discriminate|]. apply Nat.ltb_ge in E.
      destruct (Nat.eqb off 0) eqn:E0; [cbn [orb] in H; discriminate|].
      destruct (Nat.ltb (length (out ++ l)) off) eqn:E1; [cbn [orb] in H; discriminate|].
      cbn [orb] in H |- *.
      destruct (Nat.ltb (cap - length (out ++ l)) (ml + 4)) eqn:E2; [discriminate|].
      apply Nat.eqb_neq in E0. apply Nat.ltb_ge in E1. apply Nat.ltb_ge in E2.
      assert (Hl : length (out ++ l) <= cap) by (rewrite app_length; lia).
      rewrite copy_chunks_is_copy_bytes_fuel in H by lia.
      apply IH in H; [exact H|]. rewrite copy_bytes_length. lia.
Qed.

Theorem impl_sound : forall src cap out, impl false src cap = DOk out -> spec src = Some out /\ length out <= cap.
Proof. intros src cap out H. apply impl_decode_sound in H; [exact H|cbn [length]; lia]. Qed.

(** ** L3: every valid block whose output fits the stated length is accepted *)
Theorem impl_decode_complete : forall fuel src out cap o, spec_decode fuel src out = Some o -> length o <= cap ->
  impl_decode false fuel src out cap = DOk o.
Proof.
  induction fuel as [|f IH]; intros src out cap o H Hc; [discriminate|].
  destruct src as [|tok r].
  - cbn [spec_decode] in H. injection H as H. subst o. reflexivity.
  - rewrite spec_decode_unfold in H. rewrite impl_decode_unfold. destruct (parse tok r) as [|l|l off ml r4].
    + discriminate.
    + injection H as H. subst o. rewrite app_length in Hc.
      destruct (Nat.ltb (cap - length out) (length l)) eqn:E; [apply Nat.ltb_lt in E; lia|reflexivity].
    + destruct (Nat.eqb off 0) eqn:E0; [cbn [orb] in H; discriminate|].
      destruct (Nat.ltb (length (out ++ l)) off) eqn:E1; [cbn [orb] in H; discriminate|].
      cbn [orb] in H |- *.
      apply Nat.eqb_neq in E0. apply Nat.ltb_ge in E1.
      pose proof (output_length_monotone _ _ _ _ H) as Hm. rewrite copy_bytes_length in Hm.
      pose proof (app_length out l) as Ha.
      destruct (Nat.ltb (cap - length out) (length l)) eqn:E; [apply Nat.ltb_lt in E; lia|].
      destruct (Nat.ltb (cap - length (out ++ l)) (ml + 4)) eqn:E2; [apply Nat.ltb_lt in E2; lia|].
      rewrite copy_chunks_is_copy_bytes_fuel by lia. apply IH; assumption.
Qed.

Theorem impl_complete : forall src cap out, spec src = Some out -> length out <= cap -> impl false src cap = DOk out.
Proof. intros src cap out H Hc. apply impl_decode_complete; assumption. Qed.

Example impl_sound_complete_ex :
  spec [16; 97; 1; 0; 80; 98; 99; 100; 101; 102]%N = Some [97; 97; 97; 97; 97; 98; 99; 100; 101; 102]%N
  /\ impl false [16; 97; 1; 0; 80; 98; 99; 100; 101; 102]%N 10 = DOk [97; 97; 97; 97; 97; 98; 99; 100; 101; 102]%N
  /\ impl false [16; 97; 1; 0; 80; 98; 99; 100; 101; 102]%N 9 = DErr.
Proof. vm_compute. repeat split; reflexivity. Qed.

(** ** L4: exactly the other bodies are rejected *)
Theorem impl_rejects_iff : forall src cap, impl false src cap = DErr <-> ~ (exists out, spec src = Some out /\ length out <= cap).
Proof.
  intros src cap. split.
  - intros H [out [Hs Hc]]. rewrite (impl_complete _ _ _ Hs Hc) in H. discriminate.
  - intro Hn. destruct (impl false src cap) as [o| |] eqn:E.
    + exfalso. apply Hn. exists o. apply impl_sound. exact E.
    + reflexivity.
    + exfalso. exact (impl_never_panics _ _ E).
Qed.

Theorem impl_trichotomy : forall src cap,
  match spec src with
  | Some out => if Nat.leb (length out) cap then impl false src cap = DOk out else impl false src cap = DErr
  | None => impl false src cap = DErr
  end.
Proof.
  intros src cap. destruct (spec src) as [out|] eqn:Es.
  - destruct (Nat.leb (length out) cap) eqn:El.
    + apply Nat.leb_le in El. apply impl_complete; assumption.
    + apply Nat.leb_gt in El. apply impl_rejects_iff. intros [o [Ho Hc]]. rewrite Es in Ho. injection Ho as Ho. subst o. lia.
  - apply impl_rejects_iff. intros [o [Ho _]]. rewrite Es in Ho. discriminate.
Qed.

Example impl_rejects_ex :
  impl false [64; 97; 98; 99; 100; 5; 0]%N 100 = DErr /\ spec [64; 97; 98; 99; 100; 5; 0]%N = None   (* an offset before the start *)
  /\ impl false [64; 97; 98; 99; 100; 4]%N 100 = DErr /\ spec [64; 97; 98; 99; 100; 4]%N = None      (* half an offset *)
  /\ impl false [79; 97; 98; 99; 100; 4; 0; 255; 255]%N 100 = DErr.                                  (* endless length bytes *)
Proof. vm_compute. repeat split; reflexivity. Qed.

(** the property the harness checks of the Go code holds of the model *)
Theorem run_lz4_holds : forall input, holds_lz4 input (run_lz4 input) = B [].
Proof.
  intro input. unfold holds_lz4, run_lz4.
  pose proof (impl_trichotomy (vB (nthv 2 input)) (N.to_nat (vN (nthv 1 input)))) as H.
  pose proof (impl_never_panics (vB (nthv 2 input)) (N.to_nat (vN (nthv 1 input)))) as Hp.
  destruct (spec (vB (nthv 2 input))) as [out|].
  - destruct (Nat.leb (length out) (N.to_nat (vN (nthv 1 input)))); rewrite H; cbn.
    + rewrite bytes_eqb_refl. reflexivity.
    + reflexivity.
  - rewrite H. cbn. reflexivity.
Qed.

(** ** L6: the weak guard (C17-m13) *)
Theorem weak_guard_panics_refuted : exists src cap, impl true src cap = DPanic.
Proof. exists [64; 97; 98; 99; 100; 4; 0]%N, 6. vm_compute. reflexivity. Qed.

(** exactly: the weak guard gives the same result, or it panics where the right guard rejects *)
Theorem weak_guard_decode_exact : forall fuel src out cap,
  impl_decode true fuel src out cap = impl_decode false fuel src out cap
  \/ (impl_decode true fuel src out cap = DPanic /\ impl_decode false fuel src out cap = DErr).
Proof.
  induction fuel as [|f IH]; intros src out cap; [left; reflexivity|].
  destruct src as [|tok r]; [left; reflexivity|].
  rewrite !impl_decode_unfold. destruct (parse tok r) as [|l|l off ml r4]; try (left; reflexivity).
  destruct (Nat.ltb (cap - length out) (length l)); [left; reflexivity|].
  destruct (Nat.eqb off 0 || Nat.ltb (length (out ++ l)) off); [left; reflexivity|].
  destruct (Nat.ltb (cap - length (out ++ l)) (ml + 4)) eqn:E2.
  - apply Nat.ltb_lt in E2. destruct (Nat.ltb (cap - length (out ++ l)) ml); [left; reflexivity|].
    right. replace (ml + 5) with (S (ml + 4)) by lia. rewrite copy_chunks_no_room by lia. split; reflexivity.
  - apply Nat.ltb_ge in E2.
    destruct (Nat.ltb (cap - length (out ++ l)) ml) eqn:E3; [apply Nat.ltb_lt in E3; lia|].
    destruct (copy_chunks (ml + 5) (ml + 4) (out ++ l) off cap); [apply IH|left; reflexivity].
Qed.

Theorem weak_guard_exact : forall src cap,
  impl true src cap = impl false src cap \/ (impl true src cap = DPanic /\ impl false src cap = DErr).
Proof. intros src cap. apply weak_guard_decode_exact. Qed.

(** stronger than asked: where it does not panic the weak guard gives the very same result *)
Theorem weak_guard_same_unless_panic : forall src cap, impl true src cap <> DPanic -> impl true src cap = impl false src cap.
Proof. intros src cap H. destruct (weak_guard_exact src cap) as [He|[Hp _]]; [exact He|contradiction]. Qed.

Theorem weak_guard_differs_only_near_the_end : forall src cap,
  impl true src cap <> DPanic -> impl true src cap = impl false src cap \/ impl false src cap = DErr.
Proof. intros src cap H. left. apply weak_guard_same_unless_panic. exact H. Qed.

Theorem weak_guard_panics_only_where_rejected : forall src cap, impl true src cap = DPanic -> impl false src cap = DErr.
Proof.
  intros src cap H. destruct (weak_guard_exact src cap) as [He|[_ Hr]]; [|exact Hr].
  rewrite H in He. symmetry in He. exfalso. exact (impl_never_panics _ _ He).
Qed.

Example weak_guard_ex :
  impl true [64; 97; 98; 99; 100; 4; 0]%N 5 = DPanic /\ impl false [64; 97; 98; 99; 100; 4; 0]%N 5 = DErr
  /\ impl true [64; 97; 98; 99; 100; 4; 0]%N 3 = DErr
  /\ impl true [64; 97; 98; 99; 100; 4; 0]%N 8 = DOk [97; 98; 99; 100; 97; 98; 99; 100]%N.
Proof. vm_compute. repeat split; reflexivity. Qed.

(** ** L7: neither decoder depends on the fuel *)
Theorem spec_fuel_independence : forall f1 f2 src out, length src < f1 -> length src < f2 ->
  spec_decode f1 src out = spec_decode f2 src out.
Proof.
  induction f1 as [|f1 IH]; intros f2 src out H1 H2; [lia|].
  destruct f2 as [|f2]; [lia|].
  destruct src as [|tok r]; [reflexivity|].
  rewrite !spec_decode_unfold. destruct (parse tok r) as [|l|l off ml r4] eqn:Ep; try reflexivity.
  destruct (Nat.eqb off 0 || Nat.ltb (length (out ++ l)) off); [reflexivity|].
  apply parse_match_shorter in Ep. cbn [length] in H1, H2. apply IH; lia.
Qed.

Theorem impl_fuel_independence : forall weak f1 f2 src out cap, length src < f1 -> length src < f2 ->
  impl_decode weak f1 src out cap = impl_decode weak f2 src out cap.
Proof.
  intro weak. induction f1 as [|f1 IH]; intros f2 src out cap H1 H2; [lia|].
  destruct f2 as [|f2]; [lia|].
  destruct src as [|tok r]; [reflexivity|].
  rewrite !impl_decode_unfold. destruct (parse tok r) as [|l|l off ml r4] eqn:Ep; try reflexivity.
  destruct (Nat.ltb (cap - length out) (length l)); [reflexivity|].
  destruct (Nat.eqb off 0 || Nat.ltb (length (out ++ l)) off); [reflexivity|].
  destruct (Nat.ltb (cap - length (out ++ l)) (if weak then ml else ml + 4)); [reflexivity|].
  destruct (copy_chunks (ml + 5) (ml + 4) (out ++ l) off cap); [|reflexivity].
  apply parse_match_shorter in Ep. cbn [length] in H1, H2. apply IH; lia.
Qed.

Theorem fuel_independence : forall f1 f2 src out, length src < f1 -> length src < f2 ->
  spec_decode f1 src out = spec_decode f2 src out
  /\ forall weak cap, impl_decode weak f1 src out cap = impl_decode weak f2 src out cap.
Proof.
  intros f1 f2 src out H1 H2. split; [apply spec_fuel_independence; assumption|].
  intros weak cap. apply impl_fuel_independence; assumption.
Qed.

Theorem spec_any_fuel : forall f src, length src < f -> spec src = spec_decode f src [].
Proof. intros f src H. apply spec_fuel_independence; lia. Qed.

Theorem impl_any_fuel : forall weak f src cap, length src < f -> impl weak src cap = impl_decode weak f src [] cap.
Proof. intros weak f src cap H. apply impl_fuel_independence; lia. Qed.

Example fuel_independence_ex :
  spec_decode 8 [64; 97; 98; 99; 100; 4; 0]%N [] = spec_decode 50 [64; 97; 98; 99; 100; 4; 0]%N []
  /\ spec_decode 1 [64; 97; 98; 99; 100; 4; 0]%N [] = None.      (* with too little fuel the answer differs *)
Proof. vm_compute. split; reflexivity. Qed.

(** ** L8: blocks of literals round-trip (whatever the literals are) *)
Lemma read_ext_ext_bytes : forall fuel n acc rest f2, n < fuel -> fuel <= f2 ->
  read_ext f2 acc (ext_bytes fuel n ++ rest) = Some (acc + n, rest).
Proof.
  induction fuel as [|fuel IH]; intros n acc rest f2 Hn Hf; [lia|].
  destruct f2 as [|f2]; [lia|].
  cbn [ext_bytes]. destruct (Nat.ltb n 255) eqn:E.
  - apply Nat.ltb_lt in E. cbn [app read_ext].
    destruct (N.eqb (N.of_nat n) 255) eqn:E2; [apply N.eqb_eq in E2; lia|].
    rewrite Nat2N.id. reflexivity.
  - apply Nat.ltb_ge in E. cbn [app read_ext]. change (N.eqb 255 255) with true. cbv iota.
    rewrite IH by lia. f_equal. f_equal. lia.
Qed.

Lemma hi_of_16 : forall n, hi (N.of_nat (16 * n)) = n.
Proof.
  intro n. unfold hi. replace (N.of_nat (16 * n)) with (N.of_nat n * 16)%N by lia.
  rewrite N.div_mul by discriminate. apply Nat2N.id.
Qed.

Lemma parse_lits : forall tok r l, read_len (hi tok) r = Some (length l, l) -> parse tok r = SeqLast l.
Proof.
  intros tok r l H. unfold parse. rewrite H. rewrite Nat.ltb_irrefl. rewrite skipn_all, firstn_all. reflexivity.
Qed.

Lemma lit_block_parse : forall l, exists tok r, lit_block l = tok :: r /\ parse tok r = SeqLast l.
Proof.
  intro l. unfold lit_block. destruct (Nat.ltb (length l) 15) eqn:E.
  - apply Nat.ltb_lt in E. exists (N.of_nat (16 * length l)), l. split; [reflexivity|].
    apply parse_lits. rewrite hi_of_16. unfold read_len.
    destruct (Nat.eqb (length l) 15) eqn:E2; [apply Nat.eqb_eq in E2; lia|reflexivity].
  - apply Nat.ltb_ge in E. exists 240%N, (ext_bytes (S (length l)) (length l - 15) ++ l). split; [reflexivity|].
    apply parse_lits. change (hi 240) with 15. unfold read_len. cbn [Nat.eqb].
    rewrite read_ext_ext_bytes by (rewrite ?app_length; lia). f_equal. f_equal. lia.
Qed.

Theorem lit_block_spec : forall l, spec (lit_block l) = Some l.
Proof.
  intro l. destruct (lit_block_parse l) as [tok [r [Hb Hp]]]. unfold spec. rewrite Hb.
  rewrite spec_decode_unfold, Hp. reflexivity.
Qed.

Theorem lit_block_impl : forall l, impl false (lit_block l) (length l) = DOk l.
Proof. intro l. apply impl_complete; [apply lit_block_spec|lia]. Qed.

Theorem lit_block_round_trip : forall l, spec (lit_block l) = Some l /\ impl false (lit_block l) (length l) = DOk l.
Proof. intro l. split; [apply lit_block_spec|apply lit_block_impl]. Qed.

Example lit_block_ex :
  lit_block [1; 2; 3]%N = [48; 1; 2; 3]%N
  /\ lit_block (repeat 7%N 20) = ([240; 5]%N ++ repeat 7%N 20)
  /\ firstn 3 (lit_block (repeat 7%N 270)) = [240; 255; 0]%N
  /\ spec (lit_block (repeat 7%N 270)) = Some (repeat 7%N 270).
Proof. vm_compute. repeat split; reflexivity. Qed.

(** ** L9: a block of bytes expands at most 255 times *)
Theorem spec_decode_expansion : forall f src out o, Forall is_byte src -> spec_decode f src out = Some o ->
  length o <= length out + 255 * length src.
Proof.
  induction f as [|f IH]; intros src out o HF H; [discriminate|].
  destruct src as [|tok r].
  - cbn [spec_decode] in H. injection H as H. subst o. lia.
  - inversion HF as [|x t _ HFr]; subst.
    rewrite spec_decode_unfold in H. destruct (parse tok r) as [|l|l off ml r4] eqn:Ep.
    + discriminate.
    + injection H as H. subst o. apply parse_last_shorter in Ep. rewrite app_length. cbn [length]. lia.
    + destruct (Nat.eqb off 0 || Nat.ltb (length (out ++ l)) off); [discriminate|].
      destruct (parse_match_bytes _ _ _ _ _ _ HFr Ep) as [HF4 [Hle Hb]].
      apply IH in H; [|exact HF4]. rewrite copy_bytes_length, app_length in H. cbn [length]. lia.
Qed.

Theorem expansion_bound : forall src out, Forall is_byte src -> spec src = Some out -> length out <= 255 * length src.
Proof. intros src out HF H. apply spec_decode_expansion in H; [|exact HF]. cbn [length] in H. lia. Qed.

(** the model's bytes are [N]: an "extension byte" above 255 breaks the bound, which is why the side condition is there
    (no such byte exists in the Go code) *)
Theorem expansion_bound_without_byte_range_refuted : exists src out, spec src = Some out /\ 255 * length src < length out.
Proof.
  exists [31; 97; 1; 0; 2000]%N, (repeat 97%N 2020). split.
  - vm_compute. reflexivity.
  - rewrite repeat_length. cbn [length]. lia.
Qed.

(** what the wrapper relies on: a stated length above 255 times the compressed size is the length of no valid block *)
Theorem wrapper_refusal_is_safe : forall src cap out, Forall is_byte src -> 255 * length src < cap -> spec src = Some out -> length out <> cap.
Proof. intros src cap out HF Hc H. apply expansion_bound in H; [lia|exact HF]. Qed.

(** 255 is the least constant: one literal, then a match at offset 1 whose length is extended by k bytes 255 and a byte 254 *)
Definition long_match (k : nat) : bytes := [31; 97; 1; 0]%N ++ repeat 255%N k ++ [254]%N.

Lemma read_ext_repeat : forall k f acc, k < f -> read_ext f acc (repeat 255%N k ++ [254]%N) = Some (acc + 255 * k + 254, []).
Proof.
  induction k as [|k IH]; intros f acc Hf; (destruct f as [|f]; [lia|]).
  - cbn [repeat app read_ext]. change (N.eqb 254 255) with false. cbv iota. change (N.to_nat 254) with 254. f_equal. f_equal. lia.
  - cbn [repeat app read_ext]. change (N.eqb 255 255) with true. cbv iota. rewrite IH by lia. f_equal. f_equal. lia.
Qed.

Theorem long_match_decodes : forall k, exists out,
  Forall is_byte (long_match k) /\ spec (long_match k) = Some out /\ length (long_match k) = k + 5 /\ length out = 255 * k + 274.
Proof.
  intro k. exists (copy_bytes (15 + 255 * k + 254 + 4) [97]%N 1).
  assert (Hlen : length (long_match k) = k + 5).
  { unfold long_match. rewrite !app_length, repeat_length. cbn [length]. lia. }
  split; [|split; [|split]].
  - unfold long_match. apply Forall_app. split; [repeat constructor|].
    apply Forall_app. split; [|repeat constructor].
    clear Hlen. induction k as [|k IH]; cbn [repeat]; constructor; [reflexivity|exact IH].
  - unfold spec. rewrite Hlen. unfold long_match. cbn [app].
    replace (S (k + 5)) with (S (S (k + 4))) by lia.
    rewrite spec_decode_unfold.
    assert (Hp : parse 31 ([97; 1; 0]%N ++ repeat 255%N k ++ [254]%N) = SeqMatch [97]%N 1 (15 + 255 * k + 254) []).
    { unfold parse. change (hi 31) with 1. change (lo 31) with 15. unfold read_len at 1. cbn [Nat.eqb].
      cbn [app length Nat.ltb Nat.leb skipn firstn]. unfold read_len. cbn [Nat.eqb].
      rewrite read_ext_repeat by (rewrite app_length, repeat_length; cbn [length]; lia). reflexivity. }
    cbn [app] in Hp. rewrite Hp. cbn [app length Nat.eqb Nat.ltb Nat.leb orb spec_decode]. reflexivity.
  - exact Hlen.
  - rewrite copy_bytes_length. cbn [length]. lia.
Qed.

Theorem expansion_bound_255_is_least : forall c, c < 255 -> exists src out,
  Forall is_byte src /\ spec src = Some out /\ c * length src < length out.
Proof.
  intros c Hc. destruct (long_match_decodes (4 * 250)) as [out [HF [Hs [Hl Ho]]]].
  exists (long_match (4 * 250)), out. split; [exact HF|]. split; [exact Hs|]. rewrite Hl, Ho. nia.
Qed.

Example expansion_ex :
  spec (long_match 1) = Some (repeat 97%N 529) /\ length (long_match 1) = 6 /\ Forall is_byte (long_match 1).
Proof. split; [vm_compute; reflexivity|]. split; [reflexivity|]. repeat constructor. Qed.

(** ** the headline statements are closed *)
Print Assumptions impl_never_panics.
Print Assumptions impl_sound.
Print Assumptions impl_complete.
Print Assumptions impl_rejects_iff.
Print Assumptions run_lz4_holds.
Print Assumptions copy_chunks_is_copy_bytes_fuel.
Print Assumptions weak_guard_panics_refuted.
Print Assumptions weak_guard_exact.
Print Assumptions weak_guard_differs_only_near_the_end.
Print Assumptions fuel_independence.
Print Assumptions lit_block_round_trip.
Print Assumptions expansion_bound.
Print Assumptions expansion_bound_without_byte_range_refuted.
Print Assumptions expansion_bound_255_is_least.
Print Assumptions output_monotone.
