(** Stronger theorems about Model/Frame.v (property C03): the header codec round-trips BOTH ways
    with the exact domain on each side, raw frames round-trip both ways in every supported version
    (including v2 with its one-byte stream id), a forwarded frame decodes to the same frame with
    only the stream id changed, and forwarding back with the original stream id restores the
    original bytes. *)
From Coq Require Import List ZArith NArith Bool Lia ZifyN ZifyNat ZifyBool.
From CqlProxy Require Import Lib.Val Lib.Util Lib.Wire Proofs.WireProofs Model.Frame Proofs.FrameProofs.
Import ListNotations.
Local Open Scope N_scope.
Ltac Zify.zify_post_hook ::= Z.div_mod_to_equations.

(** the headers [EncodeHeader] can write so that [DecodeHeader] reads them back: a supported
    version, one flag byte, a stream id that fits the version's field (two bytes from v3, one
    byte in v2), an opcode of the header's direction, an int32 length *)
Definition wf_header (h : header) : Prop :=
  version_supported (h_version h) = true /\
  h_flags h < 256 /\
  h_stream h < (if 3 <=? h_version h then 65536 else 256) /\
  (if h_resp h then opcode_is_response (h_opcode h) = true else opcode_is_request (h_opcode h) = true) /\
  (-2147483648 <= h_len h < 2147483648)%Z.

Lemma version_supported_cases v :
  version_supported v = true -> v = 2 \/ v = 3 \/ v = 4 \/ v = 5 \/ v = 65 \/ v = 66.
Proof. unfold version_supported. rewrite !orb_true_iff, !N.eqb_eq. tauto. Qed.

Lemma opcode_request_cases o :
  opcode_is_request o = true -> o = 1 \/ o = 5 \/ o = 7 \/ o = 9 \/ o = 10 \/ o = 11 \/ o = 13 \/ o = 15 \/ o = 255.
Proof. unfold opcode_is_request. rewrite !orb_true_iff, !N.eqb_eq. tauto. Qed.

Lemma opcode_response_cases o :
  opcode_is_response o = true -> o = 0 \/ o = 2 \/ o = 3 \/ o = 6 \/ o = 8 \/ o = 12 \/ o = 14 \/ o = 16.
Proof. unfold opcode_is_response. rewrite !orb_true_iff, !N.eqb_eq. tauto. Qed.

(** no opcode is both a request and a response opcode *)
Lemma opcode_request_not_response o : opcode_is_request o = true -> opcode_is_response o = false.
Proof.
  intro H. apply opcode_request_cases in H.
  repeat (destruct H as [->|H]; [reflexivity|]). subst o. reflexivity.
Qed.

Lemma opcode_response_not_request o : opcode_is_response o = true -> opcode_is_request o = false.
Proof.
  intro H. apply opcode_response_cases in H.
  repeat (destruct H as [->|H]; [reflexivity|]). subst o. reflexivity.
Qed.

Lemma version_byte_roundtrip v (resp : bool) :
  v < 128 ->
  (v + (if resp then 128 else 0)) mod 128 = v /\ (128 <=? v + (if resp then 128 else 0)) = resp.
Proof.
  intro Hv. destruct resp.
  - split; [lia|]. destruct (N.leb_spec 128 (v + 128)); [reflexivity|lia].
  - split; [lia|]. destruct (N.leb_spec 128 (v + 0)); [lia|reflexivity].
Qed.

(** ** decode after encode *)
Theorem decode_encode_header h r :
  wf_header h -> decode_header (encode_header h ++ r) = inr (h, r).
Proof.
  destruct h as [v resp fl s op len]. unfold wf_header. cbn [h_version h_resp h_flags h_stream h_opcode h_len].
  intros (Hv & Hfl & Hs & Hdir & Hlen).
  assert (Hv128 : v < 128) by (apply version_supported_cases in Hv; lia).
  destruct (version_byte_roundtrip v resp Hv128) as [Hmod Hresp].
  unfold encode_header. cbn [h_version h_resp h_flags h_stream h_opcode h_len app].
  unfold decode_header. rewrite Hmod, Hresp, Hv. cbn [negb].
  assert (Hop : opcode_is_request op || opcode_is_response op = true).
  { destruct resp; rewrite Hdir; [apply orb_true_r|reflexivity]. }
  assert (Hd1 : resp && negb (opcode_is_response op) = false).
  { destruct resp; [rewrite Hdir|]; reflexivity. }
  assert (Hd2 : negb resp && negb (opcode_is_request op) = false).
  { destruct resp; [|rewrite Hdir]; reflexivity. }
  destruct (3 <=? v) eqn:E3.
  - unfold enc_short. cbn [app]. rewrite read_int_enc by exact Hlen.
    rewrite Hop, Hd1, Hd2. cbn [negb]. repeat f_equal. lia.
  - unfold enc_byte. cbn [app]. rewrite read_int_enc by exact Hlen.
    rewrite Hop, Hd1, Hd2. cbn [negb]. repeat f_equal. lia.
Qed.

Example decode_encode_header_ex :
  let h := {| h_version := 66; h_resp := true; h_flags := 3; h_stream := 40000; h_opcode := 8; h_len := 5 |} in
  wf_header h /\ encode_header h = [194; 3; 156; 64; 8; 0; 0; 0; 5] /\
  decode_header (encode_header h ++ [1]) = inr (h, [1]).
Proof. split; [unfold wf_header; cbn; repeat split; lia|]. vm_compute. auto. Qed.

(** ** encode after decode *)
Theorem encode_decode_header b h r :
  wf_bytes b -> decode_header b = inr (h, r) -> b = encode_header h ++ r /\ wf_header h.
Proof.
  intros Hwf Hd. unfold decode_header in Hd.
  destruct b as [|vd [|fl r0]]; try discriminate.
  destruct (version_supported (vd mod 128)) eqn:Hv; cbn [negb] in Hd; [|discriminate].
  inversion Hwf as [|? ? Hvd W1]; subst. inversion W1 as [|? ? Hfl W2]; subst.
  assert (Hvb : vd mod 128 + (if 128 <=? vd then 128 else 0) = vd)
    by (destruct (N.leb_spec 128 vd); lia).
  destruct (3 <=? vd mod 128) eqn:H3.
  - destruct r0 as [|s1 [|s2 [|op r2]]]; try discriminate.
    destruct (read_int r2) as [[len bd]|] eqn:Hri; [|discriminate].
    destruct (opcode_is_request op || opcode_is_response op) eqn:Hop; cbn [negb] in Hd; [|discriminate].
    destruct ((128 <=? vd) && negb (opcode_is_response op)) eqn:Hd1; [discriminate|].
    destruct (negb (128 <=? vd) && negb (opcode_is_request op)) eqn:Hd2; [discriminate|].
    inversion Hd; subst h r; clear Hd.
    inversion W2 as [|? ? Hs1 W3]; subst. inversion W3 as [|? ? Hs2 W4]; subst.
    inversion W4 as [|? ? Hop8 W5]; subst.
    destruct (enc_int_read_int r2 len bd W5 Hri) as (p & Hp & He & Hl).
    split.
    + unfold encode_header. cbn [h_version h_resp h_flags h_stream h_opcode h_len].
      rewrite H3, Hvb, enc_short_read by assumption. rewrite He, Hp. cbn [app].
      rewrite <- ?app_assoc. reflexivity.
    + unfold wf_header. cbn [h_version h_resp h_flags h_stream h_opcode h_len]. rewrite H3.
      split; [exact Hv|]. split; [exact Hfl|]. split; [lia|]. split.
      * destruct (128 <=? vd); cbn [negb andb] in Hd1, Hd2.
        -- destruct (opcode_is_response op); [reflexivity|discriminate].
        -- destruct (opcode_is_request op); [reflexivity|discriminate].
      * rewrite Hp in W5. apply Forall_app in W5. destruct W5 as [Wp _].
        assert (Hri' : read_int (p ++ bd) = Some (len, bd)) by (rewrite <- Hp; exact Hri).
        clear - Wp Hl Hri'. destruct p as [|x [|y [|z [|w [|? ?]]]]]; try discriminate.
        unfold read_int, read_u32 in Hri'. cbn [app] in Hri'. inversion Hri' as [Hn]. clear Hri' Hn.
        inversion Wp as [|? ? Hx H1]; subst. inversion H1 as [|? ? Hy H2]; subst.
        inversion H2 as [|? ? Hz H4]; subst. inversion H4 as [|? ? Hw H5]; subst.
        destruct (N.ltb_spec (((x * 256 + y) * 256 + z) * 256 + w) 2147483648); lia.
  - destruct r0 as [|s1 [|op r2]]; try discriminate.
    destruct (read_int r2) as [[len bd]|] eqn:Hri; [|discriminate].
    destruct (opcode_is_request op || opcode_is_response op) eqn:Hop; cbn [negb] in Hd; [|discriminate].
    destruct ((128 <=? vd) && negb (opcode_is_response op)) eqn:Hd1; [discriminate|].
    destruct (negb (128 <=? vd) && negb (opcode_is_request op)) eqn:Hd2; [discriminate|].
    inversion Hd; subst h r; clear Hd.
    inversion W2 as [|? ? Hs1 W3]; subst. inversion W3 as [|? ? Hop8 W5]; subst.
    destruct (enc_int_read_int r2 len bd W5 Hri) as (p & Hp & He & Hl).
    split.
    + unfold encode_header. cbn [h_version h_resp h_flags h_stream h_opcode h_len].
      rewrite H3, Hvb. unfold enc_byte. rewrite N.mod_small by exact Hs1. rewrite He, Hp. cbn [app].
      rewrite <- ?app_assoc. reflexivity.
    + unfold wf_header. cbn [h_version h_resp h_flags h_stream h_opcode h_len]. rewrite H3.
      split; [exact Hv|]. split; [exact Hfl|]. split; [exact Hs1|]. split.
      * destruct (128 <=? vd); cbn [negb andb] in Hd1, Hd2.
        -- destruct (opcode_is_response op); [reflexivity|discriminate].
        -- destruct (opcode_is_request op); [reflexivity|discriminate].
      * rewrite Hp in W5. apply Forall_app in W5. destruct W5 as [Wp _].
        assert (Hri' : read_int (p ++ bd) = Some (len, bd)) by (rewrite <- Hp; exact Hri).
        clear - Wp Hl Hri'. destruct p as [|x [|y [|z [|w [|? ?]]]]]; try discriminate.
        unfold read_int, read_u32 in Hri'. cbn [app] in Hri'. inversion Hri' as [Hn]. clear Hri' Hn.
        inversion Wp as [|? ? Hx H1]; subst. inversion H1 as [|? ? Hy H2]; subst.
        inversion H2 as [|? ? Hz H4]; subst. inversion H4 as [|? ? Hw H5]; subst.
        destruct (N.ltb_spec (((x * 256 + y) * 256 + z) * 256 + w) 2147483648); lia.
Qed.

(** both directions in one statement: on well-formed bytes, [decode_header] accepts exactly the
    encodings of well-formed headers, and is the inverse of [encode_header] there *)
Theorem decode_header_iff b h r :
  wf_bytes b -> (decode_header b = inr (h, r) <-> wf_header h /\ b = encode_header h ++ r).
Proof.
  intro Hwf. split.
  - intro H. destruct (encode_decode_header b h r Hwf H). auto.
  - intros [Hh ->]. apply decode_encode_header. exact Hh.
Qed.

(** ** which inputs [decode_header] rejects, and why (any byte list) *)
Theorem decode_header_rejects b e :
  decode_header b = inl e ->
  let v := hd 0 b mod 128 in
  let op := nth (if (3 <=? v)%N then 4%nat else 3%nat) b 0 in
  match e with
  | HShort => (length b < 2)%nat \/
              (version_supported v = true /\ (length b < (if (3 <=? v)%N then 9 else 8))%nat)
  | HBadVersion v' => (2 <= length b)%nat /\ v' = v /\ version_supported v = false
  | HBadOpcode => version_supported v = true /\ opcode_is_request op = false /\ opcode_is_response op = false
  | HWrongDirection => version_supported v = true /\
                       ((128 <=? hd 0 b) = true /\ opcode_is_request op = true \/
                        (128 <=? hd 0 b) = false /\ opcode_is_response op = true)
  end.
Proof.
  intro Hd. cbv zeta. unfold decode_header in Hd.
  destruct b as [|vd [|fl r0]]; try (inversion Hd; subst e; left; simpl; lia).
  cbn [hd]. destruct (version_supported (vd mod 128)) eqn:Hv; cbn [negb] in Hd.
  2:{ inversion Hd; subst e. split; [simpl; lia|]. auto. }
  assert (Hfin : forall op r2,
    match read_int r2 with
    | Some (len, body) =>
        if negb (opcode_is_request op || opcode_is_response op) then inl HBadOpcode
        else if (128 <=? vd) && negb (opcode_is_response op) then inl HWrongDirection
        else if negb (128 <=? vd) && negb (opcode_is_request op) then inl HWrongDirection
        else @inr hdr_err _ ({| h_version := vd mod 128; h_resp := 128 <=? vd; h_flags := fl;
                                h_stream := 0; h_opcode := op; h_len := len |}, body)
    | None => inl HShort
    end = inl e ->
    match e with
    | HShort => (length r2 < 4)%nat
    | HBadVersion _ => False
    | HBadOpcode => opcode_is_request op = false /\ opcode_is_response op = false
    | HWrongDirection => (128 <=? vd) = true /\ opcode_is_request op = true \/
                         (128 <=? vd) = false /\ opcode_is_response op = true
    end).
  { intros op r2 H. destruct (read_int r2) as [[len body]|] eqn:Hri.
    - destruct (opcode_is_request op) eqn:Hq; destruct (opcode_is_response op) eqn:Hp;
        destruct (128 <=? vd); cbn [orb negb andb] in H; inversion H; subst e; auto.
    - inversion H; subst e. unfold read_int, read_u32 in Hri.
      destruct r2 as [|x [|y [|z [|w r']]]]; try discriminate; simpl; lia. }
  destruct (3 <=? vd mod 128) eqn:H3.
  - destruct r0 as [|s1 [|s2 [|op r2]]]; try (inversion Hd; subst e; right; split; [first [exact Hv|reflexivity]|simpl; lia]).
    cbn [nth].
    assert (Hd' := Hfin op r2).
    destruct (read_int r2) as [[len body]|].
    + destruct (negb (opcode_is_request op || opcode_is_response op));
        [|destruct ((128 <=? vd) && negb (opcode_is_response op));
          [|destruct (negb (128 <=? vd) && negb (opcode_is_request op)); [|discriminate]]];
        specialize (Hd' Hd); destruct e; try contradiction; try discriminate Hd; auto.
    + specialize (Hd' Hd). destruct e; try contradiction; auto. right. split; [first [exact Hv|reflexivity]|simpl; lia].
  - destruct r0 as [|s1 [|op r2]]; try (inversion Hd; subst e; right; split; [first [exact Hv|reflexivity]|simpl; lia]).
    cbn [nth].
    assert (Hd' := Hfin op r2).
    destruct (read_int r2) as [[len body]|].
    + destruct (negb (opcode_is_request op || opcode_is_response op));
        [|destruct ((128 <=? vd) && negb (opcode_is_response op));
          [|destruct (negb (128 <=? vd) && negb (opcode_is_request op)); [|discriminate]]];
        specialize (Hd' Hd); destruct e; try contradiction; try discriminate Hd; auto.
    + specialize (Hd' Hd). destruct e; try contradiction; auto. right. split; [first [exact Hv|reflexivity]|simpl; lia].
Qed.

Example decode_header_rejects_ex :
  decode_header [4; 0; 0; 1; 8; 0; 0; 0; 0] = inl HWrongDirection /\     (* RESULT opcode without the response bit *)
  decode_header [4; 0; 0; 1; 4; 0; 0; 0; 0] = inl HBadOpcode /\          (* opcode 4 is unassigned *)
  decode_header [1; 0; 0; 1; 7; 0; 0; 0; 0] = inl (HBadVersion 1) /\     (* protocol v1 *)
  decode_header [4; 0; 0; 1; 7; 0; 0; 0] = inl HShort.
Proof. vm_compute. auto. Qed.

(** ** raw frames *)

(** a frame as it can stand on the wire: well-formed header whose length field is the body length *)
Definition wf_frame (f : raw_frame) : Prop :=
  wf_header (rf_header f) /\ h_len (rf_header f) = Z.of_nat (length (rf_body f)).

Lemma with_stream_wf f s :
  wf_frame f -> s < (if 3 <=? h_version (rf_header f) then 65536 else 256) -> wf_frame (with_stream f s).
Proof.
  intros [(Hv & Hfl & Hs & Hdir & Hlen) Hl] Hs'. unfold wf_frame, wf_header, with_stream.
  cbn [rf_header rf_body h_version h_resp h_flags h_stream h_opcode h_len]. auto 10.
Qed.

(** decode after encode: a well-formed frame, followed by anything, decodes to itself *)
Theorem decode_encode_raw_frame f rest :
  wf_frame f -> decode_raw_frame (encode_raw_frame f ++ rest) = Some (f, rest).
Proof.
  intros [Hh Hl]. unfold encode_raw_frame, decode_raw_frame. rewrite <- Hl.
  destruct f as [h body]. cbn [rf_header rf_body] in *.
  replace {| h_version := h_version h; h_resp := h_resp h; h_flags := h_flags h; h_stream := h_stream h;
             h_opcode := h_opcode h; h_len := h_len h |} with h by (destruct h; reflexivity).
  rewrite <- app_assoc, (decode_encode_header h _ Hh).
  destruct (Z.ltb_spec (h_len h) 0) as [Hneg|_]; [lia|].
  rewrite Hl, get_z_app. reflexivity.
Qed.

(** encode after decode, in EVERY supported version (v2 included): what [DecodeRawFrame]
    accepted re-encodes to exactly the bytes consumed *)
Theorem encode_decode_raw_frame b f rest :
  wf_bytes b -> decode_raw_frame b = Some (f, rest) -> b = encode_raw_frame f ++ rest /\ wf_frame f.
Proof.
  intros Hwf H. unfold decode_raw_frame in H.
  destruct (decode_header b) as [e|[h r]] eqn:Hd; [discriminate|].
  destruct (Z.ltb_spec (h_len h) 0) as [Hneg|Hnn]; [discriminate|].
  destruct (get_z (h_len h) r) as [[body rest']|] eqn:Hg; [|discriminate].
  inversion H; subst f rest'; clear H.
  destruct (encode_decode_header b h r Hwf Hd) as [Hb Hh].
  assert (Hlen : Z.of_nat (length body) = h_len h) by (eapply get_z_len; [lia|exact Hg]).
  apply get_z_split in Hg.
  split.
  - unfold encode_raw_frame. cbn [rf_header rf_body]. rewrite Hlen.
    replace {| h_version := h_version h; h_resp := h_resp h; h_flags := h_flags h; h_stream := h_stream h;
               h_opcode := h_opcode h; h_len := h_len h |} with h by (destruct h; reflexivity).
    rewrite <- app_assoc, <- Hg. exact Hb.
  - split; [exact Hh|]. cbn [rf_header rf_body]. symmetry. exact Hlen.
Qed.

(** ** forwarding *)

(** The frame the proxy writes when forwarding decodes to the same frame -- same version,
    direction, flags, opcode, length, same body -- with only the stream id replaced; nothing
    is left over and whatever follows on the wire is untouched. *)
Theorem decode_forward f s rest :
  wf_frame f -> s < (if 3 <=? h_version (rf_header f) then 65536 else 256) ->
  decode_raw_frame (forward f s ++ rest) = Some (with_stream f s, rest).
Proof.
  intros Hf Hs. unfold forward. apply decode_encode_raw_frame. apply with_stream_wf; assumption.
Qed.

(** From bytes to bytes: a frame that arrived, forwarded with stream id [s], then forwarded
    back with the original stream id (what happens to the response path's counterpart) gives
    the original bytes.  All supported versions. *)
Theorem forward_back_restores b f rest s :
  wf_bytes b -> decode_raw_frame b = Some (f, rest) ->
  s < (if 3 <=? h_version (rf_header f) then 65536 else 256) ->
  exists f', decode_raw_frame (forward f s ++ rest) = Some (f', rest) /\
             f' = with_stream f s /\
             forward f' (h_stream (rf_header f)) ++ rest = b.
Proof.
  intros Hwf Hd Hs. destruct (encode_decode_raw_frame b f rest Hwf Hd) as [Hb Hf].
  exists (with_stream f s). split; [apply decode_forward; assumption|]. split; [reflexivity|].
  rewrite Hb. reflexivity.
Qed.

(** forwarding with the frame's own stream id is the identity on the wire *)
Corollary forward_same_stream b f rest :
  wf_bytes b -> decode_raw_frame b = Some (f, rest) -> forward f (h_stream (rf_header f)) ++ rest = b.
Proof.
  intros Hwf Hd. destruct (encode_decode_raw_frame b f rest Hwf Hd) as [Hb _]. rewrite Hb. reflexivity.
Qed.

(** v2 frames (one-byte stream id), excluded from [forward_only_stream_differs]: only byte 2 changes *)
Theorem forward_only_stream_differs_v2 b f s :
  wf_bytes b -> decode_raw_frame b = Some (f, []) -> h_version (rf_header f) < 3 -> s < 256 ->
  forward f s = firstn 2 b ++ [s] ++ skipn 3 b.
Proof.
  intros Hwf Hd Hv Hs. destruct (encode_decode_raw_frame b f [] Hwf Hd) as [Hb _].
  rewrite app_nil_r in Hb. rewrite Hb. unfold forward, encode_raw_frame, with_stream, encode_header.
  cbn [rf_header rf_body h_version h_resp h_flags h_stream h_opcode h_len].
  destruct (N.leb_spec 3 (h_version (rf_header f))) as [Hge|_]; [lia|].
  unfold enc_byte. cbn [app firstn skipn]. rewrite N.mod_small by exact Hs. reflexivity.
Qed.

Example forward_back_ex :
  let b := [4; 6; 0; 9; 7; 0; 0; 0; 3; 1; 2; 3] in
  match decode_raw_frame b with
  | Some (f, []) =>
      wf_frame f /\
      decode_raw_frame (forward f 513) = Some (with_stream f 513, []) /\
      forward (with_stream f 513) 9 = b
  | _ => False
  end.
Proof.
  cbv zeta. destruct (decode_raw_frame [4; 6; 0; 9; 7; 0; 0; 0; 3; 1; 2; 3]) as [[f [|]]|] eqn:E;
    vm_compute in E; try discriminate.
  inversion E; subst f. split; [|vm_compute; auto].
  unfold wf_frame, wf_header. cbn. repeat split; lia.
Qed.

Example forward_v2_ex :
  let b := [2; 0; 5; 7; 0; 0; 0; 1; 9] in
  match decode_raw_frame b with
  | Some (f, []) => forward f 77 = [2; 0; 77; 7; 0; 0; 0; 1; 9]
  | _ => False
  end.
Proof. vm_compute. reflexivity. Qed.

(** ** axiom audit *)
Print Assumptions decode_encode_header.
Print Assumptions encode_decode_header.
Print Assumptions decode_header_iff.
Print Assumptions decode_header_rejects.
Print Assumptions decode_encode_raw_frame.
Print Assumptions encode_decode_raw_frame.
Print Assumptions decode_forward.
Print Assumptions forward_back_restores.
Print Assumptions forward_same_stream.
Print Assumptions forward_only_stream_differs_v2.
